package main

// C13, binary metadata: referenceclient.checkBinaryMetadata on the headers / trailers of a gRPC or
// gRPC-Web response (impl.go hands it the response headers and trailers): every value of a "-bin"
// key (other than grpc-status-details-bin, which checkGRPCStatus looks at) must be unpadded
// standard base64; a value that decodes only with padding draws a padding complaint, anything
// else is reported as incorrectly encoded - and ends the examination.
//
// op  binmd : {what, md:[{k,v:[..]}]} (hex)  -> the messages of checkBinaryMetadata as classes
//             bm:padded / bm:invalid (in order), and for own=true inputs the values were written by
//             the repository's encoders (grpcutil.ConvertMetadataToProtoHeader / connect.EncodeBinaryHeader)

import (
	"encoding/base64"
	"encoding/json"

	rc "connectrpc.com/conformance/internal/app/referenceclient"
	conformancev1 "connectrpc.com/conformance/internal/gen/proto/go/connectrpc/conformance/v1"
	"connectrpc.com/conformance/internal/grpcutil"
	"connectrpc.com/conformance/internal/verifharness/gen"
	"connectrpc.com/connect"
	"google.golang.org/grpc/metadata"
)

func init() {
	gen.RegisterOp("c13", "binmd", func(c *gen.Ctx, raw json.RawMessage) any { return c13BinMD(c, gen.Into[c13BinIn](raw)) })
}

type c13BinIn struct {
	What string     `json:"what"` // headers | trailers | metadata
	MD   []c13HdrIn `json:"md"`   // names and values as hex, in order
	// Raw: the metadata (raw bytes per key, hex) from which MD was produced by the repository's own
	// encoder ConvertMetadataToProtoHeader - the op re-encodes it and examines that too
	Raw []c13HdrIn `json:"raw,omitempty"`
}
type c13BinOut struct {
	Fb []string `json:"fb"`
	// Own: the messages for ConvertMetadataToProtoHeader(Raw), sorted by key (nil without Raw)
	Own []string `json:"own"`
}

func c13BinHeaders(hs []c13HdrIn) []*conformancev1.Header {
	out := make([]*conformancev1.Header, 0, len(hs))
	for _, h := range hs {
		e := &conformancev1.Header{Name: string(c13Un(h.K))}
		for _, v := range h.V {
			e.Value = append(e.Value, string(c13Un(v)))
		}
		out = append(out, e)
	}
	return out
}

func c13BinMD(c *gen.Ctx, in c13BinIn) c13BinOut {
	out := c13BinOut{Fb: c13Classes(c, rc.VerifC13CheckBinaryMetadata(in.What, c13BinHeaders(in.MD)))}
	if in.Raw != nil {
		md := metadata.MD{}
		for _, h := range c13BinHeaders(in.Raw) {
			md[h.Name] = append(md[h.Name], h.Value...)
		}
		out.Own = c13Classes(c, rc.VerifC13CheckBinaryMetadata(in.What, grpcutil.ConvertMetadataToProtoHeader(md)))
	}
	return out
}

func c13BinGen(c *gen.Ctx) {
	r := c.R
	th := c.Thorough()
	n := 0
	do := func(what string, md []c13HdrIn) {
		if md == nil {
			md = []c13HdrIn{}
		}
		c.Do("binmd", c13BinIn{What: what, MD: md})
		n++
	}
	whats := []string{"headers", "trailers", "metadata"}
	// every value over the alphabet {letter, letter with non-zero trailing bits, '=', LF, URL-safe '-', '+'} up to length 5 (6)
	wlen := 5
	if th {
		wlen = 6
	}
	c13WordsOver([]string{"Q", "R", "=", "\n", "-", "+"}, wlen, func(s string) {
		do("headers", []c13HdrIn{c13Hdr("x-bin", s)})
		c.E.Count("kind:binmd-exhaustive")
	})
	// every byte value inside an otherwise valid value, at a quantum boundary and inside a quantum
	for b := 0; b < 256; b++ {
		do("trailers", []c13HdrIn{c13Hdr("x-bin", "QUJD"+string([]byte{byte(b)})+"QUI")})
		do("trailers", []c13HdrIn{c13Hdr("x-bin", "QU"+string([]byte{byte(b)})+"J")})
		do("metadata", []c13HdrIn{c13Hdr("x-bin", string([]byte{byte(b)}))})
	}
	// the shapes gRPC allows or peers produce: unpadded, padded, empty, several values, comma-joined
	// values (grpc-go joins repeated binary values), URL-safe alphabet, whitespace, wrong amount of padding
	shapes := []string{"", "QQ", "QUI", "QUJD", "QQ==", "QUI=", "QUJD=", "QQ=", "QQ===", "====", "=", "Q", "QUJDR", "QUJDRA", "QUJDRA==",
		"QQ,QUI", "QQ==,QUI=", "QQ, QUI", "-_-_", "-_8", "+/+/", "+/8", "QUJD\n", "QU\r\nJD", "QQ=\n=", "QQ==\n", " QQ", "QQ ", "Q Q", "Zm9v", "é", "QQ==QQ==", "QR", "QUJ"}
	names := []string{"x-bin", "X-Bin", "X-BIN", "x-bin ", "x-binx", "bin", "-bin", "grpc-status-details-bin", "Grpc-Status-Details-Bin", "x-text", "grpc-trace-bin", "x-bin-bin"}
	for _, s := range shapes {
		for _, nm := range names {
			do("headers", []c13HdrIn{c13Hdr(nm, s)})
		}
		for _, t := range shapes {
			// two values of one key; two keys: an invalid value ends the examination, a padded one does not
			do("trailers", []c13HdrIn{c13Hdr("x-bin", s, t)})
			do("metadata", []c13HdrIn{c13Hdr("a-bin", s), c13Hdr("b-bin", t)})
		}
	}
	do("headers", nil)
	do("headers", []c13HdrIn{{K: c13Hx("x-bin"), V: []string{}}})
	// what the repository's own encoders emit for any bytes: every single byte, every length 0..8, random
	own := func(raw [][]byte, key string) {
		var vs, enc []string
		for _, b := range raw {
			vs = append(vs, gen.Hex(b))
			enc = append(enc, gen.Hex([]byte(connect.EncodeBinaryHeader(b))))
		}
		c.Do("binmd", c13BinIn{What: gen.Pick(r, whats), MD: []c13HdrIn{{K: c13Hx(key), V: enc}}, Raw: []c13HdrIn{{K: c13Hx(key), V: vs}}})
		c.E.Count("kind:binmd-own")
		n++
	}
	for b := 0; b < 256; b++ {
		own([][]byte{{byte(b)}, {0, byte(b)}, {byte(b), 0xff, byte(b)}}, "x-bin")
	}
	nRand := 1500
	if th {
		nRand = 30000
	}
	for i := 0; i < nRand; i++ {
		var raw [][]byte
		for k := r.Intn(4); k > 0; k-- {
			raw = append(raw, r.Bytes(r.Intn(10)))
		}
		own(raw, gen.Pick(r, []string{"x-bin", "y-bin", "grpc-trace-bin"}))
		// random header lists near the grammar
		var md []c13HdrIn
		for k := r.Intn(4); k > 0; k-- {
			var vals []string
			for j := r.Intn(4); j > 0; j-- {
				switch r.Intn(4) {
				case 0:
					vals = append(vals, gen.Pick(r, shapes))
				case 1:
					vals = append(vals, base64.StdEncoding.EncodeToString(r.Bytes(r.Intn(8))))
				case 2:
					vals = append(vals, base64.RawURLEncoding.EncodeToString(r.Bytes(r.Intn(8))))
				default:
					vals = append(vals, base64.RawStdEncoding.EncodeToString(r.Bytes(r.Intn(8))))
				}
			}
			md = append(md, c13Hdr(gen.Pick(r, names), vals...))
		}
		do(gen.Pick(r, whats), md)
	}
	c.E.Add("binmd", n)
}
