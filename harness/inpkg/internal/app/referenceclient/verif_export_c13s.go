//go:build verif

package referenceclient

import (
	"context"
	"errors"
	"io"
	"net/http"
	"net/url"
	"sync"

	"connectrpc.com/conformance/internal/compression"
	conformancev1 "connectrpc.com/conformance/internal/gen/proto/go/connectrpc/conformance/v1"
	"connectrpc.com/connect"
	"google.golang.org/protobuf/proto"
	"google.golang.org/protobuf/types/known/anypb"
)

// VerifC13Session is a HISTORY of calls of the reference client in reference mode: every call
// goes through invoker.Invoke (doUnary / serverStream, invoker.withWireCapture,
// invoker.examineWireDetails + checkBinaryMetadata) over ONE newWireCaptureTransport on top of a
// scripted round tripper that answers each request with the response given for it. Whatever the
// glue keeps between calls (in the invoker, the transport, the package) is kept here too.
type VerifC13Session struct {
	mu        sync.Mutex
	next      *VerifC13Response
	transport http.RoundTripper
	url       *url.URL
	invokers  map[string]*invoker
}

func VerifC13NewSession() *VerifC13Session {
	s := &VerifC13Session{invokers: map[string]*invoker{}}
	s.url, _ = url.Parse("http://verif.invalid")
	base := verifC13RoundTripper(func(req *http.Request) (*http.Response, error) {
		s.mu.Lock()
		r := s.next
		s.next = nil
		s.mu.Unlock()
		if r == nil {
			return nil, errors.New("verif: no scripted response")
		}
		if req.Body != nil { // as a real transport does: the request is sent completely
			_, _ = io.Copy(io.Discard, req.Body)
			_ = req.Body.Close()
		}
		return &http.Response{
			Status:     http.StatusText(r.StatusCode),
			StatusCode: r.StatusCode,
			Proto:      "HTTP/2.0", ProtoMajor: 2,
			Header:        r.Header.Clone(),
			Trailer:       r.Trailer.Clone(),
			Body:          &verifC13Body{data: append([]byte(nil), r.Body...), chunk: r.Chunk},
			ContentLength: -1,
			Request:       req,
		}, nil
	})
	s.transport = newWireCaptureTransport(base, nil)
	return s
}

// invokerFor: one invoker per protocol for the whole session (the options client.go would pass,
// with every coding of the repository accepted).
func (s *VerifC13Session) invokerFor(protocol string) *invoker {
	if inv, ok := s.invokers[protocol]; ok {
		return inv
	}
	opts := []connect.ClientOption{
		connect.WithAcceptCompression(compression.Brotli, compression.NewBrotliDecompressor, compression.NewBrotliCompressor),
		connect.WithAcceptCompression(compression.Deflate, compression.NewDeflateDecompressor, compression.NewDeflateCompressor),
		connect.WithAcceptCompression(compression.Snappy, compression.NewSnappyDecompressor, compression.NewSnappyCompressor),
		connect.WithAcceptCompression(compression.Zstd, compression.NewZstdDecompressor, compression.NewZstdCompressor),
	}
	if protocol == "grpc-web" {
		opts = append(opts, connect.WithGRPCWeb())
	}
	inv := newInvoker(s.transport, true, s.url, opts)
	s.invokers[protocol] = inv
	return inv
}

// VerifC13CallResult is what invoker.Invoke reports for one call.
type VerifC13CallResult struct {
	Examined bool     // an HTTP status code was reported
	Status   int      // that code
	Feedback []string // ClientResponseResult.feedback
	Headers  []*conformancev1.Header
	Trailers []*conformancev1.Header
	Err      string // the error of the RPC as the client reports it (diagnostics only)
}

// Call performs one RPC: protocol "connect" (method Unary) | "connect-stream" | "grpc-web"
// (method ServerStream); the server's answer is r.
func (s *VerifC13Session) Call(protocol string, r VerifC13Response) (VerifC13CallResult, error) {
	s.mu.Lock()
	s.next = &r
	s.mu.Unlock()
	method := "ServerStream"
	var msg proto.Message = &conformancev1.ServerStreamRequest{}
	key := protocol
	if protocol == "connect" {
		method, msg = "Unary", &conformancev1.UnaryRequest{}
	} else if protocol == "connect-stream" {
		key = "connect"
	}
	reqMsg, err := anypb.New(msg)
	if err != nil {
		return VerifC13CallResult{}, err
	}
	service := "connectrpc.conformance.v1.ConformanceService"
	res, err := s.invokerFor(key).Invoke(context.Background(), &conformancev1.ClientCompatRequest{
		TestName:        "verif/c13seq",
		Service:         &service,
		Method:          &method,
		RequestMessages: []*anypb.Any{reqMsg},
		RequestHeaders:  []*conformancev1.Header{{Name: "X-Test-Case-Name", Value: []string{"verif/c13seq"}}},
	})
	if err != nil {
		return VerifC13CallResult{}, err
	}
	out := VerifC13CallResult{Feedback: res.GetFeedback(), Headers: res.GetResponseHeaders(), Trailers: res.GetResponseTrailers()}
	if res.GetError() != nil {
		out.Err = res.GetError().GetCode().String() + ": " + res.GetError().GetMessage()
	}
	if res.HttpStatusCode != nil {
		out.Examined, out.Status = true, int(res.GetHttpStatusCode())
	}
	if out.Feedback == nil {
		out.Feedback = []string{}
	}
	return out, nil
}
