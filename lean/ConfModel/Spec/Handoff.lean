/-
Declarative side of C16: what a waiter must obtain, and what a traced operation must deliver.
-/
import ConfModel.Model.TracerSlots
import ConfModel.Model.Builder
namespace ConfModel.Handoff
open ConfModel

/-! ### Tracer slots -/
open TracerSlots in
/-- the operation re-initialises or clears the slot of `n` -/
def touches (n : TracerSlots.Name) : TracerSlots.Op → Bool
  | .init m => m == n
  | .clear m => m == n
  | _ => false

open TracerSlots in
/-- the operation is performed by / on waiter `w` -/
def usesWaiter (w : Nat) : TracerSlots.Op → Bool
  | .await v _ => v == w
  | .join v => v == w
  | .peek v => v == w
  | .ctx v => v == w
  | _ => false

open TracerSlots in
def completesOn (n : TracerSlots.Name) : TracerSlots.Op → Option Nat
  | .complete m t => if m == n then some t else none
  | _ => none

/-- the first trace completed for `n` among `ops` -/
def firstComplete (n : TracerSlots.Name) (ops : List TracerSlots.Op) : Option Nat :=
  (ops.filterMap (completesOn n)).head?

open TracerSlots in
/-- is the slot of `n` initialised after `ops`, given whether it was before?  (the last
`init n` / `clear n` decides) -/
def slotLive (n : TracerSlots.Name) (before : Bool) (ops : List TracerSlots.Op) : Bool :=
  ops.foldl (fun b o => match o with
    | .init m => if m == n then true else b
    | .clear m => if m == n then false else b
    | _ => b) before

/-! #### history-based expectation for a whole script

`specObs ops` says, for every position of `ops`, which observations the property allows there,
looking only at the *history* (where Init/Clear/Complete occur), with no slot state — in the
terms of theorem `await_gets_first`: a waiter that begins at position `r` on `n` looks at
`ops.take r = pre ++ [init n] ++ mid` (`mid` free of `init n`/`clear n`); it obtains
`firstComplete n mid` at once, or else `firstComplete n post` where `post` is what follows its
Await up to the observation point, cut at the next `init n`/`clear n` (a re-initialised slot is
a new slot; completing a cleared one has no effect). -/

open TracerSlots in
/-- one step of `epochMid` -/
def epochStep (n : TracerSlots.Name) (acc : Option (List TracerSlots.Op)) (o : TracerSlots.Op) :
    Option (List TracerSlots.Op) :=
  if touches n o then (match o with | .init _ => some [] | _ => none) else acc.map (· ++ [o])

/-- the operations since the slot of `n` was last initialised, if it is initialised:
`before = pre ++ [init n] ++ mid` with no `init n`/`clear n` in `mid` gives `some mid`;
never initialised, or cleared since, gives `none` -/
def epochMid (n : TracerSlots.Name) (before : List TracerSlots.Op) : Option (List TracerSlots.Op) :=
  before.foldl (epochStep n) none

/-- the part of `post` that belongs to the same epoch of `n` -/
def sameEpoch (n : TracerSlots.Name) (post : List TracerSlots.Op) : List TracerSlots.Op :=
  post.takeWhile (fun o => !touches n o)

open TracerSlots in
/-- `busy`: waiter ↦ (name, position of its pending Await) -/
def specStep (ops : List TracerSlots.Op) (busy : List (Nat × TracerSlots.Name × Nat)) (r : Nat) :
    TracerSlots.Op → List (Nat × TracerSlots.Name × Nat) × List TracerSlots.Obs
  | .init _ | .clear _ | .complete _ _ => (busy, [.none])
  | .await w n =>
    match busy.lookup w with
    | some _ => (busy, [.busy])
    | none =>
      match epochMid n (ops.take r) with
      | none => (busy, [.err])
      | some mid =>
        match firstComplete n mid with
        | some t => (busy, [.trace t])
        | none => ((w, n, r) :: busy, [.waiting])
  | .join w | .peek w =>
    match busy.lookup w with
    | none => (busy, [.idle])
    | some (n, i) =>
      match firstComplete n (sameEpoch n ((ops.take r).drop (i+1))) with
      | some t => (busy.filter (·.1 != w), [.trace t])
      | none => (busy, [.waiting])
  | .ctx w =>
    match busy.lookup w with
    | none => (busy, [.idle])
    | some (n, i) =>
      match firstComplete n (sameEpoch n ((ops.take r).drop (i+1))) with
      | some t => (busy.filter (·.1 != w), [.trace t, .ctxErr])
      | none => (busy.filter (·.1 != w), [.ctxErr])

open TracerSlots in
def specGo (ops : List TracerSlots.Op) : List (Nat × TracerSlots.Name × Nat) → Nat → List TracerSlots.Op → List (List TracerSlots.Obs)
  | _, _, [] => []
  | busy, r, o :: os =>
    let s := specStep ops busy r o
    s.2 :: specGo ops s.1 (r+1) os

def specObs (ops : List TracerSlots.Op) : List (List TracerSlots.Obs) := specGo ops [] 0 ops

/-! ### the runner's consumer of the tracer (`testResults.fetchTrace`) -/

/-- What a waiter on `n` must collect when its wait begins after the history `before` and it
is joined after `after` (statement of C16, in terms of the history alone): nothing, at once, if
the slot of `n` is not initialised then; otherwise the first trace completed for `n` since its
slot was initialised — before the wait began or after — as long as the slot is neither
re-initialised nor cleared; if there is none the waiter is still blocked (second component). -/
def collectSpec (n : TracerSlots.Name) (before after : List TracerSlots.Op) : Option Nat × Bool :=
  match epochMid n before with
  | none => (none, false)
  | some mid =>
    match firstComplete n (mid ++ sameEpoch n after) with
    | some t => (some t, false)
    | none => (none, true)

/-! ### Builder -/
open Builder in
/-- an operation that takes the trace: a finishing event or `build` -/
def isCloser : Builder.Op → Bool
  | .add k _ => k.finishes
  | .build => true

open Builder in
/-- the events that belong to the trace: everything added before the first closer, and the
closer itself when it is an event -/
def kept : List Builder.Op → List (Builder.Kind × Nat)
  | [] => []
  | .build :: _ => []
  | .add k id :: rest => if k.finishes then [(k, id)] else (k, id) :: kept rest

open Builder in
/-- request and response data events are numbered 0,1,2,… separately -/
def numberFrom : Nat → Nat → List (Builder.Kind × Nat) → List Builder.Item
  | _, _, [] => []
  | rq, rp, (k, id) :: t =>
    match k with
    | .reqData => ⟨k, id, some rq⟩ :: numberFrom (rq+1) rp t
    | .respData => ⟨k, id, some rp⟩ :: numberFrom rq (rp+1) t
    | _ => ⟨k, id, none⟩ :: numberFrom rq rp t

/-- the `Collector.Complete` calls a traced operation must make -/
def deliveries (named : Bool) (ops : List Builder.Op) : List (List Builder.Item) :=
  if named && ops.any isCloser then [numberFrom 0 0 (kept ops)] else []

end ConfModel.Handoff
