/-
Model of `internal/app/connectconformance/test_trie.go` and of the pattern plumbing
around it (`newFilter.accept`, the validation block of `run()`, `argsToPatterns`,
`parsePatternFile`).

A trie node is represented by the list of pattern *suffixes* that pass through it:
`present N` iff `[] ∈ N`; `child N k` = tails of members whose head is `k`.  This is
isomorphic to the Go map-of-children trie (a node is identified by its path) and avoids a
nested inductive type.
-/
namespace ConfModel.Trie

abbrev Pat := List String
abbrev Node := List Pat

def present (N : Node) : Bool := N.any (·.isEmpty)

def child (N : Node) (k : String) : Node :=
  N.filterMap (fun p => match p with
    | [] => none
    | h :: t => if h == k then some t else none)

/-- the `**` loop of `testTrie.match`: try `child.match` on every suffix of the name -/
def starLoop (m : List String → Bool) : List String → Bool
  | [] => m []
  | c :: cs => m (c :: cs) || starLoop m cs

/-- `testTrie.match`; fuel `d` bounds the pattern depth (`depth N < d` suffices).  The
`N.isEmpty` test is Go's `child != nil` (a node with no pattern below it does not exist). -/
def matchF : Nat → Node → List String → Bool
  | 0, _, _ => false
  | d+1, N, cs =>
    if N.isEmpty then false else
    match cs with
    | [] => present N || matchF d (child N "**") []
    | c :: cs' =>
      matchF d (child N c) cs' || matchF d (child N "*") cs'
        || starLoop (matchF d (child N "**")) (c :: cs')

/-- the matcher as it was before the `fix:` commit for F01 (kept for the witness theorem):
on an exhausted name it looked only one `**` level deep. -/
def matchOld : Nat → Node → List String → Bool
  | 0, _, _ => false
  | d+1, N, cs =>
    if N.isEmpty then false else
    match cs with
    | [] => present N || present (child N "**")
    | c :: cs' =>
      matchOld d (child N c) cs' || matchOld d (child N "*") cs'
        || starLoop (matchOld d (child N "**")) (c :: cs')

def starLoopW (m : List String → Option Pat) : List String → Option Pat
  | [] => m []
  | c :: cs => (m (c :: cs)).or (starLoopW m cs)

/-- Which inserted pattern's terminal node has its `matched` counter incremented by
`testTrie.match` (same search order as the Go code).  The result is the pattern suffix
relative to `N`. -/
def matchW : Nat → Node → List String → Option Pat
  | 0, _, _ => none
  | d+1, N, cs =>
    if N.isEmpty then none else
    match cs with
    | [] => if present N then some [] else (matchW d (child N "**") []).map ("**" :: ·)
    | c :: cs' =>
      ((matchW d (child N c) cs').map (c :: ·)).or
        (((matchW d (child N "*") cs').map ("*" :: ·)).or
          ((starLoopW (matchW d (child N "**")) (c :: cs')).map ("**" :: ·)))

def depth (N : Node) : Nat := N.foldl (fun m p => max m p.length) 0

def fuel (N : Node) : Nat := depth N + 1

/-- `parsePatterns(ps).matchPattern(name)` with both already split at `/`. -/
def trieMatch (ps : Node) (name : List String) : Bool := matchF (fuel ps) ps name

def trieWhich (ps : Node) (name : List String) : Option Pat := matchW (fuel ps) ps name

/-- `allUnmatched()` after `matchPattern` was called on every name (as a list in pattern
order, duplicates kept; the Go result is the same set). -/
def unmatched (ps : Node) (names : List (List String)) : List Pat :=
  ps.filter (fun p => names.all (fun n => trieWhich ps n != some p))

/-- The name under which `findUnmatched` reports a pattern: components joined by `/`,
except that the separator is omitted while the prefix built so far is empty (so a leading
empty component is dropped: `/b` is reported as `b`). -/
def reportName (p : Pat) : String :=
  p.foldl (fun pre c => if pre.isEmpty then c else pre ++ "/" ++ c) ""

/-- `testCaseFilter.accept`: `run = none` models the nil trie (no `--run` patterns). -/
def accept (run skip : Node) (name : List String) : Bool :=
  (run.isEmpty || trieMatch run name) && !(!skip.isEmpty && trieMatch skip name)

inductive Validation
  | ok
  | unmatchedPatterns (what : String) (ps : List Pat)
  | ambiguous (names : List (List String))
deriving Repr, DecidableEq

/-- one `tryMatchPatterns` call of `run()` (skipped when the trie is empty / nil) -/
def chkUnmatched (what : String) (ps : Node) (names : List (List String)) : Option Validation :=
  if ps.isEmpty then none else
    match unmatched ps names with
    | [] => none
    | u => some (.unmatchedPatterns what u)

/-- the failing/flaky ambiguity check of `run()` -/
def chkAmbiguous (failing flaky : Node) (names : List (List String)) : Option Validation :=
  if failing.isEmpty || flaky.isEmpty then none else
    match names.filter (fun n => trieMatch failing n && trieMatch flaky n) with
    | [] => none
    | c => some (.ambiguous c)

/-- The validation block of `run()`: the four `tryMatchPatterns` calls in order, then the
failing/flaky ambiguity check; the first error wins. -/
def validate (failing flaky run skip : Node) (names : List (List String)) : Validation :=
  ([chkUnmatched "known failing" failing names, chkUnmatched "known flaky" flaky names,
    chkUnmatched "run patterns" run names, chkUnmatched "no-run patterns" skip names,
    chkAmbiguous failing flaky names].findSome? id).getD .ok

/-! ### `argsToPatterns` / `parsePatternFile` (cmd/connectconformance/main.go) -/

/-- `parsePatternFile` on a file already split into lines and trimmed by `bytes.TrimSpace`
(the split/trim themselves are Go library behaviour, exercised by the correspondence). -/
def parseLines (lines : List String) : List String :=
  lines.filter (fun l => !(l.isEmpty || l.front == '#'))

/-- `argsToPatterns` with the filesystem as a parameter: `rd f` is the trimmed line list
of file `f`, `none` if unreadable.  After the `fix:` commit for F02 every argument
contributes. -/
def argsToPatterns (rd : String → Option (List String)) : List String → Option (List String)
  | [] => some []
  | a :: as =>
    if a.front == '@' && !a.isEmpty then
      let f := (a.drop 1).toString
      match (if f.isEmpty then some [] else rd f), argsToPatterns rd as with
      | some ls, some rest => some (parseLines ls ++ rest)
      | _, _ => none
    else (argsToPatterns rd as).map (a :: ·)

end ConfModel.Trie
