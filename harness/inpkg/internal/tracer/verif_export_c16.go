//go:build verif

package tracer

import (
	"context"
	"errors"
	"fmt"
	"net/http"
	"strconv"
	"strings"
	"sync"
	"sync/atomic"
	"time"
)

// verifProbeCtx tells when Await has reached its select: the channel operands of a select
// are evaluated on entering it, i.e. after Await released the tracer's lock.
type verifProbeCtx struct {
	context.Context
	once    sync.Once
	entered chan struct{}
}

func (p *verifProbeCtx) Done() <-chan struct{} {
	p.once.Do(func() { close(p.entered) })
	return p.Context.Done()
}

type verifWaiter struct {
	busy   bool
	cancel context.CancelFunc
	res    chan string
}

func verifAwaitResult(tr *Trace, err error) string {
	switch {
	case err == nil && tr != nil && tr.Response != nil:
		return "t" + strconv.Itoa(tr.Response.StatusCode)
	case err == nil:
		return "t?"
	case errors.Is(err, context.Canceled), errors.Is(err, context.DeadlineExceeded):
		return "ctx"
	default:
		return "err"
	}
}

func verifTrace(name string, id int) Trace {
	return Trace{TestName: name, Response: &http.Response{StatusCode: id}}
}

// verifSlowJoins counts joins that timed out; after a few of them the timeout shrinks so
// that a broken tree does not make the run take hours (it only matters on failing runs).
var verifSlowJoins atomic.Int64

// VerifSlots executes operations one after the other on a real Tracer. Await runs in a
// goroutine per waiter; it is observed at the point where it either has returned or has
// entered its select.
//
//	i:<name> Init   x:<name> Clear   c:<name>:<id> Complete
//	a:<w>:<name> Await (begin)   j:<w> join (long wait)   p:<w> peek (short wait)
//	k:<w> cancel the waiter's context and join
type VerifSlots struct {
	T       *Tracer
	waiters map[int]*verifWaiter
	JoinT   time.Duration
	PeekT   time.Duration
}

func VerifNewSlots(nilTracer bool) *VerifSlots {
	v := &VerifSlots{waiters: map[int]*verifWaiter{}, JoinT: 3 * time.Second, PeekT: 15 * time.Millisecond}
	if !nilTracer {
		v.T = &Tracer{}
	}
	return v
}

func (v *VerifSlots) waiter(w int) *verifWaiter {
	wt := v.waiters[w]
	if wt == nil {
		wt = &verifWaiter{}
		v.waiters[w] = wt
	}
	return wt
}

func (v *VerifSlots) wait(wt *verifWaiter, d time.Duration) string {
	select {
	case r := <-wt.res:
		wt.busy = false
		wt.cancel()
		return r
	default:
	}
	timer := time.NewTimer(d)
	defer timer.Stop()
	select {
	case r := <-wt.res:
		wt.busy = false
		wt.cancel()
		return r
	case <-timer.C:
		return "waiting"
	}
}

// Do executes one operation and returns its observation.
func (v *VerifSlots) Do(op string) string {
	f := strings.Split(op, ":")
	num := func(i int) int {
		if i >= len(f) {
			return -1
		}
		n, err := strconv.Atoi(f[i])
		if err != nil {
			return -1
		}
		return n
	}
	str := func(i int) string {
		if i >= len(f) {
			return ""
		}
		return f[i]
	}
	switch f[0] {
	case "i":
		v.T.Init(str(1))
		return ""
	case "x":
		v.T.Clear(str(1))
		return ""
	case "c":
		v.T.Complete(verifTrace(str(1), num(2)))
		return ""
	case "a":
		wt := v.waiter(num(1))
		if wt.busy {
			return "busy"
		}
		base, cancel := context.WithCancel(context.Background())
		pctx := &verifProbeCtx{Context: base, entered: make(chan struct{})}
		wt.cancel = cancel
		wt.res = make(chan string, 1)
		res, name := wt.res, str(2)
		go func() {
			tr, err := v.T.Await(pctx, name)
			res <- verifAwaitResult(tr, err)
		}()
		select {
		case r := <-res:
			cancel()
			return r
		case <-pctx.entered:
			wt.busy = true
			return "waiting"
		}
	case "j", "p":
		wt := v.waiter(num(1))
		if !wt.busy {
			return "idle"
		}
		if f[0] == "p" {
			return v.wait(wt, v.PeekT)
		}
		d := v.JoinT
		if verifSlowJoins.Load() > 10 {
			d = 50 * time.Millisecond
		}
		r := v.wait(wt, d)
		if r == "waiting" {
			verifSlowJoins.Add(1)
		}
		return r
	case "k":
		wt := v.waiter(num(1))
		if !wt.busy {
			return "idle"
		}
		wt.cancel()
		r := v.wait(wt, 10*time.Second)
		if r == "waiting" {
			wt.busy = false // give up on it
			return "stuck"
		}
		return r
	}
	return "?"
}

// Close cancels whatever is still waiting.
func (v *VerifSlots) Close() {
	for _, wt := range v.waiters {
		if wt.busy {
			wt.cancel()
			<-wt.res
			wt.busy = false
		}
	}
}

// VerifStressSlots: after `setup` (sequential; awaits begin here), the threads' operations
// are fired concurrently (Init/Clear/Complete only); then `after` is executed sequentially.
func VerifStressSlots(setup []string, threads [][]string, after []string, joinT, peekT time.Duration) (setupObs, afterObs []string) {
	v := VerifNewSlots(false)
	v.JoinT = joinT
	v.PeekT = peekT
	defer v.Close()
	for _, op := range setup {
		setupObs = append(setupObs, v.Do(op))
	}
	var wg sync.WaitGroup
	start := make(chan struct{})
	for _, th := range threads {
		wg.Add(1)
		go func(th []string) {
			defer wg.Done()
			<-start
			for _, op := range th {
				switch op[0] {
				case 'i', 'x', 'c':
					v.Do(op) // these touch no harness state
				}
			}
		}(th)
	}
	close(start)
	wg.Wait()
	for _, op := range after {
		afterObs = append(afterObs, v.Do(op))
	}
	return setupObs, afterObs
}

// ---------------------------------------------------------------- builder

// VerifBuilder wraps the real builder with a recording collector; events are identified by
// pointer so that the delivered list can be mapped back to what was added.
type VerifBuilder struct {
	b    *builder
	coll *VerifCollector
	ids  map[Event]string
}

func VerifNewBuilder(named, client bool) *VerifBuilder {
	req := verifRequest(nil)
	if !named {
		req.Header.Del(testCaseNameHeader)
	}
	coll := &VerifCollector{}
	b, _ := newBuilder(req, client, coll)
	return &VerifBuilder{b: b, coll: coll, ids: map[Event]string{}}
}

// NewEvent creates (but does not add) an event of the given kind. Not safe for concurrent use.
func (v *VerifBuilder) NewEvent(kind string, id int) Event {
	var ev Event
	switch kind {
	case "reqData":
		ev = &RequestBodyData{Len: uint64(id)}
	case "reqEnd":
		ev = &RequestBodyEnd{}
	case "reqEndErr":
		ev = &RequestBodyEnd{Err: VerifErrInner}
	case "respStart":
		ev = &ResponseStart{Response: &http.Response{StatusCode: id, Proto: "HTTP/1.1", ProtoMajor: 1, ProtoMinor: 1}}
	case "respErr":
		ev = &ResponseError{Err: VerifErrInner}
	case "respData":
		ev = &ResponseBodyData{Len: uint64(id)}
	case "respEos":
		ev = &ResponseBodyEndStream{Content: "x"}
	case "respEnd":
		ev = &ResponseBodyEnd{}
	case "respEndErr":
		ev = &ResponseBodyEnd{Err: VerifErrInner}
	case "cancel":
		ev = &RequestCanceled{}
	default:
		panic("verif: unknown event kind " + kind)
	}
	v.ids[ev] = kind + "#" + strconv.Itoa(id)
	return ev
}

func (v *VerifBuilder) Add(ev Event) { v.b.add(ev) }
func (v *VerifBuilder) Build()       { v.b.build() }

// Completions renders every Collector.Complete call: the events after RequestStart as
// kind#id, with @index for body-data events.
func (v *VerifBuilder) Completions() [][]string {
	v.coll.mu.Lock()
	defer v.coll.mu.Unlock()
	out := [][]string{}
	for _, tr := range v.coll.Traces {
		evs := []string{}
		for i, ev := range tr.Events {
			if _, ok := ev.(*RequestStart); ok && i == 0 {
				continue
			}
			s, ok := v.ids[ev]
			if !ok {
				s = fmt.Sprintf("?%T", ev)
			}
			switch ev := ev.(type) {
			case *RequestBodyData:
				s += "@" + strconv.Itoa(ev.MessageIndex)
			case *ResponseBodyData:
				s += "@" + strconv.Itoa(ev.MessageIndex)
			}
			evs = append(evs, s)
		}
		out = append(out, evs)
	}
	return out
}
