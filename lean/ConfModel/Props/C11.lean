/-
C11 — A server batch always yields exactly one outcome per case and terminates.

Property theorems only; helper lemmas are in `ConfModel.Lemmas.ServerRunner`.
Every statement is for **every fault script** `s`: any batch size, any combination of start error,
stdin write/close error, server response (well-formed with or without certificate, empty,
undecodable, oversize, truncated after any byte, absent), TLS or not, server death after any number
of requests, any per-case client behaviour (refusal at any position; answers of any kind delivered
synchronously or from another goroutine), reference server or not with any stderr text.

`runBatch` is total, so "the function returns on every path" is part of every statement: the only
places where the Go code blocks are `wg.Wait()` (returns because every accepted request gets its
callback exactly once — C10), `serverProcess.result()` after `abort()` and the stderr reader
(both end when the process ends; process.go bounds that by its grace timers).
-/
import ConfModel.Lemmas.ServerRunner
import ConfModel.Lemmas.ServerWire
import ConfModel.Lemmas.ServerPrint
import ConfModel.Props.C10
namespace ConfModel.Props.C11
open ConfModel.ServerRunner ConfModel.ServerRunner.Spec

/-- **one_outcome_each.**  The log of `setOutcome` calls — marks made by the function, synchronous
callbacks, and the callbacks delivered by other goroutines, in whatever order they arrive (the
statement is about counts, hence independent of the interleaving) — names every case of the batch
exactly once and no other case: no missing case, no overwrite of an answer by a marking. -/
theorem one_outcome_each (s : Script) : oneOutcomeEach s.cases.length ((runBatch s).log.map (·.1)) :=
  runBatch_covers s

/-- … and `failRemaining` therefore finds nothing left to mark. -/
theorem fail_remaining_idle (s : Script) :
    failRemaining s.cases.length (runBatch s).log = [] :=
  failRemaining_nil _ _ (runBatch_covers s)

/-- **outcomes_as_demanded** (master statement): every logged outcome satisfies `expectedOK`. -/
theorem outcomes_as_demanded (s : Script) (i : Nat) (c : Class) (h : (i, c) ∈ (runBatch s).log) :
    expectedOK s i c = true := by
  have hcov := runBatch_covers s
  have hi : i < s.cases.length := by
    have := hcov i
    have hpos : 0 < cnt (runBatch s).log i :=
      List.count_pos_iff.mpr (List.mem_map.mpr ⟨(i, c), h, rfl⟩)
    by_cases hlt : i < s.cases.length
    · exact hlt
    · simp only [hlt, if_false] at this; omega
  have h1 : cnt (runBatch s).log i = 1 := by simpa [hi] using hcov i
  unfold expectedOK
  cases hf : setupFault s with
  | true =>
    rw [runBatch_log_fault s hf] at h
    have := mem_marks_class _ _ _ _ h
    simp only at this
    simp [this]
  | false =>
    simp only [Bool.false_eq_true, if_false]
    rw [runBatch_log_ok s hf] at h h1
    by_cases hlt : i < stopIdx s.dies 0 s.cases
    · simp only [hlt, if_true]
      cases hc : s.cases[i]? with
      | none => simp at hc; omega
      | some cs =>
        cases cs with
        | refuse =>
          -- a refusing case is the stop index itself
          exfalso
          have key : ∀ (cases : List Case) (b : Nat), cases[i - b]? = some Case.refuse → b ≤ i →
              stopIdx s.dies b cases ≤ i := by
            intro cases
            induction cases with
            | nil => intro b h; simp at h
            | cons c rest ih =>
              intro b h hb
              simp only [stopIdx]
              split
              · exact hb
              · by_cases hbi : b = i
                · subst hbi; simp at h; subst h; simp
                · split
                  · exact hb
                  · have h' : rest[i - (b + 1)]? = some Case.refuse := by
                      have : i - b = (i - (b + 1)) + 1 := by omega
                      rw [this, List.getElem?_cons_succ] at h; exact h
                    exact ih (b + 1) h' (by omega)
          have := key s.cases 0 (by simpa using hc) (Nat.zero_le _)
          omega
        | answer k a =>
          simp only
          have hm := loop_answered s.dies s.cases 0 [] [] i k a (Nat.zero_le _) hlt (by simpa using hc)
          have := unique_of_cnt_one _ i c (verdict k) h1 h hm
          simp [this]
    · simp only [hlt, if_false]
      have hm := loop_after s.dies s.cases 0 [] [] i (by omega) (by simpa using hi)
      have := unique_of_cnt_one _ i c _ h1 h hm
      rw [this]
      split <;> rfl

/-- **faults_are_setup_errors (1).**  Start failure, write/close failure, unreadable / empty /
oversize / truncated / absent response, missing certificate under TLS ⇒ *every* case of the batch
is recorded, as a set-up error. -/
theorem faults_are_setup_errors (s : Script) (hf : setupFault s = true) (i : Nat) (hi : i < s.cases.length) :
    (i, Class.setup) ∈ (runBatch s).log ∧ ∀ c, (i, c) ∈ (runBatch s).log → c = .setup := by
  constructor
  · rw [runBatch_log_fault s hf]
    exact mem_marks 0 _ i .setup (Nat.zero_le _) (by simpa using hi)
  · intro c hc
    have := outcomes_as_demanded s i c hc
    simpa [expectedOK, hf] using this

/-- **faults_are_setup_errors (2).**  Server death after k requests / client pipe closed at case
k ⇒ every case from the stop index on is recorded as a set-up error (set-up error proper when the
server died, could-not-run when the client refused) — none of them is a pass or a failure. -/
theorem after_fault_setup_errors (s : Script) (hf : setupFault s = false) (i : Nat)
    (hge : stopIdx s.dies 0 s.cases ≤ i) (hi : i < s.cases.length) :
    (∃ c, (i, c) ∈ (runBatch s).log) ∧ ∀ c, (i, c) ∈ (runBatch s).log → isSetupErr c = true := by
  constructor
  · rw [runBatch_log_ok s hf]
    exact ⟨_, loop_after s.dies s.cases 0 [] [] i hge (by simpa using hi)⟩
  · intro c hc
    have := outcomes_as_demanded s i c hc
    have hlt : ¬ i < stopIdx s.dies 0 s.cases := by omega
    simpa [expectedOK, hf, hlt] using this

/-- **answered_keep_verdict.**  A case handed to the client before the fault is recorded with the
verdict computed from its own answer, and with nothing else. -/
theorem answered_keep_verdict (s : Script) (hf : setupFault s = false) (i : Nat) (k : Kind) (a : Bool)
    (hlt : i < stopIdx s.dies 0 s.cases) (hc : s.cases[i]? = some (.answer k a)) :
    (i, verdict k) ∈ (runBatch s).log ∧ ∀ c, (i, c) ∈ (runBatch s).log → c = verdict k := by
  constructor
  · rw [runBatch_log_ok s hf]
    exact loop_answered s.dies s.cases 0 [] [] i k a (Nat.zero_le _) hlt (by simpa using hc)
  · intro c hm
    have := outcomes_as_demanded s i c hm
    simpa [expectedOK, hf, hlt, hc] using this

/-- No case is recorded as passed unless the client answered it with the expected response. -/
theorem pass_only_if_answered (s : Script) (i : Nat) (h : (i, Class.pass) ∈ (runBatch s).log) :
    ∃ a, s.cases[i]? = some (.answer .pass a) := by
  have := outcomes_as_demanded s i .pass h
  unfold expectedOK at this
  split at this
  · simp at this
  · split at this
    · split at this
      · rename_i k a hc
        cases k <;> simp [verdict] at this
        exact ⟨a, hc⟩
      · cases this
    · simp [isSetupErr] at this

/-- **server_stopped.**  `abort` is called on every started server on every path (once by the
deferred call, twice on the path that waits for the answers), and never without a server. -/
theorem server_stopped (s : Script) :
    (runBatch s).started = !s.startErr ∧ stoppedOK (runBatch s).started (runBatch s).aborts = true := by
  unfold runBatch
  by_cases h1 : s.startErr = true
  · simp [h1, stoppedOK]
  · simp only [h1, Bool.false_eq_true, if_false, Bool.not_false]
    split <;> (try split) <;> (try split) <;> (try split) <;> (try split) <;> simp [stoppedOK]

/-- **sideband_attribution.**  For test names without `": "` inside: a stderr line whose trimmed
text starts with `name: ` for a name of the batch is recorded for that name (with the rest of the
line as message) and not forwarded; every other non-blank line is forwarded exactly once,
unchanged and in order; blank lines are dropped. -/
theorem sideband_attribution (names : List (List Char)) (hn : ∀ nm ∈ names, noSep nm = true)
    (lines : List (List Char)) :
    processLines names lines = (expectForwarded names lines, expectRecords names lines) :=
  processLines_spec names hn lines

/-- the same for one line -/
theorem line_attribution (names : List (List Char)) (hn : ∀ nm ∈ names, noSep nm = true) (l : List Char) :
    lineAct names l =
      if blank l then .skip
      else match feedbackOf names l with
        | some (a, b) => .record a b
        | none => .forward l :=
  lineAct_spec names hn l

/-- `name: msg` (surrounded by any white space) with `name` in the batch is attributed to `name`. -/
theorem feedback_recorded (names : List (List Char)) (nm msg : List Char) (hm : nm ∈ names)
    (hsep : noSep nm = true) (l : List Char) (ht : trim l = nm ++ ':' :: ' ' :: msg) :
    lineAct names l = .record nm msg := by
  unfold lineAct
  simp only [ht]
  have hne : (nm ++ ':' :: ' ' :: msg).isEmpty = false := by cases nm <;> simp
  simp only [hne, Bool.false_eq_true, if_false]
  rw [splitSep_append nm msg (by simpa [noSep] using hsep)]
  simp [hm]

/-- only names of the batch are ever recorded -/
theorem recorded_in_batch (names : List (List Char)) (l a b : List Char) (h : lineAct names l = .record a b) :
    a ∈ names := by
  unfold lineAct at h
  simp only at h
  split at h
  · cases h
  · split at h
    · split at h
      · rename_i hc; injection h with h1 h2; subst h1; simpa using hc
      · cases h
    · cases h

/-- nothing of the stream is lost when it is cut into lines -/
theorem lines_cover_stream (t : List Char) : (splitLines t []).flatten = t := by
  simpa using splitLines_flatten t []

/-- the stderr of the batch is processed exactly when a reference server was started -/
theorem stderr_processed (s : Script) (hs : s.startErr = false) :
    ((runBatch s).forwarded, (runBatch s).sideband) =
      if s.isRef then processLines s.names (splitLines s.stderr []) else ([], []) := by
  unfold runBatch
  simp only [hs, Bool.false_eq_true, if_false]
  cases s.isRef <;> simp only [Bool.false_eq_true, if_false, if_true] <;>
    (split <;> (try split) <;> (try split) <;> (try split) <;> (try split) <;> rfl)

/-! ### the peers' stdout as bytes: "answers with garbage", for every garbage

`Resp.stream d body` gives the server's stdout as the byte string `d`; what the runner makes of it
is decided by the model of the length-prefixed reader at that call site
(`Delimited.readAt .server`: 32-bit prefix arithmetic, limit 1 MB).  The statements below are for
every byte string of the given shape; together with `one_outcome_each` / `outcomes_as_demanded`
(which hold for every script, hence for every `stream`) they say that no byte string on a peer's
stdout can leave a case without its outcome. -/

/-- **stream_response_decided.**  Whatever bytes the server writes, the reader either frames the
first message (and decoding decides) or it does not and the batch is a set-up fault: there is no
third way out (in particular none that ends the runner). -/
theorem stream_response_decided (d : List UInt8) (body : Option Bool) :
    respCert (.stream d body) = body ∨ respCert (.stream d body) = none := by
  simp only [respCert]
  split
  · exact Or.inl rfl
  · exact Or.inr rfl

/-- **oversize_response_all_setup_errors** — for each of the 2^32 prefixes above the limit: a
server whose first four stdout bytes announce more than 1 MB makes every case of the batch a set-up
error, whatever follows the four bytes, whatever the client would have done. -/
theorem oversize_response_all_setup_errors (s : Script) (b0 b1 b2 b3 : UInt8) (rest : List UInt8)
    (body : Option Bool) (hr : s.resp = .stream (b0 :: b1 :: b2 :: b3 :: rest) body)
    (hb : Delimited.Site.limit .server < Delimited.be32 [b0, b1, b2, b3])
    (i : Nat) (hi : i < s.cases.length) :
    (i, Class.setup) ∈ (runBatch s).log ∧ ∀ c, (i, c) ∈ (runBatch s).log → c = .setup := by
  have hn : respCert s.resp = none := by
    rw [hr]
    apply respCert_stream_none
    rw [readAt_oversize .server b0 b1 b2 b3 rest hb]; rfl
  exact faults_are_setup_errors s (setupFault_of_respCert_none s hn) i hi

/-- **highbit_response_all_setup_errors.**  In particular when the first byte is ≥ 0x80 (a UTF-8
byte-order mark or other non-ASCII text, UTF-16, binary on the server's stdout): the prefix is a
size of at least 2^31, not a negative one. -/
theorem highbit_response_all_setup_errors (s : Script) (b0 b1 b2 b3 : UInt8) (rest : List UInt8)
    (body : Option Bool) (hr : s.resp = .stream (b0 :: b1 :: b2 :: b3 :: rest) body)
    (hb : 128 ≤ b0.toNat) (i : Nat) (hi : i < s.cases.length) :
    (i, Class.setup) ∈ (runBatch s).log ∧ ∀ c, (i, c) ∈ (runBatch s).log → c = .setup := by
  apply oversize_response_all_setup_errors s b0 b1 b2 b3 rest body hr _ i hi
  simp only [Delimited.Site.limit, Delimited.be32, List.foldl_cons, List.foldl_nil]
  omega

/-- **short_response_all_setup_errors.**  A server whose stdout ends before a whole frame has
come — nothing at all, one to three bytes, or fewer bytes than the prefix announces — makes
every case a set-up error. -/
theorem short_response_all_setup_errors (s : Script) (d : List UInt8) (body : Option Bool)
    (hr : s.resp = .stream d body)
    (hd : d.length < 4 ∨ ∃ b0 b1 b2 b3 rest, d = b0 :: b1 :: b2 :: b3 :: rest ∧
      rest.length < Delimited.be32 [b0, b1, b2, b3])
    (i : Nat) (hi : i < s.cases.length) :
    (i, Class.setup) ∈ (runBatch s).log ∧ ∀ c, (i, c) ∈ (runBatch s).log → c = .setup := by
  have hn : respCert s.resp = none := by
    rw [hr]
    apply respCert_stream_none
    rcases hd with hd | ⟨b0, b1, b2, b3, rest, hd, hl⟩
    · exact readAt_short .server d hd
    · rw [hd]; exact readAt_truncated .server b0 b1 b2 b3 rest hl
  exact faults_are_setup_errors s (setupFault_of_respCert_none s hn) i hi

/-- **client_stream_cases.**  The real client runner behind the send loop, its client having
written `msgs` (well-formed responses for the first cases as far as `valid` says) and then a prefix
`p` above the 16 MB limit of that call site — any of the 2^32 prefixes above it, e.g. every one with
the top bit set — followed by anything: the cases answered before keep their answer, every other
case gets its callback with "no result" (a set-up error by `outcomes_as_demanded`). -/
theorem client_stream_cases (n valid : Nat) (msgs : List (List UInt8)) (p : Nat) (rest : List UInt8)
    (hf : Framing.Fits (Delimited.Site.limit .client) msgs) (hp : Delimited.Site.limit .client < p)
    (h32 : p < 4294967296) (hn : msgs.length ≤ n) :
    casesOfClientStream n valid (msgs.flatMap Delimited.encode ++ (Delimited.putBe32 p ++ rest)) =
      (List.range n).map fun i =>
        if i < min valid msgs.length then Case.answer .pass true else Case.answer .noresult true := by
  unfold casesOfClientStream
  have hk : n + 1 = msgs.length + ((n - msgs.length) + 1) := by omega
  rw [hk, results_msgs_then_oversize .client msgs (n - msgs.length) p rest [] .eofSeparate hf hp h32]
  simp only [leadingMsgs_append msgs (Delimited.Res.tooLarge p) rfl]

/-- with such a client every case still has exactly one outcome, and the cases after the garbage
are set-up errors (instance of `one_outcome_each` / `after_fault_setup_errors`, spelled out) -/
theorem client_garbage_setup_errors (s : Script) (n valid : Nat) (msgs : List (List UInt8)) (p : Nat)
    (rest : List UInt8) (hf : Framing.Fits (Delimited.Site.limit .client) msgs)
    (hp : Delimited.Site.limit .client < p) (h32 : p < 4294967296) (hn : msgs.length ≤ n)
    (hc : s.cases = casesOfClientStream n valid (msgs.flatMap Delimited.encode ++ (Delimited.putBe32 p ++ rest)))
    (i : Nat) (hi : i < n) (hge : min valid msgs.length ≤ i) (c : Class) (hm : (i, c) ∈ (runBatch s).log) :
    isSetupErr c = true := by
  rw [client_stream_cases n valid msgs p rest hf hp h32 hn] at hc
  have hlen : s.cases.length = n := by rw [hc]; simp
  have hcase : s.cases[i]? = some (.answer .noresult true) := by
    rw [hc]
    simp [hi, Nat.not_lt.mpr hge]
  have := outcomes_as_demanded s i c hm
  unfold expectedOK at this
  split at this
  · simp at this; subst this; rfl
  · split at this
    · rw [hcase] at this
      simp [verdict] at this
      subst this; rfl
    · exact this

/-! ### feedback printed by the reference server reaches the named case

The reference server prints its per-case feedback with `safePrinter.PrefixPrintf(name, format, args…)`
(`prefixPrintf`: the name is an argument of `"%s: "`, never part of a format).  Whatever characters
the name consists of — `%`, `%s`, `%d%%`, non-ASCII — the printed line is `name: message`, the
runner's line reader cuts the stream back into these lines and attributes each to its case. -/

/-- **printed_line_recorded.**  One feedback line, printed and read back: recorded for the named
case with the formatted message; for every name of the batch that can begin a line (`nameOK`) and
has no `": "` inside, and every message that survives trimming (`solid`). -/
theorem printed_line_recorded (names : List (List Char)) (nm fmt : List Char) (args : List (List Char))
    (hm : nm ∈ names) (hsep : noSep nm = true) (hnm : nameOK nm) (hmsg : solid (sprintf fmt args)) :
    lineAct names (prefixPrintf nm fmt args) = .record nm (sprintf fmt args) := by
  rw [prefixPrintf_solid nm fmt args hmsg]
  exact feedback_recorded names nm (sprintf fmt args) hm hsep _ (trim_line nm _ hnm hmsg)

/-- **printed_feedback_attributed.**  Any number of feedback lines printed one after the other on
the reference server's stderr: the runner records exactly one side-band entry per line, for the
named case, with the message as formatted — and forwards none of them as noise. -/
theorem printed_feedback_attributed (names : List (List Char)) (hn : ∀ nm ∈ names, noSep nm = true)
    (entries : List (List Char × List Char × List (List Char)))
    (h : ∀ e ∈ entries, e.1 ∈ names ∧ nameOK e.1 ∧ solid (sprintf e.2.1 e.2.2)) :
    processLines names (splitLines (entries.flatMap fun e => prefixPrintf e.1 e.2.1 e.2.2) []) =
      ([], entries.map fun e => (e.1, sprintf e.2.1 e.2.2)) := by
  -- every printed line is `text ++ "\n"` with no newline inside `text`
  have hflat : ∀ es : List (List Char × List Char × List (List Char)),
      (∀ e ∈ es, solid (sprintf e.2.1 e.2.2)) →
      (es.flatMap fun e => prefixPrintf e.1 e.2.1 e.2.2) =
        (es.map fun e => e.1 ++ ':' :: ' ' :: sprintf e.2.1 e.2.2).flatMap (fun t => t ++ ['\n']) := by
    intro es
    induction es with
    | nil => intro _; rfl
    | cons e es ih =>
      intro hs
      rw [List.flatMap_cons, List.map_cons, List.flatMap_cons, ih (fun x hx => hs x (by simp [hx])),
        prefixPrintf_solid e.1 e.2.1 e.2.2 (hs e (by simp))]
  have hnl : ∀ t ∈ (entries.map fun e => e.1 ++ ':' :: ' ' :: sprintf e.2.1 e.2.2), '\n' ∉ t := by
    intro t ht
    obtain ⟨e, he, rfl⟩ := List.mem_map.mp ht
    obtain ⟨_, hnm, hmsg⟩ := h e he
    intro hh
    simp only [List.mem_append, List.mem_cons] at hh
    rcases hh with hh | hh | hh | hh
    · exact hnm.2 hh
    · cases hh
    · cases hh
    · exact hmsg.2 hh
  rw [hflat entries (fun e he => (h e he).2.2), splitLines_lines _ hnl, List.map_map]
  clear hflat hnl
  induction entries with
  | nil => rfl
  | cons e es ih =>
    obtain ⟨hmem, hnm, hmsg⟩ := h e (by simp)
    have ih' := ih (fun x hx => h x (by simp [hx]))
    have hl := printed_line_recorded names e.1 e.2.1 e.2.2 hmem (hn _ hmem) hnm hmsg
    rw [prefixPrintf_solid e.1 e.2.1 e.2.2 hmsg] at hl
    rw [List.map_cons, List.map_cons, processLines, ih']
    simp only [Function.comp]
    rw [hl]

/-- hypotheses of `printed_feedback_attributed`: a name made of per-cent signs and verbs, a message
with an argument and an escaped per-cent sign -/
example : nameOK "100% %s %d%%/unary".toList ∧ noSep "100% %s %d%%/unary".toList = true ∧
    solid (sprintf "codec %s is 100%% wrong".toList ["json".toList]) ∧
    prefixPrintf "100% %s %d%%/unary".toList "codec %s is 100%% wrong".toList ["json".toList]
      = "100% %s %d%%/unary: codec json is 100% wrong\n".toList := by
  refine ⟨⟨⟨'1', "00% %s %d%%/unary".toList, rfl, by decide⟩, by decide⟩, by decide,
    ⟨⟨"codec json is 100% wron".toList, 'g', by decide, by decide⟩, by decide⟩, by decide⟩

/-! ### in-process servers (`runInProcess` / `localProcess`) and the real client runner -/

/-- **healthy_server_never_dead.**  A server run in-process that does not end by itself is never
taken for dead, however long the batch lasts (any number of liveness tests at any times): the
`whenDone` hook of `localProcess` runs when the process has ended — not when somebody's patience
(the grace period of `result()`) has. -/
theorem healthy_server_never_dead (checks : List Nat) :
    diesOf (LocalProc.hookAt { exit := none }) checks = none := rfl

/-- the hook runs exactly when the process ends -/
theorem hook_iff_exit (p : LocalProc) (t : Nat) : p.hookAt = some t ↔ p.exit = some t := Iff.rfl

/-- **dead_iff_tested_after_exit.**  With a server that ends at time t (liveness tests at
non-decreasing times): case i is found dead iff its test comes at or after t — every case tested
while the server was still running is handed to the client. -/
theorem dead_iff_tested_after_exit (t : Nat) (checks : List Nat) (hmono : checks.Pairwise (· ≤ ·))
    (i c : Nat) (hc : checks[i]? = some c) :
    dead (diesOf (LocalProc.hookAt { exit := some t }) checks) i = decide (t ≤ c) := by
  simp only [LocalProc.hookAt, diesOf, Option.map, dead]
  by_cases h : t ≤ c
  · have := takeWhile_len_le t checks i c hc h
    simp [h, this]
  · have := takeWhile_len_gt t checks i c hmono hc (by omega)
    simp [h]; omega

/-- waiting for an in-process peer is bounded by the grace period (the batch terminates), and the
answer "it has ended" is only given when it has -/
theorem local_result_bounded (p : LocalProc) (grace now : Nat) :
    now ≤ (p.result grace now).1 ∧ (p.result grace now).1 ≤ now + grace ∧
      ((p.result grace now).2 = true → ∃ t, p.exit = some t ∧ t ≤ now + grace) := by
  unfold LocalProc.result
  cases p.exit with
  | none => simp
  | some t =>
    by_cases h : t ≤ now + grace
    · simp [h]; omega
    · simp [h]

/-- **healthy_batch_keeps_verdicts.**  Healthy in-process server, no set-up fault, a client that
takes every request: every case is recorded with the verdict of its own answer and nothing else —
for every list of test times, i.e. for a batch of any duration. -/
theorem healthy_batch_keeps_verdicts (s : Script) (checks : List Nat)
    (hd : s.dies = diesOf (LocalProc.hookAt { exit := none }) checks) (hf : setupFault s = false)
    (hacc : ∀ c ∈ s.cases, c ≠ Case.refuse) (i : Nat) (k : Kind) (a : Bool)
    (hc : s.cases[i]? = some (.answer k a)) :
    (i, verdict k) ∈ (runBatch s).log ∧ ∀ c, (i, c) ∈ (runBatch s).log → c = verdict k := by
  have hdies : s.dies = none := by rw [hd]; rfl
  have hi : i < s.cases.length := by
    have := List.getElem?_eq_some_iff.mp hc
    exact this.1
  have hstop : i < stopIdx s.dies 0 s.cases := by
    rw [hdies, stopIdx_all s.cases 0 hacc]; omega
  exact answered_keep_verdict s hf i k a hstop hc

/-- **wg_balanced** (composition with C10).  With the real client runner behind the send loop: in
every terminal state of the runner, for every request whose `sendRequest` has returned, the
loop's `WaitGroup` is balanced — accepted ⇒ exactly one callback, refused ⇒ none.  (A request that
is both answered and refused would make the counter negative: the batch would end in a panic or
overwrite the verdict of an answered case.) -/
theorem wg_balanced (names : Nat → ClientRunner.Name) (evs : List ClientRunner.Event) (i : Nat)
    (r : ClientRunner.SendRet)
    (ht : ClientRunner.Spec.Terminal (ClientRunner.run names ClientRunner.init evs))
    (hr : (ClientRunner.run names ClientRunner.init evs).spc i = .ret r) :
    wgBalance (r == .ok) (ClientRunner.Spec.cbsOf (ClientRunner.run names ClientRunner.init evs) i).length = 0 := by
  have h := ConfModel.Props.C10.exactly_once names evs i ht
  rw [hr] at h
  simp only [ClientRunner.Spec.retOf] at h
  cases r with
  | ok =>
    simp only [ClientRunner.Spec.reqOK, Bool.and_eq_true, beq_iff_eq] at h
    simp [wgBalance, h.1]
  | dup =>
    simp only [ClientRunner.Spec.reqOK, List.isEmpty_iff] at h
    simp [wgBalance, h]
  | err e =>
    simp only [ClientRunner.Spec.reqOK, List.isEmpty_iff] at h
    simp [wgBalance, h]

/-- the case the send loop sees is a refusal exactly when `sendRequest` returned an error -/
theorem caseOf_refuse_iff (accepted : Bool) (answer : Option Kind) :
    caseOf accepted answer = .refuse ↔ accepted = false := by
  cases accepted <;> simp [caseOf]

/-! ### non-vacuity -/

/-- a server that ends at time 300; the loop tests at 0, 0, 1500: cases 0 and 1 are handed out,
case 2 is found dead -/
example : diesOf (LocalProc.hookAt { exit := some 300 }) [0, 0, 1500] = some 2 ∧
    [0, 0, 1500].Pairwise (· ≤ ·) := by decide

/-- a healthy server and a batch that lasts longer than the grace period of 5000 -/
example : diesOf (LocalProc.hookAt { exit := none }) [0, 0, 6500, 6500] = none ∧
    (LocalProc.result { exit := none } 5000 0) = (5000, false) := by decide

/-- the pipe to the client breaks in the middle of request 1 after the client has answered it:
`sendRequest` returns nil, one callback — balanced; request 2 is refused, no callback — balanced -/
def demoBreak : List ClientRunner.Event :=
  [.sStart 0, .sLock 0, .sRegister 0, .sWriteOk 0, .rRecv 0, .rLookup, .rFire,
   .sStart 1, .sLock 1, .sRegister 1, .rRecv 1, .rLookup, .rFire, .pExit 0, .sWriteFail 1,
   .rRecvEOF, .rCloseSend, .rDrain, .rDone, .sStart 2, .sLock 2]

example : let s := ClientRunner.run (fun i => i) ClientRunner.init demoBreak
    s.rpc = .done ∧ s.spc 1 = .ret .ok ∧ ClientRunner.Spec.cbsOf s 1 = [some 1] ∧
    s.spc 2 = .ret (.err .closed) ∧ ClientRunner.Spec.cbsOf s 2 = [] ∧
    wgBalance true 1 = 0 ∧ wgBalance false 0 = 0 ∧ wgBalance false 1 = -1 := by decide

def demo (cases : List Case) (dies : Option Nat) (resp : Resp) (tls : Bool) : Script :=
  { cases := cases, isRef := true, useTLS := tls, startErr := false, writeErr := false, closeErr := false,
    resp := resp, dies := dies, names := ["a".toList, "b".toList, "c".toList],
    stderr := "a: bad header\nnoise\n  b: x: y \n\nc:no\n".toList }

/-- server dies after 1 request: case 0 keeps its own verdict, cases 1 and 2 are set-up errors -/
example : (runBatch (demo [.answer .pass true, .answer .pass false, .answer .error false] (some 1) .ok false)).log
    = [(1, .setup), (2, .setup), (0, .pass)] := by decide

/-- client refuses case 1: case 0 answered (failed), cases 1, 2 could not be run; abort called twice -/
example : let o := runBatch (demo [.answer .mismatch false, .refuse, .answer .pass false] none .okcert true)
    o.log = [(0, .fail), (1, .norun), (2, .norun)] ∧ o.aborts = 2 := by decide

/-- TLS without certificate is a set-up fault: hypotheses of `faults_are_setup_errors` hold -/
example : setupFault (demo [.answer .pass false] none .ok true) = true := by decide
/-- truncated response -/
example : setupFault (demo [.answer .pass false] none (.cut 17 18) false) = true := by decide
/-- hypotheses of `answered_keep_verdict` / `after_fault_setup_errors` -/
example : setupFault (demo [.answer .pass true, .answer .pass false] (some 1) .ok false) = false ∧
    stopIdx (some 1) 0 [.answer .pass true, .answer .pass false] = 1 := by decide

/-- the stderr script of `demo`: two feedback lines attributed, two lines forwarded, one blank dropped -/
example : (runBatch (demo [.answer .pass false, .answer .pass false, .answer .pass false] none .ok false)).forwarded
      = ["noise\n".toList, "c:no\n".toList] ∧
    (runBatch (demo [.answer .pass false, .answer .pass false, .answer .pass false] none .ok false)).sideband
      = [("a".toList, "bad header".toList), ("b".toList, "x: y".toList)] := by decide

/-- hypotheses of `oversize_response_all_setup_errors` / `highbit_response_all_setup_errors`: a
server that prints a UTF-8 byte-order mark and text on its stdout -/
example : Delimited.Site.limit .server < Delimited.be32 [0xef, 0xbb, 0xbf, 0x4c] ∧ 128 ≤ (0xef : UInt8).toNat ∧
    (runBatch (demo [.answer .pass false, .answer .pass true] none
      (.stream [0xef, 0xbb, 0xbf, 0x4c, 0x69, 0x73] (some false)) false)).log = [(0, .setup), (1, .setup)] := by decide

/-- hypotheses of `short_response_all_setup_errors`: two bytes; a prefix announcing 5 bytes followed by 2 -/
example : ([0, 0] : List UInt8).length < 4 ∧ ([1, 2] : List UInt8).length < Delimited.be32 [0, 0, 0, 5] ∧
    setupFault (demo [.answer .pass false] none (.stream [0, 0] (some false)) false) = true ∧
    setupFault (demo [.answer .pass false] none (.stream [0, 0, 0, 5, 1, 2] (some false)) false) = true := by decide

/-- a well-formed frame is decided by decoding (`stream_response_decided`, first alternative) -/
example : respCert (.stream [0, 0, 0, 2, 9, 9, 7] (some true)) = some true := by decide

/-- hypotheses of `client_stream_cases` / `client_garbage_setup_errors`: one answer, then a prefix
with the top bit set: case 0 keeps its answer, cases 1 and 2 get "no result" -/
example : Framing.Fits (Delimited.Site.limit .client) [[1, 2]] ∧ Delimited.Site.limit .client < 2147483648 ∧
    casesOfClientStream 3 1 ([[1, 2]].flatMap Delimited.encode ++ (Delimited.putBe32 2147483648 ++ [7])) =
      [.answer .pass true, .answer .noresult true, .answer .noresult true] :=
  ⟨by intro m hm; simp at hm; subst hm; decide, by decide, by decide⟩

example : ∀ nm ∈ ["a".toList, "b".toList, "c".toList], noSep nm = true := by decide

end ConfModel.Props.C11
