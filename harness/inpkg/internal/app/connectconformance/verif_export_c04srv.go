//go:build verif

package connectconformance

import (
	"os"
	"path/filepath"

	conformancev1 "connectrpc.com/conformance/internal/gen/proto/go/connectrpc/conformance/v1"
)

// VerifC04SrvRun calls the real exported Run in mode SERVER: a server command under test, no client
// command, so that the in-process reference client (and the gRPC reference client) issue the RPCs.
// Returns Run's verdict, its error text, the lines of the log printer and of the error printer.
func VerifC04SrvRun(dir string, serverCommand []string, suiteYAML, cfgYAML string, knownFailing, knownFlaky []string, maxServers uint, verbose bool) (bool, string, []string, []string) {
	suitePath := filepath.Join(dir, "suite.yaml")
	cfgPath := filepath.Join(dir, "config.yaml")
	if err := os.WriteFile(suitePath, []byte(suiteYAML), 0o600); err != nil {
		return false, "verif: " + err.Error(), nil, nil
	}
	if err := os.WriteFile(cfgPath, []byte(cfgYAML), 0o600); err != nil {
		return false, "verif: " + err.Error(), nil, nil
	}
	logPrinter, errPrinter := &verifC04Printer{}, &verifC04Printer{}
	ok, err := Run(&Flags{
		ConfigFile:           cfgPath,
		TestFiles:            []string{suitePath},
		KnownFailingPatterns: knownFailing,
		KnownFlakyPatterns:   knownFlaky,
		ServerCommand:        serverCommand,
		MaxServers:           maxServers,
		Parallelism:          1,
		ServerBind:           "127.0.0.1",
		Verbose:              verbose,
	}, logPrinter, errPrinter)
	errText := ""
	if err != nil {
		errText = err.Error()
	}
	logPrinter.mu.Lock()
	defer logPrinter.mu.Unlock()
	errPrinter.mu.Lock()
	defer errPrinter.mu.Unlock()
	return ok, errText, append([]string{}, logPrinter.lines...), append([]string{}, errPrinter.lines...)
}

// VerifC04SrvBatches loads the suite and configuration exactly as Run does in mode SERVER and returns
// the selected permutations grouped into the server batches run() will spawn (reference client
// first, then the gRPC reference client; server instances sorted as with Verbose).
func VerifC04SrvBatches(suitePath string, suiteYAML, cfgYAML string) ([][]string, error) {
	suites, err := parseTestSuites(map[string][]byte{suitePath: []byte(suiteYAML)})
	if err != nil {
		return nil, err
	}
	cases, err := parseConfig("config.yaml", []byte(cfgYAML))
	if err != nil {
		return nil, err
	}
	lib, err := newTestCaseLibrary(suites, cases, conformancev1.TestSuite_TEST_MODE_SERVER)
	if err != nil {
		return nil, err
	}
	var out [][]string
	for _, clientIsGRPC := range []bool{false, true} {
		for _, inst := range serverInstancesSlice(lib, true) {
			tcs := lib.filterGRPCImplTestCases(lib.casesByServer[inst], clientIsGRPC, false)
			if len(tcs) == 0 {
				continue
			}
			names := make([]string, len(tcs))
			for i, tc := range tcs {
				names[i] = tc.Request.TestName
			}
			out = append(out, names)
		}
	}
	return out, nil
}
