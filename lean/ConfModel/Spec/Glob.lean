/-
Declarative glob semantics of test-name patterns (property C08): component by
component, literals equal, `*` exactly one component, `**` zero or more.
-/
namespace ConfModel.Glob

def starMatch (k : List String → Bool) : List String → Bool
  | [] => k []
  | n :: ns => k (n :: ns) || starMatch k ns

def globMatch : List String → List String → Bool
  | [], ns => ns.isEmpty
  | p :: ps, ns =>
    if p == "**" then starMatch (globMatch ps) ns
    else match ns with
      | [] => false
      | n :: ns' => (p == "*" || p == n) && globMatch ps ns'

end ConfModel.Glob
