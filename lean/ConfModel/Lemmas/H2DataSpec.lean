/-
The message tracer agrees with the declarative envelope parse (`specMsgs`): tracing a body —
in one piece or cut into DATA frames anyhow — and flushing at the end reports exactly the
messages of the body.
-/
import ConfModel.Lemmas.H2Data
import ConfModel.Lemmas.H2FrameSpec
set_option linter.unusedSimpArgs false
set_option linter.unusedVariables false
namespace ConfModel.H2
open Machine

def DEv.msg : DEv → Msg
  | .data e l => .data e l
  | .eos c => .eos c

/-- everything the tracer reports for a body: events while tracing, then `emitUnfinished` -/
def tracedMsgs (c : DCfg) (body : Bytes) : List Msg :=
  (dataTrace c DSt.init body).2.map DEv.msg ++ (dataFlush (dataTrace c DSt.init body).1).2.map DEv.msg

theorem flush_init : dataFlush DSt.init = (DSt.init, []) := by
  simp [dataFlush, DSt.init]

theorem dNeed_init : dNeed DSt.init = 5 := by simp [dNeed, DSt.init]

/-- state after a complete envelope prefix announcing a non-empty message -/
def afterPrefix (c : DCfg) (e : Env) : DSt :=
  { pfx := [], env := some e, expecting := e.len, actual := 0,
    eos := if !c.isReq && isEndFlag e.flags then some [] else none }

theorem complete_prefix (c : DCfg) (p : Bytes) :
    dComplete c DSt.init p =
      (if be32 (p.drop 1) = 0 then (DSt.init, [DEv.data (some ⟨(p.headD 0).toNat, be32 (p.drop 1)⟩) 0])
       else (afterPrefix c ⟨(p.headD 0).toNat, be32 (p.drop 1)⟩, [])) := by
  by_cases h : be32 (p.drop 1) = 0 <;> simp [dComplete, DSt.init, afterPrefix, h]

theorem complete_message (c : DCfg) (e : Env) (d : Bytes) (he : e.len ≠ 0) :
    dComplete c (afterPrefix c e) d =
      (DSt.init, DEv.data (some e) e.len ::
        (if (!c.isReq && isEndFlag e.flags) = true ∧ (c.dec.contentF e.flags d).isEmpty = false then [DEv.eos (c.dec.contentF e.flags d)] else [])) := by
  have hexp : ¬ (afterPrefix c e).expecting = 0 := he
  unfold dComplete
  rw [if_neg hexp]
  by_cases hf : (!c.isReq && isEndFlag e.flags) = true
  · cases h : (c.dec.contentF e.flags d).isEmpty <;> simp [afterPrefix, DSt.init, hf, h]
  · simp [afterPrefix, DSt.init, hf]

theorem afterPrefix_inv (c : DCfg) (e : Env) (he : e.len ≠ 0) (hl : e.len < two32) : DInv (afterPrefix c e) := by
  refine ⟨by simp [afterPrefix], fun h => absurd h he, fun _ => ⟨?_, hl⟩⟩
  show 0 < e.len
  omega

theorem dNeed_afterPrefix (c : DCfg) (e : Env) (he : e.len ≠ 0) (hl : e.len < two32) : dNeed (afterPrefix c e) = e.len := by
  rw [dNeed_eq _ (afterPrefix_inv c e he hl) he]
  simp [afterPrefix]

/-- the declarative parse, one envelope further -/
theorem spec_unfold (isReq : Bool) (dec : DecKind) (fuel : Nat) (p rest : Bytes) (hp : p.length = 5) :
    specMsgsAux isReq dec (fuel+1) (p ++ rest) =
      (if rest.length < be32 (p.drop 1) then (if rest.isEmpty then [] else [Msg.data (some ⟨(p.headD 0).toNat, be32 (p.drop 1)⟩) rest.length])
       else
        Msg.data (some ⟨(p.headD 0).toNat, be32 (p.drop 1)⟩) (be32 (p.drop 1)) ::
          (if !isReq && isEndFlag (p.headD 0).toNat && be32 (p.drop 1) != 0 && !(dec.contentF (p.headD 0).toNat (rest.take (be32 (p.drop 1)))).isEmpty
            then [Msg.eos (dec.contentF (p.headD 0).toNat (rest.take (be32 (p.drop 1))))] else []) ++
          specMsgsAux isReq dec fuel (rest.drop (be32 (p.drop 1)))) := by
  match p, hp with
  | [a, b, c, d, e], _ =>
    simp [specMsgsAux]
    intro h; omega

/-- a call that starts with a complete 5-byte prefix -/
theorem run_prefix (c : DCfg) (p rest : Bytes) (hp : p.length = 5) :
    (dataMachine c).run DSt.init (p ++ rest) = comb (dComplete c DSt.init p) (fun s' => (dataMachine c).run s' rest) := by
  have law := data_lawful c
  rw [run_append law DSt.init p rest DInv_init,
    run_exact law DSt.init p DInv_init rfl (by show _ = dNeed DSt.init; rw [dNeed_init, hp])]
  rfl

/-- a call that starts with the complete payload of the announced message -/
theorem run_message (c : DCfg) (e : Env) (he : e.len ≠ 0) (hl : e.len < two32) (m rest : Bytes) (hm : m.length = e.len) :
    (dataMachine c).run (afterPrefix c e) (m ++ rest) =
      comb (dComplete c (afterPrefix c e) m) (fun s' => (dataMachine c).run s' rest) := by
  have law := data_lawful c
  have hinv := afterPrefix_inv c e he hl
  rw [run_append law _ m rest hinv,
    run_exact law _ m hinv rfl (by show _ = dNeed _; rw [dNeed_afterPrefix c e he hl, hm])]
  rfl

theorem run_init_spec (c : DCfg) : ∀ (fuel : Nat) (body : Bytes), body.length < fuel →
    ((dataMachine c).run DSt.init body).2.map DEv.msg ++ (dataFlush ((dataMachine c).run DSt.init body).1).2.map DEv.msg
      = specMsgsAux c.isReq c.dec fuel body
  | 0, _, h => by omega
  | fuel+1, body, hlen => by
    by_cases h5 : body.length < 5
    · -- nothing, or a cut prefix
      by_cases hb : body = []
      · subst hb
        simp [specMsgsAux, run_nil, flush_init]
      · rw [run_short (dataMachine c) DSt.init body rfl hb (by show body.length < dNeed DSt.init; rw [dNeed_init]; exact h5)]
        have hpos : 0 < body.length := by cases body <;> simp_all
        have hemp : body.isEmpty = false := by cases body <;> simp_all
        simp [specMsgsAux, hemp, h5, dataMachine, dAbsorb, DSt.init, dataFlush, hpos, DEv.msg]
    · -- a complete prefix
      obtain ⟨p, rest, hbody, hp⟩ : ∃ p rest, body = p ++ rest ∧ p.length = 5 :=
        ⟨body.take 5, body.drop 5, (List.take_append_drop 5 body).symm, by simp only [List.length_take]; omega⟩
      subst hbody
      have hlt : be32 (p.drop 1) < two32 := be32_lt _ (by simp only [List.length_drop]; omega)
      rw [spec_unfold c.isReq c.dec fuel p rest hp, run_prefix c p rest hp, complete_prefix]
      simp only [List.length_append] at hlen
      generalize be32 (p.drop 1) = L at *
      generalize (p.headD 0).toNat = fl at *
      by_cases hz : L = 0
      · -- empty message
        have ih := run_init_spec c fuel rest (by omega)
        simp only [hz, if_true, comb, Nat.not_lt_zero, if_false, List.drop_zero, bne_self_eq_false, Bool.and_false,
          Bool.false_and, Bool.false_eq_true, List.nil_append, List.map_append, List.map_cons, List.map_nil, DEv.msg,
          List.append_assoc, List.cons_append]
        rw [ih]
      · simp only [if_neg hz, comb, List.nil_append]
        by_cases hr : rest.length < L
        · -- the message is cut
          rw [if_pos hr]
          by_cases hre : rest = []
          · subst hre
            simp [run_nil, dataFlush, afterPrefix, hz]
          · rw [run_short (dataMachine c) _ rest rfl hre (by show _ < dNeed _; rw [dNeed_afterPrefix c _ hz hlt]; exact hr)]
            have hpos : 0 < rest.length := by cases rest <;> simp_all
            have hemp : rest.isEmpty = false := by cases rest <;> simp_all
            have hne0 : ¬ rest.length = 0 := by omega
            have hexp : ¬ (afterPrefix c ⟨fl, L⟩).expecting = 0 := hz
            simp only [dataMachine, dAbsorb, if_neg hexp, dataFlush, List.map_nil, List.nil_append, hemp,
              Bool.false_eq_true, if_false]
            simp [afterPrefix, hz, hpos, DEv.msg]
        · -- the message is complete
          rw [if_neg hr]
          obtain ⟨m, rest', hrest, hm⟩ : ∃ m rest', rest = m ++ rest' ∧ m.length = L :=
            ⟨rest.take L, rest.drop L, (List.take_append_drop _ rest).symm, by simp only [List.length_take]; omega⟩
          subst hrest
          simp only [List.length_append] at hlen
          have ih := run_init_spec c fuel rest' (by omega)
          have ht : (m ++ rest').take L = m := by rw [← hm]; simp
          have hd : (m ++ rest').drop L = rest' := by rw [← hm]; simp
          rw [run_message c ⟨fl, L⟩ hz hlt m rest' hm, complete_message c _ _ hz, ht, hd]
          simp only [comb, List.map_append, List.map_cons, DEv.msg, List.append_assoc, List.cons_append]
          rw [ih]
          have hnz : (L != 0) = true := by simp [hz]
          congr 1
          congr 1
          by_cases hf : (!c.isReq && isEndFlag fl) = true
          · cases hcont : (c.dec.contentF fl m).isEmpty <;> simp [hf, hcont, hnz, DEv.msg]
          · have hf' : (!c.isReq && isEndFlag fl) = false := by simpa using hf
            simp [hf', hf]

/-- **The tracer reports the messages of the body** (enveloped and plain protocols). -/
theorem tracedMsgs_eq_spec (c : DCfg) (body : Bytes) : tracedMsgs c body = specMsgs c body := by
  unfold tracedMsgs specMsgs
  by_cases hc : c.isStream = true
  · rw [dataTrace_eq_run c hc _ DInv_init, if_pos hc]
    exact run_init_spec c (body.length + 1) body (by omega)
  · have hc' : c.isStream = false := by simpa using hc
    simp only [dataTrace, hc', Bool.not_false, if_true, Bool.false_eq_true, if_false, List.map_nil, List.nil_append,
      dataFlush, DSt.init]
    by_cases hb : body.isEmpty = true
    · have : body = [] := by cases body <;> simp_all
      subst this; simp
    · have hpos : 0 < body.length := by cases body <;> simp_all
      simp [hb, hpos, DEv.msg]

/-- one `trace` call per DATA frame -/
def dataTraceAll (c : DCfg) (s : DSt) : List Bytes → DSt × List DEv
  | [] => (s, [])
  | d :: ds => comb (dataTrace c s d) (fun s' => dataTraceAll c s' ds)

theorem dataTrace_nil (c : DCfg) (s : DSt) : dataTrace c s [] = (s, []) := by
  by_cases hc : c.isStream = true <;> simp [dataTrace, hc]

theorem dataTraceAll_eq (c : DCfg) : ∀ (ds : List Bytes) (s : DSt), (c.isStream = true → DInv s) →
    dataTraceAll c s ds = dataTrace c s ds.flatten
  | [], s, _ => by simp [dataTraceAll, dataTrace_nil]
  | d :: ds, s, hi => by
    by_cases hc : c.isStream = true
    · have hi' := hi hc
      have hinv : DInv (dataTrace c s d).1 := by
        rw [dataTrace_eq_run c hc s hi' d]; exact inv_run' (data_lawful c) s d hi'
      simp only [dataTraceAll, List.flatten_cons]
      rw [dataTrace_append c s hi' d ds.flatten]
      simp only [comb]
      rw [dataTraceAll_eq c ds _ (fun _ => hinv)]
    · have hc' : c.isStream = false := by simpa using hc
      have ih := dataTraceAll_eq c ds (dataTrace c s d).1 (fun h => absurd h hc)
      simp only [dataTraceAll, List.flatten_cons, comb, ih]
      simp [dataTrace, hc', Nat.add_assoc]

end ConfModel.H2
