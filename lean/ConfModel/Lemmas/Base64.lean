/-
The concrete base64 of `Model/Base64.lean` (the instance of the `B64` parameter that the C18
driver runs) is lawful: decoding an encoding returns the bytes.
-/
import ConfModel.Model.Base64
namespace ConfModel.Base64

theorem decChar_encChar : ∀ n : Fin 64, decChar (encChar n.val) = some n.val := by decide

theorem encChar_ne_pad : ∀ n : Fin 64, (encChar n.val == 61) = false := by decide

theorem sextets_lt (l : List Nat) (h : ∀ a ∈ l, a < 256) : ∀ s ∈ sextets l, s < 64 := by
  fun_induction sextets l with
  | case1 a b c t ih =>
    have ha := h a (by simp); have hb := h b (by simp); have hc := h c (by simp)
    intro s hs
    simp only [List.mem_cons] at hs
    rcases hs with rfl | rfl | rfl | rfl | hs
    · omega
    · omega
    · omega
    · omega
    · exact ih (fun x hx => h x (by simp [hx])) s hs
  | case2 a b =>
    have ha := h a (by simp); have hb := h b (by simp)
    intro s hs
    simp only [List.mem_cons, List.not_mem_nil, or_false] at hs
    rcases hs with rfl | rfl | rfl <;> omega
  | case3 a =>
    have ha := h a (by simp)
    intro s hs
    simp only [List.mem_cons, List.not_mem_nil, or_false] at hs
    rcases hs with rfl | rfl <;> omega
  | case4 => intro s hs; simp at hs

theorem unsextets_sextets (l : List Nat) (h : ∀ a ∈ l, a < 256) : unsextets (sextets l) = some l := by
  fun_induction sextets l with
  | case1 a b c t ih =>
    have ha := h a (by simp); have hb := h b (by simp); have hc := h c (by simp)
    simp only [unsextets, ih (fun x hx => h x (by simp [hx])), Option.map_some]
    congr 2
    · omega
    · congr 1
      · omega
      · congr 1; omega
  | case2 a b =>
    have ha := h a (by simp); have hb := h b (by simp)
    simp only [unsextets]
    congr 2
    · omega
    · congr 1; omega
  | case3 a =>
    have ha := h a (by simp)
    simp only [unsextets]
    congr 2; omega
  | case4 => rfl

theorem mapM_dec_enc (sx : List Nat) (h : ∀ s ∈ sx, s < 64) : mapM? decChar (sx.map encChar) = some sx := by
  induction sx with
  | nil => rfl
  | cons s t ih =>
    have hs := h s (by simp)
    have := decChar_encChar ⟨s, hs⟩
    simp only at this
    simp [mapM?, this, ih (fun x hx => h x (by simp [hx]))]

theorem dropPadRev_id (l : Bytes) (h : ∀ c ∈ l, (c == 61) = false) : dropPadRev l = l := by
  match l with
  | [] => rfl
  | [a] => simp [dropPadRev, h a (by simp)]
  | a :: b :: t => simp [dropPadRev, h a (by simp)]

theorem toNat_lt (x : Bytes) : ∀ a ∈ x.map (·.toNat), a < 256 := by
  intro a ha
  simp only [List.mem_map] at ha
  obtain ⟨b, _, rfl⟩ := ha
  exact UInt8.toNat_lt b

theorem enc_no_pad (x : Bytes) : ∀ c ∈ encode x, (c == 61) = false := by
  intro c hc
  simp only [encode, List.mem_map] at hc
  obtain ⟨s, hs, rfl⟩ := hc
  exact encChar_ne_pad ⟨s, sextets_lt _ (toNat_lt x) s hs⟩

theorem decodeRaw_encode (x : Bytes) : decodeRaw (encode x) = some x := by
  unfold decodeRaw encode
  rw [mapM_dec_enc _ (sextets_lt _ (toNat_lt x))]
  simp only [unsextets_sextets _ (toNat_lt x), Option.map_some, List.map_map]
  congr 1
  conv => rhs; rw [← List.map_id x]
  apply List.map_congr_left
  intro b _
  simp

theorem stripPad_encode (x : Bytes) : stripPad (encode x) = encode x := by
  unfold stripPad
  rw [dropPadRev_id _ (by intro c hc; exact enc_no_pad x c (by simpa using hc))]
  simp

/-- `connect.DecodeBinaryHeader (connect.EncodeBinaryHeader x) = x` in the model -/
theorem decode_encode (x : Bytes) : decode (encode x) = some x := by
  unfold decode
  split
  · exact decodeRaw_encode x
  · rw [stripPad_encode]; exact decodeRaw_encode x

/-! ### the GET `message` parameter: URL-safe, padded -/

def swapURL (c : UInt8) : UInt8 := if c == 43 then 45 else if c == 47 then 95 else c

theorem swap_encChar : ∀ n : Fin 64, unswapURL (swapURL (encChar n.val)) = encChar n.val ∧
    (swapURL (encChar n.val) == 61) = false := by decide

theorem dropPadRev_pad (l : Bytes) (h : ∀ c ∈ l, (c == 61) = false) :
    dropPadRev l = l ∧ dropPadRev (61 :: l) = l ∧ dropPadRev (61 :: 61 :: l) = l := by
  refine ⟨dropPadRev_id l h, ?_, by simp [dropPadRev]⟩
  match l, h with
  | [], _ => simp [dropPadRev]
  | b :: t, h => simp [dropPadRev, h b (by simp)]

theorem decodeURLPadded_encode (x : Bytes) : decodeURLPadded (encodeURLPadded x) = some x := by
  unfold decodeURLPadded encodeURLPadded
  have hsw : (fun c : UInt8 => if c == 43 then 45 else if c == 47 then 95 else c) = swapURL := rfl
  simp only [hsw]
  generalize he : (encode x).map swapURL = e
  have hmem : ∀ c ∈ e, ∃ n : Fin 64, c = swapURL (encChar n.val) := by
    intro c hc
    rw [← he] at hc
    simp only [encode, List.mem_map] at hc
    obtain ⟨_, ⟨s, hs, rfl⟩, rfl⟩ := hc
    exact ⟨⟨s, sextets_lt _ (toNat_lt x) s hs⟩, rfl⟩
  have hno : ∀ c ∈ e.reverse, (c == 61) = false := by
    intro c hc
    obtain ⟨n, rfl⟩ := hmem c (by simpa using hc)
    exact (swap_encChar n).2
  obtain ⟨h0, h1, h2⟩ := dropPadRev_pad e.reverse hno
  have hstrip : stripPad (e ++ (if e.length % 4 == 2 then [61, 61] else if e.length % 4 == 3 then [61] else [])) = e := by
    unfold stripPad
    split
    · simp [h2]
    · split
      · simp [h1]
      · simp [h0]
  rw [hstrip, ← he, List.map_map]
  have : (encode x).map (unswapURL ∘ swapURL) = encode x := by
    conv => rhs; rw [← List.map_id (encode x)]
    apply List.map_congr_left
    intro c hc
    simp only [encode, List.mem_map] at hc
    obtain ⟨s, hs, rfl⟩ := hc
    exact (swap_encChar ⟨s, sextets_lt _ (toNat_lt x) s hs⟩).1
  rw [this]
  exact decodeRaw_encode x

/-! ### the URL-safe alphabet, strict decoders (padded and raw) -/

theorem encCharURL_swap : ∀ n : Fin 64, encCharURL n.val = swapURL (encChar n.val) := by decide

theorem decCharURL_encCharURL : ∀ n : Fin 64, decCharURL (encCharURL n.val) = some n.val := by decide

theorem encCharURL_ne_pad : ∀ n : Fin 64, (encCharURL n.val == 61) = false := by decide

/-- the two alphabets differ on the characters for 62 and 63 only, and each decoder rejects the
other alphabet's two characters and `=` -/
theorem alphabets_differ : ∀ n : Fin 64,
    (encCharURL n.val = encChar n.val ∨
      (n.val = 62 ∧ encChar n.val = 43 ∧ encCharURL n.val = 45) ∨
      (n.val = 63 ∧ encChar n.val = 47 ∧ encCharURL n.val = 95)) ∧
    encCharURL n.val ≠ 43 ∧ encCharURL n.val ≠ 47 ∧ encChar n.val ≠ 45 ∧ encChar n.val ≠ 95 := by decide

theorem dec_rejects : decCharURL 43 = none ∧ decCharURL 47 = none ∧ decCharURL 61 = none ∧
    decChar 45 = none ∧ decChar 95 = none ∧ decChar 61 = none := by decide

theorem encodeURLRaw_eq_map (x : Bytes) : encodeURLRaw x = (encode x).map swapURL := by
  unfold encodeURLRaw encode
  rw [List.map_map]
  apply List.map_congr_left
  intro s hs
  exact encCharURL_swap ⟨s, sextets_lt _ (toNat_lt x) s hs⟩

theorem mapM_decURL_enc (sx : List Nat) (h : ∀ s ∈ sx, s < 64) :
    mapM? decCharURL (sx.map encCharURL) = some sx := by
  induction sx with
  | nil => rfl
  | cons s t ih =>
    have hs := h s (by simp)
    have := decCharURL_encCharURL ⟨s, hs⟩
    simp only at this
    simp [mapM?, this, ih (fun x hx => h x (by simp [hx]))]

theorem decodeURLRaw_encodeURLRaw (x : Bytes) : decodeURLRaw (encodeURLRaw x) = some x := by
  unfold decodeURLRaw decodeRawWith encodeURLRaw
  rw [mapM_decURL_enc _ (sextets_lt _ (toNat_lt x))]
  simp only [unsextets_sextets _ (toNat_lt x), Option.map_some, List.map_map]
  congr 1
  conv => rhs; rw [← List.map_id x]
  apply List.map_congr_left
  intro b _
  simp

theorem encURL_no_pad (x : Bytes) : ∀ c ∈ encodeURLRaw x, (c == 61) = false := by
  intro c hc
  simp only [encodeURLRaw, List.mem_map] at hc
  obtain ⟨s, hs, rfl⟩ := hc
  exact encCharURL_ne_pad ⟨s, sextets_lt _ (toNat_lt x) s hs⟩

theorem stripPad_padded (e : Bytes) (h : ∀ c ∈ e, (c == 61) = false) : stripPad (e ++ padding e.length) = e := by
  have hno : ∀ c ∈ e.reverse, (c == 61) = false := by intro c hc; exact h c (by simpa using hc)
  obtain ⟨h0, h1, h2⟩ := dropPadRev_pad e.reverse hno
  unfold stripPad padding
  split
  · simp [h2]
  · split
    · simp [h1]
    · simp [h0]

theorem stripPad_noPad (e : Bytes) (h : ∀ c ∈ e, (c == 61) = false) : stripPad e = e := by
  unfold stripPad
  rw [dropPadRev_id _ (by intro c hc; exact h c (by simpa using hc))]
  simp

/-- connect-go's reader returns the bytes for the padded encoding (raw_request.go) -/
theorem binaryQueryRead_encodeURL (x : Bytes) : binaryQueryRead (encodeURL x) = some x := by
  unfold binaryQueryRead encodeURL decodePaddedWith
  by_cases hl : ((encodeURLRaw x ++ padding (encodeURLRaw x).length).length % 4 != 0) = true
  · -- not a multiple of four: nothing was appended
    have hp : padding (encodeURLRaw x).length = [] := by
      unfold padding
      simp only [List.length_append, bne_iff_ne, ne_eq] at hl
      unfold padding at hl
      split
      · rename_i h2; simp only [h2, ↓reduceIte, List.length_cons, List.length_nil] at hl
        have : (encodeURLRaw x).length % 4 = 2 := by simpa using h2
        omega
      · split
        · rename_i h2 h3; simp only [h2, h3, ↓reduceIte] at hl
          have : (encodeURLRaw x).length % 4 = 3 := by simpa using h3
          exfalso; revert hl; simp only [Bool.false_eq_true, ↓reduceIte, List.length_cons, List.length_nil]; omega
        · rfl
    simp only [hp, List.append_nil] at hl ⊢
    simp only [hl, ↓reduceIte]
    exact decodeURLRaw_encodeURLRaw x
  · simp only [hl, Bool.false_eq_true, ↓reduceIte]
    rw [stripPad_padded _ (encURL_no_pad x)]
    exact decodeURLRaw_encodeURLRaw x

/-- ... and for the unpadded encoding (connect-go's own client) -/
theorem binaryQueryRead_encodeURLRaw (x : Bytes) : binaryQueryRead (encodeURLRaw x) = some x := by
  unfold binaryQueryRead decodePaddedWith
  split
  · exact decodeURLRaw_encodeURLRaw x
  · rw [stripPad_noPad _ (encURL_no_pad x)]
    exact decodeURLRaw_encodeURLRaw x

theorem sextets_length_mod (l : List Nat) : (sextets l).length % 4 ≠ 1 := by
  fun_induction sextets l with
  | case1 a b c t ih => simp only [List.length_cons]; omega
  | case2 a b => simp
  | case3 a => simp
  | case4 => simp

theorem encodeURL_length (x : Bytes) : (encodeURL x).length % 4 = 0 := by
  have h1 := sextets_length_mod (x.map (·.toNat))
  have hl : (encodeURLRaw x).length = (sextets (x.map (·.toNat))).length := by simp [encodeURLRaw]
  unfold encodeURL padding
  rw [List.length_append, hl]
  split
  · rename_i h2
    have : (sextets (x.map (·.toNat))).length % 4 = 2 := by simpa using h2
    simp only [List.length_cons, List.length_nil]; omega
  · split
    · rename_i h3
      have : (sextets (x.map (·.toNat))).length % 4 = 3 := by simpa using h3
      simp only [List.length_cons, List.length_nil]; omega
    · rename_i h2 h3
      have h2' : ¬ (sextets (x.map (·.toNat))).length % 4 = 2 := by simpa using h2
      have h3' : ¬ (sextets (x.map (·.toNat))).length % 4 = 3 := by simpa using h3
      simp only [List.length_nil]; omega

theorem decodePadded_encodeURL (x : Bytes) : decodePaddedWith decCharURL (encodeURL x) = some x := by
  unfold decodePaddedWith
  have hl := encodeURL_length x
  have : ((encodeURL x).length % 4 != 0) = false := by simp [hl]
  simp only [this, Bool.false_eq_true, ↓reduceIte]
  unfold encodeURL
  rw [stripPad_padded _ (encURL_no_pad x)]
  exact decodeURLRaw_encodeURLRaw x

end ConfModel.Base64
