import ConfModel.Driver.Common
import ConfModel.Model.TracerSlots
import ConfModel.Model.Builder
import ConfModel.Spec.Handoff
import ConfModel.Spec.HandoffGlue
import ConfModel.Model.H2Teardown
import ConfModel.Driver.C16Init
import ConfModel.Model.WireAsync
namespace ConfModel.Driver.C16
open Lean ConfModel.Driver ConfModel ConfModel.Handoff

/-! ### Tracer slots -/

def parseSlotOp (s : String) : Option TracerSlots.Op :=
  match s.splitOn ":" with
  | ["i", n] => some (.init n)
  | ["x", n] => some (.clear n)
  | ["c", n, t] => t.toNat?.map (.complete n)
  | ["a", w, n] => w.toNat?.map (fun w => .await w n)
  | ["j", w] => w.toNat?.map .join
  | ["p", w] => w.toNat?.map .peek
  | ["k", w] => w.toNat?.map .ctx
  | _ => none

def parseSlotOps (l : List String) : Option (List TracerSlots.Op) := l.mapM parseSlotOp

def renderObs : TracerSlots.Obs → String
  | .none => ""
  | .err => "err"
  | .trace t => s!"t{t}"
  | .waiting => "waiting"
  | .ctxErr => "ctx"
  | .busy => "busy"
  | .idle => "idle"

def renderSets (l : List (List TracerSlots.Obs)) : List (List String) := l.map (·.map renderObs)

/-- every observed outcome is one of the admissible ones at its position -/
def within (obs : List String) (sets : List (List String)) : Bool :=
  obs.length == sets.length && (obs.zip sets).all (fun p => p.2.contains p.1)

/-- a nil `*Tracer`: nothing is stored, every Await fails at once -/
def nilObs (ops : List TracerSlots.Op) : List (List TracerSlots.Obs) :=
  ops.map fun
    | .await _ _ => [.err]
    | .join _ | .peek _ | .ctx _ => [.idle]
    | _ => [.none]

def slotsNontrivial (ops : List TracerSlots.Op) : Bool :=
  ops.any (fun o => match o with | .complete _ _ => true | _ => false) &&
  ops.any (fun o => match o with | .await _ _ => true | _ => false)

def firstMismatch (obs : List String) (sets : List (List String)) : String :=
  match ((obs.zip sets).zipIdx.find? (fun p => !(p.1.2.contains p.1.1))) with
  | some p => s!"position {p.2}: observed '{p.1.1}', allowed {p.1.2}"
  | none => s!"{obs.length} observations for {sets.length} operations"

/-! ### builder -/

def parseKind : String → Option Builder.Kind
  | "reqData" => some .reqData | "reqEnd" => some .reqEnd | "reqEndErr" => some .reqEndErr
  | "respStart" => some .respStart | "respErr" => some .respErr | "respData" => some .respData
  | "respEos" => some .respEos | "respEnd" => some .respEnd | "respEndErr" => some .respEndErr
  | "cancel" => some .cancel | _ => none

def kindName : Builder.Kind → String
  | .reqData => "reqData" | .reqEnd => "reqEnd" | .reqEndErr => "reqEndErr" | .respStart => "respStart"
  | .respErr => "respErr" | .respData => "respData" | .respEos => "respEos" | .respEnd => "respEnd"
  | .respEndErr => "respEndErr" | .cancel => "cancel"

/-- ops of one thread; the id of the event at position `i` is `base + i` -/
def parseBuilderOps (base : Nat) (l : List String) : Option (List Builder.Op) :=
  l.zipIdx.mapM fun p => if p.1 == "build" then some Builder.Op.build else (parseKind p.1).map (fun k => Builder.Op.add k (base + p.2))

def renderItem (it : Builder.Item) : String :=
  kindName it.kind ++ "#" ++ toString it.id ++ (match it.index with | some i => "@" ++ toString i | none => "")

def renderDeliveries (d : List (List Builder.Item)) : List (List String) := d.map (·.map renderItem)

def implCompletions (impl : Json) : List (List String) := (arr (field impl "completions")).map strList

/-- kind of a rendered middleware event (the canonical strings of `VerifBodyEvents`) -/
def kindOfRendered (e : String) : Builder.Kind :=
  if e.startsWith "qd:" then .reqData
  else if e == "qe:nil" then .reqEnd
  else if e.startsWith "qe:" then .reqEndErr
  else if e == "P" then .respStart
  else if e == "PX" then .respErr
  else if e.startsWith "pd:" then .respData
  else if e.startsWith "ps:" then .respEos
  else if e == "pe:nil" then .respEnd
  else if e.startsWith "pe:" then .respEndErr
  else .cancel

/-- the traces the builder model delivers when a `RequestCanceled` is added at any point of the
event sequence `ref` of the uncancelled session (the cancel goroutine is not ordered with the
body events) -/
def cancelOutcomes (ref : List String) (build : Bool) : List (List String) :=
  let adds := ref.zipIdx.map (fun p => Builder.Op.add (kindOfRendered p.1) p.2)
  let n := ref.length
  let arr := ref.toArray
  (List.range (n + 1)).map fun k =>
    let ops := adds.take k ++ [Builder.Op.add .cancel n] ++ adds.drop k ++ (if build then [Builder.Op.build] else [])
    match (Builder.exec (Builder.init true) ops).2 with
    | [d] => d.map (fun it => if it.id == n then "QC" else arr[it.id]?.getD "?")
    | _ => ["<not exactly one delivery>"]

def cancelVerdict (impl : Json) (build : Bool) : Verdict :=
  let ref := (strList (field impl "ref")).filter (· != "Q")
  let got := (strList (field impl "got")).filter (· != "Q")
  let completions := nat (field impl "completions")
  let set := cancelOutcomes ref build
  -- the property itself: one delivery; nothing recorded after the finishing event; what is
  -- recorded is what happened before it, in order
  let cut := (got.takeWhile (· != "QC"))
  let holds := completions == 1 && (got == ref || (got == cut ++ ["QC"] && ref.take cut.length == cut))
  { agree := completions == 1 && set.contains got, holds := holds, nontrivial := got != ref,
    model := toJson set.length, cls := if got == ref then "cancel-too-late" else "cancelled",
    why := if holds then "" else s!"{completions} deliveries; trace {got}; uncancelled session {ref}" }

/-! ### the runner's consumer (`testResults.fetchTrace`), op `results` -/

structure RScript where
  /-- the tracer operations of the script in the order in which they take effect: those of the
  main goroutine first, the delayed completions after them, by delay -/
  base : List TracerSlots.Op
  /-- name, kind, number of `base` operations that precede the outcome -/
  outcomes : List (String × String × Nat)

def insertByMs (x : Nat × TracerSlots.Op) : List (Nat × TracerSlots.Op) → List (Nat × TracerSlots.Op)
  | [] => [x]
  | y :: ys => if x.1 < y.1 then x :: y :: ys else y :: insertByMs x ys

structure RAcc where
  seq : List TracerSlots.Op := []
  delayed : List (Nat × TracerSlots.Op) := []
  outcomes : List (String × String × Nat) := []
  ok : Bool := true

def parseResults (steps : List String) : Option RScript :=
  let acc := steps.foldl (fun (a : RAcc) s =>
    match s.splitOn ":" with
    | ["i", n] => { a with seq := a.seq ++ [.init n] }
    | ["x", n] => { a with seq := a.seq ++ [.clear n] }
    | ["c", n, t] => match t.toNat? with
      | some t => { a with seq := a.seq ++ [.complete n t] }
      | none => { a with ok := false }
    | ["d", n, t, ms] => match t.toNat?, ms.toNat? with
      | some t, some ms => { a with delayed := insertByMs (ms, .complete n t) a.delayed }
      | _, _ => { a with ok := false }
    | ["o", n, k] => { a with outcomes := a.outcomes ++ [(n, k, a.seq.length)] }
    | ["s", _] => a
    | _ => { a with ok := false }) {}
  let names := acc.outcomes.map (·.1)
  if acc.ok && names.eraseDups.length == names.length then
    some ⟨acc.seq ++ acc.delayed.map (·.2), acc.outcomes⟩
  else none

/-- everything the waiter of an outcome may collect: its Await begins at some point after the
outcome was recorded (it is a goroutine of its own), `report()` joins it at the end -/
def alternatives (f : TracerSlots.Name → List TracerSlots.Op → List TracerSlots.Op → Option Nat × Bool)
    (base : List TracerSlots.Op) (n : String) (i : Nat) : List (Option Nat × Bool) :=
  ((List.range (base.length - i + 1)).map fun d => f n (base.take (i + d)) (base.drop (i + d))).eraseDups

def encTrace : Option Nat → Int
  | none => -1
  | some t => (t : Int)

def resultsVerdict (inp impl : Json) : Verdict :=
  match parseResults (strList (field inp "steps")) with
  | none => bad "unparsable results script"
  | some sc =>
    let cases := arr (field impl "cases")
    let report := str (field impl "report")
    let caseOf (n : String) : Json := (cases.find? (fun c => str (field c "name") == n)).getD Json.null
    -- per outcome: the admissible alternatives that match what the report showed
    -- `strict` (model side): the duration class of report() must be the model's; otherwise (the
    -- property): no wait outlives its context, and nobody waits for a deadline unless some waiter
    -- has nothing to obtain (returning early from a wait that could only time out loses nothing)
    let judge (f : TracerSlots.Name → List TracerSlots.Op → List TracerSlots.Op → Option Nat × Bool) (strict : Bool) :
        Bool × String :=
      let per := sc.outcomes.zipIdx.map fun ((n, k, i), j) =>
        let c := caseOf n
        let printed := int (field c "printed")
        let stored := int (field c "stored")
        let failed := bool (field c "failed")
        let alts := alternatives (fun n b a => f n b a) sc.base n i
        let _ := j
        let m := if k == "pass" then (if !failed && printed == -1 && stored == -1 then alts else [])
                 else if failed && (!strict || stored == printed) then alts.filter (fun a => encTrace a.1 == printed) else []
        (n, alts, m)
      let allMatch := per.all (fun p => !p.2.2.isEmpty)
      let promptOK := per.all (fun p => p.2.2.any (fun a => !a.2))
      let timeoutOK := allMatch && per.any (fun p => p.2.2.any (fun a => a.2))
      let ok := allMatch && ((report == "prompt" && (promptOK || !strict)) || (report == "timeout" && timeoutOK))
      let why :=
        if ok then "" else
        match per.find? (fun p => p.2.2.isEmpty) with
        | some (n, alts, _) =>
          let c := caseOf n
          let want : List Int := alts.map (fun (a : Option Nat × Bool) => encTrace a.1)
          s!"case {n}: the report shows trace {int (field c "printed")} (kept {int (field c "stored")}, failed={bool (field c "failed")}); the waiter must collect one of {want} (-1 = none)"
        | none => s!"report() returned '{report}' although " ++
            (if report == "late" then "no wait may outlive its context"
             else if report == "timeout" then "no waiter has to wait for its deadline"
             else "a waiter has to wait for its deadline")
      (ok, why)
    let model := judge (fun n b a => TracerSlots.collects 100 n b a) true
    let spec := judge collectSpec false
    -- a waiter that finds nothing to wait for, or obtains its trace, returns at once; one that
    -- waits in vain is released by its context: the report is never late
    { agree := model.1, holds := spec.1,
      nontrivial := sc.base.any (fun o => match o with | .complete _ _ => true | _ => false),
      model := toJson (sc.outcomes.map fun (n, _, i) => (alternatives (fun n b a => TracerSlots.collects 100 n b a) sc.base n i).map (fun (a : Option Nat × Bool) => encTrace a.1)),
      cls := "results:" ++ report,
      why := if !spec.1 then "runner's waiter: " ++ spec.2 else model.2 }

/-! ### the reference client's per-call hand-off, op `wire` -/

def parseWireOp (s : String) : Option WireHandoff.Op :=
  match s.splitOn ":" with
  | ["w", k] => k.toNat?.map .begin
  | ["x", k] => k.toNat?.map .ctxDone
  | ["c", k, t] => match k.toNat?, t.toNat? with
    | some k, some t => some (.complete k t)
    | _, _ => none
  | ["g", k] => k.toNat?.map .grace
  | ["j", k] => k.toNat?.map .join
  | ["p", k] => k.toNat?.map .peek
  | _ => none

def renderWireObs : WireHandoff.Obs → String
  | .none => ""
  | .trace t => s!"t{t}"
  | .waiting => "waiting"
  | .notFound => "nf"
  | .notConfigured => "nc"
  | .busy => "busy"
  | .idle => "idle"
  | .panic => "panic"

/-- the class of a wire script, for the evidence: how the first wait that has to wait ends, and
whether the context of its call was already done when it began -/
def wireClass (ctx : List String) (ops : List WireHandoff.Op) : String :=
  let rec go (hist : List WireHandoff.Op) : List WireHandoff.Op → String
    | [] => ""
    | .begin k :: rest =>
      if (HandoffGlue.firstTrace k hist).isSome then go (hist ++ [.begin k]) rest
      else
        let ctxDone := (ctx.getD k "") == "cancelled" || (ctx.getD k "") == "expired" ||
          hist.any (fun o => o == .ctxDone k)
        let ends := (rest.find? (fun o => match o with
          | .complete j _ => j == k | .grace j => j == k | _ => false))
        (match ends with
          | some (.complete _ _) => "completed-while-waiting"
          | some (.grace _) => "grace-period-ends"
          | _ => "wait-open") ++ (if ctxDone then ",ctx-done-before-wait" else "")
    | o :: rest => go (hist ++ [o]) rest
  go [] ops

/-- round-tripper mode: a step is lowered to the operations of the hand-off model it causes —
reading the response to its end and cancelling the call's context both complete the trace of the
call (status 200+k) unless it is complete already; a failed round trip has completed it (without
response) before the script starts.  Result: per step its operations and whether the step has an
observation of its own. -/
def lowerRT (ctx : List String) (steps : List String) : Option (List WireHandoff.Op × List (List WireHandoff.Op × Bool)) :=
  let failed := (ctx.zipIdx.filter (fun p => p.1 == "fail")).map (·.2)
  let pre : List WireHandoff.Op := failed.map (fun k => .complete k 0)
  let rec go (completed : List Nat) : List String → Option (List (List WireHandoff.Op × Bool))
    | [] => some []
    | st :: rest =>
      match st.splitOn ":" with
      | ["c", k] => k.toNat?.bind fun k =>
        (go (k :: completed) rest).map fun r =>
          ((if completed.contains k then [] else [WireHandoff.Op.complete k (200 + k)]), false) :: r
      | ["x", k] => k.toNat?.bind fun k =>
        (go (k :: completed) rest).map fun r =>
          (WireHandoff.Op.ctxDone k :: (if completed.contains k then [] else [WireHandoff.Op.complete k (200 + k)]), false) :: r
      | _ => (parseWireOp st).bind fun o => (go completed rest).map fun r => ([o], true) :: r
  (go failed steps).map fun l => (pre, l)

def wireVerdict (inp impl : Json) : Verdict :=
  if bool (field impl "setAside") then
    { agree := true, holds := true, nontrivial := false, cls := "set-aside-too-slow" } else
  let ctx := strList (field inp "ctx")
  let rt := str (field inp "via") == "rt"
  let lowered : Option (List WireHandoff.Op × List (List WireHandoff.Op × Bool)) :=
    if rt then lowerRT ctx (strList (field inp "steps"))
    else ((strList (field inp "steps")).mapM parseWireOp).map fun ops =>
      -- contexts that are done from the start: context events before everything else
      ((ctx.zipIdx.filter (fun p => p.1 == "cancelled" || p.1 == "expired")).map (fun p => WireHandoff.Op.ctxDone p.2),
        ops.map fun o => ([o], match o with | .ctxDone _ | .complete _ _ => false | _ => true))
  match lowered with
  | none => bad "unparsable wire step"
  | some (pre, perStep) =>
    let bare := (ctx.zipIdx.filter (fun p => p.1 == "bare")).map (·.2)
    let ops := perStep.flatMap (·.1)
    let all := pre ++ ops
    let modelAll := ((WireHandoff.exec (WireHandoff.init bare) all).2.drop pre.length).map renderWireObs
    let specAll := ((HandoffGlue.specObs bare all).drop pre.length).map renderWireObs
    -- per step: the observation of its own operation, nothing for completions / context events
    let pick (l : List String) : List String :=
      (perStep.foldl (fun (acc : List String × Nat) p =>
        (acc.1 ++ [if p.2 then l.getD acc.2 "?" else ""], acc.2 + p.1.length)) ([], 0)).1
    let model := pick modelAll
    let spec := pick specAll
    -- a second completion for one context would be a panic in the model: never generated
    let sane := !(modelAll.contains "panic")
    let obs := strList (field impl "obs")
    -- giving up before the grace period is over loses nothing when nothing is ever completed:
    -- that is a disagreement with the model, not a violation
    let okAt (p : String × String) : Bool := p.1 == p.2 || (p.1 == "nf-early" && p.2 == "nf")
    let holdsObs := obs.length == spec.length && (obs.zip spec).all okAt
    -- the Tracer behind the wireTracer gets every completed trace, once
    let names := (List.range ctx.length).map (fun k => s!"call-{k}")
    let slotOps : List TracerSlots.Op := names.map .init ++
      all.filterMap (fun o => match o with | .complete k t => some (.complete s!"call-{k}" t) | _ => none)
    let innerSpec := if bool (field inp "tracer") then
        names.map (fun n => match firstComplete n slotOps with | some t => s!"t{t}" | none => "ctx")
      else []
    let innerModel := if bool (field inp "tracer") then
        names.map (fun n => match (TracerSlots.step (TracerSlots.exec TracerSlots.init slotOps).1 (.await 100 n)).2 with
          | [.trace t] => s!"t{t}" | [.waiting] => "ctx" | _ => "err")
      else []
    let inner := strList (field impl "inner")
    let holds := holdsObs && inner == innerSpec
    if !sane then bad "wire script completes one context twice" else
    { agree := obs == model && model == spec && inner == innerModel, holds := holds,
      nontrivial := ops.any (fun o => match o with | .begin _ => true | _ => false) &&
        all.any (fun o => match o with | .complete _ _ => true | _ => false),
      model := toJson model, cls := (if rt then "rt," else "") ++ wireClass ctx all,
      why := if !holdsObs then "per-call waiter (examineWireDetails): " ++ firstMismatch obs (spec.map (fun x => [x]))
             else if inner != innerSpec then s!"the Tracer behind the wireTracer holds {inner}, the completed traces are {innerSpec}"
             else if model != spec then "driver: model and history specification differ" else "" }

/-! ### the per-call hand-off through the real transport with asynchronous completion, op `wireasync` -/

/-- an atom of an expanded script: an operation of the model (with the index of the step it
belongs to and whether it is that step's observation) or a barrier "the trace of k has been
handed over" -/
inductive AAtom
  | op (o : WireAsync.AOp) (step : Nat) (own : Bool)
  | barrier (k : Nat)

def parseAsyncStep (ctx : List String) (i : Nat) (s : String) : Option (List AAtom) :=
  match s.splitOn ":" with
  | [c, k] => k.toNat?.bind fun k =>
    match c with
    | "rt" => some [.op (.ev k .rtBegin) i false, .op (.ev k (.rtEnd (ctx.getD k "" != "fail"))) i false]
    | "x" => some [.op (.ev k .ctxDone) i false]
    | "r" => some [.op (.ev k .readEnd) i false]
    | "cl" => some [.op (.ev k .close) i false]
    | "a" => some [.barrier k]
    | "w" => some [.op (.begin k) i true]
    | "p" => some [.op (.peek k) i true]
    | "j" => some [.op (.join k) i true]
    | "g" => some [.op (.grace k) i true]
    | _ => none
  | _ => none

/-- the gates along an expanded script; `none` when a barrier is passed although the builder of
its call still holds the trace (this placement of the goroutine's firing is excluded by what the
harness waited for) -/
def asyncGates : (Nat → WireAsync.RT) → List AAtom → Option (Nat → WireAsync.RT)
  | r, [] => some r
  | r, .op (.ev k e) _ _ :: rest => asyncGates (WireAsync.updR r k (WireAsync.gate (r k) e).1) rest
  | r, .op _ _ _ :: rest => asyncGates r rest
  | r, .barrier k :: rest => if (r k).closed then asyncGates r rest else none

def insertAt {α} (l : List α) (i : Nat) (a : α) : List α := l.take i ++ a :: l.drop i

/-- every placement of the goroutine's firing, one per call of `ks` -/
def asyncExpansions (atoms : List AAtom) : List Nat → List (List AAtom)
  | [] => [atoms]
  | k :: ks => (asyncExpansions atoms ks).flatMap fun l =>
      (List.range (l.length + 1)).map fun i => insertAt l i (.op (.ev k .fire) 0 false)

def renderAsyncObs : WireHandoff.Obs → String
  | .trace t => s!"T{t}"
  | o => renderWireObs o

def asyncVerdict (inp impl : Json) : Verdict :=
  if bool (field impl "setAside") then
    { agree := true, holds := true, nontrivial := false, cls := "set-aside-too-slow" } else
  let ctx := strList (field inp "ctx")
  let steps := strList (field inp "steps")
  match (steps.zipIdx.mapM fun p => parseAsyncStep ctx p.2 p.1) with
  | none => bad "unparsable wireasync step"
  | some perStep =>
    let ncalls := ctx.length
    let calls := List.range ncalls
    let bare := (ctx.zipIdx.filter (fun p => p.1 == "bare")).map (·.2)
    let atoms0 := perStep.flatten
    -- at the end the harness passes the barrier of every call whose trace is on its way
    let r0 := WireAsync.gateAll WireAsync.init0 (atoms0.filterMap fun a => match a with | .op o _ _ => some o | _ => none)
    let onItsWay (k : Nat) : Bool := (r0 k).closed || ((r0 k).phase != .none && (r0 k).ctxDone)
    let atoms := atoms0 ++ (calls.filter onItsWay).map AAtom.barrier
    let armable := calls.filter fun k => (r0 k).phase != .none && (r0 k).ctxDone
    let exps := (asyncExpansions atoms armable).filter fun l => (asyncGates WireAsync.init0 l).isSome
    let tracer := bool (field inp "tracer")
    -- what one expansion shows: per step observation, per call final wrapper trace, inner Tracer
    let view (useSpec : Bool) (l : List AAtom) : List String × List String × List String :=
      let aops := l.filterMap fun a => match a with | .op o _ _ => some o | _ => none
      let tags := l.filterMap fun a => match a with | .op _ i own => some (i, own) | _ => none
      let L := WireAsync.lowerAll WireAsync.init0 aops
      let res := WireHandoff.exec (WireHandoff.init bare) L
      let obsAll := if useSpec then HandoffGlue.specObs bare L else res.2
      let own := (tags.zip obsAll).filter (fun p => p.1.2)
      let obs := (List.range steps.length).map fun i =>
        match own.find? (fun p => p.1.1 == i) with
        | some p => renderAsyncObs p.2
        | none => ""
      let fin := calls.map fun k =>
        let a := if useSpec then (if bare.contains k then none else HandoffGlue.firstTrace k L) else (res.1.calls k).avail
        match a with | some t => s!"T{t}" | none => "-"
      let inner := if tracer then calls.map fun k =>
        match HandoffGlue.firstTrace k L with | some t => s!"T{t}" | none => "-" else []
      (obs, fin, inner)
    let obs := (strList (field impl "obs")).map fun o => if o == "nf-early" then "nf" else o
    let early := (strList (field impl "obs")).contains "nf-early"
    let got := (obs, strList (field impl "fin"), strList (field impl "inner"))
    let modelSet := (exps.map (view false)).eraseDups
    let specSet := (exps.map (view true)).eraseDups
    -- the property's own predicates on what the implementation showed
    let numOf (s : String) : Option Nat := if s.startsWith "T" then (s.drop 1).toString.toNat? else none
    let callOfStep (i : Nat) : Option Nat := match (steps.getD i "").splitOn ":" with
      | [_, k] => k.toNat? | _ => none
    let wrongWaiter := (obs.zipIdx.filter fun p => p.1.startsWith "T" &&
        (match numOf p.1, callOfStep p.2 with | some n, some k => n / 8 != k | _, _ => true)).map (·.1)
    let wrongFin := ((got.2.1 ++ got.2.2).zipIdx.filter fun p => p.1 != "-" &&
        (match numOf p.1 with | some n => n / 8 != p.2 % ncalls | none => true)).map (·.1)
    -- exactly once: one trace per call, wherever it is seen
    let seenOf (k : Nat) : List String :=
      ((obs.zipIdx.filter fun p => p.1.startsWith "T" && callOfStep p.2 == some k).map (·.1) ++
        [got.2.1.getD k "-"] ++ (if tracer then [got.2.2.getD k "-"] else [])).filter (· != "-") |>.eraseDups
    let twice := calls.filter fun k => (seenOf k).length > 1
    let panicked := obs.contains "panic" || !isNull (field impl "panic")
    let inSpec := specSet.contains got
    let lost := obs.contains "stuck" || got.2.1.contains "stuck"
    let holds := inSpec && wrongWaiter.isEmpty && wrongFin.isEmpty && twice.isEmpty && !panicked && !lost
    { agree := modelSet.contains got && modelSet == specSet && !early, holds := holds,
      nontrivial := !armable.isEmpty && steps.any (·.startsWith "w:"),
      model := toJson (modelSet.map fun v => v.1),
      cls := (if armable.isEmpty then "sync" else if modelSet.length > 1 then "async-several-outcomes" else "async-one-outcome"),
      why := if panicked then "setWireTrace ran twice for one call context (close of a closed channel)"
        else if lost then "lost: the trace of a call whose completion was on its way (context done after the round trip began, body finished, round trip failed) was never handed over (waited 5 s)"
        else if !wrongWaiter.isEmpty then s!"an examination returned the trace of another call: {wrongWaiter}"
        else if !wrongFin.isEmpty then s!"a call's wrapper / Tracer slot holds the trace of another call: {wrongFin}"
        else if !twice.isEmpty then s!"calls {twice}: more than one trace handed over for one call: {twice.map seenOf}"
        else if !inSpec then s!"observed obs={got.1} wrapper={got.2.1} tracer={got.2.2}: allowed by no placement of the asynchronous completion ({specSet.length} outcomes, e.g. {specSet.head?.map (·.1)})"
        else if modelSet != specSet then "driver: model and history specification differ" else "" }

/-! ### the server-side middleware hands over a final trace, op `final` -/

def parseKey (s : String) : HandlerTrace.Key :=
  if s.startsWith "Trailer:" then .pre (String.ofList (s.toList.drop 8)) else .plain s

def parseAct (j : Json) : Option HandlerTrace.Act :=
  let key := str (field j "key")
  let ok := key != "Trailer" && key != ""
  match str (field j "k") with
  | "set" => if ok then some (.set (parseKey key) (str (field j "val"))) else none
  | "add" => if ok then some (.add (parseKey key) (str (field j "val"))) else none
  | "declare" => some (.declare (strList (field j "names")))
  | "declareAdd" => some (.declareAdd (strList (field j "names")))
  | "wh" => some (.writeHeader (nat (field j "s")))
  | "w" => some (.write (bool (field j "ok")))
  | "flush" => some .flush
  | "readEof" => some .readEof
  | "readErr" => some .readErr
  | "closeReq" => some .closeReq
  | "cancel" => some .cancel
  | "panic" => some .panic
  | _ => none

def closerName : HandlerTrace.Closer → String
  | .respEnd => "respEnd" | .respEndErr => "respEndErr" | .respEndPanic => "respEndPanic"
  | .reqEndErr => "reqEndErr" | .cancel => "cancel" | .build => "build"

def keyName : HandlerTrace.Key → String
  | .plain n => n
  | .pre n => "Trailer:" ++ n

/-- canonical form of a header map: "key=v1,v2" sorted -/
def canonHdr (h : List (String × List String)) : List String :=
  sortStrings (h.map fun p => p.1 ++ "=" ++ ",".intercalate p.2)

structure CSnap where
  closer : String
  hasResp : Bool
  status : Nat
  header : List String
  trailer : List String
deriving BEq, Repr

def snapOfModel (s : HandlerTrace.Snap) : CSnap :=
  match s.resp with
  | some r => ⟨closerName s.closer, true, r.status, canonHdr (r.header.map fun p => (keyName p.1, p.2)), canonHdr r.trailer⟩
  | none => ⟨closerName s.closer, false, 0, [], []⟩

def pairsOf (j : Json) : List (String × List String) :=
  (arr j).map fun e => match strList e with
    | k :: vs => (k, vs)
    | [] => ("", [])

/-- the event that completed the trace, read from the rendered events of the implementation;
"open" if the last event is not a finishing one -/
def closerOfEvents (events : List String) (err : String) : String :=
  match events.getLast? with
  | some "pe:nil" => "respEnd"
  | some "QC" => "cancel"
  | some e =>
    if e.startsWith "pe:" then (if err == "panic" then "respEndPanic" else "respEndErr")
    else if e.startsWith "qe:" && e != "qe:nil" then "reqEndErr"
    else "build"
  | none => "build"

def finishing (e : String) : Bool :=
  e.startsWith "pe:" || e == "QC" || e == "PX" || (e.startsWith "qe:" && e != "qe:nil")

def snapOfImpl (j : Json) : Option CSnap :=
  if isNull j then none else
  some ⟨closerOfEvents (strList (field j "events")) (str (field j "err")), bool (field j "hasResp"),
    nat (field j "status"), canonHdr (pairsOf (field j "header")), canonHdr (pairsOf (field j "trailer"))⟩

def showSnap : Option CSnap → String
  | none => "none"
  | some s => s!"[{s.closer} status={s.status} header={s.header} trailer={s.trailer}]"

def finalVerdict (inp impl : Json) : Verdict :=
  match (arr (field inp "acts")).mapM parseAct with
  | none => bad "unparsable handler action"
  | some acts =>
    let s := HandlerTrace.run acts
    let mAt := (HandlerTrace.atCompletion s).map snapOfModel
    let mFin := (HandlerTrace.finalView s).map snapOfModel
    let completions := nat (field impl "completions")
    let atc := snapOfImpl (field impl "atComplete")
    let fin := snapOfImpl (field impl "final")
    let wake := snapOfImpl (field impl "atWake")
    let wfin := snapOfImpl (field impl "waiterFinal")
    let wantW := str (field inp "waiter")
    let gotW := str (field impl "waiter")
    let events := strList (field (field impl "atComplete") "events")
    let eventsFin := strList (field (field impl "final") "events")
    -- (1) exactly once, and the completing event is the last and only finishing event recorded
    let once := completions == 1 && atc.isSome &&
      (events.filter finishing).length ≤ 1 && (events.dropLast.all (fun e => !finishing e))
    -- (2) final: nothing is written to the trace after it was handed over
    let final := atc == fin && events == eventsFin
    -- (3) the waiter obtains that trace: a blocked one sees at its wake-up what was completed,
    -- a late one what is there at the end; what it holds does not change afterwards
    let waiterOK := if wantW == "none" then gotW == "none"
      else gotW == "t" && wfin == fin && (if wantW == "blocked" then wake == atc else wake == fin)
    -- (4) complete: when the response ended with the handler (return or panic), the trailers in
    -- the trace are those of the response
    let declared := strList (field impl "declared")
    let hdrEnd : HandlerTrace.Hdr := (pairsOf (field impl "headerAtEnd")).filterMap fun p =>
      if p.1 == "Trailer" then none else some (parseKey p.1, p.2)
    let trailerAt := pairsOf (field (field impl "atComplete") "trailer")
    let hdrNames : List String := hdrEnd.map (fun (p : HandlerTrace.Key × List String) =>
      match p.1 with | HandlerTrace.Key.plain n => n | HandlerTrace.Key.pre n => n)
    let trNames : List String := trailerAt.map (fun (p : String × List String) => p.1)
    let names : List String := (declared ++ hdrNames ++ trNames).eraseDups
    let closer := (atc.map (·.closer)).getD ""
    let complete := if closer == "respEnd" || closer == "respEndPanic" then
        (atc.map (·.hasResp)).getD false && HandoffGlue.trailersOK declared hdrEnd trailerAt names
      else true
    -- finding F28 (repaired in repository commit cdc69f7): an operation ended early (request
    -- side / cancellation) after the response started was written to when the handler finished:
    -- only the trailers differ
    let f28 := once && !final && (closer == "reqEndErr" || closer == "cancel") &&
      (atc.map (·.hasResp)).getD false && events == eventsFin &&
      (atc.map (fun a => (a.status, a.header))) == (fin.map (fun a => (a.status, a.header)))
    let holds := once && final && waiterOK && complete
    let agree := completions == 1 && atc == mAt.head? && fin == mFin.head? &&
      (wantW == "none" || (gotW == "t" && wfin == mFin.head? && wake == (if wantW == "blocked" then mAt.head? else mFin.head?)))
    { agree := agree, holds := holds,
      nontrivial := trailerAt.length > 0 || acts.any HandoffGlue.isEarlyEnd,
      model := toJson (showSnap mAt.head?),
      cls := s!"{closer},waiter-{wantW}" ++ (if trailerAt.isEmpty then "" else ",trailers") ++
        (if bool (field impl "gateTimeout") then ",gate-timeout" else ""),
      why :=
        if holds then (if agree then "" else s!"model: at completion {showSnap mAt.head?}, at the end {showSnap mFin.head?}; implementation: {showSnap atc} / {showSnap fin}")
        else if f28 then s!"finding F28 (fixed in cdc69f7) is back: the trace handed over when the operation was ended early ({closer}) is written to afterwards: trailers {(atc.map (·.trailer)).getD []} at completion, {(fin.map (·.trailer)).getD []} at the end"
        else if !once then s!"{completions} deliveries, events {events}: the operation must hand over exactly one trace, completed by its last event"
        else if !final then s!"the trace handed over is not final: at completion {showSnap atc} events {events}, at the end {showSnap fin} events {eventsFin}"
        else if !waiterOK then s!"waiter ({wantW}): Await returned '{gotW}' with {showSnap wake}, completed was {showSnap atc}, at the end {showSnap fin} (waiter's view {showSnap wfin})"
        else s!"the trace was handed over without the response's trailers: {trailerAt} at completion; announced {declared}, header map at the end {(pairsOf (field impl "headerAtEnd"))}" }

/-! ### exactly-once on a traced HTTP/2 connection under any tear-down, op `teardown` -/

def parseTdStep (s : String) : Option H2Teardown.Step :=
  match s.splitOn ":" with
  | ["o", sid, name] => sid.toNat?.map (fun i => .opn i (if name == "-" then "" else name))
  | ["q", sid] => sid.toNat?.map .reqEnd
  | ["p", sid] => sid.toNat?.map .respEnd
  | ["f", sid] => sid.toNat?.map (fun i => .rst i 7 false)
  | ["k", sid] => sid.toNat?.map (fun i => .rst i 8 false)
  | ["kc", sid] => sid.toNat?.map (fun i => .rst i 8 true)
  | ["g", last, code] => match last.toNat?, code.toNat? with
    | some l, some c => some (.goaway l c)
    | _, _ => none
  | ["re"] | ["we"] | ["cl"] | ["ce"] => some .teardown
  | ["rt"] => some .readTimeout
  | ["t"] => some .timers
  | _ => none

def errKind : H2.Err → String
  | .none => "nil"
  | .stream _ c => if c == 7 then "refused" else if c == 8 then "cancel" else s!"stream{c}"
  | .conn c => s!"goaway{c}"
  | .io _ => "io"
  | .closed _ => "io"

def renderDelivery (t : H2.Trace) : String :=
  t.name ++ "#" ++ ((t.req.lookup "id").getD "?") ++ "#" ++ errKind t.err

/-- a retryable GOAWAY cuts off two streams of one test name: which of the two traces stays
held back depends on the iteration order of a Go map — the model fixes one order -/
def orderDependent : H2Teardown.Conn → List H2Teardown.Step → Bool
  | _, [] => false
  | c, st :: rest =>
    (match st with
      | .goaway last code =>
        let names := ((c.streams.filter (·.1 > last)).map (·.2)).filter (· != "")
        (H2.Err.conn code).retryable && names.eraseDups.length != names.length
      | _ => false) || orderDependent (H2Teardown.lower c st).1 rest

def teardownVerdict (inp impl : Json) : Verdict :=
  if bool (field impl "slow") then
    { agree := true, holds := true, nontrivial := false, cls := "set-aside-too-slow" } else
  match (strList (field inp "steps")).mapM parseTdStep with
  | none => bad "unparsable teardown step"
  | some steps =>
    let got : List (String × String × String) := (arr (field impl "deliveries")).map fun d =>
      match strList d with
      | [n, i, e] => (n, i, e)
      | _ => ("?", "?", "?")
    let gotR := sortStrings (got.map fun (n, i, e) => n ++ "#" ++ i ++ "#" ++ e)
    let model := sortStrings ((H2Teardown.deliveries steps).map renderDelivery)
    -- the streams the script opens: (id, name)
    let opened : List (Nat × String) := steps.filterMap fun st => match st with
      | .opn sid name => some (sid, name) | _ => none
    let ops := got.map fun (n, i, _) => (n, i)
    -- (a) exactly once: no operation is handed to the collector twice
    let dup := ops.find? (fun o => ops.count o > 1)
    -- (b) what is delivered is the trace of a named stream of this connection
    let alien := ops.find? (fun (n, i) => n == "" || !(opened.any fun (sid, name) => toString sid == i && name == n))
    -- (c) after a tear-down nothing is lost: a named stream whose test name occurs once on the
    -- connection, opened before any GOAWAY and before the last tear-down, is delivered
    let lastTd := (steps.zipIdx.filter (fun p => p.1 == .teardown)).getLast?.map (·.2)
    let firstGa := (steps.zipIdx.find? (fun p => match p.1 with | .goaway _ _ => true | _ => false)).map (·.2)
    let lost := steps.zipIdx.find? fun (st, idx) => match st with
      | .opn sid name =>
        name != "" && (opened.filter (·.2 == name)).length == 1 && (opened.filter (·.1 == sid)).length == 1 &&
        (match lastTd with | some l => idx < l | none => false) &&
        (match firstGa with | some g => idx < g | none => true) &&
        !(ops.contains (name, toString sid))
      | _ => false
    let holds := dup.isNone && alien.isNone && lost.isNone
    let nTd := (steps.filter (· == .teardown)).length
    let heldAtTd : Bool :=
      match steps.zipIdx.find? (fun p => p.1 == .teardown) with
      | some (_, idx) => !(H2.Coll.init.run (H2Teardown.lowerAll H2Teardown.Conn.init (steps.take idx))).waiting.isEmpty
      | none => false
    let ambiguous := orderDependent H2Teardown.Conn.init steps
    { agree := gotR == model || (ambiguous && holds), holds := holds,
      nontrivial := nTd > 0 && !opened.isEmpty && !ambiguous,
      model := toJson model,
      cls := s!"teardowns={min nTd 3}" ++ (if heldAtTd == true then ",held-back-at-tear-down" else "") ++
        (if steps.contains .timers then ",timer" else "") ++ (if ambiguous then ",map-order-dependent" else ""),
      why := match dup with
        | some (n, i) => s!"the trace of one HTTP operation (test {n}, stream {i}) was handed to the collector {ops.count (n, i)} times: {gotR}"
        | none => match alien with
          | some (n, i) => s!"a trace that belongs to no named stream of the connection was delivered: test '{n}' stream {i}"
          | none => match lost with
            | some (st, _) => s!"after the connection was torn down the trace of {repr st} was never delivered: {gotR}"
            | none => if gotR == model then "" else s!"collector got {gotR}, model {model}" }

def handle : Handler := fun op inp impl =>
  if !(isNull (field impl "panic")) then
    { agree := false, holds := false, why := "panic: " ++ str (field impl "panic") } else
  match op with
  | "slots" =>
    match parseSlotOps (strList (field inp "ops")) with
    | none => bad "unparsable slot op"
    | some ops =>
      let isNil := bool (field inp "nil")
      let obs := strList (field impl "obs")
      let model := renderSets (if isNil then nilObs ops else (TracerSlots.exec TracerSlots.init ops).2)
      let spec := renderSets (if isNil then nilObs ops else specObs ops)
      let holds := within obs spec
      { agree := within obs model && model == spec, holds := holds,
        nontrivial := slotsNontrivial ops, model := toJson model,
        cls := if obs.contains "waiting" then "blocked" else "",
        why := if !holds then "await outcome: " ++ firstMismatch obs spec
               else if model != spec then "driver: model and history specification differ" else "" }
  | "stressSlots" =>
    let threads := (arr (field inp "threads")).map strList
    match parseSlotOps (strList (field inp "setup")), threads.mapM parseSlotOps, parseSlotOps (strList (field inp "after")) with
    | some setup, some ths, some after =>
      let obsS := strList (field impl "setup")
      let obsA := strList (field impl "after")
      let total := ths.foldl (fun a t => a + t.length) 0
      let lins := TracerSlots.interleavings (total + 1) ths
      let fits (sets : List (List String)) : Bool :=
        within obsS (sets.take setup.length) && within obsA (sets.drop (setup.length + total))
      let okModel := lins.any fun l => fits (renderSets (TracerSlots.exec TracerSlots.init (setup ++ l ++ after)).2)
      let okSpec := lins.any fun l => fits (renderSets (specObs (setup ++ l ++ after)))
      { agree := okModel, holds := okSpec, nontrivial := lins.length > 1,
        model := toJson lins.length,
        why := if okSpec then "" else s!"outcome setup={obsS} after={obsA} is produced by none of the {lins.length} linearisations" }
    | _, _, _ => bad "unparsable slot op"
  | "results" => resultsVerdict inp impl
  | "wire" => wireVerdict inp impl
  | "wireasync" => asyncVerdict inp impl
  | "final" => finalVerdict inp impl
  | "teardown" => teardownVerdict inp impl
  | "cancelrt" => cancelVerdict impl false
  | "cancelhandler" => cancelVerdict impl true
  | "builder" =>
    match parseBuilderOps 0 (strList (field inp "ops")) with
    | none => bad "unparsable builder op"
    | some ops =>
      let named := bool (field inp "named")
      let got := implCompletions impl
      let model := renderDeliveries (Builder.exec (Builder.init named) ops).2
      let spec := renderDeliveries (deliveries named ops)
      let holds := got == spec
      { agree := got == model, holds := holds, nontrivial := named && ops.any isCloser && ops.length > 1,
        model := toJson model,
        why := if holds then "" else s!"collector got {got}, the operation must deliver {spec}" }
  | "stressBuilder" =>
    let threads := (arr (field inp "threads")).map strList
    match threads.zipIdx.mapM (fun p => parseBuilderOps (p.2 * 100) p.1) with
    | none => bad "unparsable builder op"
    | some ths =>
      let named := bool (field inp "named")
      -- the distinct outcomes seen over the repetitions (older replay files: one outcome)
      let gots : List (List (List String)) :=
        if isNull (field impl "outcomes") then [implCompletions impl]
        else (arr (field impl "outcomes")).map (fun o => (arr o).map strList)
      let total := ths.foldl (fun a t => a + t.length) 0
      let lins := TracerSlots.interleavings (total + 1) ths
      let modelOuts := (lins.map fun l => renderDeliveries (Builder.exec (Builder.init named) l).2).eraseDups
      let specOuts := (lins.map fun l => renderDeliveries (deliveries named l)).eraseDups
      let okModel := !gots.isEmpty && gots.all modelOuts.contains
      let okSpec := !gots.isEmpty && gots.all specOuts.contains
      { agree := okModel, holds := okSpec, nontrivial := lins.length > 1, model := toJson lins.length,
        why := if okSpec then "" else
          s!"collector got {gots.filter (fun g => !specOuts.contains g)}: no linearisation of the threads delivers that" }
  | "glue" => C16Init.glueVerdict inp impl
  | _ => bad ("C16: unknown op " ++ op)

end ConfModel.Driver.C16
