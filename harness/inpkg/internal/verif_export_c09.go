//go:build verif

package internal

import (
	"io"
	"time"
)

// VerifReadDelimitedRaw is one readDelimitedMessageRaw on a fresh timeoutDelimitedReader,
// constructed exactly as ReadDelimitedMessage constructs it.
func VerifReadDelimitedRaw(in io.Reader, source string, timeout time.Duration, maxSize int) ([]byte, error) {
	reader := timeoutDelimitedReader{
		in:       in,
		source:   source,
		timeout:  timeout,
		maxSize:  maxSize,
		readDone: make(chan struct{}),
	}
	return reader.readDelimitedMessageRaw()
}

// VerifWriteDelimitedRaw is writeDelimitedMessageRaw.
func VerifWriteDelimitedRaw(out io.Writer, data []byte) error {
	return writeDelimitedMessageRaw(out, data)
}
