/-
Driver side of C16's op `glue`: the REAL runTestCasesForServer with a real Tracer and a
scripted client; the trace of each case is completed at a scripted point.
-/
import ConfModel.Driver.Common
import ConfModel.Model.HandoffInit
import ConfModel.Spec.Handoff
namespace ConfModel.Driver.C16Init
open Lean ConfModel.Driver ConfModel ConfModel.Handoff ConfModel.HandoffInit ConfModel.TracerSlots

structure PCase where
  name : String
  kind : String
  pre : List String
  sending : List String
  pending : List String
  held : List String
  fails : Bool

def splitSteps (name kind : String) (steps : List String) : Option PCase :=
  let pre := steps.takeWhile (· != "s")
  match steps.dropWhile (· != "s") with
  | [] => none
  | _ :: rest1 =>
    let isEnd := fun (x : String) => x == "ret" || x == "err"
    let sending := rest1.takeWhile (fun x => !isEnd x)
    match rest1.dropWhile (fun x => !isEnd x) with
    | ["err"] => some ⟨name, kind, pre, sending, [], [], true⟩
    | "ret" :: r =>
      some ⟨name, kind, pre, sending, r.takeWhile (· != "h"), (r.dropWhile (· != "h")).drop 1, false⟩
    | _ => none

structure Acc where
  tl : List Ev := []
  delayed : List (Nat × Op) := []
  ok : Bool := true

def insertByMs (x : Nat × Op) : List (Nat × Op) → List (Nat × Op)
  | [] => [x]
  | y :: ys => if x.1 < y.1 then x :: y :: ys else y :: insertByMs x ys

/-- `allowed`: the names a completion may carry in this phase (`none`: any) -/
def lowerTok (k : Nat) (n : String) (allowed : Option (List String)) (a : Acc) (tok : String) : Acc :=
  let okName := fun (m : String) => match allowed with | none => true | some l => l.contains m
  match tok.splitOn ":" with
  | ["c", m, t] => match t.toNat? with
    | some t => { a with tl := a.tl ++ [.op (.complete m t)], ok := a.ok && okName m }
    | none => { a with ok := false }
  | ["d", m, t, ms] => match t.toNat?, ms.toNat? with
    | some t, some ms => { a with delayed := insertByMs (ms, .complete m t) a.delayed }
    | _, _ => { a with ok := false }
  | ["r"] => { a with tl := a.tl ++ [.outcome k n] }
  | ["rc", m, t] => match t.toNat? with
    | some t => { a with tl := a.tl ++ [.op (.complete m t), .outcome k n], ok := a.ok && okName m }
    | none => { a with ok := false }
  | ["p"] => a
  | _ => { a with ok := false }

/-- the timeline of the batch in the order the scripted client serialises it, and the number
of cases that are handed to the client -/
def timeline (cs : List PCase) : Option (List Ev × Nat) :=
  let names := cs.map (·.name)
  let rec go (rest : List PCase) (k : Nat) (a : Acc) : Acc × Nat :=
    match rest with
    | [] => (a, k)
    | c :: more =>
      let a := { a with tl := a.tl ++ [.op (.init c.name)] }
      let a := c.pre.foldl (lowerTok k c.name none) a
      let a := c.sending.foldl (lowerTok k c.name none) a
      if c.fails then
        -- the runner marks this case and all remaining ones: their waiters start, no slot for the rest
        let marks := (c :: more).zipIdx.map (fun p => Ev.outcome (k + p.2) p.1.name)
        ({ a with tl := a.tl ++ marks }, k + 1)
      else
        -- on the client's goroutine, while the runner initialises the next case: only names that
        -- are initialised already (or never are) keep the timeline deterministic
        let later := more.map (·.name)
        let a := c.pending.foldl (lowerTok k c.name (some ((names.filter (fun m => !later.contains m)) ++ ["z"]))) a
        go more (k + 1) a
  let (a, sent) := go cs 0 {}
  let a := (cs.take sent).zipIdx.foldl (fun a p => p.1.held.foldl (lowerTok p.2 p.1.name none) a) a
  let outcomes := a.tl.filter (fun e => match e with | .outcome _ _ => true | _ => false)
  if a.ok && names.eraseDups.length == names.length && !names.contains "z" && outcomes.length == cs.length then
    some (a.tl ++ a.delayed.map (fun d => Ev.op d.2), sent)
  else none

def encTrace : Option Nat → Int
  | none => -1
  | some t => (t : Int)

def keeps (c : PCase) : Bool := !c.fails && (c.kind == "failed" || c.kind == "assert" || c.kind == "empty")

def glueVerdict (inp impl : Json) : Verdict :=
  let parsed := (arr (field inp "cases")).mapM fun c =>
    splitSteps (str (field c "name")) (str (field c "kind")) (strList (field c "steps"))
  match parsed with
  | none => bad "unparsable glue script"
  | some cs =>
    match timeline cs with
    | none => bad "glue script outside the deterministic fragment"
    | some (tl, sent) =>
      if bool (field impl "hang") then
        { agree := false, holds := false, why := "the run did not end: a wait outlived its context" }
      else
      let ops := evOps tl
      let obs := arr (field impl "cases")
      let wait := str (field impl "wait")
      -- per case: (name, expected by the history-based spec, by the slot model, keeps?)
      let per := cs.zipIdx.map fun (c, k) =>
        let spec := match outcomeAt k tl 0 with
          | none => (none, false)
          | some (i, n) => collectSpec n (ops.take i) (ops.drop (i+1))
        (c, k, spec, timelineCollects tl k)
      let obsOf (n : String) : Json := (obs.find? (fun o => str (field o "name") == n)).getD Json.null
      let wantStored (c : PCase) (k : Nat) (r : Option Nat × Bool) : Int :=
        if keeps c && k < sent then encTrace r.1 else -1
      let badCase := per.find? fun (c, k, spec, _) =>
        let o := obsOf c.name
        int (field o "stored") != wantStored c k spec ||
          (int (field o "stored") != -1 && str (field o "owner") != c.name)
      let specBlocked := per.any (fun (_, _, spec, _) => spec.2)
      let modelBlocked := per.any (fun (_, _, _, m) => m.2)
      let holds := badCase.isNone && wait != "late" && (wait != "timeout" || specBlocked)
      let modelStored := per.all fun (c, k, _, m) => int (field (obsOf c.name) "stored") == wantStored c k m
      let slotsGone := per.all (fun (c, _, _, _) => str (field (obsOf c.name) "slot") == "none") &&
        str (field impl "extra") == "none"
      let modelSlots := per.all (fun (c, _, _, _) => !slotLeft tl c.name) && !slotLeft tl "z"
      let sentOK := per.all fun (c, k, _, _) =>
        bool (field (obsOf c.name) "sent") == decide (k < sent) && bool (field (obsOf c.name) "outcome")
      let waitOK := wait == (if modelBlocked then "timeout" else "prompt")
      let agree := modelStored && slotsGone && modelSlots && sentOK && waitOK && obs.length == cs.length
      let why :=
        match badCase with
        | some (c, k, spec, _) =>
          let o := obsOf c.name
          s!"case {c.name}: the results keep trace {int (field o "stored")} (of '{str (field o "owner")}'); the first trace completed for the name after its slot was initialised is {wantStored c k spec} (-1 = none)"
        | none =>
          if wait == "late" then "a wait outlived its context"
          else if wait == "timeout" && !specBlocked then
            "a waiter sat out its whole deadline although the trace of every case was completed after its slot was initialised (the completed trace reached nobody)"
          else if !slotsGone then
            s!"a slot is left behind in the Tracer: {obs.filterMap (fun o => if str (field o "slot") != "none" then some (str (field o "name")) else none)} (extra: {str (field impl "extra")})"
          else if !waitOK then s!"waiters finished '{wait}', the model says blocked={modelBlocked}"
          else if !agree then "observation differs from the slot model" else ""
      { agree := agree, holds := holds,
        nontrivial := ops.any (fun o => match o with | .complete m _ => cs.any (·.name == m) | _ => false),
        model := toJson (per.map fun (c, k, _, m) => wantStored c k m),
        cls := "glue:" ++ wait,
        why := why }

end ConfModel.Driver.C16Init
