package main

import (
	"encoding/json"
	"time"

	cc "connectrpc.com/conformance/internal/app/connectconformance"
	"connectrpc.com/conformance/internal/verifharness/gen"
)

// C11 op "refhang" (see verif_export_c11refhang.go): the real in-process reference server and a
// client that leaves requests hanging at the end of the batch. Each scenario lasts as long as the
// server's graceful-shutdown period (about 5-10 s); they run beside everything else, under the
// heartbeat (a stalled machine: repeat once, then set aside).
//
//	refhang  <VerifC11RefHangSpec>  ->  <VerifC11RefHangObs> + frozenMs

type c11RefHangOut struct {
	cc.VerifC11RefHangObs
	FrozenMs int64 `json:"frozenMs"`
}

func init() {
	gen.RegisterOp("c11", "refhang", func(c *gen.Ctx, raw json.RawMessage) any {
		spec := gen.Into[cc.VerifC11RefHangSpec](raw)
		obs, frozen := c09Steady(5*time.Second, func() cc.VerifC11RefHangObs { return cc.VerifC11RefHang(spec) })
		if frozen > 0 {
			c.E.Count("refhang:set-aside-machine-stalled")
		}
		return c11RefHangOut{obs, frozen}
	})
}

func c11RefHangScenarios(c *gen.Ctx) []any {
	ins := []any{
		cc.VerifC11RefHangSpec{N: 2, Hang: "h1-partial-body", IsRef: true, DogS: 45},
		cc.VerifC11RefHangSpec{N: 1, Hang: "h2-open-stream", IsRef: true, DogS: 45},
		cc.VerifC11RefHangSpec{N: 2, Hang: "none", IsRef: true, DogS: 45},
	}
	if c.Thorough() {
		ins = append(ins,
			cc.VerifC11RefHangSpec{N: 3, Hang: "h1-chunked-open", IsRef: true, Each: true, DogS: 45},
			cc.VerifC11RefHangSpec{N: 3, Hang: "h1-partial-body", IsRef: false, Each: true, DogS: 45},
			cc.VerifC11RefHangSpec{N: 3, Hang: "h2-open-stream", IsRef: true, Each: true, DogS: 45},
		)
	} else if c.Seed%2 == 0 {
		ins[0] = cc.VerifC11RefHangSpec{N: 2, Hang: "h1-chunked-open", IsRef: true, DogS: 45}
	}
	return ins
}
