//go:build verif

package connectconformance

import (
	"context"
	"encoding/binary"
	"errors"
	"io"
	"sync"
	"time"

	conformancev1 "connectrpc.com/conformance/internal/gen/proto/go/connectrpc/conformance/v1"
)

// C10, op "wedge": the real runClient / clientProcessRunner on an in-process client (runInProcess)
// that misbehaves on its output stream and does NOT end afterwards, whatever the runner signals:
//
//	writes  it goes on writing to its output, which nobody reads any more: it sits in a Write on the
//	        pipe for ever (the cancellation of its context cannot interrupt that)
//	deaf    it simply does not return (it ignores its context)
//
// The client has read all N requests and answered the first Pos of them properly; then comes Bad:
//
//	text     plain text printed in several writes (the first four bytes read as a huge length prefix)
//	over     a length prefix of maxClientResponseSize+1
//	garbage  a correct prefix followed by bytes that are no message
//	unknown  a well-formed response for a test name nobody asked for
//	dup      a second response for the last name answered (Pos >= 1)
//
// "waiting for completion returns, and nothing deadlocks": waitForResponses and stop must return
// although this client never ends (the harness lets it go only after both have returned, or after
// the watchdog); every request gets its callback exactly once, later sends are refused, the runner
// says the client is not running.  The runner's own timers are waited for here (3 s + the grace
// period of result(): about 5 s), so the scenarios of this op run side by side.
type VerifC10WedgeSpec struct {
	N        int    `json:"n"`
	Pos      int    `json:"pos"`
	Bad      string `json:"bad"`
	Mode     string `json:"mode"`
	TimeoutS int    `json:"timeoutS"`
}

type VerifC10WedgeObs struct {
	Valid bool     `json:"valid"`
	Rets  []string `json:"rets"` // ok | closed | dup | fail | unsent
	// Cbs per request: m >= 0 response named m (own content), -2 a foreign response, -1 / -3 an error
	// while isRunning(), sampled inside the callback, was false / true
	Cbs          [][]int `json:"cbs"`
	ReaderDone   bool    `json:"readerDone"`   // consumeOutput finished (10 s)
	RunAtDone    bool    `json:"runAtDone"`    // isRunning() as soon as the reader had finished
	WaitReturned bool    `json:"waitReturned"` // waitForResponses returned before the watchdog
	Wait         string  `json:"wait"`         // nil | closed | proc | fail | hang
	StopReturned bool    `json:"stopReturned"` // stop() returned before the watchdog
	Running      bool    `json:"running"`      // isRunning() afterwards
	Late         string  `json:"late"`         // a send issued after everything
	LateCbs      int     `json:"lateCbs"`
	CbsCall      [][]int `json:"cbsCall"` // what each callback saw when it was called (Cbs: what it holds at the end)
	Shared       bool    `json:"shared,omitempty"`
	ClientEnded  bool    `json:"clientEnded"` // the client function had returned by itself before it was let go (it must not)
	WaitS        int64   `json:"waitS"` // whole seconds (not compared)
	StopS        int64   `json:"stopS"`
}

func VerifC10Wedge(spec VerifC10WedgeSpec) VerifC10WedgeObs {
	obs := VerifC10WedgeObs{Rets: []string{}, Cbs: [][]int{}}
	okBad := map[string]bool{"text": true, "over": true, "garbage": true, "unknown": true, "dup": true}
	if spec.N < 1 || spec.N > 8 || spec.Pos < 0 || spec.Pos > spec.N || !okBad[spec.Bad] || (spec.Bad == "dup" && spec.Pos < 1) ||
		(spec.Mode != "writes" && spec.Mode != "deaf") {
		return obs
	}
	obs.Valid = true
	n := spec.N
	obs.Rets = make([]string, n)
	obs.Cbs = make([][]int, n)
	for i := range obs.Rets {
		obs.Rets[i] = "unsent"
		obs.Cbs[i] = []int{}
	}
	release := make(chan struct{})
	var releaseOnce sync.Once
	clientEnded := make(chan struct{})
	client := func(_ context.Context, _ []string, in io.ReadCloser, out, _ io.WriteCloser) error {
		defer close(clientEnded)
		for i := 0; i < n; i++ {
			var pre [4]byte
			if _, err := io.ReadFull(in, pre[:]); err != nil {
				return err
			}
			if _, err := io.ReadFull(in, make([]byte, binary.BigEndian.Uint32(pre[:]))); err != nil {
				return err
			}
		}
		for m := 0; m < spec.Pos; m++ {
			if _, err := out.Write(VerifC10RespBytes(m)); err != nil {
				return err
			}
		}
		switch spec.Bad {
		case "text":
			for _, line := range []string{"hello, ", "this client prints ", "its log to stdout\n"} {
				if _, err := out.Write([]byte(line)); err != nil {
					<-release
					return errVerifC10Aborted
				}
			}
		case "over":
			var pre [4]byte
			binary.BigEndian.PutUint32(pre[:], uint32(maxClientResponseSize+1))
			_, _ = out.Write(pre[:])
		case "garbage":
			_, _ = out.Write([]byte{0, 0, 0, 3, 0xff, 0xff, 0xff})
		case "unknown":
			_, _ = out.Write(VerifC10RespBytes(99))
		case "dup":
			_, _ = out.Write(VerifC10RespBytes(spec.Pos - 1))
		}
		if spec.Mode == "writes" {
			// more output, which nobody reads: the Write ends only when the harness closes the read end
			for {
				if _, err := out.Write([]byte("more output that nobody reads\n")); err != nil {
					break
				}
			}
		}
		<-release
		return errVerifC10Aborted
	}
	ctx, cancel := context.WithCancel(context.Background())
	defer cancel()
	runner, err := runClient(ctx, runInProcess([]string{"verif-client"}, client))
	if err != nil {
		obs.Wait = "runClient: " + err.Error()
		return obs
	}
	cr := runner.(*clientProcessRunner) //nolint:forcetypeassert
	letGo := func() {
		releaseOnce.Do(func() {
			close(release)
			if c, ok := cr.proc.stdout.(io.Closer); ok {
				_ = c.Close() // ends a Write the client sits in
			}
		})
	}
	defer letGo()

	var mu sync.Mutex
	var kept []verifC10Kept
	for i := 0; i < n; i++ {
		i := i
		want := VerifC10Name(i)
		err := runner.sendRequest(&conformancev1.ClientCompatRequest{TestName: want}, func(name string, resp *conformancev1.ClientCompatResponse, err error) {
			v := -1
			if err != nil && runner.isRunning() {
				v = -3
			}
			if err == nil {
				v = verifC10RespCode(want, name, resp)
			} else {
				resp = nil
			}
			mu.Lock()
			obs.Cbs[i] = append(obs.Cbs[i], v)
			kept = append(kept, verifC10Kept{i: i, name: name, resp: resp, vCall: v})
			mu.Unlock()
		})
		mu.Lock()
		obs.Rets[i] = verifC10SendClass(err)
		mu.Unlock()
	}
	runner.closeSend()
	rdog := VerifNewDog(10)
	select {
	case <-cr.done:
		obs.ReaderDone = true
	case <-rdog.C:
	}
	rdog.Stop()
	obs.RunAtDone = runner.isRunning()
	timeout := spec.TimeoutS
	if timeout <= 0 || timeout > 120 {
		timeout = 20
	}
	// what run() does next: waitForResponses, and (deferred) stop.  Both wait for the process with
	// their own bound; they are started together so that the scenario costs one grace period, not two.
	t0 := time.Now()
	waitCh := make(chan error, 1)
	stopCh := make(chan struct{})
	var waitMs, stopMs int64
	go func() { e := runner.waitForResponses(); waitMs = time.Since(t0).Milliseconds(); waitCh <- e }()
	go func() { runner.stop(); stopMs = time.Since(t0).Milliseconds(); close(stopCh) }()
	dog := VerifNewDog(timeout)
	defer dog.Stop()
	watchdog := dog.C
	obs.Wait = "hang"
	waitOut, stopOut := false, false
	for !(waitOut && stopOut) {
		select {
		case werr := <-waitCh:
			waitOut = true
			obs.WaitReturned = true
			obs.WaitS = waitMs / 1000
			switch {
			case werr == nil:
				obs.Wait = "nil"
			case errors.Is(werr, errClosed):
				obs.Wait = "closed"
			case errors.Is(werr, errVerifC10Exit), errors.Is(werr, errVerifC10Aborted), errors.Is(werr, context.DeadlineExceeded):
				obs.Wait = "proc"
			default:
				obs.Wait = "fail"
			}
		case <-stopCh:
			stopOut = true
			stopCh = nil
			obs.StopReturned = true
			obs.StopS = stopMs / 1000
		case <-watchdog:
			waitOut, stopOut = true, true
		}
	}
	select {
	case <-clientEnded:
		obs.ClientEnded = true
	default:
	}
	obs.Running = runner.isRunning()
	lateCbs := 0
	lerr := runner.sendRequest(&conformancev1.ClientCompatRequest{TestName: "late"}, func(string, *conformancev1.ClientCompatResponse, error) {
		mu.Lock()
		lateCbs++
		mu.Unlock()
	})
	obs.Late = verifC10SendClass(lerr)
	letGo()
	time.Sleep(200 * time.Microsecond)
	mu.Lock()
	defer mu.Unlock()
	obs.LateCbs = lateCbs
	out := obs
	out.Rets = append([]string{}, obs.Rets...)
	if obs.ReaderDone {
		out.Cbs, out.CbsCall, out.Shared = verifC10Settle(n, kept, VerifC10Name)
	} else {
		out.Cbs = make([][]int, len(obs.Cbs))
		for i := range obs.Cbs {
			out.Cbs[i] = append([]int{}, obs.Cbs[i]...)
		}
		out.CbsCall = out.Cbs
	}
	return out
}
