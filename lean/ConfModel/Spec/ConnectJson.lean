/-
Declarative side of C13, Connect JSON level: what a well-formed Connect error document /
end-of-stream document is (grammar-style, independent of the passes of the examiners: no
struct decoding, no key folding, no sorting), and which malformations must be reported.
-/
import ConfModel.Model.ConnectJson
namespace ConfModel.ConnectJsonSpec
open ConfModel.ConnectJson
open ConfModel.WireChecks (validFieldName validFieldValue)
open ConfModel.ServerTimeout (Bytes)

def allowedError : List Bytes := [jkCode, jkMessage, jkDetails]
def allowedDetail : List Bytes := [jkType, jkValue, jkDebug]
def allowedEnd : List Bytes := [jkError, jkMetadata]

def keysWithin (fs : Fields) (allowed : List Bytes) : Bool := (keysOf fs).all allowed.contains

/-! ### well-formed documents -/

/-- a well-formed error detail: an object with members `type` (a valid protobuf full name),
`value` (unpadded standard base64) and optionally `debug` (which then has to agree with the
value: the oracle is silent), and nothing else -/
def detailOK (dbg : DebugOracle) (i : Nat) : Json → Bool
  | .obj fs =>
    keysWithin fs allowedDetail &&
    (match lookup fs jkType, lookup fs jkValue with
      | some (.str t), some (.str v) =>
        validFullName t &&
        (match rawStdDecode v with
          | some data => !hasKey fs jkDebug || (dbg i t data).isNone
          | none => false)
      | _, _ => false)
  | _ => false

def detailsOK (dbg : DebugOracle) : Nat → List Json → Bool
  | _, [] => true
  | i, d :: ds => detailOK dbg i d && detailsOK dbg (i + 1) ds

/-- a well-formed Connect error: an object without duplicate keys at any depth, with a member
`code` (one of the sixteen code names), optionally `message` (a string) and `details` (an array
of well-formed details), and nothing else -/
def errorOK (dbg : DebugOracle) (doc : Json) : Bool :=
  dupFree doc &&
  match doc with
  | .obj fs =>
    keysWithin fs allowedError &&
    (match lookup fs jkCode with
      | some (.str c) => codeNames.contains c
      | _ => false) &&
    (match lookup fs jkMessage with
      | none | some (.str _) => true
      | _ => false) &&
    (match lookup fs jkDetails with
      | none => true
      | some (.arr xs) => detailsOK dbg 0 xs
      | _ => false)
  | _ => false

def metaValueOK : Json → Bool
  | .str s => validFieldValue s
  | _ => false

/-- an object of arrays of strings: valid HTTP field names and values -/
def metadataOK : Json → Bool
  | .obj ms => ms.all (fun kv =>
      validFieldName kv.1 &&
      (match kv.2 with
        | .arr vs => vs.all metaValueOK
        | _ => false))
  | _ => false

/-- a well-formed Connect end-of-stream message: an object without duplicate keys at any depth
with optional members `error` (a well-formed error) and `metadata`, and nothing else -/
def endStreamOK (dbg : DebugOracle) (doc : Json) : Bool :=
  dupFree doc &&
  match doc with
  | .obj fs =>
    keysWithin fs allowedEnd &&
    (match lookup fs jkError with
      | none => true
      | some (.obj efs) => errorOK dbg (.obj efs)
      | _ => false) &&
    (match lookup fs jkMetadata with
      | none => true
      | some m => metadataOK m)
  | _ => false

/-! ### malformations that must be reported

Each entry is a list of alternatives of which at least one must be reported.  `examineJSON`
stops at the first problem of the generic layer (wrong JSON type for a struct field, `null`,
duplicate key), so every demand admits those three as alternatives. -/

def generic : List CFb := [.jsonType, .jsonNull, .dupKey]

def orGeneric (f : CFb) : List CFb := f :: generic

def mustFlagDetail : Json → List (List CFb)
  | .obj fs =>
    (if keysWithin fs allowedDetail then [] else [orGeneric .dInvalidKey])
    ++ (match lookup fs jkType with
        | none => [orGeneric .dMissingType]
        | some (.str t) => if validFullName t then [] else [orGeneric .dTypeInvalid]
        | some _ => [orGeneric .dTypeType])
    ++ (match lookup fs jkValue with
        | none => [orGeneric .dMissingValue]
        | some (.str v) => if (rawStdDecode v).isSome then [] else [orGeneric .dValueBase64]
        | some _ => [orGeneric .dValueType])
  | _ => [generic]

/-- bad or missing `code`, unknown or duplicate keys, wrongly typed members, and - when the
object has no unknown key - every malformation of every detail -/
def mustFlagError (doc : Json) : List (List CFb) :=
  (if dupFree doc then [] else [generic])
  ++ match doc with
    | .obj fs =>
      (if keysWithin fs allowedError then [] else [orGeneric .invalidKey])
      ++ (match lookup fs jkCode with
          | none => [orGeneric .missingCode]
          | some (.str c) => if codeNames.contains c then [] else [orGeneric .codeUnknown]
          | some _ => [orGeneric .codeType])
      ++ (match lookup fs jkMessage with
          | none | some (.str _) => []
          | some _ => [orGeneric .messageType])
      ++ (match lookup fs jkDetails with
          | none => []
          | some (.arr xs) => if keysWithin fs allowedError then xs.flatMap mustFlagDetail else []
          | some _ => [orGeneric .detailsType])
    | _ => [generic]

def mustFlagMetaValue : Json → List (List CFb)
  | .str s => if validFieldValue s then [] else [orGeneric .sMetaValue]
  | _ => [orGeneric .sMetaValueType]

def mustFlagMetaEntry (name : Bytes) (values : Json) : List (List CFb) :=
  (if validFieldName name then [] else [orGeneric .sMetaName])
  ++ (match values with
      | .arr vs => vs.flatMap mustFlagMetaValue
      | _ => [orGeneric .sMetaArray])

/-- unknown or duplicate keys, wrongly typed members, invalid metadata names and values, and -
when the object has no unknown key - every malformation of the enclosed error -/
def mustFlagEndStream (doc : Json) : List (List CFb) :=
  (if dupFree doc then [] else [generic])
  ++ match doc with
    | .obj fs =>
      (if keysWithin fs allowedEnd then [] else [orGeneric .sInvalidKey])
      ++ (match lookup fs jkError with
          | none => []
          | some (.obj efs) => if keysWithin fs allowedEnd then mustFlagError (.obj efs) else []
          | some _ => [orGeneric .sErrorType])
      ++ (match lookup fs jkMetadata with
          | none => []
          | some (.obj ms) => ms.flatMap (fun kv => mustFlagMetaEntry kv.1 kv.2)
          | some _ => [orGeneric .sMetadataType])
    | _ => [generic]

def demandsMet (demands : List (List CFb)) (fb : List CFb) : Bool :=
  demands.all (fun alts => alts.any fb.contains)

/-- the property on the output of `examineConnectError`: silent on a well-formed document (and
only on those), every malformation reported -/
def errorHolds (dbg : DebugOracle) (doc : Json) (fb : List CFb) : Bool :=
  (errorOK dbg doc == fb.isEmpty) && demandsMet (mustFlagError doc) fb

/-- the property on the output of `examineConnectEndStream` -/
def endStreamHolds (dbg : DebugOracle) (doc : Json) (fb : List CFb) : Bool :=
  (endStreamOK dbg doc == fb.isEmpty) && demandsMet (mustFlagEndStream doc) fb

/-! ### the `debug` member of a detail -/

/-- the type URL names the message type `n`: `n` is what follows the LAST slash - whatever
stands in front of it (nothing, the default host, any other host, a host with a path, several
slashes) - or the URL has no slash and is `n` -/
def urlNames (url n : Bytes) : Bool := !n.contains 47 && (url == n || ((47 : UInt8) :: n).isSuffixOf url)

/-- well-formed debug data for a detail of type `msgName`: the type is known, the value is a
message of that type, and the debug data is that same message - rendered either as the message
itself or as a `google.protobuf.Any` whose type URL names `msgName` -/
def debugOK (msgName : Bytes) (s : DebugSteps) : Bool :=
  s.resolved && s.valueOK &&
  (if s.directOK then s.eqDirect
   else match s.anyUrl with
     | some url => urlNames url msgName && s.newOK && s.eqAny
     | none => false)

/-- the oracle of the declarative side: silent exactly on well-formed debug data -/
def debugSpecOracle (st : StepsOracle) : DebugOracle :=
  fun i t d => if debugOK t (st i t d) then none else some .mismatch

/-- debug data in `Any` form whose type URL names another type must be reported as such (when
the debug data is not also a rendering of the message itself) -/
def mustFlagDebugType (msgName : Bytes) (s : DebugSteps) : Bool :=
  s.resolved && s.valueOK && !s.directOK &&
  (match s.anyUrl with | some url => !urlNames url msgName | none => false)

/-! ### the errors a spec-conformant encoder is given -/

/-- every detail has a valid type name, a `debug` rendering without duplicate keys, and the
debug rendering agrees with the value (position `i` onwards) -/
def detailsFine (dbg : DebugOracle) : Nat → List Detail → Bool
  | _, [] => true
  | i, d :: ds =>
    validFullName d.type
    && (match d.debug with | some j => dupFree j && (dbg i d.type d.value).isNone | none => true)
    && detailsFine dbg (i + 1) ds

/-- a metadata map: distinct, valid field names; valid field values -/
def metadataFine (md : List (Bytes × List Bytes)) : Bool :=
  decide (md.map (·.1)).Nodup && md.all (fun kv => validFieldName kv.1 && kv.2.all validFieldValue)

/-! ### duplicate keys, declaratively

`checkNoDuplicateKeys` keeps one key set PER OBJECT.  The path it renders (`what.key`,
`what[i]`) is used for the message only: it is not injective (`{"a.b":1,"a":{"b":2}}` has two
different members rendered `a.b`), so it cannot stand for the member. -/

/-- some object of the document, at whatever depth, has one key twice.  Nothing else about the
key strings matters: keys of different objects are never compared. -/
inductive HasRepeatedKey : Json → Prop
  | here {fs : Fields} : ¬ (keysOf fs).Nodup → HasRepeatedKey (.obj fs)
  | member {fs : Fields} {k : Bytes} {v : Json} : (k, v) ∈ fs → HasRepeatedKey v → HasRepeatedKey (.obj fs)
  | elem {xs : List Json} {x : Json} : x ∈ xs → HasRepeatedKey x → HasRepeatedKey (.arr xs)

/-- `what + "." + key` (the key itself at the top) -/
def memberPath (what k : Bytes) : Bytes := if what.isEmpty then k else what ++ [46] ++ k

def natBytes (n : Nat) : Bytes := (Nat.toDigits 10 n).map (fun c => c.toNat.toUInt8)

/-- `what + "[i]"` -/
def elemPath (what : Bytes) (i : Nat) : Bytes := what ++ [91] ++ natBytes i ++ [93]

mutual
/-- the rendered path of every object member of the document, in document order -/
def keyPaths (what : Bytes) : Json → List Bytes
  | .arr xs => keyPathsList what 0 xs
  | .obj fs => keyPathsFields what fs
  | _ => []
def keyPathsList (what : Bytes) (i : Nat) : List Json → List Bytes
  | [] => []
  | x :: xs => keyPaths (elemPath what i) x ++ keyPathsList what (i + 1) xs
def keyPathsFields (what : Bytes) : Fields → List Bytes
  | [] => []
  | (k, v) :: fs => memberPath what k :: (keyPaths (memberPath what k) v ++ keyPathsFields what fs)
end

/-- COUNTER-MODEL (not the code): one document-wide set keyed by the rendered path -/
def pathSetFlags (what : Bytes) (j : Json) : Bool := !decide (keyPaths what j).Nodup

end ConfModel.ConnectJsonSpec
