//go:build verif

package connectconformance

import (
	"errors"
	"sort"
	"strconv"
	"strings"
)

// VerifC06Code is the mixed-radix code of a configCase used on the line protocol:
// ((((((((v*4+p)*4+c)*7+z)*6+s)*2+tls)*2+certs)*2+get)*2+limit) + 43008*connectVersionMode.
func VerifC06Code(c configCase) int {
	b := func(x bool) int {
		if x {
			return 1
		}
		return 0
	}
	code := int(c.Version)
	code = code*4 + int(c.Protocol)
	code = code*4 + int(c.Codec)
	code = code*7 + int(c.Compression)
	code = code*6 + int(c.StreamType)
	code = code*2 + b(c.UseTLS)
	code = code*2 + b(c.UseTLSClientCerts)
	code = code*2 + b(c.UseConnectGET)
	code = code*2 + b(c.UseMessageReceiveLimit)
	return code + 43008*int(c.ConnectVersionMode)
}

// VerifC06ParseConfig runs the real parseConfig on the given YAML/JSON document. It returns the
// sorted codes of the returned cases, or an error class: "features", "include#i", "exclude#i",
// "zero-cases", "unmarshal" (never the text).
func VerifC06ParseConfig(data []byte) (codes []int, errClass string, rawErr string) {
	const name = "verif-c06.yaml"
	cases, err := parseConfig(name, data)
	if err != nil {
		msg := err.Error()
		rest := strings.TrimPrefix(msg, name+": ")
		num := func(prefix string) string {
			s := strings.TrimPrefix(rest, prefix)
			i := 0
			for i < len(s) && s[i] >= '0' && s[i] <= '9' {
				i++
			}
			if _, err := strconv.Atoi(s[:i]); err != nil {
				return "?"
			}
			return s[:i]
		}
		switch {
		case rest == msg:
			return nil, "unmarshal", msg
		case strings.HasPrefix(rest, "include case #"):
			return nil, "include#" + num("include case #"), msg
		case strings.HasPrefix(rest, "exclude case #"):
			return nil, "exclude#" + num("exclude case #"), msg
		case strings.HasPrefix(rest, "configuration resulted in zero cases"):
			return nil, "zero-cases", msg
		case strings.HasPrefix(rest, "config features indicate"):
			return nil, "features", msg
		default:
			return nil, "unmarshal", msg
		}
	}
	if cases == nil {
		return nil, "nil-result", ""
	}
	codes = make([]int, len(cases))
	seen := make(map[configCase]struct{}, len(cases))
	for i, c := range cases {
		codes[i] = VerifC06Code(c)
		seen[c] = struct{}{}
	}
	if len(seen) != len(cases) {
		return nil, "duplicates", errors.New("parseConfig returned a case twice").Error()
	}
	sort.Ints(codes)
	return codes, "", ""
}
