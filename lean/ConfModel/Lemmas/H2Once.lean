/-
Layer 2: a named stream yields exactly one `Complete`, at the moment it leaves the table.
-/
import ConfModel.Lemmas.H2Conn
set_option linter.unusedSimpArgs false
set_option linter.unusedVariables false
namespace ConfModel.H2

/-- events on which `builder.add` finishes the trace -/
def Ev.finishing : Ev → Bool
  | .reqEnd e => e != .none
  | .respEnd _ => true
  | .canceled => true
  | _ => false

theorem add_unnamed (b : Builder) (ev : Ev) (h : b.trace.name = "") : b.add ev = (b, none) := by
  simp [Builder.add, h]

theorem add_nonfinishing (b : Builder) (ev : Ev) (hn : b.trace.name ≠ "") (hf : ev.finishing = false) :
    (b.add ev).2 = none ∧ (b.add ev).1.trace.name = b.trace.name := by
  cases ev <;> simp_all [Builder.add, Builder.push, Ev.finishing]

theorem add_finishing (b : Builder) (ev : Ev) (hn : b.trace.name ≠ "") (hf : ev.finishing = true) :
    (∃ t, (b.add ev).2 = some t ∧ t.name = b.trace.name) ∧ (b.add ev).1.trace.name = "" := by
  cases ev <;> simp_all [Builder.add, Builder.push, Builder.clear, Ev.finishing, Trace.empty]

theorem addAll_unnamed (b : Builder) : ∀ (evs : List Ev), b.trace.name = "" → b.addAll evs = (b, [])
  | [], _ => rfl
  | e :: es, h => by
    simp only [Builder.addAll, add_unnamed b e h, Option.toList, List.nil_append]
    exact addAll_unnamed b es h

theorem addAll_nonfinishing : ∀ (evs : List Ev) (b : Builder), b.trace.name ≠ "" → (∀ e ∈ evs, e.finishing = false) →
    (b.addAll evs).2 = [] ∧ (b.addAll evs).1.trace.name = b.trace.name
  | [], _, _, _ => ⟨rfl, rfl⟩
  | e :: es, b, hn, hf => by
    have h1 := add_nonfinishing b e hn (hf e (by simp))
    have hn' : (b.add e).1.trace.name ≠ "" := by rw [h1.2]; exact hn
    have ih := addAll_nonfinishing es (b.add e).1 hn' (fun x hx => hf x (by simp [hx]))
    simp only [Builder.addAll, h1.1, Option.toList, List.nil_append]
    exact ⟨ih.1, by rw [ih.2, h1.2]⟩

theorem reqEv_nonfinishing (d : DEv) : (reqEv d).finishing = false := by cases d <;> rfl
theorem respEv_nonfinishing (d : DEv) : (respEv d).finishing = false := by cases d <;> rfl

/-- the name of a stream's trace under construction ("" = no test name, nothing is recorded) -/
def Stream.name (st : Stream) : String := st.builder.trace.name

/-- adding non-finishing events: no trace completes, the name stays -/
theorem addEvs_nonfinishing (st : Stream) (evs : List Ev) (hf : ∀ e ∈ evs, e.finishing = false) :
    (st.addEvs evs).2 = [] ∧ (st.addEvs evs).1.name = st.name := by
  by_cases hn : st.builder.trace.name = ""
  · simp [Stream.addEvs, Stream.name, addAll_unnamed st.builder evs hn]
  · have := addAll_nonfinishing evs st.builder hn hf
    simp [Stream.addEvs, Stream.name, this.1, this.2]

theorem flushReq_quiet (st : Stream) : st.flushReq.2 = [] ∧ st.flushReq.1.name = st.name := by
  have := addEvs_nonfinishing { st with reqDT := (dataFlush st.reqDT).1 } ((dataFlush st.reqDT).2.map reqEv)
    (by intro e he; simp only [List.mem_map] at he; obtain ⟨d, _, rfl⟩ := he; exact reqEv_nonfinishing d)
  simpa [Stream.flushReq, Stream.name] using this

theorem flushResp_quiet (st : Stream) : st.flushResp.2 = [] ∧ st.flushResp.1.name = st.name := by
  unfold Stream.flushResp
  split
  · have := addEvs_nonfinishing { st with respDT := (dataFlush st.respDT).1 } ((dataFlush st.respDT).2.map respEv)
      (by intro e he; simp only [List.mem_map] at he; obtain ⟨d, _, rfl⟩ := he; exact respEv_nonfinishing d)
    simpa [Stream.name] using this
  · exact ⟨rfl, rfl⟩

/-- one event added to a stream -/
theorem addEvs_single (st : Stream) (ev : Ev) :
    (st.name = "" → (st.addEvs [ev]).2 = [] ∧ (st.addEvs [ev]).1.name = "") ∧
    (st.name ≠ "" → ev.finishing = false → (st.addEvs [ev]).2 = [] ∧ (st.addEvs [ev]).1.name = st.name) ∧
    (st.name ≠ "" → ev.finishing = true → (∃ t, (st.addEvs [ev]).2 = [t] ∧ t.name = st.name)) := by
  refine ⟨fun hn => ?_, fun hn hf => ?_, fun hn hf => ?_⟩
  · simp [Stream.addEvs, Stream.name, Builder.addAll, add_unnamed st.builder ev hn] at *; exact hn
  · have := add_nonfinishing st.builder ev hn hf
    simp [Stream.addEvs, Stream.name, Builder.addAll, this.1, this.2]
  · obtain ⟨⟨t, ht, htn⟩, _⟩ := add_finishing st.builder ev hn hf
    exact ⟨t, by simp [Stream.addEvs, Builder.addAll, ht], htn⟩

/-- `closeStreamLocked`: a named stream completes exactly when it is deleted -/
theorem close_count (st : Stream) (isReq : Bool) (err : Err) :
    (st.close isReq err).2.length = (if st.name ≠ "" ∧ (!isReq || err != .none) = true then 1 else 0) ∧
    ((!isReq || err != .none) = false → (st.close isReq err).1.name = st.name) ∧
    (∀ t ∈ (st.close isReq err).2, t.name = st.name) := by
  have f1 := flushReq_quiet st
  cases isReq with
  | true =>
    simp only [Stream.close, f1.1, List.nil_append, Bool.not_true, Bool.false_or]
    have hs := addEvs_single st.flushReq.1 (.reqEnd err)
    rw [f1.2] at hs
    by_cases hn : st.name = ""
    · have := hs.1 hn
      simp [this.1, hn, this.2]
    · by_cases he : err = .none
      · subst he
        have := hs.2.1 hn (by simp [Ev.finishing])
        simp [this.1, this.2]
      · obtain ⟨t, ht, htn⟩ := hs.2.2 hn (by simp [Ev.finishing, he])
        simp [ht, hn, he, htn]
  | false =>
    have f2 := flushResp_quiet st.flushReq.1
    simp only [Stream.close, f1.1, f2.1, List.nil_append, Bool.not_false, Bool.true_or, and_true]
    have hs := addEvs_single st.flushReq.1.flushResp.1 (.respEnd err)
    rw [f2.2, f1.2] at hs
    by_cases hn : st.name = ""
    · have := hs.1 hn
      simp [this.1, hn]
    · obtain ⟨t, ht, htn⟩ := hs.2.2 hn rfl
      simp [ht, hn, htn]

def completesIn (ops : List COp) : Nat := ops.countP (fun | .complete _ => true | _ => false)

theorem completesIn_completes (ts : List Trace) : completesIn (completes ts) = ts.length := by
  induction ts with
  | nil => rfl
  | cons t ts ih => simp only [completes, List.map_cons, completesIn, List.countP_cons] at ih ⊢; simp [ih]

theorem completesIn_append (a b : List COp) : completesIn (a ++ b) = completesIn a + completesIn b := by
  simp [completesIn, List.countP_append]

/-- is a named stream open in this view -/
def View.live (v : View) : Bool :=
  match v.cur with
  | some st => st.name != ""
  | none => false

def View.nameOf (v : View) : String :=
  match v.cur with
  | some st => st.name
  | none => ""

theorem closeLocal_count (st : Stream) (isReq : Bool) (err : Err) :
    completesIn (closeLocal st isReq err).2 = (if st.name ≠ "" ∧ (closeLocal st isReq err).1 = none then 1 else 0) ∧
    (∀ st', (closeLocal st isReq err).1 = some st' → st'.name = st.name) := by
  have h := close_count st isReq err
  simp only [closeLocal, completesIn_completes, h.1]
  by_cases hd : (!isReq || err != .none) = true
  · simp [hd]
  · have hd' : (!isReq || err != .none) = false := by simpa using hd
    simp only [hd', Bool.false_eq_true, and_false, if_false]
    refine ⟨by simp, ?_⟩
    intro st' hst
    simp only [Option.some.injEq] at hst
    rw [← hst]; exact h.2.1 hd'

/-- common tail of the HEADERS and DATA branches -/
theorem finishStep_count (name : String) (r0 : Stream × List Trace) (h0 : r0.2 = []) (hn0 : r0.1.name = name)
    (es isReq : Bool) :
    completesIn (finishStep r0 es isReq).2 = (if name ≠ "" ∧ (finishStep r0 es isReq).1 = none then 1 else 0) ∧
    (∀ st', (finishStep r0 es isReq).1 = some st' → st'.name = name) := by
  have hc := closeLocal_count r0.1 isReq .none
  rw [hn0] at hc
  cases es with
  | true =>
    simp only [finishStep, if_true, h0, completes, List.map_nil, List.nil_append]
    exact hc
  | false =>
    simp only [finishStep, Bool.false_eq_true, if_false, h0, completes, List.map_nil, completesIn, List.countP_nil]
    refine ⟨by simp, ?_⟩
    intro st' hst
    simp only [Option.some.injEq] at hst
    rw [← hst]; exact hn0

theorem receiveResponse_quiet (st : Stream) (fields : Fields) :
    (st.receiveResponse fields).2 = [] ∧ (st.receiveResponse fields).1.name = st.name := by
  have := addEvs_nonfinishing
    { st with gotResponse := true, respCfg := { isReq := false, isStream := (propsOf fields).1, dec := (propsOf fields).2 } }
    [.respStart fields] (by intro e he; simp at he; subst he; rfl)
  simpa [Stream.receiveResponse, Stream.name] using this

theorem headersUpdate_quiet (st : Stream) (isReq : Bool) (fields : Fields) :
    (headersUpdate st isReq fields).2 = [] ∧ (headersUpdate st isReq fields).1.name = st.name := by
  unfold headersUpdate
  split
  · exact receiveResponse_quiet st fields
  · split
    · exact ⟨rfl, rfl⟩
    · split <;> exact ⟨rfl, rfl⟩

theorem dataUpdate_quiet (st : Stream) (isReq : Bool) (payload : Bytes) :
    (dataUpdate st isReq payload).2 = [] ∧ (dataUpdate st isReq payload).1.name = st.name := by
  unfold dataUpdate
  split
  · have hd := addEvs_nonfinishing { st with reqDT := (dataTrace st.reqCfg st.reqDT payload).1 }
      ((dataTrace st.reqCfg st.reqDT payload).2.map reqEv)
      (by intro e he; simp only [List.mem_map] at he; obtain ⟨d, _, rfl⟩ := he; exact reqEv_nonfinishing d)
    simpa [Stream.name] using hd
  · have hd := addEvs_nonfinishing { st with respDT := (dataTrace st.respCfg st.respDT payload).1 }
      ((dataTrace st.respCfg st.respDT payload).2.map respEv)
      (by intro e he; simp only [List.mem_map] at he; obtain ⟨d, _, rfl⟩ := he; exact respEv_nonfinishing d)
    simpa [Stream.name] using hd

/-- is a named stream open under this table entry -/
def curLive : Option Stream → Bool
  | some st => st.name != ""
  | none => false

/-- **Exactly once, at the stream.**  A HEADERS / DATA / RST_STREAM frame for a stream makes
the collector see a `Complete` exactly when it removes a named stream from the table, and a
stream that stays keeps its name. -/
theorem streamStep_once (maxId : Nat) (isReq : Bool) (id : Nat) (cur : Option Stream) (f : Frame) :
    completesIn (streamStep maxId isReq id cur f).2 =
      (if curLive cur = true ∧ (streamStep maxId isReq id cur f).1 = none then 1 else 0) ∧
    (∀ st st', cur = some st → (streamStep maxId isReq id cur f).1 = some st' → st'.name = st.name) := by
  cases f with
  | headers fid fields es =>
    cases cur with
    | some st =>
      have hq := headersUpdate_quiet st isReq fields
      have := finishStep_count st.name _ hq.1 hq.2 es isReq
      simp only [streamStep, curLive, bne_iff_ne]
      exact ⟨this.1, fun s s' hs => by cases hs; exact this.2 s'⟩
    | none =>
      simp only [streamStep, curLive, Bool.false_eq_true, false_and, if_false]
      refine ⟨?_, fun s s' hs => by cases hs⟩
      split
      · rfl
      · split
        · rfl
        · rename_i hreq _
          have hreq' : isReq = true := by simpa using hreq
          subst hreq'
          have := finishStep_count (newStream fields).name ((newStream fields), []) rfl rfl es true
          have hsome : (finishStep (newStream fields, []) es true).1 ≠ none := by
            cases es <;> simp [finishStep, closeLocal]
          simp only [hsome, and_false, if_false] at this
          simp only [completesIn, List.countP_cons] at this ⊢
          simp [this.1]
  | data fid payload es =>
    cases cur with
    | none => simp [streamStep, completesIn, curLive]
    | some st =>
      have hq := dataUpdate_quiet st isReq payload
      have := finishStep_count st.name _ hq.1 hq.2 es isReq
      simp only [streamStep, curLive, bne_iff_ne]
      exact ⟨this.1, fun s s' hs => by cases hs; exact this.2 s'⟩
  | rst fid code =>
    cases cur with
    | none => simp [streamStep, completesIn, curLive]
    | some st =>
      simp only [streamStep, curLive, bne_iff_ne]
      have hc := closeLocal_count st isReq (.stream id code)
      exact ⟨hc.1, fun s s' hs => by cases hs; exact hc.2 s'⟩
  | goaway last code =>
    cases cur with
    | none => simp [streamStep, completesIn, curLive]
    | some st => simp [streamStep, completesIn, curLive]
  | other =>
    cases cur with
    | none => simp [streamStep, completesIn, curLive]
    | some st => simp [streamStep, completesIn, curLive]

/-- `viewStep` (one frame, seen from stream `i`): a `Complete` exactly when a named stream
leaves the table; a stream that stays keeps its name -/
theorem viewStep_once (i : Nat) (v : View) (isReq : Bool) (f : Frame) :
    completesIn (viewStep i v isReq f).2 = (if curLive v.cur = true ∧ (viewStep i v isReq f).1.cur = none then 1 else 0) ∧
    (∀ st st', v.cur = some st → (viewStep i v isReq f).1.cur = some st' → st'.name = st.name) := by
  have hstream : ∀ g : Frame, (∀ l c, g ≠ .goaway l c) →
      viewStep i v isReq g = if frameSid g = some i then
        (({ cur := (streamStep v.maxId isReq i v.cur g).1, maxId := v.maxId } : View), (streamStep v.maxId isReq i v.cur g).2)
        else (v, []) := by
    intro g hg
    cases g <;> simp_all [viewStep]
  cases f with
  | goaway last code =>
    obtain ⟨cur, vmax⟩ := v
    simp only [viewStep]
    cases cur with
    | none => simp [curLive, completesIn]
    | some st =>
      by_cases hl : i > last
      · have h := close_count st false (.conn code)
        simp only [hl, if_true, Stream.abort, completesIn_completes, h.1, curLive, bne_iff_ne, Bool.not_false, Bool.true_or,
          and_true]
        simp
      · simp only [hl, if_false, curLive, completesIn, List.countP_nil]
        refine ⟨by simp, ?_⟩
        intro s s' h1 h2
        simp only [Option.some.injEq] at h1 h2
        rw [← h1, ← h2]
  | headers fid fields es =>
    rw [hstream _ (by intros; simp)]
    by_cases hid : frameSid (Frame.headers fid fields es) = some i
    · rw [if_pos hid]; exact streamStep_once v.maxId isReq i v.cur _
    · rw [if_neg hid]
      cases hc : v.cur <;> simp [curLive, completesIn, hc]
  | data fid payload es =>
    rw [hstream _ (by intros; simp)]
    by_cases hid : frameSid (Frame.data fid payload es) = some i
    · rw [if_pos hid]; exact streamStep_once v.maxId isReq i v.cur _
    · rw [if_neg hid]
      cases hc : v.cur <;> simp [curLive, completesIn, hc]
  | rst fid code =>
    rw [hstream _ (by intros; simp)]
    by_cases hid : frameSid (Frame.rst fid code) = some i
    · rw [if_pos hid]; exact streamStep_once v.maxId isReq i v.cur _
    · rw [if_neg hid]
      cases hc : v.cur <;> simp [curLive, completesIn, hc]
  | other =>
    rw [hstream _ (by intros; simp)]
    simp only [frameSid, reduceCtorEq, if_false]
    cases hc : v.cur <;> simp [curLive, completesIn, hc]

def b2n (b : Bool) : Nat := if b then 1 else 0

/-- number of times a named stream gets opened under id `i` along a run -/
def opens (i : Nat) : View → List (Bool × Frame) → Nat
  | _, [] => 0
  | v, df :: l =>
    b2n (!curLive v.cur && curLive (viewStep i v df.1 df.2).1.cur) + opens i (viewStep i v df.1 df.2).1 l

theorem viewStep_conservation (i : Nat) (v : View) (isReq : Bool) (f : Frame) :
    completesIn (viewStep i v isReq f).2 + b2n (curLive (viewStep i v isReq f).1.cur) =
      b2n (curLive v.cur) + b2n (!curLive v.cur && curLive (viewStep i v isReq f).1.cur) := by
  have h := viewStep_once i v isReq f
  rw [h.1]
  cases hv : v.cur with
  | none =>
    cases hv' : (viewStep i v isReq f).1.cur <;> simp [curLive, b2n]
  | some st =>
    cases hv' : (viewStep i v isReq f).1.cur with
    | none => by_cases hn : st.name = "" <;> simp [curLive, b2n, hn]
    | some st' =>
      have := h.2 st st' hv hv'
      by_cases hn : st.name = "" <;> simp [curLive, b2n, hn, this]

/-- **Conservation**: along any run, every named stream opened under id `i` is either still
open or has produced exactly one `Complete`. -/
theorem runView_conservation (i : Nat) : ∀ (l : List (Bool × Frame)) (v : View),
    completesIn (runView i v l).2 + b2n (curLive (runView i v l).1.cur) = b2n (curLive v.cur) + opens i v l
  | [], v => by simp [runView, opens, completesIn]
  | df :: l, v => by
    have h1 := viewStep_conservation i v df.1 df.2
    have ih := runView_conservation i l (viewStep i v df.1 df.2).1
    simp only [runView, opens, completesIn_append]
    omega

/-! ### connection loss -/

theorem cancelClient_count (st : Stream) (err : Err) :
    (st.cancelClient err).2.length = (if st.name ≠ "" then 1 else 0) := by
  have f1 := flushReq_quiet st
  simp only [Stream.cancelClient, f1.1, List.nil_append, Stream.addEvs, Builder.addAll, List.append_nil]
  have hn1 : st.flushReq.1.builder.trace.name = st.name := f1.2
  by_cases hn : st.name = ""
  · rw [hn] at hn1
    simp [add_unnamed _ _ hn1, hn]
  · have hn1' : st.flushReq.1.builder.trace.name ≠ "" := by rw [hn1]; exact hn
    by_cases he : err = .none
    · subst he
      have a1 := add_nonfinishing st.flushReq.1.builder (.reqEnd .none) hn1' rfl
      have hn2 : (st.flushReq.1.builder.add (.reqEnd .none)).1.trace.name ≠ "" := by rw [a1.2]; exact hn1'
      obtain ⟨⟨t, ht, _⟩, _⟩ := add_finishing _ .canceled hn2 rfl
      simp [a1.1, ht, hn]
    · obtain ⟨⟨t, ht, _⟩, hclr⟩ := add_finishing st.flushReq.1.builder (.reqEnd err) hn1' (by simp [Ev.finishing, he])
      simp [ht, add_unnamed _ .canceled hclr, hn]

/-- `cancelAll`: every open named stream is completed exactly once, the table is emptied -/
theorem cancelAll_once (c : L2) (h : TOK c.streams) (err : Err) (i : Nat) :
    completesIn (opsFor i (cancelAll c err).2) = b2n (curLive (tGet i c.streams)) ∧ (cancelAll c err).1.streams = [] := by
  refine ⟨?_, rfl⟩
  simp only [cancelAll, opsFor_append]
  rw [opsFor_flatMap i (fun p => completes (if c.isServer then p.2.abort err else p.2.cancelClient err).2) _ h]
  have hc : completesIn (opsFor i [(0, COp.cancel)]) = 0 := by
    by_cases h0 : (0 : Nat) = i
    · subst h0; rfl
    · have : ((0 : Nat) == i) = false := by simp [h0]
      simp [opsFor, List.filter, this, completesIn]
  rw [completesIn_append, hc]
  cases hg : tGet i c.streams with
  | none => simp [completesIn, curLive, b2n]
  | some st =>
    simp only [completesIn_completes, curLive, b2n, Nat.add_zero]
    cases c.isServer with
    | true =>
      have := close_count st false err
      simp only [if_true, Stream.abort, this.1, Bool.not_false, Bool.true_or, and_true, bne_iff_ne]
    | false =>
      simp only [Bool.false_eq_true, if_false, cancelClient_count, bne_iff_ne]

/-! ### attribution: a completed trace carries the test name of the stream it comes from -/

theorem closeLocal_names (st : Stream) (isReq : Bool) (err : Err) (t : Trace)
    (h : COp.complete t ∈ (closeLocal st isReq err).2) : t.name = st.name := by
  simp only [closeLocal, completes, List.mem_map] at h
  obtain ⟨t', ht', he⟩ := h
  injection he with he
  subst he
  exact (close_count st isReq err).2.2 t' ht'

theorem finishStep_names (name : String) (r0 : Stream × List Trace) (h0 : r0.2 = []) (hn0 : r0.1.name = name)
    (es isReq : Bool) (t : Trace) (h : COp.complete t ∈ (finishStep r0 es isReq).2) : t.name = name := by
  cases es with
  | true =>
    simp only [finishStep, if_true, h0, completes, List.map_nil, List.nil_append] at h
    rw [← hn0]; exact closeLocal_names _ _ _ _ h
  | false => simp [finishStep, h0, completes] at h

theorem streamStep_names (maxId : Nat) (isReq : Bool) (id : Nat) (cur : Option Stream) (f : Frame) (t : Trace)
    (h : COp.complete t ∈ (streamStep maxId isReq id cur f).2) : ∃ st, cur = some st ∧ t.name = st.name := by
  cases f with
  | headers fid fields es =>
    cases cur with
    | some st =>
      have hq := headersUpdate_quiet st isReq fields
      exact ⟨st, rfl, finishStep_names st.name _ hq.1 hq.2 es isReq t h⟩
    | none =>
      exfalso
      have hc := (streamStep_once maxId isReq id none (.headers fid fields es)).1
      simp only [curLive, Bool.false_eq_true, false_and, if_false] at hc
      have : 0 < completesIn (streamStep maxId isReq id none (.headers fid fields es)).2 := by
        simp only [completesIn, List.countP_pos_iff]
        exact ⟨_, h, rfl⟩
      omega
  | data fid payload es =>
    cases cur with
    | none => simp [streamStep] at h
    | some st =>
      have hq := dataUpdate_quiet st isReq payload
      exact ⟨st, rfl, finishStep_names st.name _ hq.1 hq.2 es isReq t h⟩
  | rst fid code =>
    cases cur with
    | none => simp [streamStep] at h
    | some st => exact ⟨st, rfl, closeLocal_names st isReq _ t h⟩
  | goaway last code => simp [streamStep] at h
  | other => simp [streamStep] at h

theorem viewStep_names (i : Nat) (v : View) (isReq : Bool) (f : Frame) (t : Trace)
    (h : COp.complete t ∈ (viewStep i v isReq f).2) : ∃ st, v.cur = some st ∧ t.name = st.name := by
  cases f with
  | goaway last code =>
    obtain ⟨cur, vmax⟩ := v
    cases cur with
    | none => simp [viewStep] at h
    | some st =>
      simp only [viewStep] at h
      split at h
      · simp only [completes, List.mem_map] at h
        obtain ⟨t', ht', he⟩ := h
        injection he with he
        subst he
        exact ⟨st, rfl, (close_count st false (.conn code)).2.2 t' ht'⟩
      · simp at h
  | headers fid fields es =>
    simp only [viewStep] at h
    split at h
    · exact streamStep_names _ _ _ _ _ t h
    · simp at h
  | data fid payload es =>
    simp only [viewStep] at h
    split at h
    · exact streamStep_names _ _ _ _ _ t h
    · simp at h
  | rst fid code =>
    simp only [viewStep] at h
    split at h
    · exact streamStep_names _ _ _ _ _ t h
    · simp at h
  | other => simp [viewStep, frameSid] at h

theorem mem_opsFor (i : Nat) (ops : Ops) (o : COp) : o ∈ opsFor i ops ↔ (i, o) ∈ ops := by
  simp only [opsFor, List.mem_map, List.mem_filter]
  constructor
  · rintro ⟨p, ⟨hp, hi⟩, rfl⟩
    have : p.1 = i := by simpa using hi
    rw [← this]; exact hp
  · intro h; exact ⟨(i, o), ⟨h, by simp⟩, rfl⟩

/-- a newly opened stream carries the test name of its request HEADERS -/
theorem newStream_name (fields : Fields) : (newStream fields).name = getHeader fields testNameHeader := rfl

end ConfModel.H2
