/-
Declarative side of C19: which sizes a request can be padded to at all, and the property's
predicate on one observed expansion.
-/
import ConfModel.Model.Expand
namespace ConfModel.Padding
open ConfModel.Expand

/-- Is there a padding length `L` with `size R L = T`?  Closed form: `T = R` (no padding), or
`L = T - R - 1 - w` for one of the ten possible varint widths `w`. -/
def reachable (R T : Nat) : Bool :=
  T == R || (List.range 10).any (fun k => R + 2 + k < T && size R (T - R - 2 - k) == T)

/-- The property on one expansion directive, conservative reading: either the request now
has exactly `limit + off` bytes and nothing but the padding field changed, or an error was
returned (a panic is neither). -/
def holdsExpand (limit : Nat) (off : Int) (ok errored : Bool) (sizeAfter : Nat) (othersEqual : Bool) : Bool :=
  if ok then ((sizeAfter : Int) == (limit : Int) + off) && othersEqual else errored

/-- The receive limit as the property states it: a message of uncompressed size `size` is
accepted iff it does not exceed the limit (so `limit` passes and `limit + 1` does not). -/
def accepts (limit size : Nat) : Bool := size ≤ limit

/-- The property on one observed call in which exactly one message — at any position of the
request stream (server side) or response stream (client side) — has `size` bytes and all
others are far below the limit: `ok = true` means the call succeeded, `exhausted = true` that
it failed with resource-exhausted.  A message within the limit must be accepted, which
includes that the receiving side handed on all `want` messages of the stream and that the
one under test arrived with its `size` bytes (`echo`); a message beyond the limit must be
rejected with resource-exhausted — also when it is the first message of a stream. -/
def holdsSharp (limit size : Nat) (ok exhausted : Bool) (want got echo : Nat) : Bool :=
  if accepts limit size then ok && got == want && echo == size else exhausted && !ok

/-- The two sentences of the property tied together.  A server process was configured with the
receive limit `cfg`; a request whose directive has the offset `d` was accepted by the loader and
has `sz` bytes.  "Padded to server receive limit + d" then means: the request is beyond the
limit the server enforces exactly when `d > 0` (so `d = 0` is the largest request that passes
and `d = 1` the smallest that does not — the limit is sharp w.r.t. the padding). -/
def holdsConfigured (cfg sz : Nat) (d : Int) : Bool := accepts cfg sz == decide (d ≤ 0)

/-- The property on one request message of a suite that was ACCEPTED (loaded without error),
whatever the suite's attributes are: a message with a directive `off` has exactly
`limit + off` bytes and nothing but its padding changed; a message without one is what the
file said. -/
def msgPadded (limit : Nat) (off : Option Int) (sizeAfter : Nat) (othersEqual unchanged : Bool) : Bool :=
  match off with
  | some off => holdsExpand limit off true false sizeAfter othersEqual
  | none => unchanged

/-- … on the model's output: `L` is the padding length after loading -/
def directivePadded (limit : Nat) (d : Directive) (L : Nat) : Bool :=
  msgPadded limit d.off (size d.r L) true (L == d.l0)

/-- an accepted suite: every message of every case -/
def suitePadded (limit : Nat) (cases : List SuiteCase) (out : List (List Nat)) : Bool :=
  cases.length == out.length &&
  (cases.zip out).all (fun p => p.1.msgs.length == p.2.length &&
    (p.1.msgs.zip p.2).all (fun q => directivePadded limit q.1 q.2))

end ConfModel.Padding
