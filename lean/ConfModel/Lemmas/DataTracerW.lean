/-
Helper lemmas for C14: the fixed-width machine (`Model/DataTracerW.lean`) simulates the `Nat`
machine — no counter wraps on a reachable state.
-/
import ConfModel.Lemmas.DataTracer
import ConfModel.Model.DataTracerW
namespace ConfModel.DataTracer

theorem be32_lt4 (b : Bytes) (h : b.length = 4) : be32 b < 2 ^ 32 := by
  match b, h with
  | [a, b, c, d], _ =>
    have ha := a.toNat_lt; have hb := b.toNat_lt; have hc := c.toNat_lt; have hd := d.toNat_lt
    simp only [be32, List.foldl_cons, List.foldl_nil]
    omega

theorem u32_eq_zero_iff (x : UInt32) : x = 0 ↔ x.toNat = 0 := by
  rw [← UInt32.toNat_inj]; simp

theorem abs_expecting_zero (s : StW) : s.expecting = 0 ↔ s.abs.expecting = 0 := u32_eq_zero_iff _

/-- `finishPrefixW` on five prefix bytes is `finishPrefix` -/
theorem finishPrefixW_sim (c : Cfg) (s : StW) (p : Bytes) (hp : p.length = 5) :
    ((finishPrefixW c s p).1.abs, (finishPrefixW c s p).2) = finishPrefix c s.abs p := by
  have hlt : be32 (p.drop 1) < 2 ^ 32 := be32_lt4 _ (by simp [hp])
  have hx : (UInt32.ofNat (be32 (p.drop 1))).toNat = be32 (p.drop 1) :=
    UInt32.toNat_ofNat_of_lt' (by simpa [UInt32.size] using hlt)
  unfold finishPrefixW finishPrefix
  simp only
  generalize be32 (p.drop 1) = n at hlt hx
  by_cases h0 : n = 0
  · have h1 : UInt32.ofNat n = 0 := by rw [u32_eq_zero_iff, hx, h0]
    rw [if_pos h1, if_pos h0]
    rfl
  · have h1 : ¬ UInt32.ofNat n = 0 := by rw [u32_eq_zero_iff, hx]; exact h0
    rw [if_neg h1, if_neg h0]
    simp [StW.abs, hx]

theorem finishMsgW_sim (c : Cfg) (s : StW) (x : Bytes) :
    ((finishMsgW c s x).1.abs, (finishMsgW c s x).2) = finishMsg c s.abs x := by
  cases h : s.eos <;> simp [finishMsgW, finishMsg, StW.abs, h]

/-- on a reachable state `uint32(d.actual)` loses nothing and the `uint32` subtraction is exact -/
theorem needW_eq (s : StW) (hi : Inv s.abs) (he : s.abs.expecting ≠ 0) :
    (s.expecting - s.actual.toUInt32).toNat = s.abs.expecting - s.abs.actual := by
  have hm := (hi.2.2 he).1
  have hlt := s.expecting.toNat_lt
  simp only [StW.abs] at hm ⊢
  have hmod : s.actual.toUInt32.toNat = s.actual.toNat := by
    rw [UInt64.toNat_toUInt32]; exact Nat.mod_eq_of_lt (by omega)
  rw [UInt32.toNat_sub_of_le _ _ (by rw [UInt32.le_iff_toNat_le, hmod]; omega), hmod]

theorem traceW_unfold (c : Cfg) (fuel : Nat) (s : StW) (data : Bytes) :
    traceW c (fuel+1) s data =
    if data.isEmpty then (s, []) else
    if s.expecting = 0 then
      if data.length < 5 - s.pfx.length then ({ s with pfx := s.pfx ++ data }, [])
      else
        ((traceW c fuel (finishPrefixW c s (s.pfx ++ data.take (5 - s.pfx.length))).1 (data.drop (5 - s.pfx.length))).1,
         (finishPrefixW c s (s.pfx ++ data.take (5 - s.pfx.length))).2 ++
         (traceW c fuel (finishPrefixW c s (s.pfx ++ data.take (5 - s.pfx.length))).1 (data.drop (5 - s.pfx.length))).2)
    else
      if data.length < (s.expecting - s.actual.toUInt32).toNat then
        ({ s with actual := s.actual + lenU64 data, eos := s.eos.map (· ++ data) }, [])
      else
        ((traceW c fuel (finishMsgW c s (data.take (s.expecting - s.actual.toUInt32).toNat)).1
            (data.drop (s.expecting - s.actual.toUInt32).toNat)).1,
         (finishMsgW c s (data.take (s.expecting - s.actual.toUInt32).toNat)).2 ++
         (traceW c fuel (finishMsgW c s (data.take (s.expecting - s.actual.toUInt32).toNat)).1
            (data.drop (s.expecting - s.actual.toUInt32).toNat)).2) := by
  rfl

/-- the fixed-width loop simulates the `Nat` loop from every reachable state, for any data -/
theorem traceW_sim (c : Cfg) : ∀ (fuel : Nat) (s : StW) (d : Bytes), Inv s.abs →
    ((traceW c fuel s d).1.abs, (traceW c fuel s d).2) = trace c fuel s.abs d
  | 0, s, d, _ => rfl
  | fuel+1, s, d, hi => by
    rw [traceW_unfold, trace_unfold]
    by_cases hd : d.isEmpty
    · simp [hd]
    · simp only [hd, Bool.false_eq_true, if_false]
      by_cases he : s.expecting = 0
      · have he' : s.abs.expecting = 0 := (abs_expecting_zero s).1 he
        simp only [he, he', if_true]
        have hpf : s.abs.pfx = s.pfx := rfl
        rw [hpf]
        by_cases hl : d.length < 5 - s.pfx.length
        · simp only [hl, if_true]; rfl
        · simp only [hl, if_false]
          have hlen : (s.pfx ++ d.take (5 - s.pfx.length)).length = 5 := by
            have := hi.1; simp only [StW.abs] at this
            simp [List.length_take]; omega
          have hfp := finishPrefixW_sim c s _ hlen
          have hinv : Inv (finishPrefixW c s (s.pfx ++ d.take (5 - s.pfx.length))).1.abs := by
            have := congrArg Prod.fst hfp; simp only at this
            rw [this]; exact inv_finishPrefix c s.abs _ hi he'
          have ih := traceW_sim c fuel _ (d.drop (5 - s.pfx.length)) hinv
          have h1 := congrArg Prod.fst hfp; have h2 := congrArg Prod.snd hfp
          simp only at h1 h2
          rw [← h1, ← h2]
          have i1 := congrArg Prod.fst ih; have i2 := congrArg Prod.snd ih
          simp only at i1 i2
          rw [← i1, ← i2]
      · have he' : s.abs.expecting ≠ 0 := fun h => he ((abs_expecting_zero s).2 h)
        simp only [he, he', if_false]
        rw [needW_eq s hi he']
        have hm := (hi.2.2 he').1
        by_cases hl : d.length < s.abs.expecting - s.abs.actual
        · simp only [hl, if_true]
          have hlt := s.expecting.toNat_lt
          simp only [StW.abs] at hm hl
          have : (s.actual + lenU64 d).toNat = s.actual.toNat + d.length := by
            rw [UInt64.toNat_add, lenU64, UInt64.toNat_ofNat']
            have h1 : d.length % 2 ^ 64 = d.length := Nat.mod_eq_of_lt (by omega)
            rw [h1]; exact Nat.mod_eq_of_lt (by omega)
          simp [StW.abs, this]
        · simp only [hl, if_false]
          have hfm := finishMsgW_sim c s (d.take (s.abs.expecting - s.abs.actual))
          have hinv : Inv (finishMsgW c s (d.take (s.abs.expecting - s.abs.actual))).1.abs := by
            have := congrArg Prod.fst hfm; simp only at this
            rw [this]; exact inv_finishMsg c s.abs _ hi he'
          have ih := traceW_sim c fuel _ (d.drop (s.abs.expecting - s.abs.actual)) hinv
          have h1 := congrArg Prod.fst hfm; have h2 := congrArg Prod.snd hfm
          simp only at h1 h2
          rw [← h1, ← h2]
          have i1 := congrArg Prod.fst ih; have i2 := congrArg Prod.snd ih
          simp only at i1 i2
          rw [← i1, ← i2]

theorem runW_sim (c : Cfg) (s : StW) (d : Bytes) (hi : Inv s.abs) :
    ((runW c s d).1.abs, (runW c s d).2) = run c s.abs d :=
  traceW_sim c (d.length + 1) s d hi

/-- one `trace` call: a stream from a reachable state, or a byte count that stays below 2^64 -/
theorem feedW_sim (c : Cfg) (s : StW) (d : Bytes)
    (hi : c.isStream = true → Inv s.abs) (hb : c.isStream = false → s.actual.toNat + d.length < 2 ^ 64) :
    ((feedW c s d).1.abs, (feedW c s d).2) = feed c s.abs d := by
  cases hs : c.isStream
  · have hb := hb hs
    have : (s.actual + lenU64 d).toNat = s.actual.toNat + d.length := by
      rw [UInt64.toNat_add, lenU64, UInt64.toNat_ofNat']
      have h1 : d.length % 2 ^ 64 = d.length := Nat.mod_eq_of_lt (by omega)
      rw [h1]; exact Nat.mod_eq_of_lt hb
    simp [feedW, feed, hs, StW.abs, this]
  · simp only [feedW, feed, hs, if_true]
    exact runW_sim c s d (hi hs)

theorem unfinishedW_sim (s : StW) (hp : s.pfx.length < 2 ^ 64) : unfinishedW s = unfinished s.abs := by
  unfold unfinishedW unfinished
  have hz : (s.expecting = 0 ∧ s.pfx.length > 0) ↔ (s.abs.expecting = 0 ∧ s.abs.pfx.length > 0) := by
    rw [abs_expecting_zero]; rfl
  by_cases hc : s.expecting = 0 ∧ s.pfx.length > 0
  · have hc' := hz.1 hc
    have hn : (UInt64.ofNat s.pfx.length).toNat = s.pfx.length := by
      rw [UInt64.toNat_ofNat']; exact Nat.mod_eq_of_lt hp
    have hpos : UInt64.ofNat s.pfx.length > 0 := by
      show (0 : UInt64) < _
      rw [UInt64.lt_iff_toNat_lt, hn]; simpa using hc.2
    simp only [hc, hc', and_self, if_true, hpos, hn]
    rfl
  · have hc' : ¬ (s.abs.expecting = 0 ∧ s.abs.pfx.length > 0) := fun h => hc (hz.2 h)
    simp only [hc, hc', if_false]
    have : (s.actual > 0) ↔ (s.abs.actual > 0) := by
      show (0 : UInt64) < _ ↔ _
      rw [UInt64.lt_iff_toNat_lt]; rfl
    by_cases ha : s.actual > 0
    · simp only [ha, this.1 ha, if_true]; rfl
    · have ha' : ¬ s.abs.actual > 0 := fun h => ha (this.2 h)
      simp only [ha, ha', if_false]

/-- successive calls: as long as the byte total of a non-stream body stays below 2^64 -/
theorem feedAllW_sim (c : Cfg) : ∀ (chunks : List Bytes) (s : StW),
    (c.isStream = true → Inv s.abs) → (c.isStream = false → s.actual.toNat + chunks.flatten.length < 2 ^ 64) →
    ((feedAllW c s chunks).1.abs, (feedAllW c s chunks).2) = feedAll c s.abs chunks
  | [], _, _, _ => rfl
  | d :: ds, s, hi, hb => by
    have hstep := feedW_sim c s d hi (fun h => by have := hb h; rw [List.flatten_cons, List.length_append] at this; omega)
    have h1 := congrArg Prod.fst hstep; have h2 := congrArg Prod.snd hstep
    simp only at h1 h2
    have hi' : c.isStream = true → Inv (feedW c s d).1.abs := by
      intro hs
      rw [h1]; simp only [feed, hs, if_true]
      exact inv_run c d.length d (Nat.le_refl _) _ (hi hs)
    have hb' : c.isStream = false → (feedW c s d).1.actual.toNat + ds.flatten.length < 2 ^ 64 := by
      intro hs
      have hact : (feedW c s d).1.abs.actual = s.actual.toNat + d.length := by
        rw [h1]; simp [feed, hs, StW.abs]
      have := hb hs
      simp only [StW.abs] at hact
      rw [List.flatten_cons, List.length_append] at this
      omega
    have ih := feedAllW_sim c ds (feedW c s d).1 hi' hb'
    have i1 := congrArg Prod.fst ih; have i2 := congrArg Prod.snd ih
    simp only at i1 i2
    simp only [feedAllW, feedAll]
    rw [i1, i2, h1, h2]

theorem abs_initW : initW.abs = init := rfl

end ConfModel.DataTracer
