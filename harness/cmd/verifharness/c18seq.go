package main

// C18 — strict codecs over SEQUENCES of calls. "The strict message codecs decode what they
// encode" is a statement about values: what Marshal / MarshalStable / MarshalAppend returned
// for message i must still be that encoding — and decode to message i — after any number of
// later calls of any codec method, and what Unmarshal produced must still be that message
// after the caller recycled the data buffer (connect-go hands both to buffer pools). The
// `codecseq` operation runs a list of calls on one codec, keeps every result WITHOUT copying
// it, takes a private snapshot at the moment of the return, and looks at all results again
// after the last call.

import (
	"bytes"
	"encoding/hex"
	"encoding/json"

	"connectrpc.com/conformance/internal"
	"connectrpc.com/conformance/internal/verifharness/gen"
	"connectrpc.com/connect"
	"google.golang.org/protobuf/proto"
	"google.golang.org/protobuf/reflect/protoreflect"
)

func init() {
	gen.RegisterOp("c18", "codecseq", func(_ *gen.Ctx, raw json.RawMessage) any { return c18CodecSeq(gen.Into[c18SeqIn](raw)) })
}

type c18SeqStep struct {
	// marshal | stable | append : encode message (Type, Msg) with that method
	// decode : Unmarshal the encoding produced by step Of (an encode step before this one)
	M    string `json:"m"`
	Type string `json:"type,omitempty"`
	Msg  string `json:"msg,omitempty"`  // hex, binary encoding of the message
	Pfx  int    `json:"pfx,omitempty"`  // append: length of the prefix already in dst
	Room int    `json:"room,omitempty"` // append: spare capacity of dst
	Of   int    `json:"of,omitempty"`
}
type c18SeqIn struct {
	Codec string       `json:"codec"` // proto | json
	Steps []c18SeqStep `json:"steps"`
}
type c18SeqStepOut struct {
	OK bool `json:"ok"` // the call returned no error
	// encode steps: the bytes when the call returned, the bytes of the SAME slice after the last
	// call of the sequence, and whether those decode (strict Unmarshal) to the step's message
	Snap  string `json:"snap"`
	Final string `json:"final"`
	Dec   bool   `json:"dec"`
	// append: the prefix handed in is still in front
	PfxKept bool `json:"pfxKept"`
	// decode steps: the message equals the one encoded by step Of right after the call, and
	// still after the data buffer was overwritten and all later calls were made
	EqNow bool `json:"eqNow"`
	EqEnd bool `json:"eqEnd"`
}
type c18SeqOut struct {
	Steps []c18SeqStepOut `json:"steps"`
}

func c18CodecSeq(in c18SeqIn) c18SeqOut {
	var codec interface {
		connect.Codec
		MarshalAppend([]byte, any) ([]byte, error)
		MarshalStable(any) ([]byte, error)
	}
	if in.Codec == "json" {
		codec = internal.StrictJSONCodec{}
	} else {
		codec = internal.StrictProtoCodec{}
	}
	n := len(in.Steps)
	msgs := make([]proto.Message, n)    // the message of an encode step
	held := make([][]byte, n)           // the slice the codec returned (aliased on purpose)
	isHeld := make([]bool, n)           // an encode step that returned no error
	pfx := make([]int, n)               // where the encoding starts in held[i]
	decoded := make([]proto.Message, n) // the message a decode step produced
	out := c18SeqOut{Steps: make([]c18SeqStepOut, n)}
	for i, st := range in.Steps {
		so := &out.Steps[i]
		switch st.M {
		case "marshal", "stable", "append":
			msg := c18NewMsg(st.Type)
			raw, _ := hex.DecodeString(st.Msg)
			if err := proto.Unmarshal(raw, msg); err != nil {
				panic("generator produced an undecodable message: " + err.Error())
			}
			msgs[i] = msg
			var b []byte
			var err error
			switch st.M {
			case "marshal":
				b, err = codec.Marshal(msg)
			case "stable":
				b, err = codec.MarshalStable(msg)
			default:
				dst := make([]byte, st.Pfx, st.Pfx+st.Room)
				for k := range dst {
					dst[k] = byte('a' + k%26)
				}
				b, err = codec.MarshalAppend(dst, msg)
				pfx[i] = st.Pfx
				if err == nil && len(b) < st.Pfx {
					err = errShort
				}
			}
			so.OK = err == nil
			if err != nil {
				continue
			}
			held[i], isHeld[i] = b, true
			so.Snap = gen.Hex(b[pfx[i]:])
		case "decode":
			if st.Of < 0 || st.Of >= i || !isHeld[st.Of] {
				continue
			}
			// the caller's own buffer, recycled right after the call
			data := append([]byte{}, held[st.Of][pfx[st.Of]:]...)
			back := msgs[st.Of].ProtoReflect().New().Interface()
			err := codec.Unmarshal(data, back)
			so.OK = err == nil
			if err != nil {
				continue
			}
			so.EqNow = proto.Equal(msgs[st.Of], back)
			for k := range data {
				data[k] = 0xAA
			}
			decoded[i] = back
		}
	}
	// after the last call
	for i, st := range in.Steps {
		so := &out.Steps[i]
		switch {
		case isHeld[i]:
			b := held[i]
			so.Final = gen.Hex(b[pfx[i]:])
			back := msgs[i].ProtoReflect().New().Interface()
			so.Dec = codec.Unmarshal(append([]byte{}, b[pfx[i]:]...), back) == nil && proto.Equal(msgs[i], back)
			if st.M == "append" {
				want := make([]byte, st.Pfx)
				for k := range want {
					want[k] = byte('a' + k%26)
				}
				so.PfxKept = bytes.Equal(b[:st.Pfx], want)
			}
		case decoded[i] != nil:
			so.EqEnd = proto.Equal(msgs[st.Of], decoded[i])
		}
	}
	return out
}

type c18ErrString string

func (e c18ErrString) Error() string { return string(e) }

const errShort = c18ErrString("result shorter than the prefix")

// c18SeqGen: (1) every sequence of up to 3 calls (thorough 4) over the four kinds of call on two
// pairs of messages (same encoded length / different lengths), both codecs; (2) random
// sequences of 2..8 calls on random conformance messages of every type.
func c18SeqGen(c *gen.Ctx) error {
	r := c.R
	e := c.E
	th := c.Thorough()
	enc := func(m proto.Message) string {
		b, err := proto.MarshalOptions{Deterministic: true}.Marshal(m)
		if err != nil {
			panic(err)
		}
		return gen.Hex(b)
	}
	const unary = "connectrpc.conformance.v1.UnaryRequest"
	mkUnary := func(data string) string {
		m := c18NewMsg(unary)
		f := m.ProtoReflect().Descriptor().Fields().ByName("request_data")
		m.ProtoReflect().Set(f, protoreflect.ValueOfBytes([]byte(data)))
		return enc(m)
	}
	pairs := [][]string{
		{mkUnary("first-0000"), mkUnary("other-0000"), mkUnary("third-0000"), mkUnary("fourt-0000")},
		{mkUnary("a"), mkUnary("a much longer payload than the first one, so that the encodings differ in length"), mkUnary(""), mkUnary("mid-size payload")},
	}
	kinds := []string{"marshal", "stable", "append", "decode"}
	maxLen := 3
	if th {
		maxLen = 4
	}
	count := 0
	for _, codec := range []string{"json", "proto"} {
		for _, pair := range pairs {
			var rec func(cur []c18SeqStep)
			rec = func(cur []c18SeqStep) {
				if len(cur) >= 2 {
					c.Do("codecseq", c18SeqIn{Codec: codec, Steps: append([]c18SeqStep{}, cur...)})
					count++
				}
				if len(cur) == maxLen {
					return
				}
				for _, k := range kinds {
					if k == "decode" {
						// the encoding of every earlier encode step
						for j := range cur {
							if cur[j].M != "decode" {
								rec(append(cur, c18SeqStep{M: k, Of: j}))
							}
						}
						continue
					}
					st := c18SeqStep{M: k, Type: unary, Msg: pair[len(cur)%len(pair)]}
					if k == "append" {
						st.Pfx, st.Room = 3, []int{0, 4, 4096}[len(cur)%3]
					}
					rec(append(cur, st))
				}
			}
			rec(nil)
		}
	}
	e.Add("codec-sequences-exhaustive", count)

	types := c18MessageTypes()
	nRand := 600
	if th {
		nRand = 20000
	}
	for i := 0; i < nRand; i++ {
		in := c18SeqIn{Codec: gen.Pick(r, []string{"json", "proto"})}
		n := r.Range(2, 8)
		// mostly one message type per sequence (a pool keyed by nothing is hit either way; the
		// same type gives encodings of similar length, which hides nothing and shows more)
		tn := gen.Pick(r, types)
		var encSteps []int
		for k := 0; k < n; k++ {
			kind := gen.Pick(r, []string{"marshal", "stable", "stable", "append", "decode"})
			if kind == "decode" && len(encSteps) == 0 {
				kind = "stable"
			}
			st := c18SeqStep{M: kind}
			if kind == "decode" {
				st.Of = gen.Pick(r, encSteps)
			} else {
				if r.Chance(1, 4) {
					tn = gen.Pick(r, types)
				}
				m := c18NewMsg(tn).ProtoReflect()
				c18RandMsg(r, m, 3)
				st.Type, st.Msg = tn, enc(m.Interface())
				if kind == "append" {
					st.Pfx, st.Room = r.Intn(6), gen.Pick(r, []int{0, 0, 8, 64, 4096})
				}
				encSteps = append(encSteps, k)
			}
			in.Steps = append(in.Steps, st)
		}
		c.Do("codecseq", in)
	}
	e.Add("codec-sequences-random", nRand)
	return nil
}
