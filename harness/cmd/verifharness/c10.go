package main

import (
	"encoding/json"
	"runtime"
	"sort"
	"time"

	cc "connectrpc.com/conformance/internal/app/connectconformance"
	"connectrpc.com/conformance/internal/verifharness/gen"
)

// C10 — client multiplexer.  One op:
//
//	run  {"names":[..],"senders":[[..]..],"client":[act..],"reps":R}
//	     -> {"obs":[observation..]}   the distinct observations of R runs of the real
//	        runClient/clientProcessRunner on the in-process scripted client.
//
// Schedule-dependent values are judged by membership in the model's outcome set.

type c10In struct {
	Names   []int            `json:"names"`
	Senders [][]int          `json:"senders"`
	Client  []cc.VerifC10Act `json:"client"`
	Reps    int              `json:"reps"`
}

type c10Out struct {
	Obs []cc.VerifC10Obs `json:"obs"`
}

func init() {
	areas["c10"] = runC10
	gen.RegisterOp("c10", "run", func(_ *gen.Ctx, raw json.RawMessage) any {
		in := gen.Into[c10In](raw)
		reps := in.Reps
		if reps < 1 {
			reps = 1
		}
		seen := map[string]cc.VerifC10Obs{}
		for r := 0; r < reps; r++ {
			o := cc.VerifC10Run(cc.VerifC10Spec{Names: in.Names, Senders: in.Senders, Client: in.Client})
			b, _ := json.Marshal(o)
			seen[string(b)] = o
			early := o.RunAtDone && o.Late == "fail"
			for _, l := range o.Cbs {
				for _, v := range l {
					early = early || v == -3
				}
			}
			if o.Running || o.Hang != "" || early {
				break // already a violation; do not pay the polling window again
			}
		}
		keys := make([]string, 0, len(seen))
		for k := range seen {
			keys = append(keys, k)
		}
		sort.Strings(keys)
		out := c10Out{}
		for _, k := range keys {
			out.Obs = append(out.Obs, seen[k])
		}
		return out
	})
}

// op "wedge": an in-process client that misbehaves on its output and then never ends (see
// verif_export_c10wedge.go).  Each scenario waits for the runner's own timers (about 5 s); they run
// side by side with the real-process scenarios.
type c10WedgeIn struct {
	cc.VerifC10WedgeSpec
}

func init() {
	gen.RegisterOp("c10", "wedge", func(_ *gen.Ctx, raw json.RawMessage) any {
		return cc.VerifC10Wedge(gen.Into[c10WedgeIn](raw).VerifC10WedgeSpec)
	})
}

func c10WedgeScenarios(c *gen.Ctx) []any {
	var ins []any
	add := func(n, pos int, bad, mode string) {
		ins = append(ins, c10WedgeIn{cc.VerifC10WedgeSpec{N: n, Pos: pos, Bad: bad, Mode: mode, TimeoutS: 20}})
		c.E.Count("wedge:" + bad + ":" + mode)
	}
	add(1, 0, "text", "writes")
	add(3, 1, "garbage", "writes")
	add(2, 2, "dup", "writes")
	add(2, 0, "unknown", "deaf")
	add(3, c.R.Range(0, 3), "over", gen.Pick(c.R, []string{"writes", "deaf"}))
	if c.Thorough() {
		for _, bad := range []string{"text", "over", "garbage", "unknown", "dup"} {
			for _, mode := range []string{"writes", "deaf"} {
				n := c.R.Range(1, 4)
				pos := c.R.Range(0, n)
				if bad == "dup" && pos == 0 {
					pos = 1
				}
				add(n, pos, bad, mode)
			}
		}
	}
	return ins
}

// op "rawout": arbitrary bytes where the runner expects the next length prefix of the client's
// output (see verif_export_c10raw.go), run in a child process so that the death of the runner is an
// observation ({"crashed": true, …}).
func init() {
	gen.RegisterOp("c10", "rawout", func(_ *gen.Ctx, raw json.RawMessage) any {
		if c11InChild() {
			return cc.VerifC10RawOut(gen.Into[cc.VerifC10RawSpec](raw))
		}
		return c11ChildRun("c10", "rawout", raw, 60*time.Second)
	})
}

func c10RawScenarios(c *gen.Ctx) []any {
	var ins []any
	add := func(kind string, n, pos int, hexs, then string) {
		ins = append(ins, cc.VerifC10RawSpec{N: n, Pos: pos, Hex: hexs, Then: then})
		c.E.Count("raw:" + kind)
	}
	// first byte >= 0x80: the sign boundary and the end of the 32-bit range, text a client may print
	// by accident (UTF-8 byte-order mark, UTF-16 LE / BE, a check mark, an umlaut), random bytes
	high := []string{
		"80000000", "ffffffff", "80000001", "fffffffc",
		gen.Hex([]byte("\xef\xbb\xbfstarting up\n")), gen.Hex([]byte("\xff\xfeL\x00i\x00s\x00t\x00")), gen.Hex([]byte("\xfe\xff\x00L\x00i\x00s")),
		gen.Hex([]byte("\xe2\x9c\x93 done\n")), gen.Hex([]byte("\xc3\x9cberwachung\n")),
	}
	for i := 0; i < 3; i++ {
		b := c.R.Bytes(c.R.Range(4, 12))
		b[0] |= 0x80
		high = append(high, gen.Hex(b))
	}
	// every position: before any answer, between answers, as the last thing
	for k, h := range high {
		for n := 1; n <= 3; n++ {
			for pos := 0; pos <= n; pos++ {
				for _, then := range []string{"exit0", "more"} {
					if !c.Thorough() {
						// quick: n = 2 at every position (and once going on afterwards); n = 1 and one
						// position of n = 3 for the first four kinds
						if (n != 2 && k >= 4) || (n == 3 && pos != (k+1)%4) || (then == "more" && !(n == 2 && pos == 1)) {
							continue
						}
					}
					add("high", n, pos, h, then)
				}
			}
		}
	}
	// controls with the top bit clear: ASCII text, the largest positive 32-bit value, one above the
	// limit (too large); exactly the limit with nothing behind it, a short body (the stream ends
	// inside the message); a body that is no message
	for _, ctl := range [][2]string{{gen.Hex([]byte("Poop!")), "more"}, {"7fffffff", "exit1"}, {"01000001", "more"}, {"01000000", "exit0"},
		{"00000005ffff", "exit0"}, {"00000003ffffff", "more"}, {"00000003ffffff", "exit1"}} {
		for pos := 0; pos <= 2; pos++ {
			add("control", 2, pos, ctl[0], ctl[1])
		}
	}
	return ins
}

func c10Perms(n int) [][]int {
	if n == 0 {
		return [][]int{{}}
	}
	var out [][]int
	for _, p := range c10Perms(n - 1) {
		for pos := 0; pos <= len(p); pos++ {
			q := append(append(append([]int{}, p[:pos]...), n-1), p[pos:]...)
			out = append(out, q)
		}
	}
	return out
}

// c10Splits: ways to distribute requests 0..n-1 (in order) over 1..3 sender goroutines.
func c10Splits(n int) [][][]int {
	ids := make([]int, n)
	for i := range ids {
		ids[i] = i
	}
	out := [][][]int{{ids}}
	if n >= 2 {
		// one request per sender (up to 3 senders), and a 2-way split
		var each [][]int
		for i := 0; i < n && i < 3; i++ {
			each = append(each, []int{i})
		}
		for i := 3; i < n; i++ {
			each[i%3] = append(each[i%3], i)
		}
		out = append(out, each)
		if n >= 3 {
			out = append(out, [][]int{ids[:1], ids[1:]})
		}
	}
	return out
}

func c10Recv(k int) []cc.VerifC10Act {
	out := make([]cc.VerifC10Act, k)
	for i := range out {
		out[i] = cc.VerifC10Act{K: "recv"}
	}
	return out
}

func c10Distinct(n int) []int {
	out := make([]int, n)
	for i := range out {
		out[i] = i
	}
	return out
}

func runC10(c *gen.Ctx) error {
	// real OS processes and in-process clients that never end first (they wait for the runner's
	// timers: seconds; see oscmd.go) — all side by side
	{
		slow := oscmdClientScenarios(c)
		opsOf := make([]string, len(slow))
		for i := range opsOf {
			opsOf[i] = "oscmd"
		}
		for _, w := range c10WedgeScenarios(c) {
			slow = append(slow, w)
			opsOf = append(opsOf, "wedge")
		}
		c.DoParallelOps(opsOf, slow, len(slow))
	}
	c.DoParallel("rawout", c10RawScenarios(c), 8)

	reps := 6
	workers := 8
	if c.Thorough() {
		reps = 12
	}
	var ins []any
	add := func(kind string, names []int, senders [][]int, client []cc.VerifC10Act) {
		c.E.Count("kind:" + kind)
		ins = append(ins, c10In{Names: names, Senders: senders, Client: client, Reps: reps})
	}
	exit := func(code int) cc.VerifC10Act { return cc.VerifC10Act{K: "exit", Code: code} }
	resp := func(m int) cc.VerifC10Act { return cc.VerifC10Act{K: "resp", M: m} }

	// 1. every permutation of the answer order (n <= 3; n = 4: all in thorough, 6 random in quick)
	for n := 1; n <= 4; n++ {
		perms := c10Perms(n)
		if n == 4 && !c.Thorough() {
			var sel [][]int
			for i := 0; i < 6; i++ {
				sel = append(sel, gen.Pick(c.R, perms))
			}
			perms = sel
		}
		for _, split := range c10Splits(n) {
			for _, p := range perms {
				// answer after everything was received
				cl := c10Recv(n)
				for _, m := range p {
					cl = append(cl, resp(m))
				}
				add("perm", c10Distinct(n), split, append(cl, exit(0)))
				// answer as soon as j requests were received (may run ahead of the senders)
				for j := 0; j < n; j++ {
					cl := c10Recv(j)
					for idx, m := range p {
						cl = append(cl, resp(m))
						if j+idx < n {
							cl = append(cl, cc.VerifC10Act{K: "recv"})
						}
					}
					add("perm-early", c10Distinct(n), split, append(cl, exit(0)))
				}
			}
		}
	}

	// 2. failure after every byte offset of the response stream (n <= 2), exit 0 / exit 1,
	//    with the client having read j <= n requests
	for n := 1; n <= 2; n++ {
		for _, split := range c10Splits(n) {
			for _, p := range c10Perms(n) {
				for j := 0; j <= n; j++ {
					for upto := 0; upto < n; upto++ { // messages p[0..upto) complete, cut inside p[upto]
						full := len(cc.VerifC10RespBytes(p[upto]))
						for k := 0; k <= full; k++ {
							for code := 0; code <= 1; code++ {
								if j < n && !c.Thorough() && (k%3 != 0 || code == 1) {
									continue
								}
								cl := c10Recv(j)
								for _, m := range p[:upto] {
									cl = append(cl, resp(m))
								}
								cl = append(cl, cc.VerifC10Act{K: "cut", M: p[upto], N: k, Len: full}, exit(code))
								add("cut", c10Distinct(n), split, cl)
							}
						}
					}
				}
			}
		}
	}

	// 3. duplicate answer, unknown name, oversize prefix, garbage body at every position
	bads := []cc.VerifC10Act{resp(99), {K: "over"}, {K: "garbage"}}
	for n := 1; n <= 3; n++ {
		for _, split := range c10Splits(n) {
			for pos := 0; pos <= n; pos++ { // bad action after pos good answers
				var badsHere []cc.VerifC10Act
				badsHere = append(badsHere, bads...)
				if pos > 0 {
					badsHere = append(badsHere, resp(0)) // duplicate answer
				}
				for _, bad := range badsHere {
					for _, tail := range []int{0, 1, 2} {
						cl := c10Recv(n)
						for m := 0; m < pos; m++ {
							cl = append(cl, resp(m))
						}
						cl = append(cl, bad)
						switch tail {
						case 1: // keeps answering
							for m := pos; m < n; m++ {
								cl = append(cl, resp(m))
							}
						case 2:
							cl = append(cl, cc.VerifC10Act{K: "recv"})
						}
						add("bad:"+bad.K, c10Distinct(n), split, append(cl, exit(tail%2)))
					}
				}
				// bad action before all requests were read
				if pos < n {
					for _, bad := range bads {
						cl := c10Recv(pos)
						for m := 0; m < pos; m++ {
							cl = append(cl, resp(m))
						}
						cl = append(cl, bad)
						cl = append(cl, c10Recv(n-pos)...)
						add("bad-early:"+bad.K, c10Distinct(n), split, append(cl, exit(0)))
					}
				}
			}
		}
	}

	// 3b. the same failures of the output stream with a client that lingers: it has read all its
	//     requests, misbehaves after pos good answers and then neither exits nor reacts to the abort
	//     until the harness lets it go — which happens only after the reader has finished and
	//     isRunning() was sampled. Nothing here waits for a timer.
	for n := 1; n <= 3; n++ {
		for _, split := range c10Splits(n) {
			for pos := 0; pos <= n; pos++ {
				var badsHere []cc.VerifC10Act
				badsHere = append(badsHere, bads...)
				if pos > 0 {
					badsHere = append(badsHere, resp(0)) // duplicate answer
				}
				for _, bad := range badsHere {
					for code := 0; code <= 1; code++ {
						cl := c10Recv(n)
						for m := 0; m < pos; m++ {
							cl = append(cl, resp(m))
						}
						cl = append(cl, bad, cc.VerifC10Act{K: "hang"}, exit(code))
						add("linger:"+bad.K, c10Distinct(n), split, cl)
					}
				}
			}
		}
	}

	// 4. clean exit before reading anything / after reading only some
	for n := 1; n <= 4; n++ {
		for _, split := range c10Splits(n) {
			for j := 0; j <= n; j++ {
				for code := 0; code <= 1; code++ {
					add("exit-early", c10Distinct(n), split, append(c10Recv(j), exit(code)))
				}
			}
		}
	}

	// 5. duplicate request names
	add("dupname", []int{0, 0}, [][]int{{0, 1}}, []cc.VerifC10Act{{K: "recv"}, resp(0), exit(0)})
	add("dupname", []int{0, 0}, [][]int{{0, 1}}, []cc.VerifC10Act{{K: "recv"}, {K: "recv"}, resp(0), exit(0)})
	add("dupname", []int{0, 0}, [][]int{{0}, {1}}, []cc.VerifC10Act{{K: "recv"}, resp(0), {K: "recv"}, resp(0), exit(0)})
	add("dupname", []int{0, 1, 0}, [][]int{{0, 1, 2}}, []cc.VerifC10Act{{K: "recv"}, resp(0), {K: "recv"}, {K: "recv"}, resp(1), resp(0), exit(0)})
	add("dupname", []int{0, 1, 0}, [][]int{{0, 1, 2}}, []cc.VerifC10Act{{K: "recv"}, {K: "recv"}, {K: "recv"}, resp(1), resp(0), exit(0)})
	add("dupname", []int{0, 1, 0}, [][]int{{0, 1}, {2}}, []cc.VerifC10Act{{K: "recv"}, {K: "recv"}, {K: "recv"}, resp(0), resp(1), resp(0), exit(0)})
	add("dupname", []int{0, 0, 0}, [][]int{{0}, {1}, {2}}, []cc.VerifC10Act{{K: "recv"}, resp(0), {K: "recv"}, resp(0), {K: "recv"}, resp(0), exit(0)})

	// 6. random scripts
	nRandom := 800
	if c.Thorough() {
		nRandom = 4000
	}
	for i := 0; i < nRandom; i++ {
		n := c.R.Range(1, 4)
		names := make([]int, n)
		for j := range names {
			if c.R.Chance(1, 6) {
				names[j] = c.R.Intn(2)
			} else {
				names[j] = j
			}
		}
		g := c.R.Range(1, 3)
		senders := make([][]int, g)
		for j := 0; j < n; j++ {
			t := c.R.Intn(g)
			senders[t] = append(senders[t], j)
		}
		var nonEmpty [][]int
		for _, s := range senders {
			if len(s) > 0 {
				nonEmpty = append(nonEmpty, s)
			}
		}
		var cl []cc.VerifC10Act
		steps := c.R.Range(0, 8)
		recvd := 0
		for s := 0; s < steps; s++ {
			switch r := c.R.Intn(20); {
			case r < 7:
				cl = append(cl, cc.VerifC10Act{K: "recv"})
				recvd++
			case r < 16:
				m := names[c.R.Intn(n)]
				if c.R.Chance(1, 10) {
					m = 99
				}
				cl = append(cl, resp(m))
			case r < 17:
				cl = append(cl, cc.VerifC10Act{K: "over"})
			case r < 18:
				cl = append(cl, cc.VerifC10Act{K: "garbage"})
			default:
				m := names[c.R.Intn(n)]
				full := len(cc.VerifC10RespBytes(m))
				cl = append(cl, cc.VerifC10Act{K: "cut", M: m, N: c.R.Range(0, full), Len: full})
				s = steps // a cut is always followed by exit
			}
		}
		cl = append(cl, exit(c.R.Intn(2)))
		add("random", names, nonEmpty, cl)
	}

	if c.Thorough() {
		for _, procs := range []int{1, 2, 16} {
			old := runtime.GOMAXPROCS(procs)
			c.DoParallel("run", ins, workers)
			runtime.GOMAXPROCS(old)
			c.E.Add("gomaxprocs-passes", 1)
		}
		return nil
	}
	c.DoParallel("run", ins, workers)
	return nil
}
