#!/usr/bin/env python3
"""Writes the -overlay JSON that compiles /verif/harness into the repo's module:
harness/cmd, harness/gen ... -> <repo>/internal/verifharness/...;
harness/inpkg/<pkgpath>/*.go -> <repo>/<pkgpath>/*.go (in-package, tag verif)."""
import json, os, sys
def build(repo, harness, out):
    repl = {}
    for root, dirs, files in os.walk(harness):
        rel = os.path.relpath(root, harness)
        for f in files:
            if not f.endswith('.go'):
                continue
            src = os.path.join(root, f)
            if rel.startswith('inpkg'):
                sub = os.path.relpath(rel, 'inpkg')
                dst = os.path.join(repo, sub, f)
            else:
                dst = os.path.join(repo, 'internal', 'verifharness', rel, f)
            repl[os.path.normpath(dst)] = src
    with open(out, 'w') as fh:
        json.dump({'Replace': repl}, fh, indent=1)
if __name__ == '__main__':
    build(sys.argv[1], sys.argv[2], sys.argv[3])
