package main

// C17, every attempt: whatever reaches the wire for a raw request is exactly the prescribed
// request - also when the transport behind the rawRequestSender makes a second attempt. The real
// rawRequestSender sits in front of a real net/http Transport (HTTP/1.1) or x/net/http2 Transport
// (h2c); the peer is a hand-written server that records every request on every connection and
// forces re-attempts: it reads a raw request that arrived on a reused keep-alive connection and
// drops the connection (HTTP/1.1), or answers the first stream with RST_STREAM(REFUSED_STREAM) or
// GOAWAY(last-stream-id 0) after it has read it completely (HTTP/2).

import (
	"bufio"
	"bytes"
	"context"
	"crypto/tls"
	"encoding/hex"
	"encoding/json"
	"fmt"
	"go/ast"
	"go/parser"
	"go/token"
	"io"
	"net"
	"net/http"
	"path/filepath"
	"sort"
	"strings"
	"sync"
	"time"

	"connectrpc.com/conformance/internal/app/referenceclient"
	conformancev1 "connectrpc.com/conformance/internal/gen/proto/go/connectrpc/conformance/v1"
	"connectrpc.com/conformance/internal/verifharness/gen"
	"golang.org/x/net/http2"
	"golang.org/x/net/http2/hpack"
)

func init() {
	gen.RegisterOp("c17", "rawretry", func(_ *gen.Ctx, raw json.RawMessage) any { return c17RawRetry(gen.Into[c17RetryIn](raw)) })
}

type c17RetryIn struct {
	Proto       string   `json:"proto"` // h1 | h2c
	Fault       string   `json:"fault"` // none | drop (h1) | rst | goaway (h2c)
	Verb        string   `json:"verb"`
	URI         string   `json:"uri"` // starts with /raw
	Headers     []c17Hdr `json:"headers"`
	Body        c17Body  `json:"body"`
	Orig        string   `json:"orig"`        // hex: body of the request the client library built
	OrigGetBody bool     `json:"origGetBody"` // that request can rewind its body (unary RPCs)
}
type c17Attempt struct {
	Conn    int      `json:"conn"`
	Nth     int      `json:"nth"` // position on its connection (stream number for h2c)
	Method  string   `json:"method"`
	Target  string   `json:"target"`
	Headers []c17Hdr `json:"headers"` // only names the definition lists
	Body    string   `json:"body"`
}

// c17Sub: the substitute request as the transport receives it.
type c17Sub struct {
	Seen      bool   `json:"seen"`
	BodyPipe  bool   `json:"bodyPipe"` // Body is the io.PipeReader the raw body is written to
	GetBody   bool   `json:"getBody"`  // GetBody != nil
	GetBodyIs string `json:"getBodyIs"`
	CLen      int64  `json:"clen"`
}
type c17RetryOut struct {
	Exercised bool         `json:"exercised"` // the fault was actually injected into a raw request
	Err       bool         `json:"err"`       // the last RoundTrip returned an error
	Attempts  []c17Attempt `json:"attempts"`  // every raw request the server saw: all connections, all attempts
	Sub       c17Sub       `json:"sub"`
	Oracle    []c17Enc     `json:"oracle"`
}

type c17RetryState struct {
	mu        sync.Mutex
	in        c17RetryIn
	want      map[string]bool
	attempts  []c17Attempt
	exercised bool
	conns     int
}

func (s *c17RetryState) record(a c17Attempt, hdr http.Header) {
	for k, v := range hdr {
		if s.want[http.CanonicalHeaderKey(k)] {
			a.Headers = append(a.Headers, c17Hdr{N: http.CanonicalHeaderKey(k), V: nn(v)})
		}
	}
	sort.Slice(a.Headers, func(i, j int) bool { return a.Headers[i].N < a.Headers[j].N })
	if a.Headers == nil {
		a.Headers = []c17Hdr{}
	}
	s.attempts = append(s.attempts, a)
}

// ---- HTTP/1.1 peer

func (s *c17RetryState) serveH1(conn net.Conn, connID int) {
	defer conn.Close()
	rd := bufio.NewReader(conn)
	for nth := 1; ; nth++ {
		req, err := http.ReadRequest(rd)
		if err != nil {
			return
		}
		body, _ := io.ReadAll(req.Body)
		isRaw := strings.HasPrefix(req.URL.Path, "/raw")
		kill := false
		s.mu.Lock()
		if isRaw {
			s.record(c17Attempt{Conn: connID, Nth: nth, Method: req.Method, Target: req.RequestURI, Body: gen.Hex(body)}, req.Header)
			if s.in.Fault == "drop" && nth > 1 && !s.exercised {
				kill, s.exercised = true, true
			}
		}
		s.mu.Unlock()
		if kill {
			return // the request was read completely; the connection goes away without an answer
		}
		if _, err := io.WriteString(conn, "HTTP/1.1 200 OK\r\nContent-Length: 0\r\n\r\n"); err != nil {
			return
		}
	}
}

// ---- HTTP/2 (prior knowledge, clear text) peer

func (s *c17RetryState) serveH2(conn net.Conn, connID int) {
	defer conn.Close()
	preface := make([]byte, len(http2.ClientPreface))
	if _, err := io.ReadFull(conn, preface); err != nil || string(preface) != http2.ClientPreface {
		return
	}
	fr := http2.NewFramer(conn, conn)
	fr.ReadMetaHeaders = hpack.NewDecoder(4096, nil)
	if fr.WriteSettings() != nil {
		return
	}
	type stream struct {
		a    c17Attempt
		hdr  http.Header
		body []byte
	}
	streams := map[uint32]*stream{}
	nth := 0
	finish := func(id uint32) bool {
		st := streams[id]
		delete(streams, id)
		if st == nil {
			return true
		}
		isRaw := strings.HasPrefix(st.a.Target, "/raw")
		refuse := false
		s.mu.Lock()
		if isRaw {
			st.a.Body = gen.Hex(st.body)
			s.record(st.a, st.hdr)
			if (s.in.Fault == "rst" || s.in.Fault == "goaway") && !s.exercised {
				refuse, s.exercised = true, true
			}
		}
		s.mu.Unlock()
		if refuse {
			if s.in.Fault == "rst" {
				return fr.WriteRSTStream(id, http2.ErrCodeRefusedStream) == nil
			}
			return fr.WriteGoAway(0, http2.ErrCodeNo, nil) == nil // nothing above stream 0 was processed
		}
		var hb bytes.Buffer
		enc := hpack.NewEncoder(&hb)
		_ = enc.WriteField(hpack.HeaderField{Name: ":status", Value: "200"})
		return fr.WriteHeaders(http2.HeadersFrameParam{StreamID: id, BlockFragment: hb.Bytes(), EndStream: true, EndHeaders: true}) == nil
	}
	for {
		f, err := fr.ReadFrame()
		if err != nil {
			return
		}
		switch f := f.(type) {
		case *http2.SettingsFrame:
			if !f.IsAck() && fr.WriteSettingsAck() != nil {
				return
			}
		case *http2.PingFrame:
			if !f.IsAck() && fr.WritePing(true, f.Data) != nil {
				return
			}
		case *http2.MetaHeadersFrame:
			nth++
			st := &stream{a: c17Attempt{Conn: connID, Nth: nth}, hdr: http.Header{}}
			for _, hf := range f.Fields {
				switch hf.Name {
				case ":method":
					st.a.Method = hf.Value
				case ":path":
					st.a.Target = hf.Value
				default:
					if !strings.HasPrefix(hf.Name, ":") {
						st.hdr.Add(hf.Name, hf.Value)
					}
				}
			}
			streams[f.StreamID] = st
			if f.StreamEnded() && !finish(f.StreamID) {
				return
			}
		case *http2.DataFrame:
			if st := streams[f.StreamID]; st != nil {
				st.body = append(st.body, f.Data()...)
			}
			if n := len(f.Data()); n > 0 {
				_ = fr.WriteWindowUpdate(0, uint32(n))
				if !f.StreamEnded() {
					_ = fr.WriteWindowUpdate(f.StreamID, uint32(n))
				}
			}
			if f.StreamEnded() && !finish(f.StreamID) {
				return
			}
		}
	}
}

// ---- the substitute request as the transport gets it

type c17CaptureRT struct {
	inner http.RoundTripper
	mu    sync.Mutex
	sub   c17Sub
}

func (c *c17CaptureRT) RoundTrip(req *http.Request) (*http.Response, error) {
	c.mu.Lock()
	if !c.sub.Seen {
		c.sub.Seen = true
		_, c.sub.BodyPipe = req.Body.(*io.PipeReader)
		c.sub.CLen = req.ContentLength
		if req.GetBody != nil {
			c.sub.GetBody = true
			if b, err := req.GetBody(); err == nil {
				data, _ := io.ReadAll(b)
				_ = b.Close()
				c.sub.GetBodyIs = gen.Hex(data)
			}
		}
	}
	c.mu.Unlock()
	return c.inner.RoundTrip(req)
}

type c17NoRewind struct{ io.Reader }

func (c17NoRewind) Close() error { return nil }

func c17RawRetry(in c17RetryIn) c17RetryOut {
	out := c17RetryOut{Attempts: []c17Attempt{}, Oracle: c17Oracle(c17BodyPayloads(in.Body))}
	st := &c17RetryState{in: in, want: map[string]bool{}}
	for _, h := range in.Headers {
		st.want[http.CanonicalHeaderKey(h.N)] = true
	}
	lis, err := net.Listen("tcp", "127.0.0.1:0")
	if err != nil {
		panic(err)
	}
	var conns sync.WaitGroup
	var open sync.Map
	go func() {
		for id := 1; ; id++ {
			conn, err := lis.Accept()
			if err != nil {
				return
			}
			open.Store(conn, true)
			conns.Add(1)
			go func(id int, conn net.Conn) {
				defer conns.Done()
				if in.Proto == "h2c" {
					st.serveH2(conn, id)
				} else {
					st.serveH1(conn, id)
				}
			}(id, conn)
		}
	}()
	defer func() {
		_ = lis.Close()
		open.Range(func(k, _ any) bool { _ = k.(net.Conn).Close(); return true })
		conns.Wait()
	}()
	base := "http://" + lis.Addr().String()
	var transport http.RoundTripper
	if in.Proto == "h2c" {
		tr := &http2.Transport{AllowHTTP: true, DisableCompression: true,
			DialTLSContext: func(ctx context.Context, network, addr string, _ *tls.Config) (net.Conn, error) {
				var d net.Dialer
				return d.DialContext(ctx, network, addr)
			}}
		defer tr.CloseIdleConnections()
		transport = tr
	} else {
		tr := &http.Transport{DisableCompression: true, MaxIdleConnsPerHost: 1}
		defer tr.CloseIdleConnections()
		transport = tr
	}
	raw := &conformancev1.RawHTTPRequest{Verb: in.Verb, Uri: in.URI, Headers: c17Headers(in.Headers)}
	switch in.Body.Kind {
	case "unary":
		raw.Body = &conformancev1.RawHTTPRequest_Unary{Unary: c17Contents(in.Body.Unary)}
	case "stream":
		raw.Body = &conformancev1.RawHTTPRequest_Stream{Stream: c17Stream(in.Body.Stream)}
	}
	origBody, _ := hex.DecodeString(in.Orig)
	capture := &c17CaptureRT{inner: transport}
	done := func() bool {
		st.mu.Lock()
		defer st.mu.Unlock()
		return st.exercised || in.Fault == "none" && len(st.attempts) > 0
	}
	for try := 0; try < 6 && !done(); try++ {
		ctx, cancel := context.WithTimeout(context.Background(), 20*time.Second)
		if in.Proto != "h2c" {
			// use a connection and give it back to the idle pool (an answer without body: the
			// transport parks the connection before it hands out the response)
			warm, _ := http.NewRequestWithContext(ctx, http.MethodGet, base+"/warm", nil)
			if resp, err := transport.RoundTrip(warm); err == nil {
				_, _ = io.Copy(io.Discard, resp.Body)
				_ = resp.Body.Close()
			}
		}
		var orig *http.Request
		if in.OrigGetBody {
			orig, _ = http.NewRequestWithContext(ctx, http.MethodPost, base+"/orig/stub", bytes.NewReader(origBody))
		} else {
			orig, _ = http.NewRequestWithContext(ctx, http.MethodPost, base+"/orig/stub", c17NoRewind{bytes.NewReader(origBody)})
		}
		orig.Header.Set("Content-Type", "application/proto")
		orig.Header.Set("X-Stub", "1")
		resp, err := referenceclient.VerifC17RawRequestSender(capture, raw).RoundTrip(orig)
		out.Err = err != nil
		if err == nil {
			_, _ = io.Copy(io.Discard, resp.Body)
			_ = resp.Body.Close()
		}
		cancel()
	}
	st.mu.Lock()
	out.Exercised = st.exercised || in.Fault == "none"
	out.Attempts = append(out.Attempts, st.attempts...)
	st.mu.Unlock()
	capture.mu.Lock()
	out.Sub = capture.sub
	capture.mu.Unlock()
	return out
}

// ---------------------------------------------------------------- facts: how RoundTrip makes the substitute request

// c17SubReqFacts reads rawRequestSender.RoundTrip: the expression that creates the request handed
// to r.transport.RoundTrip, and the fields of it the function assigns afterwards.
func c17SubReqFacts(repo string) (ctor string, assigned []string, err error) {
	fset := token.NewFileSet()
	f, err := parser.ParseFile(fset, filepath.Join(repo, "internal/app/referenceclient/raw_request.go"), nil, 0)
	if err != nil {
		return "", nil, err
	}
	ctor = "unknown"
	for _, d := range f.Decls {
		fd, ok := d.(*ast.FuncDecl)
		if !ok || fd.Name.Name != "RoundTrip" || fd.Recv == nil {
			continue
		}
		// the variable passed to r.transport.RoundTrip
		name := ""
		ast.Inspect(fd.Body, func(n ast.Node) bool {
			if call, ok := n.(*ast.CallExpr); ok {
				if sel, ok := call.Fun.(*ast.SelectorExpr); ok && sel.Sel.Name == "RoundTrip" && len(call.Args) == 1 {
					if id, ok := call.Args[0].(*ast.Ident); ok {
						name = id.Name
					}
				}
			}
			return true
		})
		if name == "" {
			continue
		}
		set := map[string]bool{}
		ast.Inspect(fd.Body, func(n ast.Node) bool {
			as, ok := n.(*ast.AssignStmt)
			if !ok {
				return true
			}
			for i, lhs := range as.Lhs {
				if id, ok := lhs.(*ast.Ident); ok && id.Name == name && as.Tok == token.DEFINE {
					rhs := as.Rhs[0]
					if len(as.Rhs) == len(as.Lhs) {
						rhs = as.Rhs[i]
					}
					ctor = c17ExprName(rhs)
				}
				if sel, ok := lhs.(*ast.SelectorExpr); ok {
					if id, ok := sel.X.(*ast.Ident); ok && id.Name == name {
						set[sel.Sel.Name] = true
					}
				}
			}
			return true
		})
		for k := range set {
			assigned = append(assigned, k)
		}
		sort.Strings(assigned)
	}
	return ctor, assigned, nil
}

func c17ExprName(e ast.Expr) string {
	switch e := e.(type) {
	case *ast.CallExpr:
		return c17ExprName(e.Fun)
	case *ast.SelectorExpr:
		return c17ExprName(e.X) + "." + e.Sel.Name
	case *ast.Ident:
		return e.Name
	case *ast.UnaryExpr:
		return e.Op.String() + c17ExprName(e.X)
	case *ast.CompositeLit:
		return c17ExprName(e.Type) + "{}"
	case *ast.StarExpr:
		return "*" + c17ExprName(e.X)
	}
	return "?"
}

// c17SubReqProbe: the substitute request the real RoundTrip hands to the transport, for an
// original request with / without GetBody and each body shape: (label, GetBody != nil, Body is the pipe)
func c17SubReqProbe() [][3]string {
	var rows [][3]string
	for _, getBody := range []bool{true, false} {
		for _, kind := range []string{"none", "unary", "stream"} {
			for _, verb := range []string{"GET", "POST"} {
				body := c17Body{Kind: kind}
				switch kind {
				case "unary":
					body.Unary = &c17Payload{Kind: "text", Data: gen.Hex([]byte("raw")), Comp: 1}
				case "stream":
					body.Stream = []c17Item{{Flags: 0, Payload: &c17Payload{Kind: "binary", Data: gen.Hex([]byte("raw")), Comp: 1}}}
				}
				out := c17RawRetry(c17RetryIn{Proto: "h1", Fault: "none", Verb: verb, URI: "/raw/probe", Headers: []c17Hdr{{N: "Idempotency-Key", V: []string{"k"}}},
					Body: body, Orig: gen.Hex([]byte("original")), OrigGetBody: getBody})
				label := verb + "/" + kind + "/orig-getbody=" + map[bool]string{true: "yes", false: "no"}[getBody]
				b2s := map[bool]string{true: "true", false: "false"}
				rows = append(rows, [3]string{label, b2s[out.Sub.GetBody], b2s[out.Sub.BodyPipe && out.Sub.Seen]})
			}
		}
	}
	return rows
}

// ---------------------------------------------------------------- generator

func runC17Retry(c *gen.Ctx) {
	r := c.R
	e := c.E
	// ---- (m) every attempt of a raw request: protocol x fault x verb x idempotency header x body
	//      x whether the request the client library built can rewind its body - all combinations
	var jobs []any
	reps := 1
	if c.Thorough() {
		reps = 6
	}
	for rep := 0; rep < reps; rep++ {
		for _, pf := range [][2]string{{"h1", "drop"}, {"h1", "none"}, {"h2c", "rst"}, {"h2c", "goaway"}, {"h2c", "none"}} {
			for _, verb := range []string{"GET", "POST", "PUT", "DELETE", "OPTIONS"} {
				for _, idem := range []string{"", "Idempotency-Key", "X-Idempotency-Key"} {
					for _, kind := range []string{"none", "unary", "stream"} {
						for _, getBody := range []bool{true, false} {
							if !getBody && (rep+len(verb)+len(kind))%2 == 0 && !c.Thorough() {
								continue
							}
							in := c17RetryIn{Proto: pf[0], Fault: pf[1], Verb: verb,
								URI:     gen.Pick(r, []string{"/raw/a", "/raw/x.Service/Method", "/raw?q=1", "/raw/p?b=2&a=1"}),
								Headers: c17RandHdrs(r, []string{"X-Req-A", "x-req-b", "Content-Type"}, 2),
								Body:    c17Body{Kind: kind}, Orig: gen.Hex([]byte(fmt.Sprintf("ORIGINAL-BODY-BUILT-BY-CLIENT-%d", r.Intn(100)))), OrigGetBody: getBody}
							if idem != "" {
								in.Headers = append(in.Headers, c17Hdr{N: idem, V: []string{"key-1"}})
							}
							switch kind {
							case "unary":
								in.Body.Unary = &c17Payload{Kind: gen.Pick(r, []string{"binary", "text"}), Data: gen.Hex([]byte("RAW-BODY-AS-SPECIFIED-" + strings.Repeat("r", r.Intn(20)))), Comp: int32(r.Range(1, 6))}
							case "stream":
								in.Body.Stream = c17FreshItems(r, "retry")
							}
							e.Count("kind:rawretry-" + pf[0] + "-" + pf[1])
							jobs = append(jobs, in)
						}
					}
				}
			}
		}
	}
	c.DoParallel("rawretry", jobs, 8)
}
