package main

import (
	"bytes"
	"encoding/binary"
	"encoding/hex"
	"encoding/json"
	"net/http"
	"strings"

	"connectrpc.com/conformance/internal/compression"
	"connectrpc.com/conformance/internal/tracer"
	"connectrpc.com/conformance/internal/verifharness/gen"
)

func init() {
	areas["c14"] = runC14
	gen.RegisterOp("c14", "trace", func(c *gen.Ctx, raw json.RawMessage) any {
		return c14Trace(c, gen.Into[c14TraceIn](raw))
	})
	gen.RegisterOp("c14", "handler", func(_ *gen.Ctx, raw json.RawMessage) any {
		return c14Handler(gen.Into[c14HandlerIn](raw))
	})
	gen.RegisterOp("c14", "rt", func(_ *gen.Ctx, raw json.RawMessage) any {
		return c14RoundTrip(gen.Into[c14RTIn](raw))
	})
	areas["c14facts"] = runC14Facts
	gen.RegisterOp("c14", "big", func(_ *gen.Ctx, raw json.RawMessage) any {
		in := gen.Into[c14BigIn](raw)
		return tracer.VerifBigSession(in.Path, in.Side, in.Client, in.Req.VerifBigSide, in.Resp.VerifBigSide)
	})
}

// c14Side describes the headers and the scripted body of one direction.
type c14Side struct {
	CT     string   `json:"ct"`
	CE     string   `json:"ce"`
	CCE    string   `json:"cce"`
	GE     string   `json:"ge"`
	Reads  []string `json:"reads"`  // hex chunks (request: what the body returns; handler response: unused)
	Ending string   `json:"ending"` // eof | eofdata | err | errdata | close | closeerr | none
	Post   []string `json:"post"`
}

func (s c14Side) headers() http.Header {
	return c14Headers(c14TraceIn{CT: s.CT, CE: s.CE, CCE: s.CCE, GE: s.GE})
}

// script builds the inner reader and the caller's actions for a body read to its ending.
func (s c14Side) script() (*tracer.VerifScriptReader, []string) {
	chunks := c14Unhex(s.Reads)
	errs := make([]string, len(chunks))
	endErr := "eof"
	if strings.HasPrefix(s.Ending, "err") {
		endErr = "inner"
	}
	closeErr := ""
	switch s.Ending {
	case "eof", "err":
		chunks = append(chunks, nil)
		errs = append(errs, endErr)
	case "eofdata", "errdata":
		if len(chunks) == 0 {
			chunks = append(chunks, nil)
			errs = append(errs, "")
		}
		errs[len(errs)-1] = endErr
	case "closeerr":
		closeErr = "inner"
	}
	var actions []string
	for range chunks {
		actions = append(actions, "r")
	}
	if s.Ending == "close" || s.Ending == "closeerr" {
		actions = append(actions, "c")
	}
	actions = append(actions, s.Post...)
	return tracer.VerifNewScriptReader(chunks, errs, closeErr), actions
}

func (s c14Side) body() []byte {
	var b []byte
	for _, ch := range c14Unhex(s.Reads) {
		b = append(b, ch...)
	}
	return b
}

type c14HandlerIn struct {
	Req     c14Side               `json:"req"`
	Resp    c14Side               `json:"resp"` // headers only
	Actions []tracer.VerifHAction `json:"actions"`
	Accept  int                   `json:"accept"`
}
type c14HandlerOut struct {
	Traced tracer.VerifHandlerOut `json:"traced"`
	Plain  tracer.VerifHandlerOut `json:"plain"`
	Dec    [][3]string            `json:"dec"`
	Skip   bool                   `json:"skip,omitempty"`
}

// c14Handler1 runs the scripted handler once (through TracingHandler when traced).
func c14Handler1(in c14HandlerIn, traced bool) tracer.VerifHandlerOut {
	var pre []tracer.VerifHAction
	for _, kv := range [][2]string{{"Content-Type", in.Resp.CT}, {"Content-Encoding", in.Resp.CE}, {"Connect-Content-Encoding", in.Resp.CCE}, {"Grpc-Encoding", in.Resp.GE}} {
		if kv[1] != "" {
			pre = append(pre, tracer.VerifHAction{Kind: "set", Key: kv[0], Val: kv[1]})
		}
	}
	body, _ := in.Req.script()
	return tracer.VerifServeHandler(traced, in.Req.headers(), body, append(pre, in.Actions...), in.Accept)
}

func c14Handler(in c14HandlerIn) c14HandlerOut {
	var out c14HandlerOut
	out.Traced = c14Handler1(in, true)
	out.Plain = c14Handler1(in, false)
	var written []byte
	for _, a := range in.Actions {
		if a.Kind == "w" {
			written = append(written, c14Unhex([]string{a.Data})[0]...)
		}
	}
	out.Dec = c14DecTable(written, []string{in.Resp.CCE, in.Resp.GE})
	out.Skip = c14ReuseSensitive(written, []string{in.Resp.CCE, in.Resp.GE})
	return out
}

type c14RTIn struct {
	Req    c14Side `json:"req"`
	Fail   bool    `json:"fail"`
	Status int     `json:"status"`
	Resp   c14Side `json:"resp"`
}
type c14RTOut struct {
	tracer.VerifRoundTripOut
	Dec  [][3]string `json:"dec"`
	Skip bool        `json:"skip,omitempty"`
}

func c14RoundTrip(in c14RTIn) c14RTOut {
	reqBody, _ := in.Req.script()
	respBody, actions := in.Resp.script()
	var out c14RTOut
	out.VerifRoundTripOut = tracer.VerifRoundTrip(in.Req.headers(), reqBody, in.Fail, in.Status, in.Resp.headers(), respBody, actions)
	out.Dec = c14DecTable(in.Resp.body(), []string{in.Resp.CCE, in.Resp.GE})
	out.Skip = c14ReuseSensitive(in.Resp.body(), []string{in.Resp.CCE, in.Resp.GE})
	return out
}

// c14TraceIn describes one session of a tracing reader over a scripted body.
type c14TraceIn struct {
	Side   string   `json:"side"`   // req | resp
	Client bool     `json:"client"` // builder created for the client side (TracingRoundTripper) or the server side
	CT     string   `json:"ct"`     // Content-Type
	CE     string   `json:"ce"`     // Content-Encoding
	CCE    string   `json:"cce"`    // Connect-Content-Encoding
	GE     string   `json:"ge"`     // Grpc-Encoding
	Reads  []string `json:"reads"`  // hex; what successive inner Reads return with a nil error
	Ending string   `json:"ending"` // eof | eofdata | err | errdata | close | closeerr
	Post   []string `json:"post"`   // after the end: "c" Close, "r" Read
}

type c14TraceOut struct {
	tracer.VerifReaderOut
	// Dec lists, for every complete end-stream-flagged message of the body and for each of the
	// two encoding headers, what the real decompressor of that encoding makes of the payload:
	// [name, payload-hex, content-hex] or [name, payload-hex, "!"] when it fails.
	Dec [][3]string `json:"dec"`
	// Skip: the body makes a reused decompressor instance answer differently from a fresh one
	Skip bool `json:"skip,omitempty"`
}

func c14Headers(in c14TraceIn) http.Header {
	h := http.Header{}
	if in.CT != "" {
		h.Set("Content-Type", in.CT)
	}
	if in.CE != "" {
		h.Set("Content-Encoding", in.CE)
	}
	if in.CCE != "" {
		h.Set("Connect-Content-Encoding", in.CCE)
	}
	if in.GE != "" {
		h.Set("Grpc-Encoding", in.GE)
	}
	return h
}

// c14Decompress is the real decompressor of the named encoding applied the way the tracer
// applies it (Reset, ReadFrom); ok=false when either step fails. Unknown names behave like
// the tracer's fallback: they yield nothing.
func c14Decompress(name string, payload []byte) (content []byte, ok bool) {
	comp, known := tracer.VerifCompressionOf(name)
	if !known {
		return nil, true
	}
	d, err := compression.GetDecompressor(comp)
	if err != nil {
		return nil, true
	}
	if err := d.Reset(bytes.NewBuffer(append([]byte(nil), payload...))); err != nil {
		return nil, false
	}
	var out bytes.Buffer
	if _, err := out.ReadFrom(d); err != nil {
		return nil, false
	}
	return out.Bytes(), true
}

func c14Compress(name string, content []byte) []byte {
	comp, known := tracer.VerifCompressionOf(name)
	if !known {
		return content
	}
	c, err := compression.GetCompressor(comp)
	if err != nil {
		return content
	}
	var out bytes.Buffer
	c.Reset(&out)
	c.Write(content)
	c.Close()
	return out.Bytes()
}

// c14DecTable parses the complete envelopes of body (harness-side, trusted) and asks the real
// decompressors about every end-stream-flagged payload.
func c14DecTable(body []byte, names []string) [][3]string {
	out := [][3]string{}
	seen := map[string]bool{}
	for len(body) >= 5 {
		flags := body[0]
		n := int(binary.BigEndian.Uint32(body[1:5]))
		body = body[5:]
		if n > len(body) {
			break
		}
		payload := body[:n]
		body = body[n:]
		if n == 0 || flags&0x82 == 0 {
			continue
		}
		for _, name := range names {
			key := name + "\x00" + string(payload)
			if seen[key] {
				continue
			}
			seen[key] = true
			content, ok := c14Decompress(name, payload)
			if ok {
				out = append(out, [3]string{name, gen.Hex(payload), gen.Hex(content)})
			} else {
				out = append(out, [3]string{name, gen.Hex(payload), "!"})
			}
		}
	}
	return out
}

// c14ReuseSensitive tells whether some decompressor, reused over the end-stream payloads of
// body in order (as the tracer reuses its one instance), answers differently from a fresh
// instance per payload. Model and specification take the decompressor as a *function* of the
// payload (reusability of instances is property C20's subject), so such bodies are set aside.
func c14ReuseSensitive(body []byte, names []string) bool {
	var all, flagged [][]byte
	for len(body) >= 5 {
		flags := body[0]
		n := int(binary.BigEndian.Uint32(body[1:5]))
		body = body[5:]
		if n > len(body) {
			break
		}
		payload := body[:n]
		body = body[n:]
		if n == 0 || flags&0x82 == 0 {
			continue
		}
		all = append(all, payload)
		if flags&1 != 0 {
			flagged = append(flagged, payload)
		}
	}
	if len(all) < 2 {
		return false
	}
	for _, name := range names {
		comp, known := tracer.VerifCompressionOf(name)
		if !known {
			continue
		}
		for _, seq := range [][][]byte{all, flagged} {
			d, err := compression.GetDecompressor(comp)
			if err != nil {
				continue
			}
			for _, payload := range seq {
				fresh, okFresh := c14Decompress(name, payload)
				var out bytes.Buffer
				okReused := d.Reset(bytes.NewBuffer(append([]byte(nil), payload...))) == nil
				if okReused {
					_, err := out.ReadFrom(d)
					okReused = err == nil
				}
				if okFresh != okReused || (okFresh && !bytes.Equal(fresh, out.Bytes())) {
					return true
				}
			}
		}
	}
	return false
}

func c14Unhex(ss []string) [][]byte {
	out := make([][]byte, len(ss))
	for i, s := range ss {
		b, err := hex.DecodeString(s)
		if err != nil {
			panic("bad hex " + s)
		}
		out[i] = b
	}
	return out
}

func c14Trace(_ *gen.Ctx, in c14TraceIn) c14TraceOut {
	chunks := c14Unhex(in.Reads)
	errs := make([]string, len(chunks))
	var actions []string
	closeErr := ""
	endErr := "eof"
	if strings.HasPrefix(in.Ending, "err") {
		endErr = "inner"
	}
	switch in.Ending {
	case "eof", "err":
		chunks = append(chunks, nil)
		errs = append(errs, endErr)
	case "eofdata", "errdata":
		if len(chunks) == 0 {
			chunks = append(chunks, nil)
			errs = append(errs, "")
		}
		errs[len(errs)-1] = endErr
	case "closeerr":
		closeErr = "inner"
	}
	for range chunks {
		actions = append(actions, "r")
	}
	if in.Ending == "close" || in.Ending == "closeerr" {
		actions = append(actions, "c")
	}
	actions = append(actions, in.Post...)
	inner := tracer.VerifNewScriptReader(chunks, errs, closeErr)
	var out c14TraceOut
	bufSize := 7 // the caller's buffer: a little larger than the largest chunk
	for _, ch := range chunks {
		if len(ch)+7 > bufSize {
			bufSize = len(ch) + 7
		}
	}
	out.VerifReaderOut = tracer.VerifTraceReader(in.Side == "req", in.Client, c14Headers(in), inner, actions, bufSize)
	var body []byte
	for _, ch := range c14Unhex(in.Reads) {
		body = append(body, ch...)
	}
	out.Dec = c14DecTable(body, []string{in.CCE, in.GE})
	out.Skip = in.Side == "resp" && c14ReuseSensitive(body, []string{in.CCE, in.GE})
	return out
}

// ---------------------------------------------------------------- generator

func c14Env(flags byte, payload []byte) []byte {
	out := make([]byte, 5, 5+len(payload))
	out[0] = flags
	binary.BigEndian.PutUint32(out[1:], uint32(len(payload)))
	return append(out, payload...)
}

func c14Cut(body []byte, sizes []int) []string {
	out := make([]string, 0, len(sizes))
	pos := 0
	for _, s := range sizes {
		out = append(out, gen.Hex(body[pos:pos+s]))
		pos += s
	}
	return out
}

var (
	c14Endings  = []string{"eof", "eofdata", "err", "errdata", "close", "closeerr"}
	c14Flags    = []byte{0, 1, 2, 3, 0x80, 0x81, 0x82}
	c14Encs     = []string{"", "identity", "gzip", "br", "zstd", "deflate", "snappy"}
	c14StreamCT = []string{"application/connect+proto", "application/connect+json", "application/grpc", "application/grpc+proto", "application/grpc-web+proto", "application/grpc-web", "Application/GRPC+json", "APPLICATION/Connect+Proto"}
	c14PlainCT  = []string{"application/proto", "application/json", "", "text/plain", "application/x-connect", "app/grpc"}
)

// c14Proto fills the header fields: the protocol's own encoding header names enc, the other
// one carries a decoy.
func c14Proto(in *c14TraceIn, ct, enc, decoy string) {
	in.CT = ct
	if strings.HasPrefix(strings.ToLower(ct), "application/connect") {
		in.CCE, in.GE = enc, decoy
	} else {
		in.GE, in.CCE = enc, decoy
	}
}

// c14ArrayViols counts the sessions in which the scripted caller itself (Go side) found its array
// modified.  Such a tracer usually also mis-parses what it kept (it reads canaries as envelope
// prefixes, and pre-allocates the gigabytes they declare): once the violation is established
// many times over, the generator stops instead of grinding through every remaining session.
var c14ArrayViols int

const c14ArrayViolLimit = 40

// c14Do runs one session unless the generator has given up (see c14ArrayViols).
func c14Do(c *gen.Ctx, op string, in any) {
	if c14ArrayViols >= c14ArrayViolLimit {
		c.E.Count("skipped:caller-array-violation-established")
		return
	}
	viol := ""
	switch out := c.Do(op, in).(type) {
	case c14TraceOut:
		viol = out.BufViol
	case c14HandlerOut:
		viol = out.Traced.BufViol
	case c14RTOut:
		viol = out.BufViol
	case tracer.VerifBigOut:
		viol = out.Req.Array + out.Resp.Array
	case c14H2Out:
		viol = out.Viol
	}
	if viol != "" {
		c14ArrayViols++
		c.E.Count("caller-array-violation")
	}
}

func runC14(c *gen.Ctx) error {
	r := c.R
	e := c.E
	seq := 0
	// all chunkings of every truncation of body, rotating through the orthogonal dimensions
	exhaustive := func(body []byte, truncations bool, sides []string, encs []string, allEndings bool) {
		lo := len(body)
		if truncations {
			lo = 0
		}
		for k := lo; k <= len(body); k++ {
			for _, sizes := range gen.Compositions(k) {
				for _, side := range sides {
					endings := []string{c14Endings[seq%len(c14Endings)]}
					if allEndings {
						endings = c14Endings
					}
					for _, ending := range endings {
						seq++
						in := c14TraceIn{Side: side, Client: seq%3 != 0, Reads: c14Cut(body[:k], sizes), Ending: ending, Post: []string{}}
						enc := encs[seq%len(encs)]
						c14Proto(&in, c14StreamCT[(seq/7)%len(c14StreamCT)], enc, c14Encs[(seq/3)%len(c14Encs)])
						if seq%5 == 0 {
							in.Post = []string{"c"}
						} else if seq%11 == 0 {
							in.Post = []string{"r", "c", "c"}
						}
						c14Do(c, "trace", in)
						e.Count("exhaustive-chunkings")
					}
				}
			}
		}
	}
	both := []string{"req", "resp"}
	smallEncs := []string{"identity", "gzip", "", "br"}
	// (a) one message {} with every flag: all truncations x all chunkings x both sides
	flags := append(append([]byte{}, c14Flags...), byte(r.Intn(256)))
	for _, f := range flags {
		exhaustive(c14Env(f, []byte("{}")), true, both, smallEncs, f == 2)
	}
	// (b) zero-length message, then a message with two bytes: 12 bytes
	bFlags := []byte{2, 0x81}
	if c.Thorough() {
		bFlags = []byte{0, 1, 2, 3, 0x80, 0x81, 0x82, byte(r.Intn(256))}
	}
	for _, f := range bFlags {
		body := append(c14Env(f&0x7d, nil), c14Env(f, []byte("ab"))...)
		exhaustive(body, true, []string{both[seq%2]}, smallEncs, false)
	}
	// (c) 14 bytes: data message, end-stream message, one stray byte
	{
		body := append(append(c14Env(0, []byte("x")), c14Env(2, []byte("{}"))...), 7)
		if c.Thorough() {
			exhaustive(body, true, both, smallEncs, false)
			body2 := append(append(c14Env(0x80, []byte("a:")), c14Env(1, nil)...), 0, 0)
			exhaustive(body2, true, both, smallEncs, false)
		} else {
			exhaustive(body, false, []string{"resp"}, []string{"gzip", "identity"}, false)
		}
	}
	// (d) random envelope sequences, random chunkings, truncations
	nRand := 9000
	if c.Thorough() {
		nRand = 250000
	}
	for i := 0; i < nRand; i++ {
		side, body := c14RandSide(c)
		var in c14TraceIn
		in.Side = both[r.Intn(2)]
		in.Client = r.Bool()
		in.CT, in.CE, in.CCE, in.GE = side.CT, side.CE, side.CCE, side.GE
		var cuts []int
		if len(body) <= 64 && r.Chance(1, 12) {
			for k := 0; k <= len(body); k++ {
				cuts = append(cuts, k)
			}
			e.Count("random:every-truncation")
		} else if r.Chance(1, 2) {
			cuts = []int{len(body)}
		} else {
			cuts = []int{r.Intn(len(body) + 1)}
		}
		for _, k := range cuts {
			in2 := in
			in2.Reads = c14RandChunks(r, body[:k])
			in2.Ending = gen.Pick(r, c14Endings)
			in2.Post = c14RandPost(r)
			c14Do(c, "trace", in2)
			e.Count("random")
		}
	}
	// (h) TracingHandler behind real HTTP/1.1 and HTTP/2 servers; handlers that io.Copy / ReadFrom / Flush
	c14ServeCases(c)
	// (g) streams traced at the HTTP/2 connection level (emitUnfinished once or twice, ends in any order)
	c14H2Cases(c)
	// (f) bodies of 4 GiB and more (never written down: the same zeroed array again and again)
	c14BigCases(c)
	// (e) the middleware wiring: real TracingHandler (tracingResponseWriter) and TracingRoundTripper
	nMid := 2500
	if c.Thorough() {
		nMid = 40000
	}
	for i := 0; i < nMid; i++ {
		rt, h := c14RandMiddleware(c)
		c14Do(c, "handler", h)
		c14Do(c, "rt", rt)
	}
	return nil
}

func c14RandPost(r *gen.Rand) []string {
	post := []string{}
	for n := r.Intn(3); n > 0 && r.Chance(1, 2); n-- {
		post = append(post, gen.Pick(r, []string{"c", "r"}))
	}
	return post
}

// c14RandChunks cuts b at random places (sometimes with empty chunks).
func c14RandChunks(r *gen.Rand, b []byte) []string {
	var sizes []int
	rest := len(b)
	for rest > 0 {
		var s int
		switch r.Intn(4) {
		case 0:
			s = r.Range(1, 5)
		case 1:
			s = r.Range(1, 40)
		case 2:
			s = rest
		default:
			s = r.Range(0, 9)
		}
		if s > rest {
			s = rest
		}
		sizes = append(sizes, s)
		rest -= s
	}
	if r.Chance(1, 10) {
		sizes = append(sizes, 0)
	}
	return c14Cut(b, sizes)
}

var c14Contents = [][]byte{[]byte("{}"), []byte(`{"error":{"code":"internal","message":"x"},"metadata":{"a":["b"]}}`), []byte("grpc-status: 0\r\ngrpc-message: ok\r\n"), []byte("x")}

// c14RandSide picks a protocol, encodings and a body of enveloped messages (flags from
// {0,1,2,3,0x80,0x81,0x82,random}, lengths 0..6 or up to 300, an end-stream message last, in the
// middle or absent, its payload really compressed or not, independently of its flag).
func c14RandSide(c *gen.Ctx) (c14Side, []byte) {
	r, e := c.R, c.E
	var in c14TraceIn
	enc := gen.Pick(r, c14Encs)
	switch r.Intn(12) {
	case 0:
		enc = strings.ToUpper(enc)
	case 1:
		enc = "bogus"
	}
	if r.Chance(9, 10) {
		c14Proto(&in, gen.Pick(r, c14StreamCT), enc, gen.Pick(r, c14Encs))
		if r.Chance(1, 25) {
			in.CE = gen.Pick(r, []string{"gzip", "identity", "br"})
		}
	} else {
		c14Proto(&in, gen.Pick(r, c14PlainCT), enc, gen.Pick(r, c14Encs))
	}
	nMsg := r.Intn(6)
	endPos := -1 // index of the end-stream message
	switch r.Intn(4) {
	case 0, 1:
		endPos = nMsg - 1
	case 2:
		if nMsg > 0 {
			endPos = r.Intn(nMsg)
		}
	}
	var body []byte
	for m := 0; m < nMsg; m++ {
		var flags byte
		if r.Chance(1, 8) {
			flags = byte(r.Intn(256))
		} else {
			flags = gen.Pick(r, []byte{0, 0, 0, 1, 1, 3, 0x81})
		}
		var payload []byte
		if m == endPos {
			flags = gen.Pick(r, []byte{2, 2, 0x80, 0x80, 3, 0x81, 0x82, 0x83})
			content := gen.Pick(r, c14Contents)
			if r.Chance(1, 6) {
				content = r.Bytes(r.Intn(7))
			}
			honest := r.Chance(3, 4)
			if (flags&1 == 1) == honest {
				payload = c14Compress(enc, content)
				e.Count("end-stream:compressed-payload")
			} else {
				payload = content
				e.Count("end-stream:raw-payload")
			}
			if flags&1 == 1 {
				e.Count("end-stream:flag-compressed")
			} else {
				e.Count("end-stream:flag-uncompressed")
			}
		} else if r.Chance(7, 10) {
			payload = r.Bytes(r.Intn(7))
		} else {
			payload = r.Bytes(r.Intn(301))
		}
		body = append(body, c14Env(flags, payload)...)
	}
	if r.Chance(1, 10) {
		// stray bytes: a partial prefix, or a prefix announcing more than follows (the
		// announced length stays moderate: the tracer pre-allocates that much)
		if r.Bool() {
			body = append(body, r.Bytes(r.Range(1, 4))...)
		} else {
			n := r.Range(1, 70000)
			stray := c14Env(byte(r.Intn(256)), r.Bytes(r.Intn(6)))
			binary.BigEndian.PutUint32(stray[1:], uint32(n+5))
			body = append(body, stray...)
		}
	}
	return c14Side{CT: in.CT, CE: in.CE, CCE: in.CCE, GE: in.GE}, body
}

// c14RandMiddleware builds one client-side and one server-side session at random.
func c14RandMiddleware(c *gen.Ctx) (c14RTIn, c14HandlerIn) {
	r := c.R
	// server side
	var h c14HandlerIn
	reqSide, reqBody := c14RandSide(c)
	if r.Chance(1, 2) {
		reqBody = reqBody[:r.Intn(len(reqBody)+1)]
	}
	h.Req = reqSide
	h.Req.Reads = c14RandChunks(r, reqBody)
	h.Req.Ending = gen.Pick(r, []string{"eof", "eof", "eofdata", "err", "errdata"})
	h.Req.Post = []string{}
	respSide, respBody := c14RandSide(c)
	if r.Chance(1, 3) {
		respBody = respBody[:r.Intn(len(respBody)+1)]
	}
	h.Resp = respSide
	h.Resp.Reads, h.Resp.Post = []string{}, []string{}
	writes := c14RandChunks(r, respBody)
	nReads := len(h.Req.Reads) + 1
	switch r.Intn(4) {
	case 0:
		nReads = r.Intn(nReads + 1) // the handler does not read the whole request
	case 1:
		nReads += r.Intn(3) // reads past the end
	}
	// interleave reads and writes at random
	ri, wi := 0, 0
	h.Actions = []tracer.VerifHAction{}
	if r.Chance(1, 4) {
		h.Actions = append(h.Actions, tracer.VerifHAction{Kind: "wh", Status: gen.Pick(r, []int{200, 200, 404, 500})})
	}
	for ri < nReads || wi < len(writes) {
		switch {
		case wi >= len(writes) || (ri < nReads && r.Chance(1, 2)):
			h.Actions = append(h.Actions, tracer.VerifHAction{Kind: "read"})
			ri++
		default:
			h.Actions = append(h.Actions, tracer.VerifHAction{Kind: "w", Data: writes[wi]})
			wi++
			if r.Chance(1, 6) {
				h.Actions = append(h.Actions, tracer.VerifHAction{Kind: "flush"})
			}
		}
		if r.Chance(1, 40) {
			h.Actions = append(h.Actions, tracer.VerifHAction{Kind: "closeReq"})
		}
	}
	if r.Chance(1, 3) {
		h.Actions = append(h.Actions, tracer.VerifHAction{Kind: "set", Key: gen.Pick(r, []string{"Trailer:X-T", "Grpc-Status", "X-Late"}), Val: "v"})
	}
	if r.Chance(1, 12) {
		at := r.Intn(len(h.Actions) + 1)
		h.Actions = append(h.Actions[:at:at], append([]tracer.VerifHAction{{Kind: "panic"}}, h.Actions[at:]...)...)
	}
	h.Accept = -1
	if r.Chance(1, 4) {
		h.Accept = r.Intn(len(respBody) + 2)
	}
	// client side
	var rt c14RTIn
	reqSide, reqBody = c14RandSide(c)
	if r.Chance(1, 3) {
		reqBody = reqBody[:r.Intn(len(reqBody)+1)]
	}
	rt.Req = reqSide
	rt.Req.Reads = c14RandChunks(r, reqBody)
	rt.Req.Ending = gen.Pick(r, []string{"eof", "eof", "eof", "eofdata", "err", "errdata"})
	rt.Req.Post = []string{}
	respSide, respBody = c14RandSide(c)
	if r.Chance(1, 3) {
		respBody = respBody[:r.Intn(len(respBody)+1)]
	}
	rt.Resp = respSide
	rt.Resp.Reads = c14RandChunks(r, respBody)
	rt.Resp.Ending = gen.Pick(r, c14Endings)
	rt.Resp.Post = c14RandPost(r)
	rt.Fail = r.Chance(1, 8)
	rt.Status = gen.Pick(r, []int{200, 200, 200, 404, 503})
	return rt, h
}
