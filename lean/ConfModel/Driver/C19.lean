import ConfModel.Driver.Common
namespace ConfModel.Driver.C19
open Lean ConfModel.Driver

def handle : Handler := fun op _inp _impl => bad ("C19: unknown op " ++ op)

end ConfModel.Driver.C19
