/-
C13 — Reference client wire checks accept well-formed responses, flag malformed ones.
Property theorems only.
-/
import ConfModel.Lemmas.WireChecks
import ConfModel.Generated.C13Facts
namespace ConfModel.Props.C13
open ConfModel.WireChecks ConfModel.WireChecksSpec
open ConfModel.ServerTimeout (Bytes parseInt)

/-! ## The byte tables of the code, regenerated on every run, are the model's -/

set_option maxRecDepth 100000 in
theorem shouldEscape_table :
    Generated.C13.shouldEscapeTable = (List.range 256).map (fun n => shouldEscape (UInt8.ofNat n)) := by decide

set_option maxRecDepth 100000 in
theorem fieldName_table :
    Generated.C13.fieldNameTable = (List.range 256).map (fun n => isTchar (UInt8.ofNat n)) := by decide

set_option maxRecDepth 100000 in
theorem fieldValue_table :
    Generated.C13.fieldValueTable = (List.range 256).map (fun n => isValueByte (UInt8.ofNat n)) := by decide

set_option maxRecDepth 100000 in
theorem hexDigit_table :
    Generated.C13.hexDigitTable = (List.range 256).map (fun n => isHex (UInt8.ofNat n)) := by decide

set_option maxRecDepth 100000 in
theorem plainByte_table :
    Generated.C13.plainByteTable =
      (List.range 256).map (fun n => !shouldEscape (UInt8.ofNat n)) := by decide

set_option maxRecDepth 100000 in
theorem canonToken_table :
    Generated.C13.canonTokenTable = (List.range 256).map (fun n => isTchar (UInt8.ofNat n)) := by decide

/-- the empty string is not a valid field name (F15), it is a valid field value -/
theorem empty_name_value :
    Generated.C13.emptyNameValid = validFieldName [] ∧ Generated.C13.emptyValueValid = validFieldValue [] := by
  decide

/-! ## grpc-message percent-encoding (every byte string) -/

/-- Decoding the repository's encoding gives the message back. -/
theorem percent_roundtrip (m : Bytes) : percentDecode (percentEncode m) = some m := by
  rw [percentEncode_eq]; exact percent_roundtrip_flat m

/-- The encoding consists of printable ASCII only. -/
theorem percent_printable (m : Bytes) : ∀ b ∈ percentEncode m, 0x20 ≤ b.toNat ∧ b.toNat ≤ 0x7E := by
  intro b hb
  rw [percentEncode_eq, List.mem_flatMap] at hb
  obtain ⟨c, _, hbc⟩ := hb
  exact printable_encodeByte c b hbc

/-- The validator of `checkGRPCStatus` reports nothing on the repository's own encoding. -/
theorem percent_validator_accepts (m : Bytes) : validateMessage (percentEncode m) 0 = [] := by
  rw [percentEncode_eq]; exact validate_flat m

/-! ## the reference server's own gRPC-Web end-stream message is clean -/

/-- For every error code 1..16, every message without a leading or trailing space (F16: the
block format cannot carry one), any details (base64 and the Status proto enter as the oracle
`dec` with its round-trip hypothesis `hd`) and any user trailers with valid names and values:
`examineGRPCEndStream` on `grpcWebStatusEndStream …` reports nothing and `checkGRPCStatus` on
the trailers it parsed reports nothing. -/
theorem own_trailers_clean (dec : Bytes → DetailsDec) (code : Nat) (msg : Bytes)
    (detailsBin : Option Bytes) (hasDetails : Bool) (trailers : Hdrs)
    (hc : 1 ≤ code ∧ code ≤ 16) (hm : noEdgeSpace msg = true) (ht : trailersOK trailers = true)
    (hd : ∀ d, detailsBin = some d →
      cleanValue d = true ∧ dec d = .decoded false (some ((code : Int), msg, hasDetails))) :
    (examineGRPCEndStream (grpcWebStatusEndStream code msg detailsBin trailers)).1 = [] ∧
    checkGRPCStatus dec (examineGRPCEndStream (grpcWebStatusEndStream code msg detailsBin trailers)).2.1 = [] := by
  have hdf := decimal_facts ⟨code, by omega⟩
  simp only at hdf
  obtain ⟨hparse, hdval, hdtrim⟩ := hdf
  -- the status trio as rendered (name, value) pairs
  have hl1 : lowerASCII (bs "grpc-status") = bs "grpc-status" := by decide
  have hl2 : lowerASCII (bs "grpc-message") = bs "grpc-message" := by decide
  have hl3 : lowerASCII (bs "grpc-status-details-bin") = bs "grpc-status-details-bin" := by decide
  have hblock : grpcWebStatusEndStream code msg detailsBin trailers =
      renderPairs (((bs "grpc-status", 32 :: decimal code) :: (bs "grpc-message", 32 :: percentEncode msg) ::
        detPairs detailsBin)
        ++ pairsOf trailers) := by
    rw [grpcWebStatusEndStream, render_eq]
    congr 1
    cases detailsBin <;> simp [grpcStatusTrailers, pairsOf, hl1, hl2, hl3, detPairs]
  -- every pair is a clean line
  have sp : isValueByte 32 = true := by decide
  have c1 : CleanPair (bs "grpc-status", 32 :: decimal code) :=
    ⟨reserved_clean.1.1, reserved_clean.1.2, by
      intro b hb
      simp only [List.mem_cons] at hb
      rcases hb with rfl | hb
      · exact sp
      · exact (List.all_eq_true.1 hdval) b hb⟩
  have c2 : CleanPair (bs "grpc-message", 32 :: percentEncode msg) :=
    ⟨reserved_clean.2.1.1, reserved_clean.2.1.2, by
      intro b hb
      simp only [List.mem_cons] at hb
      rcases hb with rfl | hb
      · exact sp
      · exact printable_value msg b hb⟩
  have c3 : ∀ d, detailsBin = some d → CleanPair (bs "grpc-status-details-bin", 32 :: d) := by
    intro d hdd
    have := (hd d hdd).1
    simp only [cleanValue, Bool.and_eq_true, validFieldValue, List.all_eq_true] at this
    refine ⟨reserved_clean.2.2.1, reserved_clean.2.2.2, ?_⟩
    intro b hb
    simp only [List.mem_cons] at hb
    rcases hb with rfl | hb
    · exact sp
    · exact this.1 b hb
  have hu := clean_user trailers ht
  have hclean : ∀ p ∈ ((bs "grpc-status", 32 :: decimal code) :: (bs "grpc-message", 32 :: percentEncode msg) ::
      detPairs detailsBin)
      ++ pairsOf trailers, CleanPair p := by
    intro p hp
    simp only [List.cons_append, List.mem_cons, List.mem_append] at hp
    rcases hp with rfl | rfl | hp | hp
    · exact c1
    · exact c2
    · cases hdb : detailsBin with
      | none => simp [hdb, detPairs] at hp
      | some d => simp [hdb, detPairs] at hp; subst hp; exact c3 d hdb
    · exact (hu p hp).1
  rw [hblock, examine_renderPairs _ hclean]
  refine ⟨rfl, ?_⟩
  -- user trailers never collide with the status trio
  have huser : ∀ K : Bytes, reservedNames.contains (lowerASCII K) = true →
      (pairsOf trailers).filter (fun p => canonKey p.1 = K) = [] := by
    intro K hK
    rw [List.filter_eq_nil_iff]
    intro p hp hck
    have hck' : canonKey p.1 = K := by simpa using hck
    have : lowerASCII p.1 = lowerASCII K := by rw [← hck', lower_canonKey]
    rw [(hu p hp).2.2] at this
    exact (hu p hp).2.1 (this ▸ hK)
  have k11 : canonKey (bs "grpc-status") = kStatus := by decide
  have k12 : ¬ canonKey (bs "grpc-message") = kStatus := by decide
  have k13 : ¬ canonKey (bs "grpc-status-details-bin") = kStatus := by decide
  have k21 : ¬ canonKey (bs "grpc-status") = kMessage := by decide
  have k22 : canonKey (bs "grpc-message") = kMessage := by decide
  have k23 : ¬ canonKey (bs "grpc-status-details-bin") = kMessage := by decide
  have k31 : ¬ canonKey (bs "grpc-status") = kDetails := by decide
  have k32 : ¬ canonKey (bs "grpc-message") = kDetails := by decide
  have k33 : canonKey (bs "grpc-status-details-bin") = kDetails := by decide
  have r1 : reservedNames.contains (lowerASCII kStatus) = true := by decide
  have r2 : reservedNames.contains (lowerASCII kMessage) = true := by decide
  have r3 : reservedNames.contains (lowerASCII kDetails) = true := by decide
  have hmsgtrim : trimWS (percentEncode msg) = percentEncode msg := by
    simp only [noEdgeSpace, Bool.and_eq_true, bne_iff_ne, ne_eq] at hm
    exact trimWS_id _ (encode_head msg hm.1) (encode_last msg hm.2)
  have hS : hget (foldTr [] (((bs "grpc-status", 32 :: decimal code) :: (bs "grpc-message", 32 :: percentEncode msg) ::
        detPairs detailsBin)
        ++ pairsOf trailers)) kStatus = [decimal code] := by
    rw [hget_foldTr, List.filter_append, huser kStatus r1]
    cases detailsBin <;> simp [hget, List.filter_cons, k11, k12, k13, hdtrim, detPairs, trimWS_cons_space]
  have hM : hget (foldTr [] (((bs "grpc-status", 32 :: decimal code) :: (bs "grpc-message", 32 :: percentEncode msg) ::
        detPairs detailsBin)
        ++ pairsOf trailers)) kMessage = [percentEncode msg] := by
    rw [hget_foldTr, List.filter_append, huser kMessage r2]
    cases detailsBin <;> simp [hget, List.filter_cons, k21, k22, k23, hmsgtrim, detPairs, trimWS_cons_space]
  have hD : hget (foldTr [] (((bs "grpc-status", 32 :: decimal code) :: (bs "grpc-message", 32 :: percentEncode msg) ::
        detPairs detailsBin)
        ++ pairsOf trailers)) kDetails = detVals detailsBin := by
    rw [hget_foldTr, List.filter_append, huser kDetails r3]
    cases hdb : detailsBin with
    | none => simp [hget, List.filter_cons, k31, k32, detPairs, detVals]
    | some d =>
      have := (hd d hdb).1
      simp only [cleanValue, Bool.and_eq_true, beq_iff_eq] at this
      simp [hget, List.filter_cons, k31, k32, k33, this.2, detPairs, detVals, trimWS_cons_space]
  have hv := percent_validator_accepts msg
  have hr := percent_roundtrip msg
  have hcode0 : ¬ ((code : Int) < 0 ∨ (code : Int) > 16) := by omega
  have hw : wrap32 (code : Int) = (code : Int) := by simp only [wrap32]; omega
  simp only [checkGRPCStatus, checkStatusCore, statusPart, messagePart, detailsPart, hS, hM, hD]
  cases hdb : detailsBin with
  | none =>
    have hne : ¬ ((code : Int) = 0) := by omega
    have hne' : ¬ (code = 0) := by omega
    simp [hparse, hv, hr, hcode0, hne, hne', detVals]
  | some d =>
    have hne : ¬ ((code : Int) = 0) := by omega
    have hne' : ¬ (code = 0) := by omega
    simp [hparse, hv, hr, hcode0, hne, hne', (hd d hdb).2, hw, detVals]

/-! ## gRPC-Web trailer block: silent on every well-formed block, vocal on each malformation -/

/-- Any block that follows the grammar `*( lower-case-token ":" OWS field-value OWS CRLF )`
— not only the reference server's own — yields no feedback (all byte strings). -/
theorem block_wellformed_clean (s : Bytes) (h : blockOK s = true) : (examineGRPCEndStream s).1 = [] :=
  block_clean s h

/-- Each malformation class the end-stream checks name is reported: a line ending that is not
CRLF / a missing final CRLF, blank lines, a line without colon, an invalid (or empty) field
name, an upper-case key, an invalid value byte, obsolete line folding. -/
theorem block_malformation_flagged (s : Bytes) :
    ∀ alts ∈ mustFlag s, ∃ f ∈ alts, f ∈ (examineGRPCEndStream s).1 :=
  block_flags s

/-- …in the form the correspondence check evaluates on the implementation's output. -/
theorem block_spec (s : Bytes) : blockHolds s (examineGRPCEndStream s).1 = true := by
  simp only [blockHolds, Bool.and_eq_true, Bool.or_eq_true, Bool.not_eq_true', List.all_eq_true,
    List.any_eq_true, List.contains_iff_mem, List.isEmpty_iff]
  refine ⟨?_, fun alts ha => ?_⟩
  · cases hok : blockOK s with
    | false => exact Or.inl rfl
    | true => exact Or.inr (block_wellformed_clean s hok)
  · obtain ⟨f, hf, hm⟩ := block_malformation_flagged s alts ha
    exact ⟨f, hf, by simpa using hm⟩

/-- the classes by name, for a line that is not the last one of the block -/
theorem lf_line_ending_flagged (s : Bytes) (l : Bytes) (hl : l ∈ (splitLF s).dropLast)
    (hcr : l.getLast? ≠ some 13) : EsFb.lfOnly ∈ (examineGRPCEndStream s).1 := by
  have hn : 0 + (splitLF s).length = (splitLF s).length := by simp
  have := loop_lf _ (splitLF s) {} 0 hn ⟨l, hl, by simpa [bne] using hcr⟩
  simp [examineGRPCEndStream, esFinish, this]

theorem missing_final_crlf_flagged (s : Bytes) (h : (splitLF s).getLast? ≠ some []) :
    EsFb.noFinalCRLF ∈ (examineGRPCEndStream s).1 := by
  have hn : 0 + (splitLF s).length = (splitLF s).length := by simp
  have hne : (esLoop (splitLF s).length {} 0 (splitLF s)).endsInCRLF = false := by
    cases he : (esLoop (splitLF s).length {} 0 (splitLF s)).endsInCRLF with
    | false => rfl
    | true => exact absurd (loop_ends _ (splitLF s) {} 0 hn rfl he) h
  simp [examineGRPCEndStream, esFinish, hne]

theorem line_malformations_flagged (s : Bytes) (l : Bytes) (hl : l ∈ terminatedLines s) :
    (l = [] → EsFb.blankLines ∈ (examineGRPCEndStream s).1 ∨ EsFb.extraBlankAtEnd ∈ (examineGRPCEndStream s).1) ∧
    (∀ k v, l ≠ [] → (l.head?.map isWS).getD false = false → splitColon l = (k, some v) →
      (validFieldName k = false → EsFb.invalidName ∈ (examineGRPCEndStream s).1) ∧
      (isASCII k = true → k.any isUpper = true → EsFb.nonLowerKey ∈ (examineGRPCEndStream s).1) ∧
      (validFieldValue (trimWS v) = false → EsFb.invalidValue ∈ (examineGRPCEndStream s).1)) ∧
    (∀ k, l ≠ [] → (l.head?.map isWS).getD false = false → splitColon l = (k, none) →
      EsFb.missingColon ∈ (examineGRPCEndStream s).1) := by
  have key : ∀ alts, alts ∈ mustFlagLine l → ∃ f ∈ alts, f ∈ (examineGRPCEndStream s).1 := fun alts ha =>
    block_malformation_flagged s alts (by
      simp only [mustFlag, List.mem_append, List.mem_flatMap]
      exact Or.inr ⟨l, hl, ha⟩)
  refine ⟨?_, ?_, ?_⟩
  · intro he
    obtain ⟨f, hf, hm⟩ := key [.blankLines, .extraBlankAtEnd] (by simp [mustFlagLine, he])
    simp at hf
    rcases hf with rfl | rfl
    · exact Or.inl hm
    · exact Or.inr hm
  · intro k v hne hws hs
    have he : l.isEmpty = false := by simpa using hne
    refine ⟨?_, ?_, ?_⟩
    · intro hv
      have hv' : (!k.isEmpty && k.all isTchar) = false := by simpa [validFieldName] using hv
      obtain ⟨f, hf, hm⟩ := key [.invalidName] (by simp [mustFlagLine, he, hws, hs, hv'])
      simp at hf; subst hf; exact hm
    · intro ha hu
      obtain ⟨f, hf, hm⟩ := key [.nonLowerKey] (by simp [mustFlagLine, he, hws, hs, ha, hu])
      simp at hf; subst hf; exact hm
    · intro hv
      obtain ⟨f, hf, hm⟩ := key [.invalidValue] (by simp [mustFlagLine, he, hws, hs, hv])
      simp at hf; subst hf; exact hm
  · intro k hne hws hs
    have he : l.isEmpty = false := by simpa using hne
    obtain ⟨f, hf, hm⟩ := key [.missingColon] (by simp [mustFlagLine, he, hws, hs])
    simp at hf; subst hf; exact hm

/-! ## gRPC status trailers: silent on well-formed, vocal on each malformation class -/

/-- The validator of `checkGRPCStatus` accepts exactly the grammar of `grpc-message`
(`*( %x20-24 / %x26-7E / "%" HEXDIG HEXDIG )`): bad percent-encoding is always reported. -/
theorem message_validator_iff_grammar (m : Bytes) : validateMessage m 0 = [] ↔ encodingOK m = true :=
  validate_iff_grammar m

/-- A well-formed status trailer set yields no feedback (any header map, any oracle). -/
theorem status_wellformed_clean (dec : Bytes → DetailsDec) (h : Hdrs) (hok : statusOK dec h = true) :
    checkGRPCStatus dec h = [] :=
  status_clean_core dec _ _ _ hok

/-- Each malformation class the status checks name — multiple / missing / unparseable /
out-of-range `grpc-status`, multiple `grpc-message`, bad percent-encoding, multiple, non-base64,
padded or unparseable `grpc-status-details-bin`, code or message disagreement — is reported. -/
theorem status_malformation_flagged (dec : Bytes → DetailsDec) (h : Hdrs) :
    ∀ alts ∈ mustFlagStatus dec h, ∃ f ∈ alts, f ∈ checkGRPCStatus dec h :=
  status_flags_core dec _ _ _

/-- …in the form the correspondence check evaluates on the implementation's output. -/
theorem status_spec (dec : Bytes → DetailsDec) (h : Hdrs) :
    statusHolds dec h (checkGRPCStatus dec h) = true := by
  simp only [statusHolds, Bool.and_eq_true, Bool.or_eq_true, Bool.not_eq_true', List.all_eq_true,
    List.any_eq_true, List.contains_iff_mem, List.isEmpty_iff]
  refine ⟨?_, fun alts ha => ?_⟩
  · cases hok : statusOK dec h with
    | false => exact Or.inl rfl
    | true => exact Or.inr (status_wellformed_clean dec h hok)
  · obtain ⟨f, hf, hm⟩ := status_malformation_flagged dec h alts ha
    exact ⟨f, hf, by simpa using hm⟩

/-- the classes by name -/
theorem missing_status_flagged (dec : Bytes → DetailsDec) (h : Hdrs) (hs : hget h kStatus = []) :
    StFb.noStatus ∈ checkGRPCStatus dec h := by
  obtain ⟨f, hf, hm⟩ := status_malformation_flagged dec h [.noStatus]
    (by simp [mustFlagStatus, mustFlagStatusCore, mustStatus, hs])
  simp at hf; subst hf; exact hm

theorem multiple_status_flagged (dec : Bytes → DetailsDec) (h : Hdrs) (hs : (hget h kStatus).length > 1) :
    StFb.multiStatus ∈ checkGRPCStatus dec h := by
  obtain ⟨f, hf, hm⟩ := status_malformation_flagged dec h [.multiStatus]
    (by simp [mustFlagStatus, mustFlagStatusCore, mustStatus, hs])
  simp at hf; subst hf; exact hm

theorem bad_percent_encoding_flagged (dec : Bytes → DetailsDec) (h : Hdrs) (m : Bytes) (rest : List Bytes)
    (hm : hget h kMessage = m :: rest) (he : encodingOK m = false) :
    ∃ f, StFb.msg f ∈ checkGRPCStatus dec h := by
  obtain ⟨f, hf, hmem⟩ := status_malformation_flagged dec h [.msg .hexExpected, .msg .unescaped, .msg .incomplete]
    (by simp [mustFlagStatus, mustFlagStatusCore, mustMessage, hm, he])
  simp at hf
  rcases hf with rfl | rfl | rfl <;> exact ⟨_, hmem⟩

theorem bad_base64_flagged (dec : Bytes → DetailsDec) (h : Hdrs) (d : Bytes) (rest : List Bytes)
    (hd : hget h kDetails = d :: rest) :
    (dec d = .invalid → StFb.detailsBadBase64 ∈ checkGRPCStatus dec h) ∧
    (∀ st, dec d = .decoded true st → StFb.detailsPadded ∈ checkGRPCStatus dec h) := by
  constructor
  · intro hi
    obtain ⟨f, hf, hm⟩ := status_malformation_flagged dec h [.detailsBadBase64]
      (by simp [mustFlagStatus, mustFlagStatusCore, mustDetails, hd, hi])
    simp at hf; subst hf; exact hm
  · intro st hp
    obtain ⟨f, hf, hm⟩ := status_malformation_flagged dec h [.detailsPadded]
      (by simp [mustFlagStatus, mustFlagStatusCore, mustDetails, hd, hp])
    simp at hf; subst hf; exact hm

theorem status_details_disagreement_flagged (dec : Bytes → DetailsDec) (h : Hdrs) (s d m : Bytes)
    (rest : List Bytes) (padded : Bool) (c sc : Int) (msg : Bytes) (hasDetails : Bool)
    (hs : hget h kStatus = [s]) (hp : parseInt 64 s = some sc)
    (hd : hget h kDetails = d :: rest) (hdec : dec d = .decoded padded (some (c, msg, hasDetails))) :
    (c ≠ wrap32 sc → StFb.detailsCodeMismatch ∈ checkGRPCStatus dec h) ∧
    (∀ ms dm, hget h kMessage = m :: ms → percentDecode m = some dm → msg ≠ dm →
      StFb.detailsMsgMismatch ∈ checkGRPCStatus dec h) := by
  constructor
  · intro hne
    obtain ⟨f, hf, hm⟩ := status_malformation_flagged dec h [.detailsCodeMismatch]
      (by simp [mustFlagStatus, mustFlagStatusCore, mustDetails, hd, hdec, hs, hp, hne])
    simp at hf; subst hf; exact hm
  · intro ms dm hmv hdm hne
    obtain ⟨f, hf, hm⟩ := status_malformation_flagged dec h [.detailsMsgMismatch]
      (by simp [mustFlagStatus, mustFlagStatusCore, mustDetails, hd, hdec, hmv, hdm, hne])
    simp at hf; subst hf; exact hm

/-- non-vacuity: a concrete error with details and user trailers satisfying every hypothesis -/
example :
    let dec : Bytes → DetailsDec := fun _ => .decoded false (some (13, bs "oops: 50%", true))
    (1 ≤ 13 ∧ 13 ≤ 16) ∧ noEdgeSpace (bs "oops: 50%") = true ∧
    trailersOK [(bs "X-Custom", [bs "a b", bs ""])] = true ∧ cleanValue (bs "CA0SBG9vcHM") = true ∧
    (examineGRPCEndStream (grpcWebStatusEndStream 13 (bs "oops: 50%") (some (bs "CA0SBG9vcHM"))
      [(bs "X-Custom", [bs "a b", bs ""])])).1 = [] ∧
    checkGRPCStatus dec (examineGRPCEndStream (grpcWebStatusEndStream 13 (bs "oops: 50%")
      (some (bs "CA0SBG9vcHM")) [(bs "X-Custom", [bs "a b", bs ""])])).2.1 = [] := by
  decide

/-- F16 (known finding): the hypothesis `noEdgeSpace` is needed.  For the message `" "` the
server's own block is examined without complaint, but the trimmed `grpc-message` is then
reported to disagree with `grpc-status-details-bin`. -/
theorem edge_space_witness :
    let dec : Bytes → DetailsDec := fun _ => .decoded false (some (1, [32], true))
    noEdgeSpace [32] = false ∧
    (examineGRPCEndStream (grpcWebStatusEndStream 1 [32] (some (bs "QUJD")) [])).1 = [] ∧
    checkGRPCStatus dec (examineGRPCEndStream (grpcWebStatusEndStream 1 [32] (some (bs "QUJD")) [])).2.1
      = [.detailsMsgMismatch] := by
  decide

/-- F15 (fixed): an empty field name is reported; before the repair it was accepted. -/
theorem empty_name_flagged :
    (examineGRPCEndStream (bs ": v\r\n")).1 = [.invalidName] ∧
    validFieldName [] = false ∧ validFieldNameOld [] = true := by
  decide

/-! ## HTTP trailers outside the gRPC protocol -/

/-- Any HTTP trailer on a response that is not of the gRPC protocol (Connect, gRPC-Web, or
anything else) is reported; none is reported for gRPC or without trailers. -/
theorem http_trailers_outside_grpc (ct : String) (n : Nat) :
    httpTrailersFeedback ct n = true ↔ (isGrpcContentType ct = false ∧ n > 0) := by
  simp [httpTrailersFeedback]

example : httpTrailersFeedback "application/grpc-web+proto" 1 = true ∧
    httpTrailersFeedback "application/json" 2 = true ∧ httpTrailersFeedback "application/grpc+proto" 2 = false ∧
    httpTrailersFeedback "application/grpc" 1 = false ∧ httpTrailersFeedback "application/connect+json" 0 = false := by
  decide

/-! ### non-vacuity of the hypotheses used above -/

example : blockOK (bs "grpc-status: 0\r\nx-custom:\tv \r\n") = true ∧ blockOK [] = true ∧
    blockOK (bs "grpc-status: 0\n") = false ∧ blockOK (bs "Grpc-Status: 0\r\n") = false := by decide

example : mustFlag (bs "Grpc-Status 0\n\r\n x\r\n: v") =
    [[.lfOnly, .noFinalCRLF], [.missingColon], [.blankLines, .extraBlankAtEnd],
     [.obsFold, .invalidName, .missingColon]] := by decide

example :
    let h : Hdrs := [(kStatus, [bs "13"]), (kMessage, [bs "a%20b"]), (kDetails, [bs "QQ"])]
    let dec : Bytes → DetailsDec := fun _ => .decoded false (some (13, bs "a b", true))
    statusOK dec h = true ∧ checkGRPCStatus dec h = [] := by decide

example :
    let h : Hdrs := [(kStatus, [bs "+5", bs "x"]), (kMessage, [bs "50%"]), (kDetails, [bs "!"])]
    mustFlagStatus (fun _ => .invalid) h =
      [[.multiStatus], [.msg .hexExpected, .msg .unescaped, .msg .incomplete], [.detailsBadBase64]] ∧
    checkGRPCStatus (fun _ => .invalid) h = [.multiStatus, .msg .incomplete, .detailsBadBase64] := by decide

end ConfModel.Props.C13
