//go:build verif

package connectconformance

import (
	"context"
	"encoding/binary"
	"errors"
	"fmt"
	"io"
	"sort"
	"strings"
	"sync"
	"sync/atomic"
	"time"

	"connectrpc.com/conformance/internal"
	conformancev1 "connectrpc.com/conformance/internal/gen/proto/go/connectrpc/conformance/v1"
)

// C11 op "inproc": the real runTestCasesForServer with nothing scripted between it and its peers:
// the server is an in-process function behind the real runInProcess / localProcess (the way both
// reference servers are run), the client runner is the real runClient / clientProcessRunner over the
// real pipes of an in-process scripted client. What is scripted is only what the two peers do.
//
// VerifC11InAct is one action of the client program (it handles its requests one after the other):
//
//	req             read one complete request from stdin (no-op once stdin is at its end)
//	pre   b         read only b (1..3) bytes of the length prefix of the next request
//	part  b         read the length prefix of the next request and min(b, len-1) bytes of its body
//	ans   m kind    write a well-formed response for case m: pass | mismatch | error | neither
//	garbage         write a message that cannot be decoded
//	await m         wait until the runner has invoked the completion callback of case m
//	sleep ms        a slow client
//	exit  code      return (code 0: nil, otherwise an error): every pipe of the client is closed —
//	                in the middle of the request that was only partly read
type VerifC11InAct struct {
	K    string `json:"k"`
	M    int    `json:"m,omitempty"`
	Kind string `json:"kind,omitempty"`
	B    int    `json:"b,omitempty"`
	Ms   int    `json:"ms,omitempty"`
	Code int    `json:"code,omitempty"`
}

type VerifC11InSpec struct {
	Names  []string        `json:"names"`
	Client []VerifC11InAct `json:"client"`
	IsRef  bool            `json:"isRef"`
	// ServerExitMs > 0: the server function returns by itself that long after it has answered
	// (ServerExitErr: with an error); 0: a healthy server that runs until it is told to stop
	ServerExitMs  int  `json:"serverExitMs"`
	ServerExitErr bool `json:"serverExitErr,omitempty"`
	// ServerOrder: "" the server reads its request, then answers | answerFirst: it answers (a fixed
	// address needs nothing from the request) and only then reads the request | answerFirstSlow: the
	// same with a pause in between.  Over the synchronous pipes of runInProcess neither side's write
	// completes before the other side reads.
	ServerOrder string `json:"serverOrder,omitempty"`
	TimeoutS    int    `json:"timeoutS"`
	// Feedback: what a reference server (IsRef) prints on its stderr right after its response,
	// through the real printer of the reference server: internal.NewPrinter(stderr) and, for a
	// feedback line (M >= 0), PrefixPrintf(Names[M], Fmt, Args...) — exactly what
	// referenceserver.feedbackPrinter.Printf does; M < 0: Printf(Fmt, Args...), other output
	Feedback []VerifC11InFeedback `json:"feedback,omitempty"`
}

type VerifC11InFeedback struct {
	M    int      `json:"m"`
	Fmt  string   `json:"fmt"`
	Args []string `json:"args"`
}

type VerifC11InObs struct {
	Outcomes [][2]string `json:"outcomes"` // sorted (name, class)
	Rets     []string    `json:"rets"`     // per case: what the real sendRequest returned: ok | closed | dup | fail | unsent
	Cbs      []int       `json:"cbs"`      // per case: invocations of the completion callback
	Panics   []string    `json:"panics"`   // "batch" (runTestCasesForServer itself) / "callback" (inside a completion callback)
	Hang     bool        `json:"hang"`     // runTestCasesForServer did not return in time
	// the moment the (healthy) server was told to stop: sendRequest calls made and callbacks
	// invoked by then (-1: it never was, or it had ended by itself), and their final numbers
	StopCalls      int  `json:"stopCalls"`
	StopCbs        int  `json:"stopCbs"`
	Calls          int  `json:"calls"`
	CbsTotal       int  `json:"cbsTotal"`
	ServerReturned bool `json:"serverReturned"` // the server function had returned when the batch returned
	AwaitTimeout   bool `json:"awaitTimeout"`   // the scripted client waited in vain for a callback (10 s)
	ClientWait     string `json:"clientWait"`   // waitForResponses after the batch: returned | hang
	// reference server: lines given to the error printer, side-band records (sorted)
	Forwarded []string    `json:"forwarded"`
	BadPrefix int         `json:"badPrefix"`
	Sideband  [][2]string `json:"sideband"`
}

// verifC11InMux delegates to the real client runner; it only counts, signals the barriers of the
// scripted client and keeps a panic inside a completion callback (which would otherwise kill the
// whole harness from the reader goroutine) as an observation.
type verifC11InMux struct {
	inner  clientRunner
	mu     sync.Mutex
	idx    map[string]int
	rets   []string
	cbs    []int
	fired  []chan struct{}
	once   []sync.Once
	calls  int
	panics []string
}

func (w *verifC11InMux) sendRequest(req *conformancev1.ClientCompatRequest, whenDone func(string, *conformancev1.ClientCompatResponse, error)) error {
	i, ok := w.idx[req.TestName]
	if !ok {
		panic("c11 inproc: request for a name outside the batch: " + req.TestName)
	}
	w.mu.Lock()
	w.calls++
	w.mu.Unlock()
	err := w.inner.sendRequest(req, func(name string, resp *conformancev1.ClientCompatResponse, err error) {
		w.mu.Lock()
		w.cbs[i]++
		w.mu.Unlock()
		defer func() {
			if r := recover(); r != nil {
				w.mu.Lock()
				w.panics = append(w.panics, "callback")
				w.mu.Unlock()
			}
			w.once[i].Do(func() { close(w.fired[i]) })
		}()
		whenDone(name, resp, err)
	})
	w.mu.Lock()
	w.rets[i] = verifC10SendClass(err)
	w.mu.Unlock()
	return err
}
func (w *verifC11InMux) closeSend()              { w.inner.closeSend() }
func (w *verifC11InMux) waitForResponses() error { return w.inner.waitForResponses() }
func (w *verifC11InMux) isRunning() bool         { return w.inner.isRunning() }
func (w *verifC11InMux) stop()                   { w.inner.stop() }

func (w *verifC11InMux) counts() (calls, cbs int) {
	w.mu.Lock()
	defer w.mu.Unlock()
	for _, c := range w.cbs {
		cbs += c
	}
	return w.calls, cbs
}

var errVerifC11InExit = errors.New("verif scripted client exit 1")

func verifC11InResponse(name, kind string) *conformancev1.ClientCompatResponse {
	switch kind {
	case "pass":
		return &conformancev1.ClientCompatResponse{TestName: name, Result: &conformancev1.ClientCompatResponse_Response{
			Response: &conformancev1.ClientResponseResult{Payloads: []*conformancev1.ConformancePayload{{Data: []byte("data")}}},
		}}
	case "mismatch":
		return &conformancev1.ClientCompatResponse{TestName: name, Result: &conformancev1.ClientCompatResponse_Response{
			Response: &conformancev1.ClientResponseResult{Payloads: []*conformancev1.ConformancePayload{{Data: []byte("other")}}},
		}}
	case "error":
		return &conformancev1.ClientCompatResponse{TestName: name, Result: &conformancev1.ClientCompatResponse_Error{
			Error: &conformancev1.ClientErrorResult{Message: "client says no"},
		}}
	case "neither":
		return &conformancev1.ClientCompatResponse{TestName: name}
	}
	// "error:<message>" — a client-reported error with that message, whatever it is (C04 op inrun)
	if msg, ok := strings.CutPrefix(kind, "error:"); ok {
		return &conformancev1.ClientCompatResponse{TestName: name, Result: &conformancev1.ClientCompatResponse_Error{
			Error: &conformancev1.ClientErrorResult{Message: msg},
		}}
	}
	panic("c11 inproc: unknown answer kind " + kind)
}

func verifC11InClient(spec *VerifC11InSpec, mux *verifC11InMux, awaitTimeout *atomic.Bool) func(ctx context.Context, _ []string, in io.ReadCloser, out, _ io.WriteCloser) error {
	return func(ctx context.Context, _ []string, in io.ReadCloser, out, _ io.WriteCloser) error {
		do := func(f func() error) error {
			if ctx.Err() != nil {
				return errVerifC10Aborted
			}
			ch := make(chan error, 1)
			go func() { ch <- f() }()
			select {
			case err := <-ch:
				return err
			case <-ctx.Done():
				return errVerifC10Aborted
			}
		}
		stdinEOF, partial := false, false
		readN := func(n int) bool {
			buf := make([]byte, n)
			if _, err := io.ReadFull(in, buf); err != nil {
				stdinEOF = true
				return false
			}
			return true
		}
		readPrefix := func() (int, bool) {
			var pre [4]byte
			if _, err := io.ReadFull(in, pre[:]); err != nil {
				stdinEOF = true
				return 0, false
			}
			return int(binary.BigEndian.Uint32(pre[:])), true
		}
		for _, act := range spec.Client {
			switch act.K {
			case "req", "pre", "part":
				if partial {
					panic("c11 inproc: the script reads on after a partial read")
				}
				if stdinEOF {
					continue
				}
				act := act
				if err := do(func() error {
					switch act.K {
					case "req":
						if n, ok := readPrefix(); ok {
							readN(n)
						}
					case "pre":
						b := act.B
						if b < 1 || b > 3 {
							panic("c11 inproc: pre needs 1..3 bytes")
						}
						readN(b)
						partial = true
					case "part":
						if n, ok := readPrefix(); ok {
							b := act.B
							if b > n-1 {
								b = n - 1
							}
							if b > 0 {
								readN(b)
							}
						}
						partial = true
					}
					return nil
				}); err != nil {
					return err
				}
			case "ans":
				if act.M < 0 || act.M >= len(spec.Names) {
					panic("c11 inproc: answer for a case outside the batch")
				}
				msg := verifC11InResponse(spec.Names[act.M], act.Kind)
				if err := do(func() error {
					if err := internal.WriteDelimitedMessage(out, msg); err != nil {
						return errVerifC10Aborted
					}
					return nil
				}); err != nil {
					return err
				}
			case "garbage":
				if err := do(func() error {
					if _, err := out.Write([]byte{0, 0, 0, 3, 0xff, 0xff, 0xff}); err != nil {
						return errVerifC10Aborted
					}
					return nil
				}); err != nil {
					return err
				}
			case "await":
				if act.M < 0 || act.M >= len(spec.Names) {
					panic("c11 inproc: await for a case outside the batch")
				}
				select {
				case <-mux.fired[act.M]:
				case <-ctx.Done():
					return errVerifC10Aborted
				case <-time.After(10 * time.Second):
					awaitTimeout.Store(true)
					return errVerifC11InExit
				}
			case "sleep":
				select {
				case <-time.After(time.Duration(act.Ms) * time.Millisecond):
				case <-ctx.Done():
					return errVerifC10Aborted
				}
			case "exit":
				if act.Code != 0 {
					return errVerifC11InExit
				}
				return nil
			default:
				panic("c11 inproc: unknown client action " + act.K)
			}
		}
		return nil
	}
}

// VerifC11InProc runs the real runTestCasesForServer with an in-process server (runInProcess) and
// the real client runner on an in-process scripted client.
func VerifC11InProc(spec VerifC11InSpec) VerifC11InObs {
	n := len(spec.Names)
	cases := make([]*conformancev1.TestCase, n)
	mux := &verifC11InMux{idx: map[string]int{}, rets: make([]string, n), cbs: make([]int, n), fired: make([]chan struct{}, n), once: make([]sync.Once, n)}
	for i, name := range spec.Names {
		cases[i] = &conformancev1.TestCase{
			Request:          &conformancev1.ClientCompatRequest{TestName: name},
			ExpectedResponse: &conformancev1.ClientResponseResult{Payloads: []*conformancev1.ConformancePayload{{Data: []byte("data")}}},
		}
		if _, dup := mux.idx[name]; dup {
			panic("c11 inproc: batch names must be distinct")
		}
		mux.idx[name] = i
		mux.rets[i] = "unsent"
		mux.fired[i] = make(chan struct{})
	}
	obs := VerifC11InObs{StopCalls: -1, StopCbs: -1, Panics: []string{}, Outcomes: [][2]string{}}
	results := newResults(n, &testTrie{}, &testTrie{}, nil)

	var stopMu sync.Mutex
	var serverReturned atomic.Bool
	server := func(ctx context.Context, _ []string, in io.ReadCloser, out, stderr io.WriteCloser) error {
		defer serverReturned.Store(true)
		req := &conformancev1.ServerCompatRequest{}
		readReq := func() error {
			return internal.ReadDelimitedMessage(in, req, "runner", 10*time.Second, maxServerResponseSize)
		}
		if spec.ServerOrder == "" {
			if err := readReq(); err != nil {
				return err
			}
		}
		if err := internal.WriteDelimitedMessage(out, &conformancev1.ServerCompatResponse{Host: "127.0.0.1", Port: 12345}); err != nil {
			return err
		}
		if spec.ServerOrder != "" {
			if spec.ServerOrder == "answerFirstSlow" {
				time.Sleep(30 * time.Millisecond)
			}
			if err := readReq(); err != nil {
				return err
			}
		}
		if spec.IsRef && len(spec.Feedback) > 0 {
			printer := internal.NewPrinter(stderr)
			for _, f := range spec.Feedback {
				args := make([]any, len(f.Args))
				for i, a := range f.Args {
					args[i] = a
				}
				if f.M >= 0 {
					printer.PrefixPrintf(spec.Names[f.M], f.Fmt, args...)
				} else {
					printer.Printf(f.Fmt, args...)
				}
			}
		}
		var byItself <-chan time.Time
		if spec.ServerExitMs > 0 {
			byItself = time.After(time.Duration(spec.ServerExitMs) * time.Millisecond)
		}
		select {
		case <-ctx.Done():
			calls, cbs := mux.counts()
			stopMu.Lock()
			obs.StopCalls, obs.StopCbs = calls, cbs
			stopMu.Unlock()
			return nil
		case <-byItself:
			if spec.ServerExitErr {
				return errors.New("verif in-process server gives up")
			}
			return nil
		}
	}

	var awaitTimeout atomic.Bool
	clientCtx, clientCancel := context.WithCancel(context.Background())
	defer clientCancel()
	runner, err := runClient(clientCtx, runInProcess([]string{"verif-client"}, verifC11InClient(&spec, mux, &awaitTimeout)))
	if err != nil {
		panic(fmt.Sprintf("c11 inproc: runClient: %v", err))
	}
	mux.inner = runner
	defer func() { go runner.stop() }()

	meta := serverInstance{protocol: conformancev1.Protocol_PROTOCOL_CONNECT, httpVersion: conformancev1.HTTPVersion_HTTP_VERSION_1}
	errPrinter := &verifC11Printer{}
	done := make(chan struct{})
	go func() {
		defer close(done)
		defer func() {
			if r := recover(); r != nil {
				mux.mu.Lock()
				mux.panics = append(mux.panics, "batch")
				mux.mu.Unlock()
			}
		}()
		runTestCasesForServer(context.Background(), !spec.IsRef, spec.IsRef, meta, cases, nil, nil,
			runInProcess([]string{"verif-server"}, server), verifNopPrinter{}, errPrinter, results, mux, nil, false)
	}()
	timeout := spec.TimeoutS
	if timeout <= 0 {
		timeout = 20
	}
	select {
	case <-done:
	case <-time.After(time.Duration(timeout) * time.Second):
		obs.Hang = true
	}
	obs.ServerReturned = serverReturned.Load()
	// what the run loop does with its client after the last batch
	if !obs.Hang {
		runner.closeSend()
		waited := make(chan struct{})
		go func() { _ = runner.waitForResponses(); close(waited) }()
		select {
		case <-waited:
			obs.ClientWait = "returned"
		case <-time.After(10 * time.Second):
			obs.ClientWait = "hang"
		}
	}
	clientCancel()
	time.Sleep(2 * time.Millisecond) // a stray late callback (if any) shows itself
	stopMu.Lock()
	defer stopMu.Unlock()
	mux.mu.Lock()
	defer mux.mu.Unlock()
	obs.Rets = append([]string{}, mux.rets...)
	obs.Cbs = append([]int{}, mux.cbs...)
	obs.Panics = append(obs.Panics, mux.panics...)
	sort.Strings(obs.Panics)
	obs.Calls = mux.calls
	for _, c := range mux.cbs {
		obs.CbsTotal += c
	}
	obs.AwaitTimeout = awaitTimeout.Load()
	results.mu.Lock()
	for name, o := range results.outcomes {
		obs.Outcomes = append(obs.Outcomes, [2]string{name, verifC11Class(o)})
	}
	obs.Sideband = [][2]string{}
	for name, msg := range results.serverSideband {
		obs.Sideband = append(obs.Sideband, [2]string{name, msg})
	}
	results.mu.Unlock()
	sort.Slice(obs.Outcomes, func(i, j int) bool { return obs.Outcomes[i][0] < obs.Outcomes[j][0] })
	sort.Slice(obs.Sideband, func(i, j int) bool { return obs.Sideband[i][0] < obs.Sideband[j][0] })
	errPrinter.mu.Lock()
	obs.Forwarded = append([]string{}, errPrinter.forwarded...)
	obs.BadPrefix = errPrinter.bad
	errPrinter.mu.Unlock()
	return obs
}
