package main

// C16 at the runner's consumer: testResults.fetchTrace (results.go) is the code that waits
// for traces in a real run. The op drives the real testResults with a real *tracer.Tracer
// (Init as runTestCasesForServer does, an outcome that starts the waiter, report()) and
// scripts the producer's Complete before the outcome, between outcome and report, while
// report() already waits, never, and around a Clear.

import (
	"encoding/json"
	"fmt"
	"strings"

	cc "connectrpc.com/conformance/internal/app/connectconformance"
	"connectrpc.com/conformance/internal/verifharness/gen"
)

type c16ResultsIn struct {
	Steps []string `json:"steps"`
}

func init() {
	gen.RegisterOp("c16", "results", func(c *gen.Ctx, raw json.RawMessage) any {
		in := gen.Into[c16ResultsIn](raw)
		out := cc.VerifC16Results(in.Steps)
		// "late" (report() took 1.5 x TraceTimeout or more) is a wall-clock observation: on an
		// overloaded machine (thorough tier: race detector, 16 scripts at a time, other checks
		// running) a waiter released by its deadline may be scheduled seconds later. A wait that
		// really outlives its context does so every time: the script is repeated, and only a
		// report that is late three times in a row is reported as late.
		for attempt := 0; attempt < 2 && out.Report == "late"; attempt++ {
			c.E.Count("results:repeated-late-report")
			out = cc.VerifC16Results(in.Steps)
		}
		c.E.Count("results:report-" + out.Report)
		return out
	})
}

// c16ResultsWaits is generator-side bookkeeping (it only budgets the slow scripts; what must
// be observed is decided by the Lean specification): does some waiter of the script run
// into its deadline?
func c16ResultsWaits(steps []string) bool {
	type slot struct{ live, done bool }
	slots := map[string]*slot{}
	var waiting []*slot
	var late []string
	apply := func(f []string) {
		switch f[0] {
		case "i":
			slots[f[1]] = &slot{live: true}
		case "x":
			delete(slots, f[1])
		case "c", "d":
			if s := slots[f[1]]; s != nil {
				s.done = true
			}
		case "o":
			if s := slots[f[1]]; s != nil && !s.done {
				waiting = append(waiting, s)
			}
		}
	}
	for _, st := range steps {
		f := strings.Split(st, ":")
		if f[0] == "d" {
			late = append(late, st)
			continue
		}
		apply(f)
	}
	for _, st := range late {
		apply(strings.Split(st, ":"))
	}
	for _, s := range waiting {
		if !s.done {
			return true
		}
	}
	return false
}

func c16ResultsGen(c *gen.Ctx) {
	r := c.R
	var ins []any
	slow := 0
	slowBudget := 14
	if c.Thorough() {
		slowBudget = 48
	}
	seen := map[string]bool{}
	add := func(steps ...string) {
		key := strings.Join(steps, " ")
		if seen[key] {
			return
		}
		if c16ResultsWaits(steps) {
			if slow >= slowBudget {
				return
			}
			slow++
			c.E.Count("results:script-with-a-timeout")
		}
		seen[key] = true
		ins = append(ins, c16ResultsIn{Steps: steps})
	}
	kinds := []string{"fail", "failed", "assert"}
	for _, k := range kinds {
		o := "o:a:" + k
		// completed before the outcome is recorded
		add("i:a", "c:a:7", o)
		add("i:a", "c:a:7", "s:30", o)
		add("i:a", "c:a:7", "c:a:8", o)
		// between outcome and report
		add("i:a", o, "c:a:7")
		add("i:a", o, "s:30", "c:a:7")
		add("i:a", o, "s:30", "c:a:7", "c:a:8")
		add("i:a", o, "s:30", "c:z:9", "c:a:7")
		// while report() waits (50-200 ms, far below TraceTimeout)
		for _, ms := range []int{50, 120, 200} {
			add("i:a", o, fmt.Sprintf("d:a:7:%d", ms))
		}
		add("i:a", o, "d:a:7:60", "d:a:8:400")
		add("i:a", "d:a:7:100", o)
		// never; cleared; never initialised
		add("i:a", o)
		add("i:a", "x:a", o)
		add("i:a", "c:a:7", "x:a", o)
		add("i:a", o, "s:30", "x:a", "c:a:7")
		add(o)
		add("c:a:7", o)
		// two cases: each waiter gets the trace of its own name
		add("i:a", "i:b", o, "o:b:fail", "s:30", "c:b:8", "c:a:7")
		add("i:a", "i:b", "c:b:8", o, "o:b:fail", "d:a:7:80")
		add("i:a", "i:b", o, "o:b:fail", "c:b:8")
	}
	add("i:a", "c:a:7", "o:a:pass")
	add("i:a", "o:a:pass", "s:30", "c:a:7")
	add("i:a", "o:a:pass", "d:a:7:80", "i:b", "o:b:fail", "d:b:8:150")
	// every short script over one name (one outcome at most, no Init after the outcome)
	syms := []string{"i:a", "x:a", "c:a", "o:a:fail", "s:30", "d:a"}
	maxLen := 4
	if c.Thorough() {
		maxLen = 5
	}
	var rec func(prefix []string, hasO bool, nd int)
	rec = func(prefix []string, hasO bool, nd int) {
		if hasO {
			steps := make([]string, len(prefix))
			id, dly := 10, 0
			for i, s := range prefix {
				switch s {
				case "c:a":
					id++
					steps[i] = fmt.Sprintf("c:a:%d", id)
				case "d:a":
					id++
					dly++
					steps[i] = fmt.Sprintf("d:a:%d:%d", id, 60+340*(dly-1))
				default:
					steps[i] = s
				}
			}
			add(steps...)
		}
		if len(prefix) == maxLen {
			return
		}
		for _, s := range syms {
			switch {
			case s == "o:a:fail" && hasO, s == "i:a" && hasO:
				continue
			case s == "d:a" && nd >= 2:
				continue
			case s != "d:a" && s != "o:a:fail" && nd > 0:
				continue // delayed completions come last (only an outcome may follow them)
			case s == "s:30" && (len(prefix) == 0 || prefix[len(prefix)-1] == "s:30"):
				continue
			}
			nnd := nd
			if s == "d:a" {
				nnd++
			}
			rec(append(append([]string{}, prefix...), s), hasO || s == "o:a:fail", nnd)
		}
	}
	rec(nil, false, 0)
	// random scripts over two names
	nRand := 60
	if c.Thorough() {
		nRand = 800
	}
	for i := 0; i < nRand; i++ {
		var steps []string
		hasO := map[string]bool{}
		id := 20
		for k := r.Range(3, 8); k > 0; k-- {
			n := gen.Pick(r, []string{"a", "a", "b"})
			switch r.Intn(6) {
			case 0:
				if !hasO[n] {
					steps = append(steps, "i:"+n)
				}
			case 1:
				if r.Chance(1, 3) {
					steps = append(steps, "x:"+n)
				}
			case 2, 3:
				id++
				steps = append(steps, fmt.Sprintf("c:%s:%d", n, id))
			case 4:
				if !hasO[n] {
					hasO[n] = true
					steps = append(steps, "o:"+n+":"+gen.Pick(r, []string{"fail", "failed", "assert", "pass"}))
				}
			case 5:
				steps = append(steps, "s:20")
			}
		}
		if len(hasO) == 0 {
			steps = append(steps, "o:a:fail")
			hasO["a"] = true
		}
		dly := 0
		for _, n := range []string{"a", "b"} {
			if r.Chance(1, 2) {
				id++
				dly++
				steps = append(steps, fmt.Sprintf("d:%s:%d:%d", n, id, 60+340*(dly-1)))
				if !hasO[n] && r.Bool() {
					hasO[n] = true
					steps = append(steps, "o:"+n+":fail")
				}
			}
		}
		add(steps...)
	}
	c.E.Add("results:scripts", len(ins))
	c.DoParallel("results", ins, 16)
}
