/-
End-to-end (C15), data part: what the per-stream message tracer has reported *before* the
flush is exactly the complete messages of the body (`completeMsgs`); a request-direction
tracer never reports an end-stream content.
-/
import ConfModel.Lemmas.H2DataSpec
set_option linter.unusedSimpArgs false
set_option linter.unusedVariables false
namespace ConfModel.H2
open Machine

theorem complete_unfold (isReq : Bool) (dec : DecKind) (fuel : Nat) (p rest : Bytes) (hp : p.length = 5) :
    completeMsgsAux isReq dec (fuel+1) (p ++ rest) =
      (if rest.length < be32 (p.drop 1) then []
       else
        Msg.data (some ⟨(p.headD 0).toNat, be32 (p.drop 1)⟩) (be32 (p.drop 1)) ::
          (if !isReq && isEndFlag (p.headD 0).toNat && be32 (p.drop 1) != 0 && !(dec.contentF (p.headD 0).toNat (rest.take (be32 (p.drop 1)))).isEmpty
            then [Msg.eos (dec.contentF (p.headD 0).toNat (rest.take (be32 (p.drop 1))))] else []) ++
          completeMsgsAux isReq dec fuel (rest.drop (be32 (p.drop 1)))) := by
  match p, hp with
  | [a, b, c, d, e], _ =>
    simp [completeMsgsAux]
    intro h; omega

theorem run_init_complete (c : DCfg) : ∀ (fuel : Nat) (body : Bytes), body.length < fuel →
    ((dataMachine c).run DSt.init body).2.map DEv.msg = completeMsgsAux c.isReq c.dec fuel body
  | 0, _, h => by omega
  | fuel+1, body, hlen => by
    by_cases h5 : body.length < 5
    · by_cases hb : body = []
      · subst hb
        simp [completeMsgsAux, run_nil]
      · rw [run_short (dataMachine c) DSt.init body rfl hb (by show body.length < dNeed DSt.init; rw [dNeed_init]; exact h5)]
        simp [completeMsgsAux, h5]
    · obtain ⟨p, rest, hbody, hp⟩ : ∃ p rest, body = p ++ rest ∧ p.length = 5 :=
        ⟨body.take 5, body.drop 5, (List.take_append_drop 5 body).symm, by simp only [List.length_take]; omega⟩
      subst hbody
      have hlt : be32 (p.drop 1) < two32 := be32_lt _ (by simp only [List.length_drop]; omega)
      rw [complete_unfold c.isReq c.dec fuel p rest hp, run_prefix c p rest hp, complete_prefix]
      simp only [List.length_append] at hlen
      generalize be32 (p.drop 1) = L at *
      generalize (p.headD 0).toNat = fl at *
      by_cases hz : L = 0
      · have ih := run_init_complete c fuel rest (by omega)
        simp only [hz, if_true, comb, Nat.not_lt_zero, if_false, List.drop_zero, bne_self_eq_false, Bool.and_false,
          Bool.false_and, Bool.false_eq_true, List.nil_append, List.map_append, List.map_cons, List.map_nil, DEv.msg,
          List.append_assoc, List.cons_append]
        rw [ih]
      · simp only [if_neg hz, comb, List.nil_append]
        by_cases hr : rest.length < L
        · rw [if_pos hr]
          by_cases hre : rest = []
          · subst hre
            simp [run_nil]
          · rw [run_short (dataMachine c) _ rest rfl hre (by show _ < dNeed _; rw [dNeed_afterPrefix c _ hz hlt]; exact hr)]
            simp
        · rw [if_neg hr]
          obtain ⟨m, rest', hrest, hm⟩ : ∃ m rest', rest = m ++ rest' ∧ m.length = L :=
            ⟨rest.take L, rest.drop L, (List.take_append_drop _ rest).symm, by simp only [List.length_take]; omega⟩
          subst hrest
          simp only [List.length_append] at hlen
          have ih := run_init_complete c fuel rest' (by omega)
          have ht : (m ++ rest').take L = m := by rw [← hm]; simp
          have hd : (m ++ rest').drop L = rest' := by rw [← hm]; simp
          rw [run_message c ⟨fl, L⟩ hz hlt m rest' hm, complete_message c _ _ hz, ht, hd]
          simp only [comb, List.map_append, List.map_cons, DEv.msg, List.append_assoc, List.cons_append]
          rw [ih]
          have hnz : (L != 0) = true := by simp [hz]
          congr 1
          congr 1
          by_cases hf : (!c.isReq && isEndFlag fl) = true
          · cases hcont : (c.dec.contentF fl m).isEmpty <;> simp [hf, hcont, hnz, DEv.msg]
          · have hf' : (!c.isReq && isEndFlag fl) = false := by simpa using hf
            simp [hf', hf]

/-- **Before the flush the tracer has reported exactly the complete messages of the body.** -/
theorem traced_eq_complete (c : DCfg) (body : Bytes) :
    (dataTrace c DSt.init body).2.map DEv.msg = completeMsgs c body := by
  unfold completeMsgs
  by_cases hc : c.isStream = true
  · rw [dataTrace_eq_run c hc _ DInv_init, if_pos hc]
    exact run_init_complete c (body.length + 1) body (by omega)
  · have hc' : c.isStream = false := by simpa using hc
    simp [dataTrace, hc']

def Msg.isData : Msg → Bool
  | .data _ _ => true
  | .eos _ => false

theorem specAux_req_data (dec : DecKind) : ∀ (fuel : Nat) (b : Bytes), ∀ m ∈ specMsgsAux true dec fuel b, m.isData = true
  | 0, _, m, h => by simp [specMsgsAux] at h
  | fuel+1, b, m, h => by
    unfold specMsgsAux at h
    split at h
    · simp at h
    · split at h
      · simp at h; subst h; rfl
      · simp only [Bool.not_true, Bool.false_and, Bool.false_eq_true, if_false, List.nil_append] at h
        split at h
        · split at h
          · cases h
          · simp at h; subst h; rfl
        · simp at h
          rcases h with h | h
          · subst h; rfl
          · exact specAux_req_data dec fuel _ m h

theorem spec_req_data (c : DCfg) (hq : c.isReq = true) (body : Bytes) : ∀ m ∈ specMsgs c body, m.isData = true := by
  intro m hm
  unfold specMsgs at hm
  split at hm
  · rw [hq] at hm; exact specAux_req_data c.dec _ _ m hm
  · split at hm
    · simp at hm
    · simp at hm; subst hm; rfl

def DEv.isData : DEv → Bool
  | .data _ _ => true
  | .eos _ => false

theorem DEv.isData_msg (d : DEv) : d.msg.isData = d.isData := by cases d <;> rfl

/-- a request-direction tracer only reports messages (the end-stream content is a response matter) -/
theorem req_traced_data (c : DCfg) (hq : c.isReq = true) (body : Bytes) :
    (∀ d ∈ (dataTrace c DSt.init body).2, d.isData = true) ∧
    (∀ d ∈ (dataFlush (dataTrace c DSt.init body).1).2, d.isData = true) := by
  have h := tracedMsgs_eq_spec c body
  have hs := spec_req_data c hq body
  rw [← h] at hs
  unfold tracedMsgs at hs
  constructor
  · intro d hd
    rw [← DEv.isData_msg]
    exact hs _ (List.mem_append_left _ (List.mem_map_of_mem hd))
  · intro d hd
    rw [← DEv.isData_msg]
    exact hs _ (List.mem_append_right _ (List.mem_map_of_mem hd))

end ConfModel.H2
