import ConfModel.Spec.ServerChecks
namespace ConfModel.ServerTimeout
open ConfModel.ServerChecksSpec

def valFrom (s : Bytes) (n : Nat) : Nat := s.foldl (fun n b => n * 10 + (b.toNat - 48)) n

theorem decValue_eq (s : Bytes) : decValue s = valFrom s 0 := rfl

theorem isDigit_iff (b : UInt8) : isDigit b = true ↔ 48 ≤ b.toNat ∧ b.toNat ≤ 57 := by
  simp [isDigit]

/-- digits only ⇒ `valFrom s n + 1 ≤ (n+1)·10^|s|` -/
theorem valFrom_bound (s : Bytes) : ∀ n, (∀ b ∈ s, isDigit b = true) →
    valFrom s n + 1 ≤ (n + 1) * 10 ^ s.length := by
  induction s with
  | nil => intro n _; simp [valFrom]
  | cons c cs ih =>
    intro n h
    have hc := (isDigit_iff c).1 (h c (by simp))
    have := ih (n * 10 + (c.toNat - 48)) (fun b hb => h b (by simp [hb]))
    have h2 : (n * 10 + (c.toNat - 48) + 1) * 10 ^ cs.length ≤ ((n + 1) * 10) * 10 ^ cs.length :=
      Nat.mul_le_mul_right _ (by omega)
    calc valFrom (c :: cs) n + 1 = valFrom cs (n * 10 + (c.toNat - 48)) + 1 := rfl
      _ ≤ _ := this
      _ ≤ _ := h2
      _ = (n + 1) * 10 ^ (c :: cs).length := by
        rw [List.length_cons, Nat.pow_succ]; ac_rfl

/-- the `ParseUint` loop succeeds with the decimal value when no cutoff can be hit -/
theorem parseUintLoop_digits (maxVal cutoff : Nat) (hcm : cutoff ≤ maxVal + 1) (s : Bytes) :
    ∀ n, (∀ b ∈ s, isDigit b = true) → (n + 1) * 10 ^ s.length ≤ cutoff →
    parseUintLoop maxVal cutoff s n = some (valFrom s n) := by
  induction s with
  | nil => intro n _ _; rfl
  | cons c cs ih =>
    intro n h hb
    have hc := (isDigit_iff c).1 (h c (by simp))
    have hd : isDigit c = true := h c (by simp)
    have hpow : 1 ≤ 10 ^ cs.length := Nat.pow_pos (by omega)
    have hb' : (n + 1) * 10 * 10 ^ cs.length ≤ cutoff := by
      rw [List.length_cons, Nat.pow_succ] at hb
      calc (n + 1) * 10 * 10 ^ cs.length = (n + 1) * (10 ^ cs.length * 10) := by ac_rfl
        _ ≤ cutoff := hb
    have h2 : (n * 10 + (c.toNat - 48) + 1) * 10 ^ cs.length ≤ cutoff :=
      Nat.le_trans (Nat.mul_le_mul_right _ (by omega)) hb'
    have h3 : n * 10 + (c.toNat - 48) + 1 ≤ cutoff :=
      Nat.le_trans (Nat.le_mul_of_pos_right _ hpow) h2
    have h4 : (n + 1) * 10 ≤ cutoff := Nat.le_trans (Nat.le_mul_of_pos_right _ hpow) hb'
    have hn : ¬ n ≥ cutoff := by omega
    have hm : ¬ n * 10 + (c.toNat - 48) > maxVal := by omega
    simp only [parseUintLoop, hd, Bool.not_true, Bool.false_eq_true, if_false, hn, hm]
    exact ih _ (fun b hb => h b (by simp [hb])) h2

/-- a string of 1..18 digits parses (64 bit) to its decimal value -/
theorem parseInt_digits (s : Bytes) (h : ∀ b ∈ s, isDigit b = true) (h1 : 1 ≤ s.length)
    (h2 : s.length ≤ 18) : parseInt 64 s = some (decValue s : Int) := by
  cases s with
  | nil => simp at h1
  | cons c cs =>
    have hc := (isDigit_iff c).1 (h c (by simp))
    have e1 : (c.toNat == 43) = false := by simp; omega
    have e2 : (c.toNat == 45) = false := by simp; omega
    have hle : 10 ^ (c :: cs).length ≤ 10 ^ 18 := Nat.pow_le_pow_right (by omega) h2
    have hb := valFrom_bound (c :: cs) 0 h
    have hl := parseUintLoop_digits (2 ^ 64 - 1) (maxUint64 / 10 + 1) (by decide) (c :: cs) 0 h
      (by simp only [Nat.zero_add, Nat.one_mul]; exact Nat.le_trans hle (by decide))
    simp only [parseInt, e1, e2, Bool.or_self, Bool.false_eq_true, if_false, List.isEmpty_cons, hl]
    have hv : valFrom (c :: cs) 0 < 2 ^ (64 - 1) := by
      have : (10:Nat) ^ 18 < 2 ^ (64 - 1) := by decide
      omega
    simp [decValue_eq, Nat.not_le.2 hv]

theorem parseInt_nil (k : Nat) : parseInt k [] = none := rfl

end ConfModel.ServerTimeout
