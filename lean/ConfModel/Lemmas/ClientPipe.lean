/-
Helper lemmas for the stdin path of an OS-process client (`Model/ClientPipe.lean`), used by
Props/C05.lean.
-/
import ConfModel.Model.ClientPipe
namespace ConfModel.ClientPipe

/-- once the waiting goroutine has finished, the read end of the stdin pipe is closed (when the
code closes it on exit) -/
def PInv (cfg : Cfg) (s : St) : Prop := s.waiter = .finished → cfg.closeOnExit = true → s.rdClosed = true

theorem pinv_init (cfg : Cfg) (w : Nat) : PInv cfg (init cfg w) := by
  intro h; simp [init] at h

theorem pinv_step (cfg : Cfg) (s s' : St) (e : Ev) (h : PInv cfg s) (hs : step cfg s e = some s') : PInv cfg s' := by
  unfold PInv at *
  cases e <;> simp only [step] at hs <;> split at hs <;> simp only [Option.some.injEq, reduceCtorEq] at hs <;> subst hs <;>
    simp_all

theorem pinv_run (cfg : Cfg) (evs : List Ev) : ∀ s, PInv cfg s → PInv cfg (run cfg s evs) := by
  induction evs with
  | nil => intro s h; exact h
  | cons e es ih =>
    intro s h
    simp only [run]
    split
    · rename_i s' hs; exact ih s' (pinv_step cfg s s' e h hs)
    · exact ih s h

/-! ### progress, measure, and what happens when the goroutines just run on -/

theorem own_internal : ∀ e ∈ own, e.internal = true := by
  intro e he; simp only [own, List.mem_cons, List.not_mem_nil, or_false] at he
  rcases he with rfl | rfl | rfl | rfl | rfl | rfl | rfl <;> rfl

/-- after the process has exited, a sender that is still inside its writes is never left alone:
some step of the runner's own goroutines is enabled -/
theorem progress_after_exit (cfg : Cfg) (hc : cfg.closeOnExit = true) (s : St) (h : PInv cfg s)
    (hp : s.procUp = false) (hw : 0 < s.toWrite) : ∃ e ∈ own, (step cfg s e).isSome = true := by
  by_cases hr : s.rdClosed = true
  · exact ⟨.wErr, by simp [own], by simp [step, hw, hr]⟩
  · have hr' : s.rdClosed = false := by simpa using hr
    cases hcp : s.copier with
    | reading => exact ⟨.wHand, by simp [own], by simp [step, hw, hcp, hr']⟩
    | holding => exact ⟨.cEpipe, by simp [own], by simp [step, hcp, hp]⟩
    | stopped =>
      cases hwt : s.waiter with
      | waiting => exact ⟨.wDone, by simp [own], by simp [step, hwt, hp, hcp]⟩
      | closing => exact ⟨.wClose, by simp [own], by simp [step, hwt]⟩
      | finished => exact absurd (h hwt hc) hr

theorem internal_step_lt (cfg : Cfg) (s s' : St) (e : Ev) (hi : e.internal = true) (hs : step cfg s e = some s') : mu s' < mu s := by
  cases e <;> simp only [Ev.internal, Bool.false_eq_true] at hi <;> simp only [step] at hs <;> split at hs <;>
    simp only [Option.some.injEq, reduceCtorEq] at hs <;> subst hs <;> rename_i h <;> simp [mu, h] <;> omega

theorem run_internal_le (cfg : Cfg) (es : List Ev) (hall : ∀ e ∈ es, e.internal = true) : ∀ s, mu (run cfg s es) ≤ mu s := by
  induction es with
  | nil => intro s; exact Nat.le_refl _
  | cons e rest ih =>
    intro s
    have hrest : ∀ e ∈ rest, e.internal = true := fun e' he' => hall e' (by simp [he'])
    simp only [run]
    split
    · rename_i s' hs
      exact Nat.le_trans (ih hrest s') (Nat.le_of_lt (internal_step_lt cfg s s' e (hall e (by simp)) hs))
    · exact ih hrest s

theorem run_internal_lt (cfg : Cfg) (es : List Ev) (hall : ∀ e ∈ es, e.internal = true) :
    ∀ s, (∃ e ∈ es, (step cfg s e).isSome = true) → mu (run cfg s es) < mu s := by
  induction es with
  | nil => intro s ⟨e, he, _⟩; simp at he
  | cons e rest ih =>
    intro s ⟨e', he', hen⟩
    have hrest : ∀ e ∈ rest, e.internal = true := fun x hx => hall x (by simp [hx])
    simp only [run]
    split
    · rename_i s' hs
      exact Nat.lt_of_le_of_lt (run_internal_le cfg rest hrest s') (internal_step_lt cfg s s' e (hall e (by simp)) hs)
    · rename_i hs
      rcases List.mem_cons.mp he' with rfl | hmem
      · rw [hs] at hen; simp at hen
      · exact ih hrest s ⟨e', hmem, hen⟩

theorem step_keeps_down (cfg : Cfg) (s s' : St) (e : Ev) (hs : step cfg s e = some s') (hp : s.procUp = false) : s'.procUp = false := by
  cases e <;> simp only [step] at hs <;> split at hs <;> simp only [Option.some.injEq, reduceCtorEq] at hs <;> subst hs <;> simp_all

theorem run_keeps_down (cfg : Cfg) (es : List Ev) : ∀ s, s.procUp = false → (run cfg s es).procUp = false := by
  induction es with
  | nil => intro s h; exact h
  | cons e rest ih =>
    intro s h
    simp only [run]
    split
    · rename_i s' hs; exact ih s' (step_keeps_down cfg s s' e hs h)
    · exact ih s h

theorem step_keeps_out (cfg : Cfg) (s s' : St) (e : Ev) (hs : step cfg s e = some s') (hp : s.toWrite = 0) : s'.toWrite = 0 := by
  cases e <;> simp only [step] at hs <;> split at hs <;> simp only [Option.some.injEq, reduceCtorEq] at hs <;> subst hs <;> simp_all

theorem run_keeps_out (cfg : Cfg) (es : List Ev) : ∀ s, s.toWrite = 0 → (run cfg s es).toWrite = 0 := by
  induction es with
  | nil => intro s h; exact h
  | cons e rest ih =>
    intro s h
    simp only [run]
    split
    · rename_i s' hs; exact ih s' (step_keeps_out cfg s s' e hs h)
    · exact ih s h

theorem settle_out (cfg : Cfg) (hc : cfg.closeOnExit = true) (fuel : Nat) :
    ∀ s, PInv cfg s → s.procUp = false → mu s ≤ fuel → (settle cfg s fuel).toWrite = 0 := by
  induction fuel with
  | zero =>
    intro s _ _ hm
    simp only [settle]
    simp only [mu] at hm; omega
  | succ n ih =>
    intro s hinv hp hm
    simp only [settle]
    have hinv' := pinv_run cfg own s hinv
    have hp' := run_keeps_down cfg own s hp
    by_cases hw : s.toWrite = 0
    · have h0 := run_keeps_out cfg own s hw
      have hle := run_internal_le cfg own own_internal s
      -- the sender is out; it stays out
      have : ∀ k t, t.toWrite = 0 → (settle cfg t k).toWrite = 0 := by
        intro k
        induction k with
        | zero => intro t ht; exact ht
        | succ k ihk => intro t ht; simp only [settle]; exact ihk _ (run_keeps_out cfg own t ht)
      exact this n _ h0
    · have hlt := run_internal_lt cfg own own_internal s (progress_after_exit cfg hc s hinv hp (by omega))
      exact ih _ hinv' hp' (by omega)

end ConfModel.ClientPipe
