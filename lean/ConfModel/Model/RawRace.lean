/-
C17 — two goroutines arbitrating one `rawResponseWriter` (raw_response.go).

The handler goroutine starts the normal response (`Write` / `WriteHeader` / `Flush`), another
goroutine calls `setRawResponse`.  Everything they share is behind `r.mu`; the atomic steps are the
critical sections.  As the code has them:

* `canSendResponse` — ONE critical section that decides and marks (`RawBody.canSend`); what it
  allows through is then forwarded to the underlying writer by the handler goroutine alone (nobody
  else touches it before `finish`), so a handler operation is one atomic step `RawBody.step`;
* `setRawResponse` — one critical section (`RawBody.step (.setRaw r)`).

`Micro` also has the two halves of a `canSendResponse` that asks `rawResponse()` (lock, read,
unlock) and then marks in a critical section of its own (`check`, `mark`): the variant the
theorems exclude.  Core Lean only.
-/
import ConfModel.Model.RawBody
namespace ConfModel.RawRace
open ConfModel.RawBody

/-- an atomic step of one of the two goroutines -/
inductive Micro where
  /-- the code: a handler operation whose `canSendResponse` is one critical section, or `setRawResponse` -/
  | op (o : Op)
  /-- split variant, first half: `local := rawResponse() == nil` -/
  | check
  /-- split variant, second half: if `local` then `startedResponse = true` and the event is forwarded, else it is swallowed -/
  | mark (e : Ev)
deriving DecidableEq, Repr

/-- shared state + the handler goroutine's local variable -/
structure MSt where
  s : St := {}
  loc : Bool := false
deriving DecidableEq, Repr

def mstep (m : MSt) : Micro → MSt × Option Res
  | .op o => let (s', r) := step m.s o; ({ m with s := s' }, some r)
  | .check => ({ m with loc := m.s.raw.isNone }, none)
  | .mark e =>
    if m.loc then ({ m with s := { m.s with started := true, wire := m.s.wire ++ [e] } }, some .passed)
    else (m, some .swallowed)

/-- a schedule: the atomic steps of both goroutines in the order in which they took the lock -/
def mrun : MSt → List Micro → MSt × List Res
  | m, [] => (m, [])
  | m, x :: t =>
    let (m1, r) := mstep m x
    let (m2, rs) := mrun m1 t
    (m2, match r with | some r => r :: rs | none => rs)

/-- the handler's operation for an event -/
def opOf : Ev → Op
  | .header c => .writeHeader c
  | .body b => .write b
  | .flush => .flush

/-- the atomic steps of a handler operation in the split variant -/
def splitOf (e : Ev) : List Micro := [.check, .mark e]

end ConfModel.RawRace
