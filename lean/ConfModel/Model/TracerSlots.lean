/-
Model of `internal/tracer/tracer.go` (`Tracer.Init/Clear/Complete/Await`) as a state machine
whose operations are atomic (each runs under `t.mu`; `Await` is split into the part under the
lock — `await` — and the `select` that follows — observed by `join`/`peek`/`ctx`).

* `traces : Name → Option Nat` is the map `t.traces`; a *generation* stands for the identity of
  one `*traceResult` (and its `done` channel): `Init` allocates a fresh one, so a waiter that
  captured the old pointer is not served by completions of the new slot.
* `results : Nat → Res` is the heap of `traceResult` objects (`pending` = `done` channel open,
  `done t` = channel closed and `trace = t`).
* `waiters : Nat → Option Nat`: the goroutine `w` sits in `select` on the `done` channel of that
  generation.

An observation is a *set* (list) of admissible outcomes: Go's `select` may take either ready
case, so cancelling a waiter whose channel is already closed may yield the trace or the
context error.
-/
namespace ConfModel.TracerSlots

abbrev Name := String



inductive Res
  | pending
  | done (t : Nat)
deriving DecidableEq, Repr

structure St where
  traces : Name → Option Nat
  results : Nat → Res
  nextGen : Nat
  waiters : Nat → Option Nat

def init : St := ⟨fun _ => none, fun _ => .pending, 0, fun _ => none⟩

def upd {α β} [DecidableEq α] (f : α → β) (a : α) (b : β) : α → β := fun x => if x = a then b else f x

inductive Op
  | init (n : Name)
  | clear (n : Name)
  | complete (n : Name) (t : Nat)
  | await (w : Nat) (n : Name)   -- the locked section of Await, up to the `select`
  | join (w : Nat)               -- wait (generously) for w's Await to return
  | peek (w : Nat)               -- look whether w's Await has returned
  | ctx (w : Nat)                -- cancel w's context and wait for its Await to return
deriving DecidableEq, Repr

inductive Obs
  | none            -- Init/Clear/Complete return nothing
  | err             -- "trace already cleared" (also: never initialised)
  | trace (t : Nat) -- Await returned this trace
  | waiting         -- Await has not returned
  | ctxErr          -- Await returned the context's error
  | busy            -- (harness) waiter w is still inside an earlier Await
  | idle            -- (harness) waiter w has no Await in flight
deriving DecidableEq, Repr

/-- the heap after `Complete(n, t)`: only a pending result that the map still points to moves -/
def completeResults (s : St) (n : Name) (t : Nat) : Nat → Res :=
  match s.traces n with
  | Option.none => s.results
  | some g => if s.results g = .pending then upd s.results g (.done t) else s.results

/-- the locked section of `Await(w's ctx, n)` -/
def awaitObs (s : St) (w : Nat) (n : Name) : Obs :=
  if (s.waiters w).isSome then .busy
  else match s.traces n with
    | Option.none => .err
    | some g => match s.results g with
      | .done t => .trace t
      | .pending => .waiting

/-- the generation whose `done` channel waiter `w` starts to wait on, if it has to wait -/
def awaitTarget (s : St) (w : Nat) (n : Name) : Option Nat :=
  if (s.waiters w).isSome then Option.none
  else match s.traces n with
    | Option.none => Option.none
    | some g => if s.results g = .pending then some g else Option.none

def awaitWaiters (s : St) (w : Nat) (n : Name) : Nat → Option Nat :=
  match awaitTarget s w n with
  | some g => upd s.waiters w (some g)
  | Option.none => s.waiters

/-- has the `select` of waiter `w` fired on its `done` channel? -/
def joinObs (s : St) (w : Nat) : Obs :=
  match s.waiters w with
  | Option.none => .idle
  | some g => match s.results g with
    | .done t => .trace t
    | .pending => .waiting

/-- w's Await has returned (its channel is closed) -/
def joinDone (s : St) (w : Nat) : Bool :=
  match s.waiters w with
  | Option.none => false
  | some g => s.results g != .pending

def joinWaiters (s : St) (w : Nat) : Nat → Option Nat :=
  if joinDone s w then upd s.waiters w Option.none else s.waiters

/-- cancel w's context: both `select` cases may be ready -/
def ctxObs (s : St) (w : Nat) : List Obs :=
  match s.waiters w with
  | Option.none => [.idle]
  | some g => match s.results g with
    | .done t => [.trace t, .ctxErr]
    | .pending => [.ctxErr]

def step (s : St) : Op → St × List Obs
  | .init n => ({ s with traces := upd s.traces n (some s.nextGen),
                         results := upd s.results s.nextGen .pending,
                         nextGen := s.nextGen + 1 }, [.none])
  | .clear n => ({ s with traces := upd s.traces n Option.none }, [.none])
  | .complete n t => ({ s with results := completeResults s n t }, [.none])
  | .await w n => ({ s with waiters := awaitWaiters s w n }, [awaitObs s w n])
  | .join w | .peek w => ({ s with waiters := joinWaiters s w }, [joinObs s w])
  | .ctx w => ({ s with waiters := upd s.waiters w Option.none }, ctxObs s w)

def exec : St → List Op → St × List (List Obs)
  | s, [] => (s, [])
  | s, o :: os =>
    let r1 := step s o
    let r2 := exec r1.1 os
    (r2.1, r1.2 :: r2.2)

/-- The runner's consumer, `testResults.fetchTrace` (results.go): recording an outcome for `n`
starts a goroutine whose `Await(ctx, n)` begins at some later point — after the operations
`before` — and `report()` joins it after the operations `after`.  Result: the trace the waiter
hands to the report (if any), and whether the waiter is still blocked at that point (then it
runs into the deadline of its context and collects nothing). -/
def collects (w : Nat) (n : Name) (before after : List Op) : Option Nat × Bool :=
  let r := step (exec init before).1 (.await w n)
  match r.2 with
  | [.trace t] => (some t, false)
  | [.waiting] =>
    match (step (exec r.1 after).1 (.join w)).2 with
    | [.trace t] => (some t, false)
    | _ => (Option.none, true)
  | _ => (Option.none, false)

/-- all interleavings of the threads' operation sequences (each thread keeps its order) -/
def interleavings {α} : Nat → List (List α) → List (List α)
  | 0, _ => [[]]
  | fuel+1, threads =>
    if threads.all (·.isEmpty) then [[]]
    else
      (List.range threads.length).flatMap fun i =>
        match threads[i]? with
        | some (o :: rest) =>
          (interleavings fuel (threads.set i rest)).map (o :: ·)
        | _ => []

end ConfModel.TracerSlots
