/-
Declarative side of C12: the timeout grammars of the Connect and gRPC protocol
specifications and the exact value of a timeout.

  Connect:  Timeout-Milliseconds → {positive integer as ASCII string of at most 10 digits}
  gRPC:     Timeout → TimeoutValue TimeoutUnit ;  TimeoutValue → {… at most 8 digits} ;
            TimeoutUnit → "H" / "M" / "S" / "m" / "u" / "n"
-/
import ConfModel.Model.ServerTimeout
import ConfModel.Model.ServerChecks
namespace ConfModel.ServerChecksSpec
open ConfModel.ServerTimeout

/-- 1..k ASCII digits -/
def digitsUpTo (k : Nat) (s : Bytes) : Prop :=
  1 ≤ s.length ∧ s.length ≤ k ∧ ∀ b ∈ s, isDigit b = true

def connectGrammar (s : Bytes) : Prop := digitsUpTo 10 s

def grpcGrammar (s : Bytes) : Prop :=
  ∃ ds u unit, s = ds ++ [u] ∧ digitsUpTo 8 ds ∧ unitOf u = some unit

/-- the decimal value of a digit string -/
def decValue (s : Bytes) : Nat := s.foldl (fun n b => n * 10 + (b.toNat - 48)) 0

/-- executable forms used by the driver (`*_iff` in Props/C12 ties them to the above) -/
def digitsUpToB (k : Nat) (s : Bytes) : Bool :=
  decide (1 ≤ s.length) && decide (s.length ≤ k) && s.all isDigit

def connectGrammarB (s : Bytes) : Bool := digitsUpToB 10 s

def grpcGrammarB (s : Bytes) : Bool :=
  match s.getLast? with
  | none => false
  | some u => (unitOf u).isSome && digitsUpToB 8 s.dropLast

/-- what an accepted value must be converted to: `min(n · unit, maxInt64)` nanoseconds -/
def exactNanos (n : Nat) (unit : Int) : Int := min ((n : Int) * unit) maxInt64

/-- the duration the property demands for a grammatical header value of protocol `p`
(`none`: not grammatical, must be rejected) -/
def expectedTimeout (p : Proto) (s : Bytes) : Option Int :=
  match p with
  | .connect => if connectGrammarB s then some (exactNanos (decValue s) 1000000) else none
  | .grpc | .grpcWeb =>
    if grpcGrammarB s then
      match s.getLast?.bind unitOf with
      | some unit => some (exactNanos (decValue s.dropLast) unit.nanos)
      | none => none
    else none
  | .other => none

/-! ### expectation headers: which aspects deviate, which aspect a feedback names -/
open ConfModel.ServerChecks

/-- the six aspects the property names ("TLS/client-certificate use" is one aspect) -/
inductive AspectKind | version | method | protocol | codec | compression | tls
  deriving DecidableEq, Repr

/-- TLS/client-certificate use agrees: same transport, and under TLS the same certificate use
(without TLS there is no certificate to present, whatever the runner announced) -/
def tlsMatch (e a : Aspects) : Bool := e.tls == a.tls && (!e.tls || e.cert == a.cert)

/-- the aspects in which the actual request deviates from the test setup -/
def mismatches (e a : Aspects) : List AspectKind :=
  (if e.version != a.version then [.version] else []) ++
  (if e.protocol != a.protocol then [.protocol] else []) ++
  (if e.codec != a.codec then [.codec] else []) ++
  (if e.compression != a.compression then [.compression] else []) ++
  (if !tlsMatch e a then [.tls] else []) ++
  (if e.method != a.method then [.method] else [])

/-- all aspects match -/
def aspectsMatch (e a : Aspects) : Bool := (mismatches e a).isEmpty

/-- the aspect a feedback message is about (`none`: not about one of the six aspects) -/
def aspectOf : Fb → Option AspectKind
  | .version | .badExpectedVersion => some .version
  | .protocol | .protocolUnknown | .te => some .protocol
  | .codec | .badExpectedCodec | .getContentType | .getBody | .encodingMissing => some .codec
  | .compression | .badExpectedCompression => some .compression
  | .tlsExpected | .plainExpected | .clientCert => some .tls
  | .method => some .method
  | _ => none

/-- The property on one request of a conformant client (`a` realisable) carrying the
expectations `e`: the feedback names exactly the deviating aspects and nothing else; in
particular there is no feedback iff everything matches. -/
def flagsExactly (e a : Aspects) (fb : List Fb) : Bool :=
  fb.all (fun f => (aspectOf f).isSome) &&
  (mismatches e a).all (fun k => fb.any (fun f => aspectOf f == some k)) &&
  fb.all (fun f => match aspectOf f with | some k => (mismatches e a).contains k | none => false)

end ConfModel.ServerChecksSpec
