package main

import (
	"bytes"
	"encoding/json"
	"fmt"
	"os"
	"os/exec"
	"path/filepath"
	"regexp"
	"sort"
	"strconv"
	"strings"
	"syscall"
	"time"

	cc "connectrpc.com/conformance/internal/app/connectconformance"
	"connectrpc.com/conformance/internal/verifharness/gen"
)

// C04, op "runcli": the scenarios of op "runloop" through the real command `connectconformance`
// built from the tree (cmd/connectconformance: flag parsing, the mapping of flags to
// connectconformance.Flags, the printers on stdout / stderr, and the exit status).  Input and
// output have the shape of "runloop"; `ok` is "the process exited with status 0", any status
// other than 0 and 1 (and a death by signal) is reported in `err`.  The Lean driver judges it
// with the same rule and the same model (ConfModel.RunLoop) as "runloop": the exit status of the
// command is the verdict of the run.
//
// The flags are spelled in the ways the command line accepts: patterns as repeated flags or
// through an @file, -v or nothing, --max-servers as `--max-servers N` or `--max-servers=N`.

var (
	c04CliReFailed   = regexp.MustCompile(`(?m)^FAILED: ([^\n]+):$`)
	c04CliReFailedUP = regexp.MustCompile(`(?m)^FAILED: ([^\n]+) was expected to fail but did not$`)
	c04CliReInfo     = regexp.MustCompile(`(?m)^INFO: ([^\n]+) failed \(as expected\):$`)
	c04CliReTotal    = regexp.MustCompile(`(?m)^Total cases: (\d+)\n(\d+) passed, (\d+) failed$`)
	c04CliReNotRun   = regexp.MustCompile(`(?m)^Another (\d+) could not be run due to client timing out or exiting prematurely\.$`)
	c04CliReExpected = regexp.MustCompile(`(?m)^\(Another (\d+) failed as expected due to being known failures/flakes\.\)$`)
)

func init() {
	gen.RegisterOp("c04", "runcli", func(c *gen.Ctx, raw json.RawMessage) any {
		return c04RunCli(c, gen.Into[c04LoopIn](raw))
	})
}

func c04RunCli(c *gen.Ctx, in c04LoopIn) c04LoopOut {
	valid := in.Layout >= 1 && in.Layout <= 3 && in.MaxServers >= 1 && len(in.Cases) > 0
	switch in.Stop {
	case "serve", "serve3", "exit0", "exit3", "closeout", "blind0":
	default:
		valid = false
	}
	for _, code := range in.Cases {
		if len(code) != 2 || (code[0] != 'r' && code[0] != 'w') || (code[1] != 'u' && code[1] != 'f' && code[1] != 'k') {
			valid = false
		}
	}
	if !valid || c.BinDir == "" {
		return c04LoopOut{Invalid: true}
	}
	suite, failing, flaky := c04LoopSuite(in.Cases)
	cfg := c04LoopCfg(in.Layout)
	dir := filepath.Join(c.WorkDir, fmt.Sprintf("c04cli-%d-%d", os.Getpid(), c04RunSeq.Add(1)))
	if err := os.MkdirAll(dir, 0o755); err != nil {
		panic(err)
	}
	defer os.RemoveAll(dir)
	out := c04LoopOut{Total: -1, Answered: []string{}, Blind: []string{}, FailedNames: []string{}, InfoNames: []string{}}
	suitePath, cfgPath := filepath.Join(dir, "suite.yaml"), filepath.Join(dir, "config.yaml")
	batches, err := cc.VerifC04Batches(suitePath, suite, cfg)
	if err != nil {
		out.Err = "load: " + err.Error()
		return out
	}
	out.Batches = batches
	if err := os.WriteFile(suitePath, []byte(suite), 0o600); err != nil {
		panic(err)
	}
	if err := os.WriteFile(cfgPath, []byte(cfg), 0o600); err != nil {
		panic(err)
	}
	args := []string{"--mode", "client", "--conf", cfgPath, "--test-file", suitePath, "--bind", "127.0.0.1"}
	// the spelling of the flags is derived from the scenario (a pure function of the input)
	variant := in.K + in.Layout + in.MaxServers + len(in.Cases)
	if variant%2 == 0 {
		args = append(args, "--max-servers", strconv.Itoa(in.MaxServers))
	} else {
		args = append(args, "--max-servers="+strconv.Itoa(in.MaxServers))
	}
	if !in.Quiet {
		args = append(args, "-v")
	}
	addPatterns := func(flag string, pats []string, viaFile bool) {
		if len(pats) == 0 {
			return
		}
		if viaFile {
			p := filepath.Join(dir, strings.TrimPrefix(flag, "--")+".txt")
			if err := os.WriteFile(p, []byte("# patterns\n"+strings.Join(pats, "\n")+"\n"), 0o600); err != nil {
				panic(err)
			}
			args = append(args, flag, "@"+p)
			return
		}
		for _, p := range pats {
			args = append(args, flag, p)
		}
	}
	addPatterns("--known-failing", failing, variant%3 == 0)
	addPatterns("--known-flaky", flaky, variant%3 == 1)
	self, _ := os.Executable()
	args = append(args, "--", self, "c04peer", dir, filepath.Join(c.BinDir, "referenceclient"), strconv.Itoa(in.K), in.Stop)
	cmd := exec.Command(filepath.Join(c.BinDir, "connectconformance"), args...)
	var stdout, stderr bytes.Buffer
	cmd.Stdout, cmd.Stderr = &stdout, &stderr
	cmd.SysProcAttr = &syscall.SysProcAttr{Setpgid: true}
	done := make(chan error, 1)
	if err := cmd.Start(); err != nil {
		out.Err = "start: " + err.Error()
		return out
	}
	go func() { done <- cmd.Wait() }()
	var werr error
	select {
	case werr = <-done:
	case <-time.After(150 * time.Second):
		_ = syscall.Kill(-cmd.Process.Pid, syscall.SIGKILL)
		<-done
		out.Err = "the command did not end within 150 s"
		return out
	}
	code := 0
	if werr != nil {
		if ee, ok := werr.(*exec.ExitError); ok {
			code = ee.ExitCode()
		} else {
			code = -2
		}
	}
	out.OK = code == 0
	if code != 0 && code != 1 {
		out.Err = fmt.Sprintf("exit status %d: %s", code, c04Tail(stderr.String(), 300))
	} else if code == 1 {
		// status 1 is both "the run failed" and fatal(): the latter prints to stderr and no totals
		if !c04CliReTotal.MatchString(stdout.String()) {
			out.Err = "exit status 1 without a report: " + c04Tail(stderr.String(), 300)
		}
	}
	text := stdout.String()
	atoi := func(s string) int { v, _ := strconv.Atoi(s); return v }
	for _, g := range c04CliReFailedUP.FindAllStringSubmatch(text, -1) {
		out.FailedNames = append(out.FailedNames, g[1])
	}
	for _, g := range c04CliReFailed.FindAllStringSubmatch(text, -1) {
		out.FailedNames = append(out.FailedNames, g[1])
	}
	for _, g := range c04CliReInfo.FindAllStringSubmatch(text, -1) {
		out.InfoNames = append(out.InfoNames, g[1])
	}
	if g := c04CliReTotal.FindStringSubmatch(text); g != nil {
		out.Total, out.Passed, out.Failed = atoi(g[1]), atoi(g[2]), atoi(g[3])
	}
	if g := c04CliReNotRun.FindStringSubmatch(text); g != nil {
		out.NotRun = atoi(g[1])
	}
	if g := c04CliReExpected.FindStringSubmatch(text); g != nil {
		out.Expected = atoi(g[1])
	}
	logs, _ := filepath.Glob(filepath.Join(dir, "cli-*.log"))
	for _, l := range logs {
		data, _ := os.ReadFile(l)
		for _, n := range strings.Split(string(data), "\n") {
			if strings.HasPrefix(n, "!") {
				n = n[1:]
				out.Blind = append(out.Blind, n)
			}
			if n != "" {
				out.Answered = append(out.Answered, n)
			}
		}
	}
	sort.Strings(out.Answered)
	sort.Strings(out.Blind)
	sort.Strings(out.FailedNames)
	sort.Strings(out.InfoNames)
	return out
}

func c04Tail(s string, n int) string {
	if len(s) > n {
		return s[len(s)-n:]
	}
	return s
}

// c04CliGen: a cut through the scenarios of c04LoopGen (no scenario that waits for the 20 s
// response time-out): every way the command can end — success, failing cases, cases that could
// not be run, a client that dies — with and without -v, --max-servers 1 and more.
func c04CliGen(c *gen.Ctx) {
	if c.BinDir == "" {
		return
	}
	r := c.R.Fork()
	var ins []any
	add := func(layout, ms int, cases []string, k int, stop string, quiet bool) {
		ins = append(ins, c04LoopIn{Layout: layout, MaxServers: ms, Cases: cases, K: k, Stop: stop, Quiet: quiet})
		c.E.Count("runcli:" + stop)
	}
	good := []string{"ru", "wf", "rk"}
	add(1, 1, good, -1, "serve", true)                      // everything answered and as expected: status 0
	add(2, 4, good, -1, "serve", false)                     // the same, two batches, -v
	add(1, 1, []string{"ru", "wu"}, -1, "serve", true)      // an unmarked case fails: status 1, named
	add(2, 2, []string{"rf", "ru"}, -1, "serve", true)      // a known-failing case passes: status 1
	add(1, 4, []string{"wk", "rk", "wf"}, -1, "serve", false)
	add(1, 1, good, -1, "serve3", true)                     // every case answered, then the client exits with 3
	add(1, 1, []string{"ru"}, 0, "exit0", true)             // the client exits before any request
	add(2, 1, good, 3, "exit0", true)                       // exactly between two batches
	add(2, 4, good, 2, "exit0", false)                      // inside a batch
	add(3, 1, []string{"ru", "rf"}, 3, "exit3", true)
	add(2, 1, []string{"rk", "rk", "rk"}, 2, "blind0", true) // no error latched (F03 + F04)
	nRand := 3
	if c.Thorough() {
		nRand = 40
	}
	codes := []string{"ru", "rf", "rk", "wu", "wf", "wk"}
	for i := 0; i < nRand; i++ {
		layout := r.Range(1, 3)
		cs := make([]string, r.Range(1, 4))
		for j := range cs {
			if r.Chance(2, 3) {
				cs[j] = gen.Pick(r, good)
			} else {
				cs[j] = gen.Pick(r, codes)
			}
		}
		n := len(cs) * layout
		stop := gen.Pick(r, []string{"exit0", "exit0", "exit3", "serve", "serve", "serve3"})
		k := r.Range(0, n)
		if stop == "serve" || stop == "serve3" {
			k = -1
		}
		add(layout, gen.Pick(r, []int{1, 2, 4}), cs, k, stop, r.Bool())
	}
	c.DoParallel("runcli", ins, 8)
}
