package main

import (
	"encoding/json"
	"time"

	cc "connectrpc.com/conformance/internal/app/connectconformance"
	"connectrpc.com/conformance/internal/verifharness/gen"
)

// C09 op "site": the two places where the runner reads length-prefixed messages from a peer —
// runTestCasesForServer (the server's response) and clientProcessRunner.consumeOutput (the client's
// responses) — driven through the real runTestCasesForServer / runClient with the bytes the peer
// puts on its stdout (see verif_export_c11wire.go; the op runs in a child process, c11child.go).
// What is observed per site: how many messages were framed and accepted, the class of the error
// that ended the reading (with the two numbers of the "too large" text), the bytes taken from the
// stream and the largest buffer that was handed to Read. The limit is the one the call site passes.
//
//	site  <VerifC11WireSpec>  ->  <VerifC11WireObs> | {"crashed": true, …}

func init() {
	gen.RegisterOp("c09", "site", func(_ *gen.Ctx, raw json.RawMessage) any {
		if c11InChild() {
			spec := gen.Into[cc.VerifC11WireSpec](raw)
			obs, frozen := c09Steady(5*time.Second, func() cc.VerifC11WireObs { return cc.VerifC11WireRun(spec) })
			obs.FrozenMs = frozen
			return obs
		}
		return c11ChildRun("c09", "site", raw, 120*time.Second)
	})
}

func c09Varint(n int) []byte {
	var out []byte
	for n >= 0x80 {
		out = append(out, byte(n)|0x80)
		n >>= 7
	}
	return append(out, byte(n))
}

// c09BigServerResp: prefix + head of a well-formed ServerCompatResponse{pem_cert: <zeros>} whose
// message has exactly size bytes (size >= 8); the zeros are the stream's fill.
func c09BigServerResp(size int) (head []byte, fill int) {
	for n := size - 2; n > 0; n-- {
		hd := append([]byte{0x1a}, c09Varint(n)...)
		if len(hd)+n == size {
			return append(c11Be32(uint32(size)), hd...), n
		}
		if len(hd)+n < size {
			break
		}
	}
	panic("c09: cannot build a server response of that size")
}

// c09BigClientResp: the same for a ClientCompatResponse for name with the expected payload and a
// feedback string of zeros, size bytes in all (size >= 64).
func c09BigClientResp(name string, size int) (head []byte, fill int) {
	nameField := append(append([]byte{0x0a}, c09Varint(len(name))...), name...)
	payload := []byte{0x12, 0x06, 0x0a, 0x04, 'd', 'a', 't', 'a'}
	for n := size; n > 0; n-- {
		feedback := append([]byte{0x3a}, c09Varint(n)...)
		inner := len(payload) + len(feedback) + n
		respField := append([]byte{0x12}, c09Varint(inner)...)
		total := len(nameField) + len(respField) + inner
		if total == size {
			head = append(c11Be32(uint32(size)), nameField...)
			head = append(head, respField...)
			head = append(head, payload...)
			head = append(head, feedback...)
			return head, n
		}
		if total < size {
			break
		}
	}
	panic("c09: cannot build a client response of that size")
}

func c09SiteGen(c *gen.Ctx) {
	srvLimit, cliLimit := cc.VerifC11WireLimits()
	var ins []any
	add := func(kind string, s cc.VerifC11WireSpec) {
		c.E.Count("site:" + kind)
		s.ServerBody = c11WireOracle(s, srvLimit)
		ins = append(ins, s)
	}
	plain := cc.VerifC11WireServerBody(false)
	okServer := gen.Hex(append(c11Be32(uint32(len(plain))), plain...))
	chunks := []int{0, 0, 1, 5, 4096}
	const MiB = 1 << 20
	// prefixes at and around both limits, between them, and at the ends of the 32-bit range
	marks := []int{srvLimit - 1, srvLimit, srvLimit + 1, srvLimit + 2, MiB + MiB/2, 2 * MiB, 3*MiB + 7, 8 * MiB,
		cliLimit - 1, cliLimit, cliLimit + 1, cliLimit + 2, 17 * MiB, 32 * MiB, 1<<31 - 1, 1 << 31, 1<<31 + 1, 1<<32 - 1}
	if c.Thorough() {
		for i := 0; i < 40; i++ {
			marks = append(marks, c.R.Range(srvLimit+1, cliLimit), c.R.Range(cliLimit+1, 1<<32-1))
		}
	}

	// ---- the server's response
	for _, p := range marks {
		for _, follow := range []string{"none", "few"} {
			s := cc.VerifC11WireSpec{Names: c11Names(c.R.Range(1, 2)), IsRef: c.R.Bool(), Client: "scripted", Chunk: gen.Pick(c.R, chunks),
				ServerOut: gen.Hex(c11Be32(uint32(p)))}
			if follow == "few" {
				s.ServerFill = c.R.Range(1, 40)
			}
			add("server-prefix", s)
		}
	}
	// complete messages: well-formed responses of exactly limit-1, limit, limit+1, … bytes (a long
	// certificate), and the same sizes filled with zeros (framed or not, they cannot be decoded)
	full := []int{srvLimit - 1, srvLimit, srvLimit + 1, srvLimit + 2, MiB + MiB/2, 2 * MiB}
	if c.Thorough() {
		full = append(full, 4*MiB, cliLimit, cliLimit+1)
	}
	for _, size := range full {
		head, fill := c09BigServerResp(size)
		add("server-complete", cc.VerifC11WireSpec{Names: c11Names(2), IsRef: size%2 == 0, UseTLS: true, Client: "scripted",
			Chunk: gen.Pick(c.R, []int{0, 4096, 65536}), ServerOut: gen.Hex(head), ServerFill: fill})
		if size <= srvLimit+2 || c.Thorough() {
			add("server-complete-zeros", cc.VerifC11WireSpec{Names: c11Names(1), Client: "scripted",
				Chunk: gen.Pick(c.R, []int{0, 65536}), ServerOut: gen.Hex(c11Be32(uint32(size))), ServerFill: size})
		}
	}
	// small ones, for contrast
	for _, p := range []int{0, 1, len(plain), len(plain) + 1, 300} {
		s := cc.VerifC11WireSpec{Names: c11Names(2), Client: "scripted", Chunk: gen.Pick(c.R, chunks), ServerOut: gen.Hex(append(c11Be32(uint32(p)), plain...))}
		add("server-small", s)
	}

	// ---- the client's responses (behind a server that answers properly)
	for _, p := range marks {
		n := c.R.Range(1, 3)
		lead := c.R.Range(0, n-1)
		s := cc.VerifC11WireSpec{Names: c11Names(n), IsRef: c.R.Bool(), Client: "real", Chunk: gen.Pick(c.R, chunks),
			ServerOut: okServer, ClientValid: lead}
		s.ClientOut = gen.Hex(append(cc.VerifC11WireClientFrames(s.Names, lead), c11Be32(uint32(p))...))
		if c.R.Bool() {
			s.ClientFill = c.R.Range(1, 40)
		}
		add("client-prefix", s)
	}
	fullC := []int{srvLimit, srvLimit + 1, 2 * MiB}
	if c.Thorough() {
		fullC = append(fullC, cliLimit-1, cliLimit, cliLimit+1)
	}
	for _, size := range fullC {
		n := 2
		for lead := 0; lead < n; lead++ {
			names := c11Names(n)
			head, fill := c09BigClientResp(names[lead], size)
			add("client-complete", cc.VerifC11WireSpec{Names: names, IsRef: lead == 0, Client: "real", Chunk: gen.Pick(c.R, []int{0, 65536}),
				ServerOut: okServer, ClientValid: lead, ClientOut: gen.Hex(append(cc.VerifC11WireClientFrames(names, lead), head...)), ClientFill: fill})
		}
	}
	for n := 1; n <= 2; n++ {
		for lead := 0; lead <= n; lead++ {
			add("client-ends", cc.VerifC11WireSpec{Names: c11Names(n), Client: "real", Chunk: gen.Pick(c.R, chunks),
				ServerOut: okServer, ClientValid: lead, ClientOut: gen.Hex(cc.VerifC11WireClientFrames(c11Names(n), lead))})
		}
	}
	c.DoParallel("site", ins, 6)
}
