/-
C12 — `referenceServerChecks` under overlapping requests.

The handler returned by `referenceServerChecks` is one closure serving every request of a
reference server, each on a goroutine of its own; requests of different test cases overlap (a
stream still being handled while unary calls pass through).  What the calls share is the
`calls` map (under `callsMu`) and the error printer; everything else - in particular the
`feedbackPrinter` carrying the test case name - is a local variable of the call.

The model makes one call of the closure a small state machine: on arrival (`getTestCaseName`,
the allocation of its `feedbackPrinter`, the counter under the mutex) it gets a *frame* with
its own name and the program it still has to run: one `print` per feedback message of the
checks in front of the wrapped handler, the wrapped handler itself, one `print` per message of
the checks behind it (request trailers).  A *schedule* is any list of events: a request
arrives, or an arrived request performs its next action.  Every interleaving of concurrent
requests, at the granularity of single feedback lines, is such a schedule; events that do not
apply (an action of a request that has not arrived or has finished, a second arrival of the
same request) change nothing.

A printed line records who printed it (`id`), under which name (`name`: the prefix handed to
`PrefixPrintf`) and what (`fb`).

Core Lean only.
-/
import ConfModel.Model.ServerChecks
namespace ConfModel.ServerOverlap
open ConfModel.ServerChecks

/-- the feedback of the checks in front of `handler.ServeHTTP` (everything but the trailers) -/
def preFb (count : Nat) (r : Req) : List Fb :=
  let r' := afterTimeout r
  fbRepeat count ++ fbVersion r ++ (protocolBlock r).1 ++ fbCodec r' ++ fbCompression r' ++ fbTLS r' ++ fbMethod r'

/-- the feedback of the checks behind `handler.ServeHTTP` -/
def postFb (r : Req) : List Fb := fbTrailers (afterTimeout r)

inductive Act
  | print (fb : Fb)
  /-- `handler.ServeHTTP(respWriter, req)`: prints nothing; a request can stay here for long -/
  | handler
  deriving DecidableEq, Repr

/-- what one call of the closure does after its arrival, in program order -/
def program (count : Nat) (r : Req) : List Act :=
  (preFb count r).map .print ++ .handler :: (postFb r).map .print

def prints : List Act → List Fb
  | [] => []
  | .print fb :: rest => fb :: prints rest
  | .handler :: rest => prints rest

/-- the local variables of one call in flight -/
structure Frame where
  id : Nat
  /-- `feedback.testCaseName` of the call's own `feedbackPrinter` -/
  name : String
  todo : List Act
  deriving DecidableEq, Repr

structure Srv where
  /-- the `calls` map, as the list of test names counted so far -/
  calls : List String := []
  frames : List Frame := []
  deriving Repr

inductive Ev
  | arrive (i : Nat)
  | step (i : Nat)
  deriving DecidableEq, Repr

structure Line where
  id : Nat
  name : String
  fb : Fb
  deriving DecidableEq, Repr

def hasFrame (s : Srv) (i : Nat) : Bool := s.frames.any (·.id == i)

/-- the next action of every frame of request `i` is consumed -/
def advance (i : Nat) : List Frame → List Frame
  | [] => []
  | f :: fs => (if f.id == i then { f with todo := f.todo.tail } else f) :: advance i fs

/-- one event; `reqs[i]` is request `i` -/
def stepSrv (reqs : List Req) (s : Srv) : Ev → Srv × List Line
  | .arrive i =>
    match reqs[i]? with
    | none => (s, [])
    | some r =>
      if hasFrame s i then (s, [])
      else if testName r == "" then (s, [])      -- rejected outright: no printer, no counter
      else
        let nm := testName r
        ({ calls := nm :: s.calls,
           frames := { id := i, name := nm, todo := program (countOf s.calls nm) r } :: s.frames }, [])
  | .step i =>
    match s.frames.find? (·.id == i) with
    | none => (s, [])
    | some f =>
      match f.todo with
      | [] => (s, [])
      | .print fb :: _ => ({ s with frames := advance i s.frames }, [{ id := i, name := f.name, fb := fb }])
      | .handler :: _ => ({ s with frames := advance i s.frames }, [])

def run (reqs : List Req) : Srv → List Ev → Srv × List Line
  | s, [] => (s, [])
  | s, e :: es =>
    let (s1, l1) := stepSrv reqs s e
    let (s2, l2) := run reqs s1 es
    (s2, l1 ++ l2)

/-- the lines request `i` printed, in order -/
def linesOf (i : Nat) (ls : List Line) : List Line := ls.filter (·.id == i)

/-- how often request `i` is scheduled in `es` -/
def stepsOf (i : Nat) (es : List Ev) : Nat := (es.filter (· == .step i)).length

/-- the test names of the requests a schedule lets in, in order of arrival -/
def arrivalNames (reqs : List Req) : List Ev → List String
  | [] => []
  | .arrive j :: es =>
    match reqs[j]? with
    | some q => if testName q == "" then arrivalNames reqs es else testName q :: arrivalNames reqs es
    | none => arrivalNames reqs es
  | .step _ :: es => arrivalNames reqs es

/-- no request arrives twice -/
def arrivesOnce : List Ev → Bool
  | [] => true
  | .arrive j :: es => !es.contains (.arrive j) && arrivesOnce es
  | .step _ :: es => arrivesOnce es

/-! ### what it looks like when the printer is *not* a local variable of the call

One `feedbackPrinter` shared by all calls whose `testCaseName` is overwritten on arrival: a line
is printed under the name of whichever request arrived last. -/

structure SharedSrv where
  srv : Srv := {}
  /-- the one printer's `testCaseName` -/
  current : String := ""
  deriving Repr

def stepShared (reqs : List Req) (s : SharedSrv) (e : Ev) : SharedSrv × List Line :=
  let (s1, ls) := stepSrv reqs s.srv e
  let cur := match e with
    | .arrive i => if s1.frames.length != s.srv.frames.length then (reqs[i]?.map testName).getD s.current else s.current
    | .step _ => s.current
  ({ srv := s1, current := cur }, ls.map fun l => { l with name := cur })

def runShared (reqs : List Req) : SharedSrv → List Ev → List Line
  | _, [] => []
  | s, e :: es =>
    let (s1, l1) := stepShared reqs s e
    l1 ++ runShared reqs s1 es

/-! ### the barrier-level schedules the correspondence check drives

`enter i`: request `i` arrives and runs until it is inside the wrapped handler (or has been
rejected); `leave i`: the wrapped handler of request `i` returns and the call runs to its end. -/

/-- number of actions up to and including the handler -/
def untilHandler : List Act → Nat
  | [] => 0
  | .handler :: _ => 1
  | .print _ :: rest => untilHandler rest + 1

end ConfModel.ServerOverlap
