/-
Model of `expandRequestData` (internal/app/connectconformance/test_case_library.go): the
padding loop that brings a request message to exactly `serverReceiveLimit + offset` bytes.

Only two numbers of a request message matter to the loop: `R`, the serialized size of
everything but `request_data`, and `L`, the length of `request_data` (a proto3 `bytes`
field without explicit presence whose tag takes one byte - field number 2 or 3 in all five
request messages - so it costs nothing when empty and `1 + varintLen L + L` otherwise).
-/
namespace ConfModel.Expand

/-- `protowire.SizeVarint` -/
def varintLen (n : Nat) : Nat :=
  if n < 128 then 1
  else if n < 16384 then 2
  else if n < 2097152 then 3
  else if n < 268435456 then 4
  else if n < 34359738368 then 5
  else if n < 4398046511104 then 6
  else if n < 562949953421312 then 7
  else if n < 72057594037927936 then 8
  else if n < 9223372036854775808 then 9
  else 10

/-- serialized size of `request_data` of length `L` -/
def fieldSize (L : Nat) : Nat := if L = 0 then 0 else 1 + varintLen L + L

/-- `proto.Size` of the request: the other fields plus the padding field -/
def size (R L : Nat) : Nat := R + fieldSize L

inductive Out
  | ok (L : Nat)              -- padded; `request_data` now has length `L`
  | range                     -- "results in an invalid request size"
  | negLen                    -- the target is below what removing all padding can reach
  | cantPad (closest : Nat)   -- "can't pad to exactly ..." after two adjustments
  | panic                     -- Go run-time panic (only the unrepaired loop produces it)
deriving DecidableEq, Repr

def Out.isOk : Out → Bool
  | .ok _ => true
  | _ => false

/-- The `for` loop.  `adj` is `adjustCount`; the fuel (3 suffices: at most two adjustments)
makes the recursion structural.  `delta > 0`: append `delta` zero bytes; `delta < 0`:
re-slice to `len + delta`, which the repaired code refuses when negative. -/
def adjust (R T : Nat) : Nat → Nat → Nat → Out
  | 0, _, L => .cantPad (size R L)
  | fuel+1, adj, L =>
    let delta : Int := (T : Int) - (size R L : Int)
    if delta = 0 then .ok L
    else if adj ≥ 2 then .cantPad (size R L)
    else if delta > 0 then adjust R T fuel (adj + 1) (L + delta.toNat)
    else if (L : Int) + delta < 0 then .negLen
    else adjust R T fuel (adj + 1) ((L : Int) + delta).toNat

/-- the loop as it was before the `fix:` commit for F05 (kept for the witness theorem):
`bytesVal[:len(bytesVal)+int(delta)]` with a negative bound panics -/
def adjustOld (R T : Nat) : Nat → Nat → Nat → Out
  | 0, _, L => .cantPad (size R L)
  | fuel+1, adj, L =>
    let delta : Int := (T : Int) - (size R L : Int)
    if delta = 0 then .ok L
    else if adj ≥ 2 then .cantPad (size R L)
    else if delta > 0 then adjustOld R T fuel (adj + 1) (L + delta.toNat)
    else if (L : Int) + delta < 0 then .panic
    else adjustOld R T fuel (adj + 1) ((L : Int) + delta).toNat

def maxUint32 : Nat := 4294967295

/-- pad a message with `R` other bytes and `L₀` bytes of data to `T` bytes -/
def expandTo (R L₀ T : Nat) : Out := adjust R T 3 0 L₀

/-- one directive: `totalSize := limit + offset`, range check, loop -/
def expand (limit R L₀ : Nat) (off : Int) : Out :=
  let total : Int := (limit : Int) + off
  if total < 0 ∨ total > (maxUint32 : Int) then .range else expandTo R L₀ total.toNat

def expandOld (limit R L₀ : Nat) (off : Int) : Out :=
  let total : Int := (limit : Int) + off
  if total < 0 ∨ total > (maxUint32 : Int) then .range else adjustOld R total.toNat 3 0 L₀

/-! ## the directives of a test case, and of a whole suite (`parseTestSuites`) -/

/-- one request message of a test case: `r`/`l0` as above and its directive — `none`: no
directive for this message, or a directive without a size ("do not expand this one") -/
structure Directive where
  r : Nat
  l0 : Nat
  off : Option Int

/-- the `for` loop of `expandRequestData` over the messages: the new padding lengths, or `none`
as soon as one directive ends in an error -/
def expandMsgs (limit : Nat) : List Directive → Option (List Nat)
  | [] => some []
  | d :: ds =>
    match d.off with
    | none => (expandMsgs limit ds).map (d.l0 :: ·)
    | some off =>
      match expand limit d.r d.l0 off with
      | .ok L => (expandMsgs limit ds).map (L :: ·)
      | _ => none

/-- one test case of a suite file: `directives` = `len(expand_requests)` (directives without a
size count), `msgs` = the request messages, each with the size its directive gives, if any -/
structure SuiteCase where
  directives : Nat
  msgs : List Directive

def SuiteCase.hasDirectives (c : SuiteCase) : Bool := 0 < c.directives

/-- more directives than request messages -/
def SuiteCase.tooMany (c : SuiteCase) : Bool := c.msgs.length < c.directives

/-- `expandRequestData` on one test case -/
def expandCase (limit : Nat) (c : SuiteCase) : Option (List Nat) :=
  if c.tooMany then none else expandMsgs limit c.msgs

/-- The loop of `parseTestSuites` over the test cases of one suite, as far as expansion is
concerned.  `protoOnly`: `relevantCodecs` is exactly `[CODEC_PROTO]` (anything else is refused
for a case with directives); `relies` is the suite's `reliesOnMessageReceiveLimit` — like every
other suite attribute it is NOT consulted: directives are processed in every suite.  Result:
the padding lengths of every message of every case, or `none` = the suite is rejected. -/
def parseSuite (limit : Nat) (protoOnly : Bool) (relies : Bool) : List SuiteCase → Option (List (List Nat))
  | [] => some []
  | c :: cs =>
    if c.hasDirectives && !protoOnly then none else
    match expandCase limit c with
    | none => none
    | some ls => (parseSuite limit protoOnly relies cs).map (ls :: ·)

/-! ## the limit the runner configures a server process with (`runTestCasesForServer`) -/

/-- a server instance (`serverInstance`): protocol and HTTP version as their enum numbers, TLS,
TLS client certificates; `isRef`: the process is the reference server -/
structure Instance where
  protocol : Nat
  httpVersion : Nat
  useTLS : Bool
  clientCerts : Bool
  isRef : Bool

/-- `ServerCompatRequest.message_receive_limit` as `runTestCasesForServer` writes it for an
instance: "We always set this" — the constant the padding is relative to, whatever the
instance is -/
def limitSent (limit : Nat) (_inst : Instance) : Nat := limit

end ConfModel.Expand
