//go:build verif

package referenceserver

import (
	"bytes"
	"context"
	"io"
	"net/http"
	"net/http/httptest"
	"sync"
	"time"

	"connectrpc.com/conformance/internal"
	"connectrpc.com/conformance/internal/tracer"
)

// ---------------------------------------------------------------------------------------------
// Overlapping requests on one handler instance.
//
// The handler returned by referenceServerChecks is wrapped around an inner handler that the
// harness controls: it reports "request i is inside the wrapped handler" and stays there until
// it is released. A schedule of enter / leave / burst events is executed with these barriers
// only - no sleeps: after "enter i" returns, request i has run every check in front of the
// wrapped handler and is blocked inside it (or has been rejected); after "leave i" returns the
// call has ended. Between two events no goroutine of the handler is runnable, so the lines the
// printer received during an event are the lines of the request(s) of that event.
// ---------------------------------------------------------------------------------------------

// VerifC12Ev is one event: Kind "enter" | "leave" (one request) | "burst" (several requests
// arriving at the same time, each running until it is inside the wrapped handler).
type VerifC12Ev struct {
	Kind string
	Reqs []int
}

// VerifC12EvObs is what the printer received during one event.
type VerifC12EvObs struct {
	Lines  []VerifC12Line // recording printer
	Stderr string         // stderr mode: the bytes written to the stream
	Stuck  bool           // a barrier was not reached within verifC12BarrierWindow
}

// VerifC12ReqObs is what became of one request.
type VerifC12ReqObs struct {
	Started       bool
	Called        bool // the wrapped handler ran
	Done          bool // the call returned
	Seen          http.Header
	TimeoutMs     *int64
	Status        int
	ErrorResponse bool
}

type verifC12IdxKey struct{}

// verifC12BarrierWindow bounds the wait for a barrier that logically must be reached (the
// goroutine only runs the checks, in memory). It only matters when the code under test
// deadlocks; it is not a timing assumption about a correct run.
const verifC12BarrierWindow = 60 * time.Second

type verifC12LockedBuffer struct {
	mu sync.Mutex
	b  bytes.Buffer
}

func (l *verifC12LockedBuffer) Write(p []byte) (int, error) {
	l.mu.Lock()
	defer l.mu.Unlock()
	return l.b.Write(p)
}

func (l *verifC12LockedBuffer) take() string {
	l.mu.Lock()
	defer l.mu.Unlock()
	s := l.b.String()
	l.b.Reset()
	return s
}

type verifC12Flight struct {
	req      *http.Request
	rec      *httptest.ResponseRecorder
	entered  chan struct{}
	release  chan struct{}
	done     chan struct{}
	started  bool
	released bool
	mu       sync.Mutex
	called   bool
	seen     http.Header
	ms       *int64
}

// VerifC12Overlap serves reqs through ONE handler made by referenceServerChecks according to
// sched. Events that do not apply (enter of a request already started, leave of a request not
// started or already released) are the caller's business: they are executed as no-ops. Requests
// still inside the wrapped handler at the end are released (in order) without being observed.
func VerifC12Overlap(reqs []*http.Request, sched []VerifC12Ev, stderr, traced bool) ([]VerifC12EvObs, []VerifC12ReqObs) {
	rec := &verifC12Printer{}
	var printer internal.Printer = rec
	var stream *verifC12LockedBuffer
	if stderr {
		stream = &verifC12LockedBuffer{}
		printer = internal.NewPrinter(stream)
	}
	flights := make([]*verifC12Flight, len(reqs))
	for i, r := range reqs {
		flights[i] = &verifC12Flight{
			req:     r.WithContext(context.WithValue(r.Context(), verifC12IdxKey{}, i)),
			rec:     httptest.NewRecorder(),
			entered: make(chan struct{}), release: make(chan struct{}), done: make(chan struct{}),
		}
	}
	inner := http.HandlerFunc(func(w http.ResponseWriter, req *http.Request) {
		i, _ := req.Context().Value(verifC12IdxKey{}).(int)
		f := flights[i]
		f.mu.Lock()
		f.called = true
		f.seen = req.Header.Clone()
		f.ms = verifC12TimeoutMs(req.Context())
		f.mu.Unlock()
		close(f.entered)
		<-f.release
		w.WriteHeader(http.StatusOK)
	})
	var handler http.Handler = referenceServerChecks(inner, printer)
	if traced { // as createServer does when the server has a tracer
		handler = tracer.TracingHandler(handler, &tracer.Tracer{})
	}
	start := func(f *verifC12Flight, gate <-chan struct{}) {
		f.started = true
		go func() {
			defer close(f.done)
			if gate != nil {
				<-gate
			}
			handler.ServeHTTP(f.rec, f.req)
		}()
	}
	// waits until the request is inside the wrapped handler or has returned
	arrived := func(f *verifC12Flight) bool {
		t := time.NewTimer(verifC12BarrierWindow)
		defer t.Stop()
		select {
		case <-f.entered:
			return true
		case <-f.done:
			return true
		case <-t.C:
			return false
		}
	}
	finished := func(f *verifC12Flight) bool {
		t := time.NewTimer(verifC12BarrierWindow)
		defer t.Stop()
		select {
		case <-f.done:
			return true
		case <-t.C:
			return false
		}
	}
	out := make([]VerifC12EvObs, 0, len(sched))
	for _, ev := range sched {
		var obs VerifC12EvObs
		switch ev.Kind {
		case "enter":
			for _, i := range ev.Reqs {
				if f := flights[i]; !f.started {
					start(f, nil)
					if !arrived(f) {
						obs.Stuck = true
					}
				}
			}
		case "burst":
			gate := make(chan struct{})
			var fresh []*verifC12Flight
			for _, i := range ev.Reqs {
				if f := flights[i]; !f.started {
					start(f, gate)
					fresh = append(fresh, f)
				}
			}
			close(gate)
			for _, f := range fresh {
				if !arrived(f) {
					obs.Stuck = true
				}
			}
		case "leave":
			for _, i := range ev.Reqs {
				if f := flights[i]; f.started && !f.released {
					f.released = true
					close(f.release)
					if !finished(f) {
						obs.Stuck = true
					}
				}
			}
		}
		obs.Lines = rec.take()
		if stream != nil {
			obs.Stderr = stream.take()
		}
		out = append(out, obs)
	}
	robs := make([]VerifC12ReqObs, len(flights))
	for i, f := range flights {
		if f.started && !f.released {
			f.released = true
			close(f.release)
			finished(f)
		}
		o := VerifC12ReqObs{Started: f.started}
		select {
		case <-f.done:
			o.Done = f.started
		default:
		}
		if o.Done {
			f.mu.Lock()
			o.Called, o.Seen, o.TimeoutMs = f.called, f.seen, f.ms
			f.mu.Unlock()
			gs := f.rec.Header().Get("Grpc-Status")
			o.Status = f.rec.Code
			o.ErrorResponse = f.rec.Code != http.StatusOK || (gs != "" && gs != "0") || f.rec.Body.Len() > 0
		}
		robs[i] = o
	}
	return out, robs
}

// ---------------------------------------------------------------------------------------------
// A handler instance whose printer is the printer of the real process around an arbitrary
// stream (run() in server.go wraps stderr; under the runner that is a pipe).
// ---------------------------------------------------------------------------------------------

// VerifC12StreamServer serves requests one after the other; everything the checks report goes
// through internal.NewPrinter to w and, for the record, into a buffer of the bytes written
// during the request at hand.
type VerifC12StreamServer struct {
	handler http.Handler
	tee     *verifC12Tee
	called  bool
}

type verifC12Tee struct {
	mu  sync.Mutex
	buf bytes.Buffer
	w   io.Writer
}

func (t *verifC12Tee) Write(p []byte) (int, error) {
	t.mu.Lock()
	t.buf.Write(p)
	t.mu.Unlock()
	if t.w == nil {
		return len(p), nil
	}
	return t.w.Write(p)
}

// VerifC12NewStreamServer: w may be nil (the stream is only recorded).
func VerifC12NewStreamServer(w io.Writer) *VerifC12StreamServer {
	s := &VerifC12StreamServer{tee: &verifC12Tee{w: w}}
	inner := http.HandlerFunc(func(rw http.ResponseWriter, _ *http.Request) {
		s.called = true
		rw.WriteHeader(http.StatusOK)
	})
	s.handler = referenceServerChecks(inner, internal.NewPrinter(s.tee))
	return s
}

// Serve returns the bytes the request made the checks write (also those already handed to w
// when a write to w failed or w blocked and was then torn down) and whether the wrapped handler ran.
func (s *VerifC12StreamServer) Serve(req *http.Request) (written string, called bool) {
	s.called = false
	s.handler.ServeHTTP(httptest.NewRecorder(), req)
	s.tee.mu.Lock()
	written = s.tee.buf.String()
	s.tee.buf.Reset()
	s.tee.mu.Unlock()
	return written, s.called
}
