//go:build verif

package connectconformance

import (
	"sort"

	"connectrpc.com/conformance/internal/app/connectconformance/testsuites"
	conformancev1 "connectrpc.com/conformance/internal/gen/proto/go/connectrpc/conformance/v1"
	"google.golang.org/protobuf/proto"
)

// VerifC03Grace is the grace period of the echoed-timeout check.
func VerifC03Grace() int64 { return timeoutCheckGracePeriodMillis }

// VerifC03Assert runs the real testResults.assert on one (definition, actual result) pair and
// returns what was recorded for the case: passed (no error) or the individual error texts, in
// the order they were appended.
func VerifC03Assert(definition *conformancev1.TestCase, actual *conformancev1.ClientResponseResult) (recorded bool, texts []string) {
	res := newResults(1, &testTrie{}, &testTrie{}, nil)
	name := definition.GetRequest().GetTestName()
	res.assert(name, definition, actual)
	res.mu.Lock()
	defer res.mu.Unlock()
	outcome, ok := res.outcomes[name]
	if !ok {
		return false, nil
	}
	texts = []string{}
	switch failure := outcome.actualFailure.(type) {
	case nil:
	case multiErrors:
		for _, e := range failure {
			texts = append(texts, e.Error())
		}
	default:
		texts = append(texts, failure.Error())
	}
	return true, texts
}

// VerifC03Canon is canonicalizeHeaderVals.
func VerifC03Canon(vals []string) []string { return canonicalizeHeaderVals(vals) }

// VerifC03Corpus expands the embedded test suites against the default configuration (every
// mode) and returns the distinct (stream type, allowed codes, expected response) triples of
// all permutations, sorted by their deterministic encoding.
func VerifC03Corpus() ([]*conformancev1.TestCase, error) {
	data, err := testsuites.LoadTestSuites()
	if err != nil {
		return nil, err
	}
	allSuites, err := parseTestSuites(data)
	if err != nil {
		return nil, err
	}
	configCases, err := parseConfig("", nil)
	if err != nil {
		return nil, err
	}
	seen := map[string]*conformancev1.TestCase{}
	for _, mode := range []conformancev1.TestSuite_TestMode{
		conformancev1.TestSuite_TEST_MODE_UNSPECIFIED,
		conformancev1.TestSuite_TEST_MODE_CLIENT,
		conformancev1.TestSuite_TEST_MODE_SERVER,
	} {
		lib, err := newTestCaseLibrary(allSuites, configCases, mode)
		if err != nil {
			return nil, err
		}
		for _, tc := range lib.testCases {
			if tc.GetExpectedResponse() == nil {
				continue
			}
			key := &conformancev1.TestCase{
				Request:                &conformancev1.ClientCompatRequest{StreamType: tc.GetRequest().GetStreamType()},
				ExpectedResponse:       tc.GetExpectedResponse(),
				OtherAllowedErrorCodes: tc.GetOtherAllowedErrorCodes(),
			}
			b, err := proto.MarshalOptions{Deterministic: true}.Marshal(key)
			if err != nil {
				return nil, err
			}
			seen[string(b)] = key
		}
	}
	keys := make([]string, 0, len(seen))
	for k := range seen {
		keys = append(keys, k)
	}
	sort.Strings(keys)
	out := make([]*conformancev1.TestCase, 0, len(keys))
	for _, k := range keys {
		out = append(out, seen[k])
	}
	return out, nil
}
