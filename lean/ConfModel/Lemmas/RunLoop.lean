/-
Helper lemmas for the composition theorems of C04 (`Props/C04.lean`, second half): the outcome
map recorded by the batch loop of `run()` (`ConfModel.Model.RunLoop`), with the peer feedback
merged in, is — up to the order of its entries — the outcome map `finalMap` of the assignment
that says, case by case, what happened to every selected permutation.
-/
import ConfModel.Model.RunLoop
import ConfModel.Lemmas.ReportScript
import ConfModel.Lemmas.ServerRunner
namespace ConfModel.RunLoop
open ConfModel.Report ConfModel.RunVerdict
open ConfModel.ServerRunner (Script runBatch)

/-! ### folds of `put` as lookups -/

/-- the outcome `setOutcome` writes for a C11 outcome class -/
def outcomeOf (mk : Marks) (n : String) (c : ServerRunner.Class) : Outcome :=
  { failure := failOf c, setupError := setupOf c, knownFailing := mk.failing n, knownFlaky := mk.flaky n }

theorem applyWrites_cons (mk : Marks) (os : Outcomes) (e : String × ServerRunner.Class)
    (t : List (String × ServerRunner.Class)) :
    applyWrites mk os (e :: t) = applyWrites mk (put os e.1 (outcomeOf mk e.1 e.2)) t := rfl

theorem applyWrites_append (mk : Marks) (os : Outcomes) (a b : List (String × ServerRunner.Class)) :
    applyWrites mk os (a ++ b) = applyWrites mk (applyWrites mk os a) b := by
  simp [applyWrites, List.foldl_append]

theorem applyWrites_nodup (mk : Marks) (ws : List (String × ServerRunner.Class)) (os : Outcomes)
    (h : (mkeys os).Nodup) : (mkeys (applyWrites mk os ws)).Nodup := by
  induction ws generalizing os with
  | nil => exact h
  | cons e t ih => rw [applyWrites_cons]; exact ih _ (nodup_put _ _ _ h)

theorem applyWrites_get_other (mk : Marks) (ws : List (String × ServerRunner.Class)) (os : Outcomes)
    (n : String) (h : n ∉ ws.map (·.1)) : get? (applyWrites mk os ws) n = get? os n := by
  induction ws generalizing os with
  | nil => rfl
  | cons e t ih =>
    simp only [List.map_cons, List.mem_cons, not_or] at h
    rw [applyWrites_cons, ih _ h.2, get?_put]
    have : ¬ e.1 = n := fun x => h.1 x.symm
    simp [this]

/-- every name is written once: the lookup finds that write, wherever it is in the sequence -/
theorem applyWrites_get_mem (mk : Marks) (ws : List (String × ServerRunner.Class)) (os : Outcomes)
    (hnd : (ws.map (·.1)).Nodup) (e : String × ServerRunner.Class) (he : e ∈ ws) :
    get? (applyWrites mk os ws) e.1 = some (outcomeOf mk e.1 e.2) := by
  induction ws generalizing os with
  | nil => cases he
  | cons x t ih =>
    simp only [List.map_cons, List.nodup_cons] at hnd
    rw [applyWrites_cons]
    rcases List.mem_cons.1 he with rfl | he
    · rw [applyWrites_get_other _ _ _ _ hnd.1, get?_put]; simp
    · exact ih _ hnd.2 he

/-- the recorded map does not depend on the order in which concurrently running batches issue
their `setOutcome` calls: any interleaving of the same calls gives the same lookups -/
theorem writes_perm_get (mk : Marks) (ws ws' : List (String × ServerRunner.Class)) (os : Outcomes)
    (hp : ws'.Perm ws) (hnd : (ws.map (·.1)).Nodup) (n : String) :
    get? (applyWrites mk os ws') n = get? (applyWrites mk os ws) n := by
  have hnd' : (ws'.map (·.1)).Nodup := ((hp.map (·.1)).nodup_iff).2 hnd
  by_cases hn : n ∈ ws.map (·.1)
  · obtain ⟨e, he, rfl⟩ := List.mem_map.1 hn
    rw [applyWrites_get_mem mk ws os hnd e he, applyWrites_get_mem mk ws' os hnd' e (hp.mem_iff.2 he)]
  · have hn' : n ∉ ws'.map (·.1) := fun h => hn (((hp.map (·.1)).mem_iff).1 h)
    rw [applyWrites_get_other _ _ _ _ hn, applyWrites_get_other _ _ _ _ hn']

theorem mkeys_applyWrites_sub (mk : Marks) (ws : List (String × ServerRunner.Class)) (os : Outcomes)
    (n : String) (h : n ∈ mkeys (applyWrites mk os ws)) : n ∈ mkeys os ∨ n ∈ ws.map (·.1) := by
  induction ws generalizing os with
  | nil => exact Or.inl h
  | cons e t ih =>
    rw [applyWrites_cons] at h
    rcases ih _ h with h | h
    · rw [mkeys_put] at h
      split at h
      · exact Or.inl h
      · rcases List.mem_append.1 h with h | h
        · exact Or.inl h
        · right; simp only [List.mem_singleton] at h; simp [h]
    · right; simp only [List.map_cons, List.mem_cons]; exact Or.inr h

theorem applyNotes_cons (sb : Sideband) (e : String × String) (t : List (String × String)) :
    applyNotes sb (e :: t) = applyNotes (put sb e.1 e.2) t := rfl

theorem applyNotes_nodup (ns : List (String × String)) (sb : Sideband) (h : (mkeys sb).Nodup) :
    (mkeys (applyNotes sb ns)).Nodup := by
  induction ns generalizing sb with
  | nil => exact h
  | cons e t ih => rw [applyNotes_cons]; exact ih _ (nodup_put _ _ _ h)

theorem mem_mkeys_applyNotes (ns : List (String × String)) (sb : Sideband) (n : String) :
    n ∈ mkeys (applyNotes sb ns) ↔ n ∈ mkeys sb ∨ n ∈ ns.map (·.1) := by
  induction ns generalizing sb with
  | nil => simp [applyNotes]
  | cons e t ih =>
    rw [applyNotes_cons, ih, mkeys_put]
    simp only [List.map_cons, List.mem_cons]
    split
    · rename_i hk
      constructor
      · rintro (h | h)
        · exact Or.inl h
        · exact Or.inr (Or.inr h)
      · rintro (h | h | h)
        · exact Or.inl h
        · exact Or.inl (h ▸ hk)
        · exact Or.inr h
    · simp only [List.mem_append, List.mem_singleton]
      constructor
      · rintro ((h | h) | h)
        · exact Or.inl h
        · exact Or.inr (Or.inl h)
        · exact Or.inr (Or.inr h)
      · rintro (h | h | h)
        · exact Or.inl (Or.inl h)
        · exact Or.inl (Or.inr h)
        · exact Or.inr h

/-! ### the results after a list of batches, flattened -/

theorem foldl_recordBatch_os (mk : Marks) (l : List Script) (r : Results) :
    (l.foldl (recordBatch mk) r).os = applyWrites mk r.os (l.flatMap writesOf) := by
  induction l generalizing r with
  | nil => rfl
  | cons s t ih =>
    simp only [List.foldl_cons, List.flatMap_cons]
    rw [ih, applyWrites_append]
    rfl

theorem foldl_recordBatch_sb (mk : Marks) (l : List Script) (r : Results) :
    (l.foldl (recordBatch mk) r).sb = applyNotes r.sb (l.flatMap notesOf) := by
  induction l generalizing r with
  | nil => rfl
  | cons s t ih =>
    simp only [List.foldl_cons, List.flatMap_cons]
    rw [ih]
    simp [applyNotes, recordBatch, List.foldl_append]


/-! ### one batch: what C11 guarantees about its `setOutcome` and `recordSideband` calls -/

open ConfModel.ServerRunner (keys cnt Covers runBatch_covers processLines splitLines lineAct)

/-- the test names of a batch -/
def batchNames (s : Script) : List String := (List.range s.cases.length).map (caseName s)

/-- C11 `one_outcome_each`: the `setOutcome` calls of a batch name every case exactly once -/
theorem log_keys_perm (s : Script) : (keys (runBatch s).log).Perm (List.range s.cases.length) := by
  rw [List.perm_iff_count]
  intro a
  rw [List.count_range]
  exact runBatch_covers s a

theorem writesOf_keys (s : Script) : (writesOf s).map (·.1) = (keys (runBatch s).log).map (caseName s) := by
  simp [writesOf, keys, List.map_map, Function.comp_def]

theorem writesOf_keys_perm (s : Script) : ((writesOf s).map (·.1)).Perm (batchNames s) := by
  rw [writesOf_keys]; exact (log_keys_perm s).map _

theorem flat_writes_keys_perm (l : List Script) :
    ((l.flatMap writesOf).map (·.1)).Perm (l.flatMap batchNames) := by
  induction l with
  | nil => simp
  | cons s t ih =>
    simp only [List.flatMap_cons, List.map_append]
    exact (writesOf_keys_perm s).append ih

theorem classAt_some (s : Script) (i : Nat) (hi : i < s.cases.length) :
    ∃ c, classAt s i = some c ∧ (i, c) ∈ (runBatch s).log := by
  have hmem : i ∈ keys (runBatch s).log := (log_keys_perm s).mem_iff.2 (List.mem_range.2 hi)
  obtain ⟨e, he, hei⟩ := List.mem_map.1 hmem
  have hs : ((runBatch s).log.find? (fun x => x.1 == i)).isSome = true :=
    List.find?_isSome.2 ⟨e, he, by simpa using hei⟩
  obtain ⟨x, hx⟩ := Option.isSome_iff_exists.1 hs
  refine ⟨x.2, by simp [classAt, hx], ?_⟩
  have h1 := List.find?_some hx
  have h2 := List.mem_of_find?_eq_some hx
  have h3 : x.1 = i := by simpa using h1
  rw [← h3]; exact h2

theorem mem_writesOf (s : Script) (i : Nat) (c : ServerRunner.Class) (h : (i, c) ∈ (runBatch s).log) :
    (caseName s i, c) ∈ writesOf s :=
  List.mem_map.2 ⟨(i, c), h, rfl⟩

theorem lineAct_record_mem (names : List (List Char)) (l a b : List Char)
    (h : lineAct names l = .record a b) : a ∈ names := by
  unfold lineAct at h
  simp only at h
  split at h
  · cases h
  · split at h
    · split at h
      · rename_i hc; injection h with h1 h2; subst h1; simpa using hc
      · cases h
    · cases h

theorem processLines_names (names : List (List Char)) (ls : List (List Char)) (e : List Char × List Char)
    (h : e ∈ (processLines names ls).2) : e.1 ∈ names := by
  induction ls with
  | nil => simp [processLines] at h
  | cons l t ih =>
    simp only [processLines] at h
    cases ha : lineAct names l with
    | skip => rw [ha] at h; exact ih h
    | forward o => rw [ha] at h; exact ih h
    | record a b =>
      rw [ha] at h
      rcases List.mem_cons.1 h with rfl | h
      · exact lineAct_record_mem names l a b ha
      · exact ih h

theorem sideband_names (s : Script) (e : List Char × List Char) (h : e ∈ (runBatch s).sideband) :
    e.1 ∈ s.names := by
  have key : (runBatch s).sideband = [] ∨
      (runBatch s).sideband = (processLines s.names (splitLines s.stderr [])).2 := by
    unfold runBatch
    cases s.startErr <;> cases s.isRef <;> simp <;>
      (repeat' split) <;> simp
  rcases key with k | k
  · rw [k] at h; cases h
  · rw [k] at h; exact processLines_names _ _ _ h

theorem notesOf_keys_sub (s : Script) (hlen : s.names.length = s.cases.length) (n : String)
    (h : n ∈ (notesOf s).map (·.1)) : n ∈ batchNames s := by
  simp only [notesOf, List.map_map, List.mem_map, Function.comp_def] at h
  obtain ⟨e, he, rfl⟩ := h
  have hm := sideband_names s e he
  obtain ⟨i, hi, hget⟩ := List.mem_iff_getElem.1 hm
  refine List.mem_map.2 ⟨i, List.mem_range.2 (hlen ▸ hi), ?_⟩
  simp [caseName, List.getD_eq_getElem?_getD, hi, hget]


/-! ### the merged outcome map after a list of batches, as a lookup -/

/-- what `report` looks at after the batches `l` ran: recorded outcomes with peer feedback merged -/
def mergedOf (mk : Marks) (l : List Script) : Outcomes :=
  processSideband mk (resultsOf mk l).os (resultsOf mk l).sb

theorem resultsOf_os (mk : Marks) (l : List Script) :
    (resultsOf mk l).os = applyWrites mk [] (l.flatMap writesOf) := foldl_recordBatch_os mk l ⟨[], []⟩

theorem resultsOf_sb (mk : Marks) (l : List Script) :
    (resultsOf mk l).sb = applyNotes [] (l.flatMap notesOf) := foldl_recordBatch_sb mk l ⟨[], []⟩

theorem flatMap_nodup_unique {α β : Type} (f : α → List β) (l : List α) (h : (l.flatMap f).Nodup)
    (a b : α) (ha : a ∈ l) (hb : b ∈ l) (x : β) (hxa : x ∈ f a) (hxb : x ∈ f b) : a = b := by
  induction l with
  | nil => cases ha
  | cons y t ih =>
    simp only [List.flatMap_cons, List.nodup_append] at h
    obtain ⟨_, h2, h3⟩ := h
    rcases List.mem_cons.1 ha with rfl | ha' <;> rcases List.mem_cons.1 hb with rfl | hb'
    · rfl
    · exact absurd rfl (h3 x hxa x (List.mem_flatMap.2 ⟨b, hb', hxb⟩))
    · exact absurd rfl (h3 x hxb x (List.mem_flatMap.2 ⟨a, ha', hxa⟩))
    · exact ih h2 ha' hb'

theorem mergedOf_nodup (mk : Marks) (l : List Script) : (mkeys (mergedOf mk l)).Nodup := by
  unfold mergedOf
  rw [processSideband_eq, resultsOf_os]
  exact mergeAll_nodup _ _ _ (applyWrites_nodup _ _ _ (by simp [mkeys]))

theorem mergedOf_get (mk : Marks) (l : List Script) (n : String) :
    get? (mergedOf mk l) n =
      if n ∈ (l.flatMap notesOf).map (·.1) then some (mergeVal mk n (get? (resultsOf mk l).os n))
      else get? (resultsOf mk l).os n := by
  unfold mergedOf
  have hn : (mkeys (resultsOf mk l).sb).Nodup := by
    rw [resultsOf_sb]; exact applyNotes_nodup _ _ (by simp [mkeys])
  rw [processSideband_eq, mergeAll_get _ _ hn]
  have : n ∈ mkeys (resultsOf mk l).sb ↔ n ∈ (l.flatMap notesOf).map (·.1) := by
    rw [resultsOf_sb, mem_mkeys_applyNotes]; simp [mkeys]
  by_cases h : n ∈ (l.flatMap notesOf).map (·.1)
  · rw [if_pos (this.2 h), if_pos h]
  · rw [if_neg (fun x => h (this.1 x)), if_neg h]

/-- the outcome `report` sees for a case of a spawned batch is the one the declarative reading
(`finalOutcome`) assigns to it -/
theorem finalOutcome_ran (mk : Marks) (n : String) (cls : ServerRunner.Class) (fb : Bool)
    (hex : (mk.failing n && mk.flaky n) = false) :
    finalOutcome { name := n, kind := kindOfClass cls, mark := markOf mk n, feedback := fb } =
      if fb then some (mergeVal mk n (some (outcomeOf mk n cls))) else some (outcomeOf mk n cls) := by
  cases hf : mk.failing n <;> cases hk : mk.flaky n
  case true.true => simp [hf, hk] at hex
  all_goals
    cases cls <;> cases fb <;>
    simp [finalOutcome, baseOutcome, markOf, markFailing, markFlaky, mergeVal, outcomeOf, failOf,
        setupOf, kindOfClass, hf, hk]

theorem mem_flat_notes_iff (l : List Script) (hlen : ∀ s ∈ l, s.names.length = s.cases.length)
    (hd : (l.flatMap batchNames).Nodup) (s : Script) (hs : s ∈ l) (n : String) (hn : n ∈ batchNames s) :
    n ∈ (l.flatMap notesOf).map (·.1) ↔ n ∈ (notesOf s).map (·.1) := by
  constructor
  · intro h
    obtain ⟨e, he, rfl⟩ := List.mem_map.1 h
    obtain ⟨s', hs', he'⟩ := List.mem_flatMap.1 he
    have hb : e.1 ∈ batchNames s' := notesOf_keys_sub s' (hlen s' hs') _ (List.mem_map.2 ⟨e, he', rfl⟩)
    have : s' = s := flatMap_nodup_unique batchNames l hd s' s hs' hs e.1 hb hn
    rw [← this]; exact List.mem_map.2 ⟨e, he', rfl⟩
  · intro h
    obtain ⟨e, he, rfl⟩ := List.mem_map.1 h
    exact List.mem_map.2 ⟨e, List.mem_flatMap.2 ⟨s, hs, he⟩, rfl⟩

theorem any_name_iff (ns : List (String × String)) (n : String) :
    ns.any (fun e => e.1 == n) = true ↔ n ∈ ns.map (·.1) := by
  simp only [List.any_eq_true, List.mem_map, beq_iff_eq]

theorem mergedOf_get_ran (mk : Marks) (l : List Script)
    (hlen : ∀ s ∈ l, s.names.length = s.cases.length) (hd : (l.flatMap batchNames).Nodup)
    (hex : ∀ n ∈ l.flatMap batchNames, (mk.failing n && mk.flaky n) = false)
    (s : Script) (hs : s ∈ l) (c : Case) (hc : c ∈ ranCases mk s) :
    get? (mergedOf mk l) c.name = finalOutcome c := by
  obtain ⟨i, hi, rfl⟩ := List.mem_map.1 hc
  have hi' : i < s.cases.length := List.mem_range.1 hi
  obtain ⟨cls, hcls, hlog⟩ := classAt_some s i hi'
  have hnb : caseName s i ∈ batchNames s := List.mem_map.2 ⟨i, hi, rfl⟩
  have hnl : caseName s i ∈ l.flatMap batchNames := List.mem_flatMap.2 ⟨s, hs, hnb⟩
  have hw : (caseName s i, cls) ∈ l.flatMap writesOf :=
    List.mem_flatMap.2 ⟨s, hs, mem_writesOf s i cls hlog⟩
  have hwn : ((l.flatMap writesOf).map (·.1)).Nodup := ((flat_writes_keys_perm l).nodup_iff).2 hd
  have hos : get? (resultsOf mk l).os (caseName s i) = some (outcomeOf mk (caseName s i) cls) := by
    rw [resultsOf_os]; exact applyWrites_get_mem mk _ [] hwn _ hw
  simp only [ranCase, hcls]
  rw [finalOutcome_ran mk _ cls _ (hex _ hnl), mergedOf_get, hos]
  by_cases hfb : caseName s i ∈ (notesOf s).map (·.1)
  · rw [if_pos ((mem_flat_notes_iff l hlen hd s hs _ hnb).2 hfb), (any_name_iff _ _).2 hfb]; rfl
  · have : (notesOf s).any (fun e => e.1 == caseName s i) = false := by
      cases h : (notesOf s).any (fun e => e.1 == caseName s i)
      · rfl
      · exact absurd ((any_name_iff _ _).1 h) hfb
    rw [if_neg (fun x => hfb ((mem_flat_notes_iff l hlen hd s hs _ hnb).1 x)), this]; rfl

theorem mergedOf_get_none (mk : Marks) (l : List Script)
    (hlen : ∀ s ∈ l, s.names.length = s.cases.length) (n : String) (hn : n ∉ l.flatMap batchNames) :
    get? (mergedOf mk l) n = none := by
  have h1 : n ∉ (l.flatMap writesOf).map (·.1) := fun h => hn (((flat_writes_keys_perm l).mem_iff).1 h)
  have h2 : n ∉ (l.flatMap notesOf).map (·.1) := by
    intro h
    obtain ⟨e, he, rfl⟩ := List.mem_map.1 h
    obtain ⟨s', hs', he'⟩ := List.mem_flatMap.1 he
    exact hn (List.mem_flatMap.2 ⟨s', hs', notesOf_keys_sub s' (hlen s' hs') _ (List.mem_map.2 ⟨e, he', rfl⟩)⟩)
  rw [mergedOf_get, if_neg h2, resultsOf_os, applyWrites_get_other _ _ _ _ h1]
  rfl


/-! ### which batches are spawned -/

theorem batchSched_prefix (bs : List Batch) :
    ∃ t, (batchSched bs).1 ++ t = bs.map (·.s) ∧ ((batchSched bs).2 = false → t = []) ∧
      ((batchSched bs).2 = true → t ≠ []) := by
  induction bs with
  | nil => exact ⟨[], rfl, fun _ => rfl, fun h => by cases h⟩
  | cons b rest ih =>
    by_cases hn : b.noticed = true
    · refine ⟨(b :: rest).map (·.s), by simp [batchSched, hn], fun h => ?_, fun _ => by simp⟩
      simp [batchSched, hn] at h
    · obtain ⟨t, h1, h2, h3⟩ := ih
      refine ⟨t, by simp [batchSched, hn, h1], fun h => h2 ?_, fun h => h3 ?_⟩ <;>
        simpa [batchSched, hn] using h

/-- all clients start and end cleanly -/
def Clean (w : List Client) : Prop := ∀ c ∈ w, c.startErr = false ∧ c.waitErr = false

/-- the spawned batches are a prefix of all batches; `run()` returns without error exactly when it
is the whole list and every client started and ended cleanly; with clean clients an error means
that a liveness check failed and the batch it guarded (with everything behind it) was not spawned -/
theorem sched_prefix (w : List Client) :
    ∃ t, (sched w).1 ++ t = allScripts w ∧
      ((sched w).2 = .ok → t = [] ∧ Clean w) ∧
      (Clean w → (sched w).2 = .ok ∨ ((sched w).2 = .err ∧ t ≠ [])) := by
  induction w with
  | nil => exact ⟨[], rfl, fun _ => ⟨rfl, fun c hc => by cases hc⟩, fun _ => Or.inl rfl⟩
  | cons c rest ih =>
    have hall : allScripts (c :: rest) = c.batches.map (·.s) ++ allScripts rest := by
      simp [allScripts]
    by_cases hs : c.startErr = true
    · refine ⟨allScripts (c :: rest), by simp [sched, hs], fun h => ?_, fun h => ?_⟩
      · simp [sched, hs] at h
      · have := (h c List.mem_cons_self).1; rw [hs] at this; cases this
    · obtain ⟨tb, b1, b2, b3⟩ := batchSched_prefix c.batches
      by_cases hb : (batchSched c.batches).2 = true
      · refine ⟨tb ++ allScripts rest, ?_, fun h => ?_, fun _ => Or.inr ⟨by simp [sched, hs, hb], ?_⟩⟩
        · simp only [sched, hs, hb, if_true, Bool.false_eq_true, if_false]
          rw [hall, ← b1, List.append_assoc]
        · simp [sched, hs, hb] at h
        · intro h; exact b3 hb (List.append_eq_nil_iff.1 h).1
      · have hb' : (batchSched c.batches).2 = false := by simpa using hb
        have htb := b2 hb'
        subst htb
        rw [List.append_nil] at b1
        by_cases hw : c.waitErr = true
        · refine ⟨allScripts rest, ?_, fun h => ?_, fun h => ?_⟩
          · simp only [sched, hs, hb, hw, if_true, Bool.false_eq_true, if_false]
            rw [hall, b1]
          · simp [sched, hs, hb, hw] at h
          · have := (h c List.mem_cons_self).2; rw [hw] at this; cases this
        · obtain ⟨t, h1, h2, h3⟩ := ih
          have hsc : sched (c :: rest) = ((batchSched c.batches).1 ++ (sched rest).1, (sched rest).2) := by
            simp [sched, hs, hb, hw]
          refine ⟨t, ?_, fun h => ?_, fun h => ?_⟩
          · rw [hsc, hall, ← h1, b1, List.append_assoc]
          · rw [hsc] at h
            obtain ⟨ht, hc⟩ := h2 h
            refine ⟨ht, fun x hx => ?_⟩
            rcases List.mem_cons.1 hx with rfl | hx
            · exact ⟨by simpa using hs, by simpa using hw⟩
            · exact hc x hx
          · rw [hsc]
            exact h3 (fun x hx => h x (List.mem_cons_of_mem _ hx))

/-! ### the assignment -/

/-- all test names of the run -/
def allNames (w : List Client) : List String := (allScripts w).flatMap batchNames

theorem names_ranCases (mk : Marks) (s : Script) : names (ranCases mk s) = batchNames s := by
  simp [names, ranCases, ranCase, batchNames, List.map_map, Function.comp_def]

theorem names_missingCases (mk : Marks) (s : Script) : names (missingCases mk s) = batchNames s := by
  simp [names, missingCases, batchNames, List.map_map, Function.comp_def]

theorem names_flatMap (f : Script → List Case) (h : ∀ s, names (f s) = batchNames s) (l : List Script) :
    names (l.flatMap f) = l.flatMap batchNames := by
  induction l with
  | nil => rfl
  | cons s t ih =>
    simp only [List.flatMap_cons, names, List.map_append] at ih ⊢
    rw [ih]; congr 1; exact h s

theorem length_flatMap_cases (f : Script → List Case) (h : ∀ s, (f s).length = s.cases.length)
    (l : List Script) : (l.flatMap f).length = (l.map (fun s => s.cases.length)).sum := by
  rw [List.length_flatMap]; congr 1; exact List.map_congr_left (fun s _ => h s)

theorem assignment_eq (mk : Marks) (w : List Client) (t : List Script)
    (ht : (sched w).1 ++ t = allScripts w) :
    assignment mk w = (sched w).1.flatMap (ranCases mk) ++ t.flatMap (missingCases mk) := by
  unfold assignment
  rw [← ht, List.drop_left]

theorem assignment_names (mk : Marks) (w : List Client) : names (assignment mk w) = allNames w := by
  obtain ⟨t, ht, _, _⟩ := sched_prefix w
  rw [assignment_eq mk w t ht, allNames, ← ht, List.flatMap_append]
  simp only [names, List.map_append]
  congr 1
  · exact names_flatMap _ (names_ranCases mk) _
  · exact names_flatMap _ (names_missingCases mk) _

theorem assignment_length (mk : Marks) (w : List Client) : (assignment mk w).length = total w := by
  obtain ⟨t, ht, _, _⟩ := sched_prefix w
  rw [assignment_eq mk w t ht, total, ← ht, List.length_append, List.map_append, List.sum_append,
    length_flatMap_cases _ (fun s => by simp [ranCases]), length_flatMap_cases _ (fun s => by simp [missingCases])]

/-- an outcome map with distinct keys whose lookups are those of `finalMap` is `finalMap` up to order -/
theorem perm_finalMap_of_get (m : Outcomes) (cases : List Case) (hm : (mkeys m).Nodup)
    (hd : (names cases).Nodup) (h1 : ∀ c ∈ cases, get? m c.name = finalOutcome c)
    (h2 : ∀ n, n ∉ names cases → get? m n = none) : m.Perm (finalMap cases) := by
  have n2 := finalMap_nodup _ hd
  rw [List.perm_ext_iff_of_nodup (nodup_of_mkeys _ hm) (nodup_of_mkeys _ n2)]
  rintro ⟨n, o⟩
  rw [mem_iff_get? _ hm, mem_finalMap]
  by_cases hn : n ∈ names cases
  · obtain ⟨c, hc, rfl⟩ := List.mem_map.1 hn
    rw [h1 c hc]
    constructor
    · intro h; exact ⟨c, hc, rfl, h⟩
    · rintro ⟨c', hc', hn', h'⟩
      have : c' = c := eq_of_name_eq _ hd c c' hc hc' hn'
      rw [← this]; exact h'
  · rw [h2 n hn]
    constructor
    · intro h; cases h
    · rintro ⟨c, hc, rfl, _⟩
      exact absurd (List.mem_map.2 ⟨c, hc, rfl⟩) hn

/-- **The run loop realises the assignment**: what `report` looks at after `run()` is, up to the
order of the entries, the outcome map of the assignment. -/
theorem merged_perm (mk : Marks) (w : List Client)
    (hlen : ∀ s ∈ allScripts w, s.names.length = s.cases.length) (hd : (allNames w).Nodup)
    (hex : ∀ n ∈ allNames w, (mk.failing n && mk.flaky n) = false) :
    (mergedOf mk (sched w).1).Perm (finalMap (assignment mk w)) := by
  obtain ⟨t, ht, _, _⟩ := sched_prefix w
  have hnames := assignment_names mk w
  have hdl : ((sched w).1.flatMap batchNames ++ t.flatMap batchNames).Nodup := by
    rw [← List.flatMap_append, ht]; exact hd
  obtain ⟨hd1, _, hdis⟩ := List.nodup_append.1 hdl
  have hsub : ∀ n, n ∈ (sched w).1.flatMap batchNames → n ∈ allNames w := by
    intro n hn; rw [allNames, ← ht, List.flatMap_append]; exact List.mem_append_left _ hn
  have hlen1 : ∀ s ∈ (sched w).1, s.names.length = s.cases.length :=
    fun s hs => hlen s (by rw [← ht]; exact List.mem_append_left _ hs)
  apply perm_finalMap_of_get _ _ (mergedOf_nodup mk _) (by rw [hnames]; exact hd)
  · intro c hc
    rw [assignment_eq mk w t ht] at hc
    rcases List.mem_append.1 hc with hc | hc
    · obtain ⟨s, hs, hcs⟩ := List.mem_flatMap.1 hc
      exact mergedOf_get_ran mk _ hlen1 hd1 (fun n hn => hex n (hsub n hn)) s hs c hcs
    · obtain ⟨s, hs, hcs⟩ := List.mem_flatMap.1 hc
      obtain ⟨i, hi, rfl⟩ := List.mem_map.1 hcs
      have hin : caseName s i ∈ t.flatMap batchNames :=
        List.mem_flatMap.2 ⟨s, hs, List.mem_map.2 ⟨i, hi, rfl⟩⟩
      have hnot : caseName s i ∉ (sched w).1.flatMap batchNames := fun h => hdis _ h _ hin rfl
      rw [mergedOf_get_none mk _ hlen1 _ hnot]
      simp [finalOutcome, baseOutcome]
  · intro n hn
    rw [hnames] at hn
    exact mergedOf_get_none mk _ hlen1 _ (fun h => hn (hsub n h))

/-- a batch that was not spawned leaves a selected case about which nothing is known -/
theorem missing_not_meets (mk : Marks) (s : Script) (hne : 0 < s.cases.length) :
    ∃ c ∈ missingCases mk s, c.meets = false := by
  refine ⟨_, List.mem_map.2 ⟨0, List.mem_range.2 hne, rfl⟩, ?_⟩
  simp [Case.meets, Case.ran]


theorem classAt_mem (s : Script) (i : Nat) (cls : ServerRunner.Class) (h : classAt s i = some cls) :
    (i, cls) ∈ (runBatch s).log := by
  unfold classAt at h
  cases hf : (runBatch s).log.find? (fun e => e.1 == i) with
  | none => simp [hf] at h
  | some x =>
    simp only [hf, Option.map_some, Option.some.injEq] at h
    have h1 := List.find?_some hf
    have h2 := List.mem_of_find?_eq_some hf
    have h3 : x.1 = i := by simpa using h1
    rw [← h3, ← h]; exact h2

/-! ### when `run()` returns without error -/

theorem batchSched_ok_iff (bs : List Batch) :
    (batchSched bs).2 = false ↔ ∀ b ∈ bs, b.noticed = false := by
  induction bs with
  | nil => simp [batchSched]
  | cons b rest ih =>
    by_cases hn : b.noticed = true
    · simp [batchSched, hn]
    · have hn' : b.noticed = false := by simpa using hn
      simp [batchSched, hn', ih]

theorem sched_ok_iff (w : List Client) :
    (sched w).2 = .ok ↔ Clean w ∧ ∀ c ∈ w, ∀ b ∈ c.batches, b.noticed = false := by
  induction w with
  | nil => simp [sched, Clean]
  | cons c rest ih =>
    by_cases hs : c.startErr = true
    · simp [sched, hs, Clean]
    · have hs' : c.startErr = false := by simpa using hs
      by_cases hb : (batchSched c.batches).2 = true
      · have : ¬ ∀ b ∈ c.batches, b.noticed = false := fun h => by
          rw [(batchSched_ok_iff c.batches).2 h] at hb; cases hb
        simp only [sched, hs', hb, if_true, Bool.false_eq_true, if_false]
        constructor
        · intro h; cases h
        · rintro ⟨_, h⟩; exact absurd (h c List.mem_cons_self) this
      · have hb' : (batchSched c.batches).2 = false := by simpa using hb
        have hall := (batchSched_ok_iff c.batches).1 hb'
        by_cases hw : c.waitErr = true
        · simp only [sched, hs', hb', hw, if_true, Bool.false_eq_true, if_false]
          constructor
          · intro h; cases h
          · rintro ⟨h, _⟩; have := (h c List.mem_cons_self).2; rw [hw] at this; cases this
        · have hw' : c.waitErr = false := by simpa using hw
          simp only [sched, hs', hb', hw', Bool.false_eq_true, if_false]
          rw [ih]
          simp only [Clean, List.mem_cons, forall_eq_or_imp, hs', hw', true_and, and_self]
          constructor
          · rintro ⟨h1, h2⟩; exact ⟨h1, hall, h2⟩
          · rintro ⟨h1, _, h2⟩; exact ⟨h1, h2⟩


/-! ### fate layer: a client that answers k requests -/

theorem obsList_length (rem : Option Nat) (cs : List TestCase) : ∀ j, (obsList rem j cs).length = cs.length := by
  induction cs with
  | nil => intro j; rfl
  | cons c t ih => intro j; simp [obsList, ih]

theorem obsList_getElem? (rem : Option Nat) (cs : List TestCase) :
    ∀ j i, (obsList rem j cs)[i]? = (cs[i]?).map (obsOf rem (j + i)) := by
  induction cs with
  | nil => intro j i; simp [obsList]
  | cons c t ih =>
    intro j i
    cases i with
    | zero => simp [obsList]
    | succ i =>
      simp only [obsList, List.getElem?_cons_succ]
      rw [ih (j + 1) i]
      congr 2; omega

theorem scriptOf_cases_length (rem : Option Nat) (b : FBatch) : (scriptOf rem b).cases.length = b.cases.length := by
  simp [scriptOf, obsList_length]

/-- a real answer can only come from a client that is still alive -/
theorem real_alive (rem : Nat) (b : FBatch) (i : Nat) (k : ServerRunner.Kind)
    (h : realAnswer (scriptOf (some rem) b) i = some k) :
    i < rem ∧ i < ServerRunner.Spec.stopIdx b.srv.dies 0 (scriptOf (some rem) b).cases := by
  unfold realAnswer at h
  split at h
  · cases h
  · split at h
    · rename_i hlt
      refine ⟨?_, hlt⟩
      have hc : (scriptOf (some rem) b).cases[i]? = (b.cases[i]?).map (obsOf (some rem) (0 + i)) :=
        obsList_getElem? _ _ 0 i
      rw [hc] at h
      cases hb : b.cases[i]? with
      | none => simp [hb] at h
      | some c =>
        simp only [hb, Option.map_some, Nat.zero_add] at h
        by_cases ha : alive (some rem) i = true
        · simpa [alive] using ha
        · exfalso
          cases hl : c.late <;> simp [obsOf, ha, hl] at h
    · cases h

theorem answered_all_le (mk : Marks) (bs : List FBatch) : ∀ (rem : Nat),
    (∀ b ∈ compileBatches (some rem) bs, ∀ i, i < b.s.cases.length → answeredOK mk b.s i = true) →
    (bs.map (fun b => b.cases.length)).sum ≤ rem := by
  induction bs with
  | nil => intro rem _; simp
  | cons b rest ih =>
    intro rem h
    have hb := h ⟨scriptOf (some rem) b, stopped (some rem) && b.noticed⟩ (by simp [compileBatches])
    simp only at hb
    have hlen := scriptOf_cases_length (some rem) b
    have hreal : ∀ i, i < b.cases.length →
        i < rem ∧ i < ServerRunner.Spec.stopIdx b.srv.dies 0 (scriptOf (some rem) b).cases := by
      intro i hi
      have := hb i (hlen ▸ hi)
      unfold answeredOK at this
      cases hra : realAnswer (scriptOf (some rem) b) i with
      | none => simp [hra] at this
      | some k => exact real_alive rem b i k hra
    have hle := ServerRunner.stopIdx_le b.srv.dies (scriptOf (some rem) b).cases 0
    rw [Nat.zero_add, hlen] at hle
    have hsent : sentOf (scriptOf (some rem) b) = b.cases.length ∧ b.cases.length ≤ rem := by
      cases hn : b.cases.length with
      | zero =>
        refine ⟨?_, Nat.zero_le _⟩
        unfold sentOf
        split
        · rfl
        · show ServerRunner.Spec.stopIdx b.srv.dies 0 (scriptOf (some rem) b).cases = 0
          omega
      | succ n =>
        have h1 := hreal n (by omega)
        have hnf : ServerRunner.Spec.setupFault (scriptOf (some rem) b) = false := by
          have := hb n (by rw [hlen]; omega)
          unfold answeredOK realAnswer at this
          cases hf : ServerRunner.Spec.setupFault (scriptOf (some rem) b)
          · rfl
          · simp [hf] at this
        refine ⟨?_, by omega⟩
        unfold sentOf
        rw [hnf]
        show ServerRunner.Spec.stopIdx b.srv.dies 0 (scriptOf (some rem) b).cases = n + 1
        omega
    have hrest := ih (rem - b.cases.length) (by
      intro b' hb'
      apply h
      simp only [compileBatches, List.mem_cons]
      right
      rw [hsent.1]
      exact hb')
    simp only [List.map_cons, List.sum_cons]
    omega

theorem refused_not_answered (mk : Marks) (s : Script) (h : refusedIn s = true) :
    ∃ i, i < s.cases.length ∧ answeredOK mk s i = false := by
  unfold refusedIn at h
  simp only [Bool.and_eq_true, Bool.not_eq_true'] at h
  obtain ⟨hf, hm⟩ := h
  refine ⟨ServerRunner.Spec.stopIdx s.dies 0 s.cases, ?_, ?_⟩
  · cases hc : s.cases[ServerRunner.Spec.stopIdx s.dies 0 s.cases]? with
    | none => simp [hc] at hm
    | some x => exact (List.getElem?_eq_some_iff.1 hc).1
  · simp [answeredOK, realAnswer, hf]

theorem batchSched_sub (bs : List Batch) (s : Script) (h : s ∈ (batchSched bs).1) : s ∈ bs.map (·.s) := by
  obtain ⟨t, ht, _, _⟩ := batchSched_prefix bs
  rw [← ht]; exact List.mem_append_left _ h

end ConfModel.RunLoop
