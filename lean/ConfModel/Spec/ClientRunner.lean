/-
C10 — what the property demands of the observable behaviour of the client runner.  These
predicates are evaluated by the driver on the *implementation's* output and are the conclusions
of the theorems in `Props/C10.lean` about the model.
-/
import ConfModel.Model.ClientRunner
namespace ConfModel.ClientRunner.Spec
open ConfModel.ClientRunner

/-- One request: `ret` is what `sendRequest` returned (`none`: never called), `cbs` what its
completion callback was invoked with (`some m`: a response whose test name is `m`, `none`: an
error).  Accepted (`nil`) ⇒ exactly one invocation, with the request's *own* response or an error;
refused or never sent ⇒ no invocation. -/
def reqOK (name : Name) (ret : Option SendRet) (cbs : List (Option Name)) : Bool :=
  match ret with
  | some .ok => cbs.length == 1 && cbs.all (fun c => c == none || c == some name)
  | _ => cbs.isEmpty

/-- A send issued after the reader has shut down: refused, no callback. -/
def refusedOK (ret : Option SendRet) (cbs : List (Option Name)) : Bool :=
  (match ret with | some (.err _) => true | _ => false) && cbs.isEmpty

/-- what the model exposes for request i -/
def retOf (p : SPc) : Option SendRet := match p with | .ret r => some r | _ => none
def cbsOf (s : State) (i : Nat) : List (Option Name) := (s.fired.filter (fun f => f.1 == i)).map (·.2)

/-- every started `sendRequest` has returned and the reader goroutine is finished -/
def Terminal (s : State) : Prop := s.rpc = .done ∧ ∀ i, s.spc i = .idle ∨ ∃ r, s.spc i = .ret r

end ConfModel.ClientRunner.Spec
