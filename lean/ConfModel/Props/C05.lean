/-
C05 — Each selected permutation is executed exactly once against a matching server.
Theorems about the dispatch plan (`Model/Run.lean`) and the server life-cycle bookkeeping.
The goroutine interleavings of the real runner are covered by proof only at the level of
this bookkeeping automaton (any number of batch threads, any schedule); the real runner is
observed with recording peers by the correspondence run.
-/
import ConfModel.Lemmas.Run
import ConfModel.Props.C08
namespace ConfModel.Props.C05
open ConfModel.Run ConfModel.Trie ConfModel.Glob

private theorem count_filter' {α} [BEq α] [LawfulBEq α] (q : α → Bool) (l : List α) (p : α) :
    (l.filter q).count p = if q p then l.count p else 0 := by
  induction l with
  | nil => simp
  | cons x xs ih =>
    simp only [List.filter_cons]
    by_cases hx : q x = true
    · simp only [hx, if_true, List.count_cons, ih]
      by_cases hp : q p = true
      · simp [hp]
      · have : (x == p) = false := by
          cases hxp : x == p
          · rfl
          · have := eq_of_beq hxp; subst this; exact absurd hx hp
        simp [hp, this]
    · simp only [hx, Bool.false_eq_true, if_false, ih, List.count_cons]
      by_cases hp : q p = true
      · have : (x == p) = false := by
          cases hxp : x == p
          · rfl
          · have := eq_of_beq hxp; subst this; exact absurd hp hx
        simp [hp, this]
      · simp [hp]

private theorem count_batchFor (perms : List Perm) (run skip : Node) (i : Inst) (p : Perm) :
    (batchFor perms run skip i).count p =
      if p.inst = i ∧ accept run skip p.name = true then perms.count p else 0 := by
  simp only [batchFor, count_filter']
  by_cases h1 : accept run skip p.name = true <;> by_cases h2 : p.inst = i <;> simp [h1, h2]

private theorem plan_cons (perms : List Perm) (run skip : Node) (i : Inst) (is : List Inst) :
    ((plan perms run skip (i :: is)).flatMap (·.2)) =
      batchFor perms run skip i ++ (plan perms run skip is).flatMap (·.2) := by
  simp only [plan, List.filterMap_cons]
  by_cases he : (batchFor perms run skip i).isEmpty = true
  · simp only [he, if_true]
    have : batchFor perms run skip i = [] := by simpa using he
    simp [this]
  · simp [he]

/-- Exactly once: with the server instances listed without repetition, every permutation is
handed out as often as it occurs in the library if it passes the run/skip filter and its
instance is among the instances served, and not at all otherwise.  (The library's names are
unique, so "as often as it occurs" is once.) -/
theorem plan_count (perms : List Perm) (run skip : Node) (insts : List Inst) (hn : insts.Nodup) (p : Perm) :
    ((plan perms run skip insts).flatMap (·.2)).count p =
      if accept run skip p.name = true ∧ p.inst ∈ insts then perms.count p else 0 := by
  induction insts with
  | nil => simp [plan]
  | cons i is ih =>
    have hn' := (List.nodup_cons.mp hn)
    rw [plan_cons, List.count_append, count_batchFor, ih hn'.2]
    by_cases ha : accept run skip p.name = true
    · by_cases hi : p.inst = i
      · have : p.inst ∉ is := by rw [hi]; exact hn'.1
        simp [ha, hi, this, hn'.1]
      · by_cases hm : p.inst ∈ is <;> simp [ha, hi, hm]
    · simp [ha]

/-- Exactly once, in the words of the property: when the library holds every permutation once
(C07 `names_unique`: full names are pairwise distinct, so the list has no duplicates) and the
server instances are listed without repetition, every selected permutation whose instance is
served is handed out exactly once, and every other permutation never. -/
theorem plan_exactly_once (perms : List Perm) (run skip : Node) (insts : List Inst)
    (hp : perms.Nodup) (hn : insts.Nodup) (p : Perm) (hmem : p ∈ perms) :
    ((plan perms run skip insts).flatMap (·.2)).count p =
      if accept run skip p.name = true ∧ p.inst ∈ insts then 1 else 0 := by
  have hone : ∀ (l : List Perm), l.Nodup → p ∈ l → l.count p = 1 := by
    intro l
    induction l with
    | nil => intro _ h; simp at h
    | cons x xs ih =>
      intro hnd hm
      have hx := List.nodup_cons.mp hnd
      by_cases hxp : x = p
      · subst hxp
        have : xs.count x = 0 := List.count_eq_zero_of_not_mem hx.1
        simp [List.count_cons, this]
      · have hm' : p ∈ xs := by
          rcases List.mem_cons.mp hm with h | h
          · exact absurd h.symm hxp
          · exact h
        have hbeq : (x == p) = false := by simpa using hxp
        simp [List.count_cons, hbeq, ih hx.2 hm']
  rw [plan_count perms run skip insts hn p, hone perms hp hmem]

/-- a permutation of a batch was selected by the filter in the sense of glob semantics (C08) -/
theorem plan_selected (perms : List Perm) (run skip : Node) (insts : List Inst) (i : Inst) (b : List Perm)
    (hb : (i, b) ∈ plan perms run skip insts) (p : Perm) (hp : p ∈ b) :
    p ∈ perms ∧ p.inst = i ∧ b ≠ [] ∧
      (run = [] ∨ ∃ q ∈ run, globMatch q p.name = true) ∧ ¬ ∃ q ∈ skip, globMatch q p.name = true := by
  simp only [plan, List.mem_filterMap] at hb
  obtain ⟨j, _, hj⟩ := hb
  by_cases he : (batchFor perms run skip j).isEmpty = true
  · simp [he] at hj
  · simp only [he] at hj
    simp only [Bool.false_eq_true, if_false, Option.some.injEq, Prod.mk.injEq] at hj
    obtain ⟨rfl, rfl⟩ := hj
    simp only [batchFor, List.mem_filter, beq_iff_eq] at hp
    obtain ⟨⟨h1, h2⟩, h3⟩ := hp
    refine ⟨h1, h2, ?_, (ConfModel.Props.C08.accept_iff run skip p.name).mp h3⟩
    intro hnil; rw [hnil] at he; simp at he

/-- every server batch is addressed to the instance of each of its cases, and no server is
started for an empty batch -/
theorem batch_matches_instance (perms : List Perm) (run skip : Node) (insts : List Inst) (i : Inst) (b : List Perm)
    (hb : (i, b) ∈ plan perms run skip insts) : b ≠ [] ∧ ∀ p ∈ b, p.inst = i := by
  constructor
  · cases b with
    | nil =>
      simp only [plan, List.mem_filterMap] at hb
      obtain ⟨j, _, hj⟩ := hb
      by_cases he : (batchFor perms run skip j).isEmpty = true
      · simp [he] at hj
      · simp only [he, Bool.false_eq_true, if_false, Option.some.injEq, Prod.mk.injEq] at hj
        rw [hj.2] at he; simp at he
    | cons _ _ => simp
  · intro p hp; exact (plan_selected perms run skip insts i b hb p hp).2.1

/-- Never more than `max` permits are held — hence never more than `max` servers alive — in
any state reached by any schedule of any number of batch threads. -/
theorem bounded_servers (max n : Nat) (sched : List Nat) :
    let s := runSchedule max (List.replicate n PC.idle) sched
    aliveCount s ≤ max ∧ holdingCount s ≤ max := by
  have key : ∀ (sched : List Nat) (s : List PC), holdingCount s ≤ max → holdingCount (runSchedule max s sched) ≤ max := by
    intro sched
    induction sched with
    | nil => intro s h; exact h
    | cons i is ih =>
      intro s h
      simp only [runSchedule]
      cases hs : stepThread max s i with
      | none => exact ih s h
      | some s' => exact ih s' (step_inv max s s' i h hs)
  have h0 : holdingCount (List.replicate n PC.idle) ≤ max := by
    have : holdingCount (List.replicate n PC.idle) = 0 := by
      simp [holdingCount, List.filter_replicate, PC.holds]
    omega
  intro s
  exact ⟨Nat.le_trans (alive_le_holding _) (key sched _ h0), key sched _ h0⟩

/-- No deadlock in the bookkeeping: while some batch thread has not finished, some step is
enabled (provided at least one server may run). -/
theorem progress (max : Nat) (hmax : 0 < max) (s : List PC) (i : Nat) (pc : PC)
    (hi : s[i]? = some pc) (hnd : pc ≠ .done) : ∃ j, (stepThread max s j).isSome = true := by
  by_cases hh : ∃ (j : Nat) (pcj : PC), s[j]? = some pcj ∧ pcj.holds = true
  · obtain ⟨j, pcj, hj, hhold⟩ := hh
    refine ⟨j, ?_⟩
    cases pcj <;> simp_all [stepThread, PC.holds]
  · -- nobody holds a permit: the unfinished thread is idle and can acquire
    have hnone : holdingCount s = 0 := by
      simp only [holdingCount, List.length_eq_zero_iff, List.filter_eq_nil_iff]
      intro x hx
      obtain ⟨k, hk, rfl⟩ := List.mem_iff_getElem.mp hx
      intro hhold
      exact hh ⟨k, s[k], by simp [hk], hhold⟩
    have hidle : pc = .idle := by
      cases pc with
      | idle => rfl
      | done => exact absurd rfl hnd
      | holding => exact absurd ⟨i, _, hi, rfl⟩ hh
      | alive => exact absurd ⟨i, _, hi, rfl⟩ hh
      | stopped => exact absurd ⟨i, _, hi, rfl⟩ hh
    subst hidle
    exact ⟨i, by simp [stepThread, hi, hnone, hmax]⟩

/-! ### the dispatching loop and its exits: every started server is stopped when the run ends -/

/-- **Every started server is stopped when `run()` leaves the dispatching closure** — on the regular
way out and on the early return (the client under test was found gone while other batches were
still in flight): for any number of batches, any `--max-servers`, any schedule of dispatcher and
batch threads and any moment at which the client dies, in a state in which the closure has returned
no server is alive and no permit is held; and nothing changes afterwards. -/
theorem returned_all_stopped (max n : Nat) (evs : List Ev) :
    let s := execSys max (initSys n) evs
    s.disp = .returned → aliveCount s.threads = 0 ∧ holdingCount s.threads = 0 := by
  intro s hr
  have hinv : RetInv (initSys n) := by intro h; simp [initSys] at h
  exact allDone_counts _ (execSys_retInv max evs _ hinv hr)

/-- the bound of `bounded_servers` for the dispatching system (the dispatcher acquires, the batch
thread releases): never more than `max` servers alive, whatever the schedule and the client's fate -/
theorem dispatch_bounded (max n : Nat) (evs : List Ev) :
    let s := execSys max (initSys n) evs
    aliveCount s.threads ≤ max ∧ holdingCount s.threads ≤ max := by
  intro s
  have h0 : holdingCount (initSys n).threads ≤ max := by
    have : holdingCount (List.replicate n PC.idle) = 0 := by
      simp [holdingCount, PC.holds]
    simp only [initSys]; omega
  have h := execSys_holding max evs _ h0
  exact ⟨Nat.le_trans (alive_le_holding _) h, h⟩

/-- **The run terminates** (at the level of the bookkeeping): in every reachable state in which the
closure has not returned, the dispatcher or a batch thread can move — the early return never leaves
the dispatcher waiting for a thread that cannot finish, nor a thread waiting for a permit. -/
theorem dispatch_progress (max n : Nat) (hmax : 0 < max) (evs : List Ev) :
    let s := execSys max (initSys n) evs
    s.disp ≠ .returned → ∃ e, e ≠ Ev.clientDies ∧ (stepSys max s e).isSome = true := by
  intro s hr
  have hn0 : NextInv (initSys n) := by
    intro j _ hlen
    simp only [initSys, List.length_replicate] at hlen
    simp [initSys, hlen]
  have hn : NextInv s := execSys_nextInv max evs _ hn0
  cases hd : s.disp with
  | returned => exact absurd hd hr
  | draining =>
    by_cases hall : allDone s.threads = true
    · exact ⟨.dispatch, by simp, by simp [stepSys, stepDisp, hd, hall]⟩
    · obtain ⟨j, pc, hj, hh⟩ := exists_holding_of_not_allDone s.threads (by simpa using hall)
      exact ⟨.thread j, by simp, stepBatch_some_of_holds max s j pc hj hh⟩
  | looping =>
    by_cases hlt : s.next < s.threads.length
    · have hidle := hn s.next (Nat.le_refl _) hlt
      by_cases hc : holdingCount s.threads < max
      · refine ⟨.dispatch, by simp, ?_⟩
        have hst : stepThread max s.threads s.next = some (s.threads.set s.next .holding) := by
          simp [stepThread, hidle, hc]
        cases hup : s.clientUp <;> simp [stepSys, stepDisp, hd, hlt, hst, hup]
      · obtain ⟨j, pc, hj, hh⟩ := exists_holding s.threads (by omega)
        exact ⟨.thread j, by simp, stepBatch_some_of_holds max s j pc hj hh⟩
    · exact ⟨.dispatch, by simp, by simp [stepSys, stepDisp, hd, hlt]⟩

/-! ### the start-up handshake -/

/-- **Whichever way a server reads its request, the handshake of the batch runner gets its
response**: not at all, exactly the one length-prefixed message, or everything up to the end of
its input — the runner has written the request *and closed the server's stdin* before it waits.  So
a server that starts properly is never recorded as a set-up failure for the way it reads, and its
permutations are handed to the client. -/
theorem handshake_any_reader (need : SrvRead) : handshake need runnerHandshake = true := by
  cases need <;> rfl

/-- the order matters: waiting for the response before closing the input starves the server that
reads to the end of its input (and only that one) -/
theorem handshake_close_before_await :
    handshake .eof [.write, .await, .close] = false ∧ handshake .msg [.write, .await, .close] = true ∧
    handshake .blind [.await, .write, .close] = true ∧ handshake .msg [.await, .write, .close] = false := by
  decide

/-! Non-vacuity. -/
private def pa : Perm := ⟨["S", "a"], ⟨1, 1, false, false⟩⟩
private def pb : Perm := ⟨["S", "b"], ⟨2, 2, false, false⟩⟩
example : plan [pa, pb] [["S", "*"]] [["**", "b"]] [⟨1, 1, false, false⟩, ⟨2, 2, false, false⟩] =
    [(⟨1, 1, false, false⟩, [pa])] := by decide
example : runSchedule 1 (List.replicate 2 PC.idle) [0, 1, 0, 0, 1, 0, 1] = [.done, .holding] := by decide
example : [pa, pb].Nodup ∧ ((plan [pa, pb] [] [] [⟨1, 1, false, false⟩, ⟨2, 2, false, false⟩]).flatMap (·.2)).count pb = 1 := by decide

/-- three batches, two permits, the client dies while batches 0 and 1 are in flight: the dispatcher
takes the early return as soon as ONE permit is free, drains, and returns only after thread 1 (whose
server is slow to stop) is done; batch 2 is never spawned -/
example :
    let evs : List Ev := [.dispatch, .dispatch, .thread 0, .thread 1, .clientDies, .thread 0, .thread 0,
      .dispatch, .dispatch, .thread 1, .dispatch, .thread 1, .dispatch]
    (execSys 2 (initSys 3) (evs.take 9)).disp = .draining ∧ aliveCount (execSys 2 (initSys 3) (evs.take 9)).threads = 1 ∧
    (execSys 2 (initSys 3) (evs.take 11)).disp = .draining ∧
    (execSys 2 (initSys 3) evs).disp = .returned ∧ (execSys 2 (initSys 3) evs).threads = [.done, .done, .idle] := by decide
example : (execSys 2 (initSys 3) (fairSchedule 3 7 none)).disp = .returned ∧
    (execSys 2 (initSys 3) (fairSchedule 3 7 none)).threads = [.done, .done, .done] ∧
    (execSys 2 (initSys 3) (fairSchedule 3 7 (some 1))).disp = .returned := by decide

end ConfModel.Props.C05
