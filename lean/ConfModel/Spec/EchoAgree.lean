/-
The documented comparison between an expected and an actual result (results.go `assert`),
restricted to what the deterministic fragment of C02 uses: no timeout, no alternative codes, no
HTTP status.  Query parameters (Connect GET) are compared as `checkRequestInfo` does: only where
headers are compared (first response, error details) and only when both sides list any.
-/
import ConfModel.Model.Echo
namespace ConfModel.Echo

/-- Go `strings.ToLower` on ASCII (header names are ASCII tokens) -/
def lower (s : String) : String := String.ofList (s.toList.map Char.toLower)

/-- `canonicalizeHeaderVals`: split on commas, drop one space around interior commas -/
def canonPart (i last : Nat) (part : List Char) : List Char :=
  let p1 := if i > 0 then (match part with | ' ' :: t => t | p => p) else part
  if i < last then (match p1.reverse with | ' ' :: t => t.reverse | _ => p1) else p1

def splitComma (s : List Char) : List (List Char) :=
  s.foldr (fun c acc => if c == ',' then [] :: acc else
    match acc with
    | [] => [[c]]
    | h :: t => (c :: h) :: t) [[]]

def canonVal (v : String) : List String :=
  let parts := splitComma v.toList
  let last := parts.length - 1
  (parts.zipIdx.map (fun (p, i) => String.ofList (canonPart i last p)))

def canon (vals : List String) : List String := vals.flatMap canonVal

/-- Go: `actualHeaders[strings.ToLower(name)] = vals` over the list — the last entry wins -/
def lookupLast (hs : List Hdr) (name : String) : Option (List String) :=
  (hs.reverse.find? (fun h => lower h.name == name)).map (·.vals)

/-- `checkHeaders` reports nothing -/
def subsumed (exp act : List Hdr) : Bool :=
  exp.all (fun h => match lookupLast act (lower h.name) with
    | none => false
    | some av => canon h.vals == canon av)

/-- the "request query params" comparison of `checkRequestInfo`: skipped unless both sides list
query parameters, otherwise the header comparison -/
def queryAgree (eq aq : List Hdr) : Bool := eq.isEmpty || aq.isEmpty || subsumed eq aq

/-- `checkRequestInfo` reports nothing (both arguments may be absent) -/
def infoAgree (e a : Option ReqInfo) (verifyHeaders : Bool) : Bool :=
  (if verifyHeaders then
     subsumed ((e.map (·.hdrs)).getD []) ((a.map (·.hdrs)).getD []) &&
     queryAgree ((e.map (·.query)).getD []) ((a.map (·.query)).getD [])
   else true) &&
  ((e.map (·.reqs)).getD [] == (a.map (·.reqs)).getD [])

def detailAgree (e a : Detail) : Bool :=
  match e, a with
  | .info ei, .info ai => infoAgree (some ei) (some ai) true
  | e, a => e == a

def detailsAgree : List Detail → List Detail → Bool
  | [], [] => true
  | e :: es, a :: as => detailAgree e a && detailsAgree es as
  | _, _ => false

/-- `checkError` reports nothing (no alternative codes in the fragment) -/
def errAgree (e a : Option Err) : Bool :=
  match e, a with
  | none, none => true
  | some e, some a =>
    e.code == a.code && (match e.msg with | none => true | some m => a.msg.getD "" == m) &&
    detailsAgree e.details a.details
  | _, _ => false

def payloadsAgreeFrom : Nat → List Payload → List Payload → Bool
  | _, [], [] => true
  | i, e :: es, a :: as =>
    e.data == a.data && infoAgree e.info a.info (i == 0) && payloadsAgreeFrom (i + 1) es as
  | _, _, _ => false

/-- `mergeHeaders`: a map keyed by lower-cased name; an entry of `a` *replaces* earlier `a`
entries of the same name, entries of `b` append.  As an association list in first-seen order. -/
def mergeSet (m : List Hdr) (k : String) (v : List String) : List Hdr :=
  if m.any (·.name == k) then m.map (fun h => if h.name == k then ⟨k, v⟩ else h) else m ++ [⟨k, v⟩]

def mergeApp (m : List Hdr) (k : String) (v : List String) : List Hdr :=
  if m.any (·.name == k) then m.map (fun h => if h.name == k then ⟨k, h.vals ++ v⟩ else h) else m ++ [⟨k, v⟩]

def mergeHeaders (a b : List Hdr) : List Hdr :=
  b.foldl (fun m h => mergeApp m (lower h.name) h.vals) (a.foldl (fun m h => mergeSet m (lower h.name) h.vals) [])

/-- `assert` records no discrepancy -/
def agree (st : ST) (e a : Result) : Bool :=
  errAgree e.err a.err && payloadsAgreeFrom 0 e.payloads a.payloads &&
  (if e.payloads.isEmpty && e.err.isSome && (st == .unary || st == .clientStream) then
     (subsumed e.hdrs a.hdrs && subsumed e.trls a.trls) ||
       subsumed (mergeHeaders e.hdrs e.trls) a.hdrs || subsumed (mergeHeaders e.hdrs e.trls) a.trls
   else subsumed e.hdrs a.hdrs && subsumed e.trls a.trls)

/-- the request infos among error details -/
def detailInfos (ds : List Detail) : List ReqInfo :=
  ds.filterMap (fun d => match d with | .info ri => some ri | .other _ => none)

/-- every request info a result carries: those of the payloads, then those among the error details -/
def infosOf (r : Result) : List ReqInfo :=
  r.payloads.filterMap (·.info) ++ (match r.err with | none => [] | some e => detailInfos e.details)

end ConfModel.Echo
