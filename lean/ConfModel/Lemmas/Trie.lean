/-
Helper lemmas for C08: the suffix-list trie matcher equals the disjunction of glob matches.
-/
import ConfModel.Model.Trie
import ConfModel.Spec.Glob
namespace ConfModel.Trie
open ConfModel.Glob



theorem starMatch_of_self (k : List String → Bool) (cs : List String) (h : k cs = true) :
    starMatch k cs = true := by
  cases cs with
  | nil => simpa [starMatch] using h
  | cons c cs => simp [starMatch, h]

theorem starLoop_eq_starMatch (m : List String → Bool) (cs : List String) :
    starLoop m cs = starMatch m cs := by
  induction cs with
  | nil => rfl
  | cons c cs ih => simp [starLoop, starMatch, ih]

theorem starMatch_congr {m m' : List String → Bool} (h : ∀ xs, m xs = m' xs) (cs : List String) :
    starMatch m cs = starMatch m' cs := by
  induction cs with
  | nil => simp [starMatch, h]
  | cons c cs ih => simp [starMatch, h, ih]

theorem any_or_any {α} (M : List α) (f g : α → Bool) :
    (M.any f || M.any g) = M.any (fun t => f t || g t) := by
  induction M with
  | nil => simp
  | cons t M ih =>
    simp only [List.any_cons, ← ih]
    cases f t <;> cases g t <;> cases M.any f <;> simp

theorem starMatch_any (M : Node) (f : Pat → List String → Bool) (cs : List String) :
    starMatch (fun xs => M.any (fun t => f t xs)) cs = M.any (fun t => starMatch (f t) cs) := by
  induction cs with
  | nil => simp [starMatch]
  | cons c cs ih =>
    simp only [starMatch, ih]
    exact any_or_any M _ _

theorem any_nil_split (N : Node) :
    N.any (fun p => globMatch p []) = (present N || (child N "**").any (fun t => globMatch t [])) := by
  induction N with
  | nil => simp [present, child]
  | cons p N ih =>
    cases p with
    | nil =>
      simp [present, child, globMatch]
    | cons h t =>
      by_cases hh : h = "**"
      · subst hh
        simp only [List.any_cons, ih, present, child, List.filterMap_cons, globMatch, starMatch]
        simp
        cases globMatch t [] <;> simp [Bool.or_comm, Bool.or_left_comm]
      · have : (h == "**") = false := by simpa using hh
        simp only [List.any_cons, ih, present, child, List.filterMap_cons, globMatch, this]
        simp


theorem starMatch_tail (k : List String → Bool) (c : String) (cs : List String) (h : k cs = true) :
    starMatch k (c :: cs) = true := by
  simp [starMatch, starMatch_of_self k cs h]

@[simp] theorem child_nil (k : String) : child [] k = [] := rfl
theorem child_cons_nil (N : Node) (k : String) : child ([] :: N) k = child N k := rfl
theorem child_cons_eq (N : Node) (k : String) (t : Pat) : child ((k :: t) :: N) k = t :: child N k := by
  simp [child]
theorem child_cons_ne (N : Node) (h k : String) (t : Pat) (hne : h ≠ k) :
    child ((h :: t) :: N) k = child N k := by
  simp [child, hne]

theorem glob_cons_cons (h : String) (t : Pat) (c : String) (cs : List String) :
    globMatch (h :: t) (c :: cs) =
      if h == "**" then starMatch (globMatch t) (c :: cs) else ((h == "*" || h == c) && globMatch t cs) := by
  simp [globMatch]

theorem any_cons_split (N : Node) (c : String) (cs : List String) :
    N.any (fun p => globMatch p (c :: cs)) =
      ((child N c).any (fun t => globMatch t cs) || (child N "*").any (fun t => globMatch t cs)
        || (child N "**").any (fun t => starMatch (globMatch t) (c :: cs))) := by
  induction N with
  | nil => simp
  | cons p N ih =>
    cases p with
    | nil =>
      simp only [List.any_cons, child_cons_nil, ih]
      simp [globMatch]
    | cons h t =>
      simp only [List.any_cons, ih, glob_cons_cons]
      clear ih
      by_cases h2 : h = "**"
      · subst h2
        have n1 : ("**" : String) ≠ "*" := by decide
        rw [child_cons_ne _ _ _ _ n1, child_cons_eq]
        by_cases hc : c = "**"
        · subst hc
          rw [child_cons_eq]
          simp only [List.any_cons, beq_self_eq_true, if_true]
          generalize (child N "**").any (fun t => globMatch t cs) = A
          generalize (child N "*").any (fun t => globMatch t cs) = B
          generalize (child N "**").any (fun t => starMatch (globMatch t) ("**" :: cs)) = C
          cases hg : globMatch t cs
          · cases A <;> cases B <;> cases C <;> simp
          · have := starMatch_tail (globMatch t) "**" cs hg
            simp [this]
        · rw [child_cons_ne _ _ _ _ (fun h => hc h.symm)]
          simp only [List.any_cons, beq_self_eq_true, if_true]
          generalize (child N c).any (fun t => globMatch t cs) = A
          generalize (child N "*").any (fun t => globMatch t cs) = B
          generalize (child N "**").any (fun t => starMatch (globMatch t) (c :: cs)) = C
          cases A <;> cases B <;> cases C <;> simp
      · have e0 : (h == "**") = false := by simpa using h2
        rw [child_cons_ne _ _ _ _ h2]
        by_cases h1 : h = "*"
        · subst h1
          rw [child_cons_eq]
          by_cases hc : c = "*"
          · subst hc
            rw [child_cons_eq]
            simp only [List.any_cons, e0]
            generalize (child N "*").any (fun t => globMatch t cs) = B
            generalize (child N "**").any (fun t => starMatch (globMatch t) ("*" :: cs)) = C
            cases globMatch t cs <;> cases B <;> cases C <;> simp
          · rw [child_cons_ne _ _ _ _ (fun h => hc h.symm)]
            have e2 : (("*" : String) == c) = false := by simpa using fun h => hc h.symm
            simp only [List.any_cons, e0, e2]
            generalize (child N c).any (fun t => globMatch t cs) = A
            generalize (child N "*").any (fun t => globMatch t cs) = B
            generalize (child N "**").any (fun t => starMatch (globMatch t) (c :: cs)) = C
            cases globMatch t cs <;> cases A <;> cases B <;> cases C <;> simp
        · have e1 : (h == "*") = false := by simpa using h1
          rw [child_cons_ne _ _ _ _ h1]
          by_cases hc : h = c
          · subst hc
            rw [child_cons_eq]
            simp only [List.any_cons, e0, e1]
            generalize (child N h).any (fun t => globMatch t cs) = A
            generalize (child N "*").any (fun t => globMatch t cs) = B
            generalize (child N "**").any (fun t => starMatch (globMatch t) (h :: cs)) = C
            cases globMatch t cs <;> cases A <;> cases B <;> cases C <;> simp
          · have e2 : (h == c) = false := by simpa using hc
            rw [child_cons_ne _ _ _ _ hc]
            simp only [e0, e1, e2]
            generalize (child N c).any (fun t => globMatch t cs) = A
            generalize (child N "*").any (fun t => globMatch t cs) = B
            generalize (child N "**").any (fun t => starMatch (globMatch t) (c :: cs)) = C
            cases A <;> cases B <;> cases C <;> simp

theorem child_length (N : Node) (k : String) (d : Nat) (h : ∀ p ∈ N, p.length < d + 1) :
    ∀ t ∈ child N k, t.length < d := by
  induction N with
  | nil => intro t ht; simp at ht
  | cons p N ih =>
    have ihN := ih (fun q hq => h q (by simp [hq]))
    cases p with
    | nil => rw [child_cons_nil]; exact ihN
    | cons a b =>
      by_cases hak : a = k
      · subst hak
        rw [child_cons_eq]
        intro t ht
        rcases List.mem_cons.mp ht with rfl | ht
        · have := h (a :: t) (by simp); simp at this; omega
        · exact ihN t ht
      · rw [child_cons_ne _ _ _ _ hak]; exact ihN

theorem matchF_nil_node : ∀ (d : Nat) (cs : List String), matchF d [] cs = false
  | 0, _ => rfl
  | _+1, _ => by simp [matchF]

theorem starLoop_false (m : List String → Bool) (h : ∀ xs, m xs = false) (cs : List String) :
    starLoop m cs = false := by
  induction cs with
  | nil => simp [starLoop, h]
  | cons c cs ih => simp [starLoop, h, ih]

theorem matchF_succ_nil (d : Nat) (N : Node) :
    matchF (d+1) N [] = (present N || matchF d (child N "**") []) := by
  cases N with
  | nil => simp [matchF, present, matchF_nil_node]
  | cons p N => simp [matchF]

theorem matchF_succ_cons (d : Nat) (N : Node) (c : String) (cs : List String) :
    matchF (d+1) N (c :: cs) = (matchF d (child N c) cs || matchF d (child N "*") cs
        || starLoop (matchF d (child N "**")) (c :: cs)) := by
  cases N with
  | nil => simp [matchF, matchF_nil_node, starLoop_false _ (matchF_nil_node d)]
  | cons p N => simp [matchF]

theorem matchF_eq_glob : ∀ (d : Nat) (N : Node) (cs : List String),
    (∀ p ∈ N, p.length < d) → matchF d N cs = N.any (fun p => globMatch p cs)
  | 0, N, cs, h => by
    cases N with
    | nil => simp [matchF]
    | cons p N => exact absurd (h p (by simp)) (by omega)
  | d+1, N, [], h => by
    rw [matchF_succ_nil, matchF_eq_glob d _ [] (child_length N "**" d h), ← any_nil_split]
  | d+1, N, c :: cs, h => by
    rw [matchF_succ_cons, matchF_eq_glob d _ cs (child_length N c d h),
      matchF_eq_glob d _ cs (child_length N "*" d h), any_cons_split, starLoop_eq_starMatch,
      starMatch_congr (fun xs => matchF_eq_glob d _ xs (child_length N "**" d h)),
      starMatch_any]


end ConfModel.Trie

namespace ConfModel.Trie
open ConfModel.Glob

/-! ### fuel sufficiency -/

theorem foldl_max_ge (N : Node) (m : Nat) : m ≤ N.foldl (fun m p => max m p.length) m := by
  induction N generalizing m with
  | nil => simp
  | cons p N ih => simp only [List.foldl_cons]; exact Nat.le_trans (Nat.le_max_left _ _) (ih _)

theorem foldl_max_mem (N : Node) (m : Nat) : ∀ p ∈ N, p.length ≤ N.foldl (fun m p => max m p.length) m := by
  induction N generalizing m with
  | nil => intro p hp; simp at hp
  | cons q N ih =>
    intro p hp
    simp only [List.foldl_cons]
    rcases List.mem_cons.mp hp with rfl | hp
    · exact Nat.le_trans (Nat.le_max_right _ _) (foldl_max_ge N _)
    · exact ih _ p hp

theorem length_lt_fuel (N : Node) : ∀ p ∈ N, p.length < fuel N := by
  intro p hp
  have := foldl_max_mem N 0 p hp
  simp only [fuel, depth]; omega

/-! ### `matchW` refines `matchF` and is sound for glob -/

theorem starLoopW_isSome (m : List String → Option Pat) (m' : List String → Bool)
    (h : ∀ xs, (m xs).isSome = m' xs) (cs : List String) :
    (starLoopW m cs).isSome = starLoop m' cs := by
  induction cs with
  | nil => simp [starLoopW, starLoop, h]
  | cons c cs ih =>
    simp only [starLoopW, starLoop, ← h, ← ih]
    cases m (c :: cs) <;> simp

theorem matchW_isSome : ∀ (d : Nat) (N : Node) (cs : List String),
    (matchW d N cs).isSome = matchF d N cs
  | 0, _, _ => rfl
  | d+1, [], cs => by simp [matchW, matchF]
  | d+1, p :: N', [] => by
    generalize hN : p :: N' = N
    have hne : N.isEmpty = false := by subst hN; rfl
    simp only [matchW, matchF, hne, ← matchW_isSome d]
    cases present N <;> simp
  | d+1, p :: N', c :: cs => by
    generalize hN : p :: N' = N
    have hne : N.isEmpty = false := by subst hN; rfl
    have hs := starLoopW_isSome (matchW d (child N "**")) (matchF d (child N "**"))
      (fun xs => matchW_isSome d _ xs) (c :: cs)
    simp only [matchW, matchF, hne, ← matchW_isSome d (child N c), ← matchW_isSome d (child N "*"), ← hs]
    cases matchW d (child N c) cs <;> cases matchW d (child N "*") cs <;>
      cases starLoopW (matchW d (child N "**")) (c :: cs) <;> simp

theorem mem_child {N : Node} {k : String} {t : Pat} (h : t ∈ child N k) : (k :: t) ∈ N := by
  simp only [child, List.mem_filterMap] at h
  obtain ⟨p, hp, hpe⟩ := h
  cases p with
  | nil => simp at hpe
  | cons a b =>
    by_cases hak : a = k
    · subst hak; simp at hpe; subst hpe; exact hp
    · simp [hak] at hpe

theorem mem_present {N : Node} (h : present N = true) : ([] : Pat) ∈ N := by
  simp only [present, List.any_eq_true] at h
  obtain ⟨p, hp, he⟩ := h
  cases p with
  | nil => exact hp
  | cons _ _ => simp at he

theorem starLoopW_sound (m : List String → Option Pat) (t : Pat) :
    ∀ (cs : List String), starLoopW m cs = some t → ∃ xs, m xs = some t ∧
      (∀ k : List String → Bool, k xs = true → starMatch k cs = true)
  | [], h => ⟨[], h, fun k hk => by simpa [starMatch] using hk⟩
  | c :: cs, h => by
    simp only [starLoopW] at h
    cases hm : m (c :: cs) with
    | some u =>
      rw [hm] at h; simp at h; subst h
      exact ⟨c :: cs, hm, fun k hk => by simp [starMatch, hk]⟩
    | none =>
      rw [hm] at h; simp at h
      obtain ⟨xs, h1, h2⟩ := starLoopW_sound m t cs h
      exact ⟨xs, h1, fun k hk => by simp [starMatch, h2 k hk]⟩

theorem matchW_sound : ∀ (d : Nat) (N : Node) (cs : List String) (t : Pat),
    matchW d N cs = some t → t ∈ N ∧ globMatch t cs = true
  | 0, _, _, _, h => by simp [matchW] at h
  | d+1, [], cs, t, h => by simp [matchW] at h
  | d+1, p0 :: N', [], t, h => by
    generalize hN : p0 :: N' = N at h
    have hne : N.isEmpty = false := by subst hN; rfl
    rw [matchW] at h
    simp only [hne, Bool.false_eq_true, if_false] at h
    by_cases hp : present N = true
    · simp [hp] at h; subst h
      exact ⟨mem_present hp, by simp [globMatch]⟩
    · simp [hp] at h
      obtain ⟨u, hu, rfl⟩ := h
      obtain ⟨h1, h2⟩ := matchW_sound d _ [] u hu
      exact ⟨mem_child h1, by simpa [globMatch, starMatch] using h2⟩
  | d+1, p0 :: N', c :: cs, t, h => by
    generalize hN : p0 :: N' = N at h
    have hne : N.isEmpty = false := by subst hN; rfl
    rw [matchW] at h
    simp only [hne, Bool.false_eq_true, if_false] at h
    cases h1 : matchW d (child N c) cs with
    | some u =>
      rw [h1] at h; simp at h; subst h
      obtain ⟨m1, m2⟩ := matchW_sound d _ cs u h1
      refine ⟨mem_child m1, ?_⟩
      rw [glob_cons_cons]
      by_cases hc : c = "**"
      · subst hc; simp only [beq_self_eq_true, if_true]
        exact starMatch_tail _ _ _ m2
      · have : (c == "**") = false := by simpa using hc
        simp [this, m2]
    | none =>
      rw [h1] at h; simp only [Option.map_none, Option.none_or] at h
      cases h2 : matchW d (child N "*") cs with
      | some u =>
        rw [h2] at h; simp at h; subst h
        obtain ⟨m1, m2⟩ := matchW_sound d _ cs u h2
        refine ⟨mem_child m1, ?_⟩
        rw [glob_cons_cons]
        have : (("*" : String) == "**") = false := by decide
        simp [this, m2]
      | none =>
        rw [h2] at h; simp only [Option.map_none, Option.none_or, Option.map_eq_some_iff] at h
        obtain ⟨u, hu, rfl⟩ := h
        obtain ⟨xs, hx, hk⟩ := starLoopW_sound _ u _ hu
        obtain ⟨m1, m2⟩ := matchW_sound d _ xs u hx
        refine ⟨mem_child m1, ?_⟩
        rw [glob_cons_cons]
        simp only [beq_self_eq_true, if_true]
        exact hk _ m2

end ConfModel.Trie
