package main

import (
	"encoding/json"
	"fmt"
	"regexp"
	"strings"

	cc "connectrpc.com/conformance/internal/app/connectconformance"
	"connectrpc.com/conformance/internal/verifharness/gen"
)

// Op "feedback": feedback of the reference server as it really arrives — as stderr lines
// "<case>: <message>" read by the batch runner — must turn an otherwise matching result into a
// failure, whatever the message looks like (real messages contain ": " themselves, e.g.
// `invalid value for "x" header: "y": ...`, `'te: trailers' header`).
func init() {
	gen.RegisterOp("c04", "feedback", func(_ *gen.Ctx, raw json.RawMessage) any {
		in := gen.Into[c04FbIn](raw)
		names := make([]string, in.N)
		cases := make([]cc.VerifC11Case, in.N)
		for i := range names {
			names[i] = fmt.Sprintf("Suite/case%d", i)
			cases[i] = cc.VerifC11Case{K: "pass", Async: in.Async}
		}
		var stderr strings.Builder
		for _, l := range in.Noise {
			stderr.WriteString(l + "\n")
		}
		stderr.WriteString(names[in.Target] + ": " + in.Msg + "\n")
		spec := cc.VerifC11Spec{Names: names, Cases: cases, Start: "ok", Write: "ok", Close: "ok", Resp: "ok", Dies: -1,
			RespLen: cc.VerifC11RespLen(), IsRef: true, Stderr: stderr.String(), Chunk: in.Chunk}
		ok, lines, hang := cc.VerifC04BatchReport(spec)
		var failed []string
		re := regexp.MustCompile(`^FAILED: (.*?):`)
		for _, l := range lines {
			if m := re.FindStringSubmatch(l); m != nil {
				failed = append(failed, m[1])
			}
		}
		if failed == nil {
			failed = []string{}
		}
		return map[string]any{"ok": ok, "failed": failed, "hang": hang}
	})
}

// Op "batchfate": a server that dies — with an error or with a clean exit status 0 — after k of n
// requests while the cases it never served are marked known-failing: those cases could not be run,
// so the run must fail whatever the marking (C04: "a case that could not be set up or run … always
// counts against success even if marked known-failing or flaky").
type c04FateIn struct {
	N       int  `json:"n"`
	Dies    int  `json:"dies"`
	ExitNil bool `json:"exitNil"`
	Async   bool `json:"async"`
}

func init() {
	gen.RegisterOp("c04", "batchfate", func(_ *gen.Ctx, raw json.RawMessage) any {
		in := gen.Into[c04FateIn](raw)
		names := make([]string, in.N)
		cases := make([]cc.VerifC11Case, in.N)
		var kf []string
		for i := range names {
			names[i] = fmt.Sprintf("Suite/fate/case%d", i)
			cases[i] = cc.VerifC11Case{K: "mismatch", Async: in.Async}
			if i < in.Dies {
				cases[i] = cc.VerifC11Case{K: "pass", Async: in.Async}
			} else {
				kf = append(kf, names[i])
			}
		}
		spec := cc.VerifC11Spec{Names: names, Cases: cases, Start: "ok", Write: "ok", Close: "ok", Resp: "ok", Dies: in.Dies, ExitNil: in.ExitNil,
			RespLen: cc.VerifC11RespLen(), KnownFailing: kf}
		ok, lines, hang := cc.VerifC04BatchReport(spec)
		return map[string]any{"ok": ok, "lines": lines, "hang": hang}
	})
}

func c04Fate(c *gen.Ctx) {
	var ins []any
	for n := 1; n <= 3; n++ {
		for dies := 0; dies < n; dies++ {
			for _, nilExit := range []bool{false, true} {
				ins = append(ins, c04FateIn{N: n, Dies: dies, ExitNil: nilExit, Async: c.R.Bool()})
			}
		}
	}
	c.DoParallel("batchfate", ins, 4)
}

type c04FbIn struct {
	N      int      `json:"n"`
	Target int      `json:"target"`
	Msg    string   `json:"msg"`
	Noise  []string `json:"noise"`
	Chunk  int      `json:"chunk"`
	Async  bool     `json:"async"`
}

func c04Feedback(c *gen.Ctx) {
	c04Fate(c)
	r := c.R
	msgs := []string{
		"expected compression gzip; instead got identity",
		`invalid value for "x-expect-codec" header: "9": unknown`,
		"gRPC protocol client should use 'te: trailers' header",
		"a: b: c",
		"trailing colon: ",
		": leading",
		"plain",
		"tab\there: and there",
		"%s %d %!v(MISSING) 100% %[2]q",
		strings.Repeat("long ", 2000) + "line",
		"  two blanks in front",
		"non-ASCII: \u00fcn\u00ef \u2713",
	}
	n := 40
	if c.Thorough() {
		n = 600
	}
	for i := 0; i < n; i++ {
		in := c04FbIn{N: r.Range(1, 4), Msg: gen.Pick(r, msgs), Chunk: r.Intn(9), Async: r.Bool(), Noise: []string{}}
		if i < len(msgs) {
			in.Msg = msgs[i]
		}
		in.Target = r.Intn(in.N)
		for k := r.Intn(3); k > 0; k-- {
			in.Noise = append(in.Noise, gen.Pick(r, []string{"some log line", "note: unrelated: text", "", "Other/case: not in this batch"}))
		}
		c.Do("feedback", in)
	}
}
