/-
Helper lemmas for C16: the hand-off through the real transport with asynchronous completion
(model `ConfModel.WireAsync`, lowered onto `ConfModel.WireHandoff`).
-/
import ConfModel.Lemmas.HandoffGlue
import ConfModel.Model.WireAsync

namespace ConfModel.WireAsync
open ConfModel.WireHandoff ConfModel.HandoffGlue

/-! #### one call: the gate (finite case analysis) -/

theorem gate_some (r : RT) (e : Ev) (c : Nat) (h : (gate r e).2 = some c) :
    r.closed = false ∧ (gate r e).1.closed = true ∧ 1 ≤ c ∧ c ≤ 5 := by
  rcases r with ⟨p, cl, d, g⟩
  cases e with
  | rtEnd ok => cases ok <;> cases p <;> cases cl <;> cases d <;> cases g <;> simp_all [gate, finish, arm] <;> omega
  | _ => cases p <;> cases cl <;> cases d <;> cases g <;> simp_all [gate, finish, arm] <;> omega

theorem gate_closed (r : RT) (e : Ev) (h : r.closed = true) :
    (gate r e).1.closed = true ∧ (gate r e).2 = none := by
  rcases r with ⟨p, cl, d, g⟩
  cases e with
  | rtEnd ok => cases ok <;> cases p <;> cases cl <;> cases d <;> cases g <;> simp_all [gate, finish, arm]
  | _ => cases p <;> cases cl <;> cases d <;> cases g <;> simp_all [gate, finish, arm]

theorem gate_none (r : RT) (e : Ev) (h : (gate r e).2 = none) : (gate r e).1.closed = r.closed := by
  rcases r with ⟨p, cl, d, g⟩
  cases e with
  | rtEnd ok => cases ok <;> cases p <;> cases cl <;> cases d <;> cases g <;> simp_all [gate, finish, arm]
  | _ => cases p <;> cases cl <;> cases d <;> cases g <;> simp_all [gate, finish, arm]

theorem completing_closes (r : RT) (e : Ev) (h : completing r e = true) : (gate r e).1.closed = true := by
  rcases r with ⟨p, cl, d, g⟩
  cases e with
  | rtEnd ok => cases ok <;> cases p <;> cases cl <;> cases d <;> cases g <;> simp_all [gate, finish, arm, completing]
  | _ => cases p <;> cases cl <;> cases d <;> cases g <;> simp_all [gate, finish, arm, completing]

/-- what is always true of a call's transport state -/
def RInv (r : RT) : Prop :=
  (r.phase ≠ .none → r.ctxDone = true → r.gor ≠ .idle) ∧ (r.gor = .spent → r.closed = true) ∧
  (r.phase = .none → r.gor = .idle ∧ r.closed = false) ∧ (r.phase = .done → r.closed = true ∧ r.gor ≠ .idle)

theorem rinv_init : RInv RT.init := by simp [RInv, RT.init]

theorem rinv_gate (r : RT) (e : Ev) (h : RInv r) : RInv (gate r e).1 := by
  rcases r with ⟨p, cl, d, g⟩
  cases e with
  | rtEnd ok => cases ok <;> cases p <;> cases cl <;> cases d <;> cases g <;> simp_all [gate, finish, arm, RInv]
  | _ => cases p <;> cases cl <;> cases d <;> cases g <;> simp_all [gate, finish, arm, RInv]

theorem tr_div (k c : Nat) (h : c ≤ 5) : tr k c / 8 = k := by
  unfold tr; omega

/-! #### scripts -/

@[simp] theorem updR_same (f : Nat → RT) (k : Nat) (r : RT) : updR f k r k = r := by simp [updR]
theorem updR_other (f : Nat → RT) (k x : Nat) (r : RT) (h : x ≠ k) : updR f k r x = f x := by
  simp [updR, h]

theorem lowerAll_append : ∀ (a b : List AOp) (r : Nat → RT),
    lowerAll r (a ++ b) = lowerAll r a ++ lowerAll (gateAll r a) b
  | [], _, _ => rfl
  | .ev k e :: a, b, r => by simp [lowerAll, gateAll, lowerAll_append a b]
  | .begin k :: a, b, r => by simp [lowerAll, gateAll, lowerAll_append a b]
  | .grace k :: a, b, r => by simp [lowerAll, gateAll, lowerAll_append a b]
  | .join k :: a, b, r => by simp [lowerAll, gateAll, lowerAll_append a b]
  | .peek k :: a, b, r => by simp [lowerAll, gateAll, lowerAll_append a b]

theorem rinv_gateAll : ∀ (ops : List AOp) (r : Nat → RT), (∀ k, RInv (r k)) → ∀ k, RInv (gateAll r ops k)
  | [], _, h => h
  | .ev j e :: os, r, h => by
    apply rinv_gateAll os
    intro x
    by_cases hx : x = j
    · subst hx; rw [updR_same]; exact rinv_gate _ _ (h x)
    · rw [updR_other _ _ _ _ hx]; exact h x
  | .begin _ :: os, r, h => rinv_gateAll os r h
  | .grace _ :: os, r, h => rinv_gateAll os r h
  | .join _ :: os, r, h => rinv_gateAll os r h
  | .peek _ :: os, r, h => rinv_gateAll os r h

theorem completesCall_lowerEv_other (k j : Nat) (c : Option Nat) (h : j ≠ k) :
    completesCall k (lowerEv j c) = none := by
  have : (j == k) = false := by simpa using h
  cases c <;> simp [lowerEv, completesCall, this]

theorem completesCall_lowerEv_same (k : Nat) (c : Option Nat) :
    completesCall k (lowerEv k c) = c.map (tr k) := by
  cases c <;> simp [lowerEv, completesCall]

/-- every completion in a lowered script is the trace of its own call -/
theorem lower_right : ∀ (ops : List AOp) (r : Nat → RT) (j t : Nat),
    Op.complete j t ∈ lowerAll r ops → t / 8 = j
  | [], _, _, _, h => by simp [lowerAll] at h
  | .ev k e :: os, r, j, t, h => by
    simp only [lowerAll, List.mem_cons] at h
    rcases h with h | h
    · cases hg : (gate (r k) e).2 with
      | none => rw [hg] at h; simp [lowerEv] at h
      | some c =>
        rw [hg] at h
        simp only [lowerEv, Op.complete.injEq] at h
        obtain ⟨rfl, rfl⟩ := h
        exact tr_div _ _ (gate_some _ _ _ hg).2.2.2
    · exact lower_right os _ j t h
  | .begin k :: os, r, j, t, h => by
    simp only [lowerAll, List.mem_cons] at h
    rcases h with h | h
    · cases h
    · exact lower_right os _ j t h
  | .grace k :: os, r, j, t, h => by
    simp only [lowerAll, List.mem_cons] at h
    rcases h with h | h
    · cases h
    · exact lower_right os _ j t h
  | .join k :: os, r, j, t, h => by
    simp only [lowerAll, List.mem_cons] at h
    rcases h with h | h
    · cases h
    · exact lower_right os _ j t h
  | .peek k :: os, r, j, t, h => by
    simp only [lowerAll, List.mem_cons] at h
    rcases h with h | h
    · cases h
    · exact lower_right os _ j t h

/-- the builder lets at most one finishing event through -/
theorem lower_count (k : Nat) : ∀ (ops : List AOp) (r : Nat → RT),
    ((lowerAll r ops).filterMap (completesCall k)).length ≤ (if (r k).closed then 0 else 1)
  | [], r => by simp [lowerAll]
  | .ev j e :: os, r => by
    simp only [lowerAll]
    by_cases hj : j = k
    · subst hj
      have ih := lower_count j os (updR r j (gate (r j) e).1)
      rw [updR_same] at ih
      cases hg : (gate (r j) e).2 with
      | none =>
        have hc := gate_none _ _ hg
        rw [List.filterMap_cons, completesCall_lowerEv_same]
        simp only [Option.map_none]
        rw [hc] at ih; exact ih
      | some c =>
        obtain ⟨h1, h2, _⟩ := gate_some _ _ _ hg
        rw [List.filterMap_cons, completesCall_lowerEv_same]
        simp only [Option.map_some, List.length_cons]
        rw [h2] at ih
        simp only [if_true, Nat.le_zero] at ih
        rw [h1, ih]; simp
    · have ih := lower_count k os (updR r j (gate (r j) e).1)
      rw [updR_other _ _ _ _ (fun h => hj h.symm)] at ih
      rw [List.filterMap_cons, completesCall_lowerEv_other k j _ hj]
      exact ih
  | .begin j :: os, r => by
    simp only [lowerAll, List.filterMap_cons, completesCall]; exact lower_count k os r
  | .grace j :: os, r => by
    simp only [lowerAll, List.filterMap_cons, completesCall]; exact lower_count k os r
  | .join j :: os, r => by
    simp only [lowerAll, List.filterMap_cons, completesCall]; exact lower_count k os r
  | .peek j :: os, r => by
    simp only [lowerAll, List.filterMap_cons, completesCall]; exact lower_count k os r

/-- a closed builder has handed its trace over: there is a completion in the lowered script -/
theorem closed_first (k : Nat) : ∀ (ops : List AOp) (r : Nat → RT),
    (gateAll r ops k).closed = true → (r k).closed = true ∨ (firstTrace k (lowerAll r ops)).isSome = true
  | [], r, h => Or.inl h
  | .ev j e :: os, r, h => by
    simp only [gateAll] at h
    rcases closed_first k os _ h with h1 | h1
    · by_cases hj : j = k
      · subst hj
        rw [updR_same] at h1
        cases hg : (gate (r j) e).2 with
        | none => left; rw [← gate_none _ _ hg]; exact h1
        | some c =>
          right
          simp only [lowerAll]
          rw [firstTrace_cons, completesCall_lowerEv_same, hg]; simp
      · rw [updR_other _ _ _ _ (fun h => hj h.symm)] at h1; exact Or.inl h1
    · right
      simp only [lowerAll]
      rw [firstTrace_cons]
      cases completesCall k (lowerEv j (gate (r j) e).2) <;> simp [h1]
  | .begin j :: os, r, h => by
    rcases closed_first k os r h with h1 | h1
    · exact Or.inl h1
    · right; simp only [lowerAll]; rw [firstTrace_cons]; simpa [completesCall] using h1
  | .grace j :: os, r, h => by
    rcases closed_first k os r h with h1 | h1
    · exact Or.inl h1
    · right; simp only [lowerAll]; rw [firstTrace_cons]; simpa [completesCall] using h1
  | .join j :: os, r, h => by
    rcases closed_first k os r h with h1 | h1
    · exact Or.inl h1
    · right; simp only [lowerAll]; rw [firstTrace_cons]; simpa [completesCall] using h1
  | .peek j :: os, r, h => by
    rcases closed_first k os r h with h1 | h1
    · exact Or.inl h1
    · right; simp only [lowerAll]; rw [firstTrace_cons]; simpa [completesCall] using h1

theorem firstTrace_mem (k : Nat) : ∀ (ops : List Op) (t : Nat), firstTrace k ops = some t → Op.complete k t ∈ ops
  | [], t, h => by simp [firstTrace_nil] at h
  | o :: os, t, h => by
    rw [firstTrace_cons] at h
    cases hc : completesCall k o with
    | none => rw [hc] at h; simp at h; exact List.mem_cons_of_mem _ (firstTrace_mem k os t h)
    | some t' =>
      rw [hc] at h; simp at h; subst h
      cases o with
      | complete j t2 =>
        simp only [completesCall] at hc
        split at hc
        · rename_i hj; simp at hj hc; subst hj; subst hc; simp
        · simp at hc
      | _ => simp [completesCall] at hc

/-! #### the hand-off model on a lowered script -/

theorem step_panic (s : St) (o : Op) (h : (step s o).2 = .panic) :
    ∃ k t, o = .complete k t ∧ ((s.calls k).avail).isSome = true := by
  cases o with
  | begin k =>
    simp only [step] at h
    split at h
    · simp at h
    · split at h
      · simp at h
      · split at h <;> simp at h
  | ctxDone k => simp [step] at h
  | complete k t =>
    refine ⟨k, t, rfl, ?_⟩
    simp only [step] at h
    split at h
    · simp at h
    · cases ha : (s.calls k).avail with
      | none => rw [ha] at h; simp at h
      | some t => rfl
  | grace k =>
    simp only [step] at h
    split at h
    · split at h <;> simp at h
    · simp at h
  | join k =>
    simp only [step] at h
    split at h
    · split at h <;> simp at h
    · simp at h
  | peek k =>
    simp only [step] at h
    split at h
    · split at h <;> simp at h
    · simp at h

theorem completesCall_some (k : Nat) (o : Op) (t : Nat) (h : completesCall k o = some t) : o = .complete k t := by
  cases o with
  | complete j t2 =>
    simp only [completesCall] at h
    split at h
    · rename_i hj; simp at hj h; subst hj; subst h; rfl
    · simp at h
  | _ => simp [completesCall] at h

/-- a call's trace after one step is the one it had, or the one this step completes -/
theorem step_avail_cases (s : St) (o : Op) (x t : Nat)
    (hb : (s.calls x).wrapped = false → (s.calls x).avail = none)
    (h : ((step s o).1.calls x).avail = some t) :
    (s.calls x).avail = some t ∨ o = .complete x t := by
  cases hw : (s.calls x).wrapped with
  | false => rw [step_avail_bare s o x hw (hb hw)] at h; simp at h
  | true =>
    rw [step_avail s o x hw] at h
    cases ha : (s.calls x).avail with
    | some a => rw [ha] at h; simp at h; left; rw [h]
    | none => rw [ha] at h; simp at h; right; exact completesCall_some _ _ _ h

/-- bare calls never hold a trace -/
def BareOK (s : St) : Prop := ∀ x, (s.calls x).wrapped = false → (s.calls x).avail = none

theorem bareOK_step (s : St) (o : Op) (h : BareOK s) : BareOK (step s o).1 := by
  intro x hw
  rw [step_wrapped] at hw
  exact step_avail_bare s o x hw (h x hw)

theorem bareOK_init (bare : List Nat) : BareOK (WireHandoff.init bare) := by
  intro x _; simp [WireHandoff.init]

/-- the joint invariant of the hand-off state and the gates: a stored trace means a closed builder -/
def Joint (s : St) (r : Nat → RT) : Prop :=
  BareOK s ∧ ∀ k, ((s.calls k).avail).isSome = true → (r k).closed = true

theorem joint_init (bare : List Nat) : Joint (WireHandoff.init bare) init0 :=
  ⟨bareOK_init bare, fun k h => by simp [WireHandoff.init] at h⟩

theorem no_panic : ∀ (ops : List AOp) (s : St) (r : Nat → RT), Joint s r →
    Obs.panic ∉ (exec s (lowerAll r ops)).2
  | [], _, _, _ => by simp [lowerAll, exec]
  | .ev k e :: os, s, r, hj => by
    simp only [lowerAll, exec, List.mem_cons, not_or]
    constructor
    · intro hp
      obtain ⟨k', t, ho, ha⟩ := step_panic _ _ hp.symm
      cases hg : (gate (r k) e).2 with
      | none => rw [hg] at ho; simp [lowerEv] at ho
      | some c =>
        rw [hg] at ho
        simp only [lowerEv, Op.complete.injEq] at ho
        obtain ⟨rfl, _⟩ := ho
        have := hj.2 _ ha
        rw [(gate_some _ _ _ hg).1] at this; simp at this
    · apply no_panic os
      refine ⟨bareOK_step _ _ hj.1, ?_⟩
      intro x hx
      cases hav : ((step s (lowerEv k (gate (r k) e).2)).1.calls x).avail with
      | none => rw [hav] at hx; simp at hx
      | some t =>
        rcases step_avail_cases s _ x t (hj.1 x) hav with h1 | h1
        · have hc := hj.2 x (by rw [h1]; rfl)
          by_cases hxk : x = k
          · subst hxk; rw [updR_same]; exact (gate_closed _ _ hc).1
          · rw [updR_other _ _ _ _ hxk]; exact hc
        · cases hg : (gate (r k) e).2 with
          | none => rw [hg] at h1; simp [lowerEv] at h1
          | some c =>
            rw [hg] at h1
            simp only [lowerEv, Op.complete.injEq] at h1
            obtain ⟨rfl, _⟩ := h1
            rw [updR_same]; exact (gate_some _ _ _ hg).2.1
  | .begin k :: os, s, r, hj => by
    simp only [lowerAll, exec, List.mem_cons, not_or]
    constructor
    · intro hp
      obtain ⟨_, _, ho, _⟩ := step_panic _ _ hp.symm
      cases ho
    · apply no_panic os
      refine ⟨bareOK_step _ _ hj.1, ?_⟩
      intro x hx
      cases hav : ((step s (.begin k)).1.calls x).avail with
      | none => rw [hav] at hx; simp at hx
      | some t =>
        rcases step_avail_cases s _ x t (hj.1 x) hav with h1 | h1
        · exact hj.2 x (by rw [h1]; rfl)
        · cases h1
  | .grace k :: os, s, r, hj => by
    simp only [lowerAll, exec, List.mem_cons, not_or]
    constructor
    · intro hp
      obtain ⟨_, _, ho, _⟩ := step_panic _ _ hp.symm
      cases ho
    · apply no_panic os
      refine ⟨bareOK_step _ _ hj.1, ?_⟩
      intro x hx
      cases hav : ((step s (.grace k)).1.calls x).avail with
      | none => rw [hav] at hx; simp at hx
      | some t =>
        rcases step_avail_cases s _ x t (hj.1 x) hav with h1 | h1
        · exact hj.2 x (by rw [h1]; rfl)
        · cases h1
  | .join k :: os, s, r, hj => by
    simp only [lowerAll, exec, List.mem_cons, not_or]
    constructor
    · intro hp
      obtain ⟨_, _, ho, _⟩ := step_panic _ _ hp.symm
      cases ho
    · apply no_panic os
      refine ⟨bareOK_step _ _ hj.1, ?_⟩
      intro x hx
      cases hav : ((step s (.join k)).1.calls x).avail with
      | none => rw [hav] at hx; simp at hx
      | some t =>
        rcases step_avail_cases s _ x t (hj.1 x) hav with h1 | h1
        · exact hj.2 x (by rw [h1]; rfl)
        · cases h1
  | .peek k :: os, s, r, hj => by
    simp only [lowerAll, exec, List.mem_cons, not_or]
    constructor
    · intro hp
      obtain ⟨_, _, ho, _⟩ := step_panic _ _ hp.symm
      cases ho
    · apply no_panic os
      refine ⟨bareOK_step _ _ hj.1, ?_⟩
      intro x hx
      cases hav : ((step s (.peek k)).1.calls x).avail with
      | none => rw [hav] at hx; simp at hx
      | some t =>
        rcases step_avail_cases s _ x t (hj.1 x) hav with h1 | h1
        · exact hj.2 x (by rw [h1]; rfl)
        · cases h1

/-- the call an operation's observation belongs to -/
def waiterOf : Op → Option Nat
  | .begin k | .grace k | .join k | .peek k => some k
  | _ => none

/-- an examination only ever returns the trace stored for its own call -/
theorem step_obs_trace (s : St) (o : Op) (t : Nat) (h : (step s o).2 = .trace t) :
    ∃ k, waiterOf o = some k ∧ (s.calls k).avail = some t := by
  cases o with
  | begin k =>
    refine ⟨k, rfl, ?_⟩
    simp only [step] at h
    split at h
    · simp at h
    · split at h
      · simp at h
      · split at h
        · rename_i t' ha; simp at h; rw [ha, h]
        · simp at h
  | ctxDone k => simp [step] at h
  | complete k t' =>
    simp only [step] at h
    split at h
    · simp at h
    · split at h <;> simp at h
  | grace k =>
    refine ⟨k, rfl, ?_⟩
    simp only [step] at h
    split at h
    · split at h
      · rename_i t' ha; simp at h; rw [ha, h]
      · simp at h
    · simp at h
  | join k =>
    refine ⟨k, rfl, ?_⟩
    simp only [step] at h
    split at h
    · split at h
      · rename_i t' ha; simp at h; rw [ha, h]
      · simp at h
    · simp at h
  | peek k =>
    refine ⟨k, rfl, ?_⟩
    simp only [step] at h
    split at h
    · split at h
      · rename_i t' ha; simp at h; rw [ha, h]
      · simp at h
    · simp at h

/-- every observation `trace t` at an operation of call `k`'s waiter is a trace of call `k` -/
def rightObs (o : Op) : Obs → Bool
  | .trace t => waiterOf o == some (t / 8)
  | _ => true

theorem right_exec : ∀ (L : List Op) (s : St), BareOK s →
    (∀ k t, (s.calls k).avail = some t → t / 8 = k) →
    (∀ j t, Op.complete j t ∈ L → t / 8 = j) →
    ∀ p ∈ L.zip (exec s L).2, rightObs p.1 p.2 = true
  | [], _, _, _, _ => by simp [exec]
  | o :: os, s, hb, hk, hl => by
    intro p hp
    simp only [exec, List.zip_cons_cons, List.mem_cons] at hp
    rcases hp with hp | hp
    · subst hp
      cases hob : (step s o).2 with
      | trace t =>
        obtain ⟨k, hw, ha⟩ := step_obs_trace s o t hob
        simp [rightObs, hw, hk k t ha]
      | _ => simp [rightObs]
    · refine right_exec os _ (bareOK_step s o hb) ?_ (fun j t h => hl j t (List.mem_cons_of_mem _ h)) p hp
      intro k t ha
      rcases step_avail_cases s o k t (hb k) ha with h1 | h1
      · exact hk k t h1
      · exact hl k t (by rw [h1]; simp)

end ConfModel.WireAsync
