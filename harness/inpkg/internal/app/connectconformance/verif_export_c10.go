//go:build verif

package connectconformance

import (
	"context"
	"encoding/binary"
	"errors"
	"fmt"
	"io"
	"sort"
	"strconv"
	"strings"
	"sync"
	"time"

	"connectrpc.com/conformance/internal"
	conformancev1 "connectrpc.com/conformance/internal/gen/proto/go/connectrpc/conformance/v1"
	"google.golang.org/protobuf/proto"
)

// VerifC10Act is one action of the scripted client program.
//
//	recv            read one complete request from stdin (no-op once stdin is at EOF)
//	resp  m         write a complete, well-formed response whose TestName is name m
//	over            write a length prefix of maxClientResponseSize+1 (nothing else)
//	garbage         write a correct prefix followed by bytes that are not a protobuf message
//	cut   m k len   write only the first k bytes (0 <= k <= len) of the response for name m
//	exit  code      return from the client function (code 0: nil, otherwise an error)
//	hang            do nothing until the harness releases the client (which it does once the reader
//	                goroutine of the runner has finished and isRunning() was sampled)
//
// When the runner aborts the client (context cancelled) the client stops at its next or
// current blocking operation and exits with an error.  A client whose script contains a hang
// lingers: until it is released it ignores the abort altogether (a wedged in-process client, an
// OS process that is slow to die) — the runner must not wait for the process to go away before it
// reports the client as no longer running.
type VerifC10Act struct {
	K    string `json:"k"`
	M    int    `json:"m,omitempty"`
	N    int    `json:"n,omitempty"`
	Len  int    `json:"len,omitempty"`
	Code int    `json:"code,omitempty"`
}

// VerifC10Spec describes one scenario: request i has test name VerifC10Name(Names[i]);
// sender goroutine g sends the requests Senders[g] in order (always all of them).
type VerifC10Spec struct {
	Names   []int         `json:"names"`
	Senders [][]int       `json:"senders"`
	Client  []VerifC10Act `json:"client"`
}

// VerifC10Obs is what the property names: each sendRequest return, the callbacks per request,
// the return of waitForResponses, isRunning afterwards, and the fate of a later send.
type VerifC10Obs struct {
	Rets    []string `json:"rets"`    // ok | closed | dup | fail | unsent
	// Cbs per request: sorted list; m >= 0 response named m, -2 response with foreign name; an error
	// callback is -1 / -3 when the error is the reader's reason for giving up (failure of the output
	// stream) and isRunning(), sampled inside the callback, was false / true; -4 / -5 when the error is
	// errNoOutcome (clean end of the output stream) and isRunning() was false / true
	Cbs [][]int `json:"cbs"`
	// RunAtDone: isRunning() sampled as soon as the reader goroutine had finished (c.done closed,
	// the first thing waitForResponses waits for), while a lingering client is still there
	RunAtDone bool   `json:"runAtDone"`
	Wait      string `json:"wait"` // nil | closed | proc | fail | hang
	Running bool     `json:"running"` // isRunning() once waitForResponses has returned (polled up to 2 s for false)
	Late    string   `json:"late"`    // return of a sendRequest issued after everything
	LateCbs int      `json:"lateCbs"` // callbacks of that late request
	Hang    string   `json:"hang,omitempty"`
	// The callbacks RETAIN the responses they are handed (the pointer, no copy); Cbs is what they hold
	// when the whole scenario has ended, CbsCall what each saw at the moment it was called (same
	// order of the sorted lists' underlying sequence: compared as sorted lists), Shared: two callbacks
	// were handed the very same message object
	CbsCall [][]int `json:"cbsCall"`
	Shared  bool    `json:"shared,omitempty"`
}

// verifC10Kept is one response a callback keeps.
type verifC10Kept struct {
	i     int
	name  string
	resp  *conformancev1.ClientCompatResponse
	vCall int
}

// verifC10RespCode: m >= 0 the response is the one the scripted client wrote for name m and it was
// handed to the callback of the request with that name; -2 otherwise
func verifC10RespCode(want, name string, resp *conformancev1.ClientCompatResponse) int {
	if resp != nil && name == want && resp.GetTestName() == name {
		if p := resp.GetResponse().GetPayloads(); len(p) == 1 && string(p[0].GetData()) == name {
			return verifC10Index(resp.GetTestName())
		}
	}
	return -2
}

// verifC10Settle looks at the kept responses again (after the scenario has ended) and reports the
// values per request at the end and at call time, and whether two callbacks share one object.
func verifC10Settle(n int, kept []verifC10Kept, wantOf func(i int) string) (end, call [][]int, shared bool) {
	end, call = make([][]int, n), make([][]int, n)
	for i := range end {
		end[i], call[i] = []int{}, []int{}
	}
	seen := map[*conformancev1.ClientCompatResponse]bool{}
	for _, k := range kept {
		v := k.vCall
		if k.resp != nil {
			v = verifC10RespCode(wantOf(k.i), k.name, k.resp)
			if seen[k.resp] {
				shared = true
			}
			seen[k.resp] = true
		}
		end[k.i] = append(end[k.i], v)
		call[k.i] = append(call[k.i], k.vCall)
	}
	for i := range end {
		sort.Ints(end[i])
		sort.Ints(call[i])
	}
	return end, call, shared
}

func VerifC10Name(m int) string { return "n" + strconv.Itoa(m) }

func verifC10Index(name string) int {
	if strings.HasPrefix(name, "n") {
		if v, err := strconv.Atoi(name[1:]); err == nil && v >= 0 {
			return v
		}
	}
	return -2
}

// VerifC10RespBytes is the framed response the scripted client writes for name m.
func VerifC10RespBytes(m int) []byte {
	resp := &conformancev1.ClientCompatResponse{
		TestName: VerifC10Name(m),
		Result: &conformancev1.ClientCompatResponse_Response{
			Response: &conformancev1.ClientResponseResult{
				Payloads: []*conformancev1.ConformancePayload{{Data: []byte(VerifC10Name(m))}},
			},
		},
	}
	data, err := proto.MarshalOptions{Deterministic: true}.Marshal(resp)
	if err != nil {
		panic(err)
	}
	out := make([]byte, 4+len(data))
	binary.BigEndian.PutUint32(out, uint32(len(data)))
	copy(out[4:], data)
	return out
}

func VerifC10MaxClientResponseSize() int { return maxClientResponseSize }

var errVerifC10Exit = errors.New("verif scripted client exit 1")
var errVerifC10Aborted = errors.New("verif scripted client aborted")

func verifC10Client(script []VerifC10Act, release <-chan struct{}) func(ctx context.Context, _ []string, in io.ReadCloser, out, _ io.WriteCloser) error {
	lingers := false
	for _, act := range script {
		if act.K == "hang" {
			lingers = true
		}
	}
	return func(ctx context.Context, _ []string, in io.ReadCloser, out, _ io.WriteCloser) error {
		// every blocking pipe operation can be interrupted by the runner's abort — which a
		// lingering client only notices once it has been released
		cancelled := ctx.Done()
		if lingers {
			ch := make(chan struct{})
			go func() {
				<-release
				<-ctx.Done()
				close(ch)
			}()
			cancelled = ch
		}
		do := func(f func() error) error {
			select {
			case <-cancelled:
				return errVerifC10Aborted
			default:
			}
			ch := make(chan error, 1)
			go func() { ch <- f() }()
			select {
			case err := <-ch:
				return err
			case <-cancelled:
				return errVerifC10Aborted
			}
		}
		write := func(b []byte) error {
			return do(func() error {
				_, err := out.Write(b)
				if err != nil {
					return errVerifC10Aborted
				}
				return nil
			})
		}
		stdinEOF := false
		for _, act := range script {
			switch act.K {
			case "recv":
				if stdinEOF {
					continue
				}
				err := do(func() error {
					var pre [4]byte
					if _, err := io.ReadFull(in, pre[:]); err != nil {
						stdinEOF = true
						return nil
					}
					body := make([]byte, binary.BigEndian.Uint32(pre[:]))
					if _, err := io.ReadFull(in, body); err != nil {
						stdinEOF = true
					}
					return nil
				})
				if err != nil {
					return err
				}
			case "resp":
				if err := write(VerifC10RespBytes(act.M)); err != nil {
					return err
				}
			case "over":
				var pre [4]byte
				binary.BigEndian.PutUint32(pre[:], uint32(maxClientResponseSize+1))
				if err := write(pre[:]); err != nil {
					return err
				}
			case "garbage":
				if err := write([]byte{0, 0, 0, 3, 0xff, 0xff, 0xff}); err != nil {
					return err
				}
			case "cut":
				b := VerifC10RespBytes(act.M)
				if len(b) != act.Len {
					panic(fmt.Sprintf("c10: response length for name %d is %d, generator said %d", act.M, len(b), act.Len))
				}
				k := act.N
				if k > len(b) {
					k = len(b)
				}
				if k > 0 {
					if err := write(b[:k]); err != nil {
						return err
					}
				}
			case "exit":
				if act.Code != 0 {
					return errVerifC10Exit
				}
				return nil
			case "hang":
				<-release
			default:
				panic("c10: unknown client action " + act.K)
			}
		}
		return nil
	}
}

func verifC10SendClass(err error) string {
	switch {
	case err == nil:
		return "ok"
	case errors.Is(err, errClosed):
		return "closed"
	case errors.Is(err, errDuplicate):
		return "dup"
	default:
		return "fail"
	}
}

// VerifC10Run runs the real runClient / clientProcessRunner on an in-process scripted client.
func VerifC10Run(spec VerifC10Spec) VerifC10Obs {
	n := len(spec.Names)
	obs := VerifC10Obs{Rets: make([]string, n), Cbs: make([][]int, n)}
	for i := range obs.Rets {
		obs.Rets[i] = "unsent"
		obs.Cbs[i] = []int{}
	}
	ctx, cancel := context.WithCancel(context.Background())
	defer cancel()
	release := make(chan struct{})
	var releaseOnce sync.Once
	doRelease := func() { releaseOnce.Do(func() { close(release) }) }
	defer doRelease()
	runner, err := runClient(ctx, runInProcess([]string{"verif-client"}, verifC10Client(spec.Client, release)))
	if err != nil {
		obs.Hang = "runClient: " + err.Error()
		return obs
	}
	defer func() { go runner.stop() }()

	var mu sync.Mutex
	var kept []verifC10Kept
	callback := func(i int) func(string, *conformancev1.ClientCompatResponse, error) {
		want := VerifC10Name(spec.Names[i])
		return func(name string, resp *conformancev1.ClientCompatResponse, err error) {
			v := -1
			if err != nil {
				// "the runner reports the client as no longer running": sampled at the moment the
				// failure is reported to this request
				running := runner.isRunning()
				switch {
				case errors.Is(err, errNoOutcome) && running:
					v = -5
				case errors.Is(err, errNoOutcome):
					v = -4
				case running:
					v = -3
				}
			}
			if err == nil {
				v = verifC10RespCode(want, name, resp)
			} else {
				resp = nil
			}
			mu.Lock()
			obs.Cbs[i] = append(obs.Cbs[i], v)
			kept = append(kept, verifC10Kept{i: i, name: name, resp: resp, vCall: v}) // the pointer is kept, not a copy
			mu.Unlock()
		}
	}

	start := make(chan struct{})
	var wg sync.WaitGroup
	for _, reqs := range spec.Senders {
		wg.Add(1)
		go func(reqs []int) {
			defer wg.Done()
			<-start
			for _, i := range reqs {
				err := runner.sendRequest(&conformancev1.ClientCompatRequest{TestName: VerifC10Name(spec.Names[i])}, callback(i))
				mu.Lock()
				obs.Rets[i] = verifC10SendClass(err)
				mu.Unlock()
			}
		}(reqs)
	}
	close(start)
	sendersDone := make(chan struct{})
	go func() { wg.Wait(); close(sendersDone) }()
	sdog := VerifNewDog(10)
	defer sdog.Stop()
	select {
	case <-sendersDone:
	case <-sdog.C:
		mu.Lock()
		defer mu.Unlock()
		obs.Hang = "senders"
		obs.Wait = "hang"
		snap := obs
		snap.Rets = append([]string{}, obs.Rets...)
		snap.Cbs = make([][]int, len(obs.Cbs))
		for i := range obs.Cbs {
			snap.Cbs[i] = append([]int{}, obs.Cbs[i]...)
		}
		return snap
	}
	runner.closeSend()
	// the reader goroutine finishes whatever the client process does afterwards (a lingering client
	// is released only now)
	if cr, ok := runner.(*clientProcessRunner); ok {
		rdog := VerifNewDog(10)
		defer rdog.Stop()
		select {
		case <-cr.done:
		case <-rdog.C:
			mu.Lock()
			defer mu.Unlock()
			obs.Hang = "the output reader (consumeOutput)"
			obs.Wait = "hang"
			return obs
		}
	}
	obs.RunAtDone = runner.isRunning()
	doRelease()
	waitCh := make(chan error, 1)
	go func() { waitCh <- runner.waitForResponses() }()
	wdog := VerifNewDog(10)
	defer wdog.Stop()
	select {
	case werr := <-waitCh:
		switch {
		case werr == nil:
			obs.Wait = "nil"
		case errors.Is(werr, errClosed):
			obs.Wait = "closed"
		case errors.Is(werr, errVerifC10Exit), errors.Is(werr, errVerifC10Aborted), errors.Is(werr, context.DeadlineExceeded):
			obs.Wait = "proc"
		default:
			obs.Wait = "fail"
		}
	case <-wdog.C:
		mu.Lock()
		defer mu.Unlock()
		obs.Hang = "waitForResponses"
		obs.Wait = "hang"
		return obs
	}
	// the process-exit notification runs in its own goroutine: give it time
	deadline := time.Now().Add(2 * time.Second)
	for runner.isRunning() && time.Now().Before(deadline) {
		time.Sleep(200 * time.Microsecond)
	}
	obs.Running = runner.isRunning()
	lateCbs := 0
	lerr := runner.sendRequest(&conformancev1.ClientCompatRequest{TestName: "late"}, func(string, *conformancev1.ClientCompatResponse, error) {
		mu.Lock()
		lateCbs++
		mu.Unlock()
	})
	obs.Late = verifC10SendClass(lerr)
	time.Sleep(100 * time.Microsecond)
	mu.Lock()
	defer mu.Unlock()
	obs.LateCbs = lateCbs
	// everything has ended (all answers read, the reader finished, the client gone): what do the
	// callbacks hold now?
	obs.Cbs, obs.CbsCall, obs.Shared = verifC10Settle(n, kept, func(i int) string { return VerifC10Name(spec.Names[i]) })
	return obs
}

var _ = internal.DefaultHost
