//go:build verif

package connectconformance

import (
	"sort"
	"strings"

	conformancev1 "connectrpc.com/conformance/internal/gen/proto/go/connectrpc/conformance/v1"
	"google.golang.org/protobuf/proto"
)

// VerifC03LibCfg is one config case of the library under construction.
type VerifC03LibCfg struct {
	V   int  `json:"v"`
	P   int  `json:"p"`
	C   int  `json:"c"`
	Z   int  `json:"z"`
	TLS bool `json:"tls"`
}

// VerifC03LibPerm is what is observed of ONE test-case object that the library hands to the
// runner: where it comes from, whether its definition is the suite's, and what the real assert
// records when it is given THAT object and the reported result.
type VerifC03LibPerm struct {
	Name string `json:"name"`
	Case string `json:"case"` // simple name of the template
	Kind string `json:"kind"` // "", "client", "server", "both": which gRPC-impl copy
	P    int    `json:"p"`
	// Diff: the fields of the permutation that differ from its template although the library is
	// not documented to set them (sorted); empty = the definition was preserved.
	Diff []string `json:"diff"`
	// OrigDiff: for a copy, the fields in which it differs from the library's original
	// permutation (apart from the name); "no-original" when there is none.
	OrigDiff []string `json:"origDiff"`
	Recorded bool     `json:"recorded"`
	Texts    []string `json:"-"`
	Errs     []string `json:"errs"`
}

func verifC03LibDefDiff(perm, tmpl *conformancev1.TestCase, requestToo bool) []string {
	diff := []string{}
	if !proto.Equal(perm.GetExpectedResponse(), tmpl.GetExpectedResponse()) || (perm.GetExpectedResponse() == nil) != (tmpl.GetExpectedResponse() == nil) {
		diff = append(diff, "expectedResponse")
	}
	pc, tc := perm.GetOtherAllowedErrorCodes(), tmpl.GetOtherAllowedErrorCodes()
	same := len(pc) == len(tc)
	for i := 0; same && i < len(pc); i++ {
		same = pc[i] == tc[i]
	}
	if !same {
		diff = append(diff, "otherAllowedErrorCodes")
	}
	pe, te := perm.GetExpandRequests(), tmpl.GetExpandRequests()
	same = len(pe) == len(te)
	for i := 0; same && i < len(pe); i++ {
		same = proto.Equal(pe[i], te[i])
	}
	if !same {
		diff = append(diff, "expandRequests")
	}
	if requestToo {
		// everything of the request but the fields the library is documented to fill
		a := proto.Clone(perm.GetRequest()).(*conformancev1.ClientCompatRequest) //nolint:errcheck,forcetypeassert
		b := proto.Clone(tmpl.GetRequest()).(*conformancev1.ClientCompatRequest) //nolint:errcheck,forcetypeassert
		for _, r := range []*conformancev1.ClientCompatRequest{a, b} {
			r.TestName, r.HttpVersion, r.Protocol, r.Codec, r.Compression = "", 0, 0, 0, 0
			r.ServerTlsCert, r.ClientTlsCreds, r.MessageReceiveLimit = nil, nil, 0
			r.Service, r.Method, r.Host, r.Port = nil, nil, "", 0
		}
		if !proto.Equal(a, b) {
			diff = append(diff, "request")
		}
	}
	// anything else (unknown fields, fields added later): the whole message with the named parts blanked
	a := proto.Clone(perm).(*conformancev1.TestCase) //nolint:errcheck,forcetypeassert
	b := proto.Clone(tmpl).(*conformancev1.TestCase) //nolint:errcheck,forcetypeassert
	for _, t := range []*conformancev1.TestCase{a, b} {
		t.Request, t.ExpectedResponse, t.OtherAllowedErrorCodes, t.ExpandRequests = nil, nil, nil, nil
	}
	if !proto.Equal(a, b) {
		diff = append(diff, "other")
	}
	sort.Strings(diff)
	return diff
}

// VerifC03LibAssert builds a real testCaseLibrary from one suite made of the given templates
// (names must be distinct, stream types set) under the given config cases, takes EVERY object of
// allPermutations(true, true), compares each with its template / original, and runs the real
// assert with that object and `actual[simple name]`.
func VerifC03LibAssert(templates []*conformancev1.TestCase, cfgs []VerifC03LibCfg, actual map[string]*conformancev1.ClientResponseResult) (string, []VerifC03LibPerm) {
	suite := &conformancev1.TestSuite{Name: "Verif"}
	byName := map[string]*conformancev1.TestCase{}
	for _, t := range templates {
		// the library must not be able to reach the pristine copy kept for the comparison
		byName[t.GetRequest().GetTestName()] = proto.Clone(t).(*conformancev1.TestCase) //nolint:errcheck,forcetypeassert
		suite.TestCases = append(suite.TestCases, t)
	}
	var cases []configCase
	sts := map[conformancev1.StreamType]bool{}
	for _, t := range templates {
		sts[t.GetRequest().GetStreamType()] = true
	}
	for _, c := range cfgs {
		for st := range sts {
			cases = append(cases, configCase{
				Version: conformancev1.HTTPVersion(c.V), Protocol: conformancev1.Protocol(c.P), Codec: conformancev1.Codec(c.C),
				Compression: conformancev1.Compression(c.Z), StreamType: st, UseTLS: c.TLS,
			})
		}
	}
	lib, err := newTestCaseLibrary(map[string]*conformancev1.TestSuite{"verif.yaml": suite}, cases, conformancev1.TestSuite_TEST_MODE_UNSPECIFIED)
	if err != nil {
		return verifC03LibErr(err.Error()), nil
	}
	perms := lib.allPermutations(true, true)
	out := make([]VerifC03LibPerm, 0, len(perms))
	for _, perm := range perms {
		name := perm.GetRequest().GetTestName()
		obs := VerifC03LibPerm{Name: name, P: int(perm.GetRequest().GetProtocol()), OrigDiff: []string{}}
		origName := name
		for marker, kind := range map[string]string{grpcImplMarker: "both", grpcClientImplMarker: "client", grpcServerImplMarker: "server"} {
			if strings.Contains(name, "/"+marker+"/") {
				obs.Kind = kind
				origName = strings.Replace(name, "/"+marker+"/", "/", 1)
			}
		}
		obs.Case = name[strings.LastIndex(name, "/")+1:]
		tmpl := byName[obs.Case]
		if tmpl == nil {
			obs.Diff = []string{"no-template"}
			out = append(out, obs)
			continue
		}
		obs.Diff = verifC03LibDefDiff(perm, tmpl, true)
		if obs.Kind != "" {
			if orig := lib.testCases[origName]; orig == nil {
				obs.OrigDiff = []string{"no-original"}
			} else {
				obs.OrigDiff = verifC03LibDefDiff(perm, orig, false)
				a := proto.Clone(perm.GetRequest()).(*conformancev1.ClientCompatRequest) //nolint:errcheck,forcetypeassert
				a.TestName = origName
				if !proto.Equal(a, orig.GetRequest()) {
					obs.OrigDiff = append(obs.OrigDiff, "request")
				}
			}
		}
		obs.Recorded, obs.Texts = VerifC03Assert(perm, actual[obs.Case])
		out = append(out, obs)
	}
	sort.Slice(out, func(i, j int) bool { return out[i].Name < out[j].Name })
	return "", out
}

func verifC03LibErr(msg string) string {
	if len(msg) > 60 {
		msg = msg[:60]
	}
	return "library: " + msg
}
