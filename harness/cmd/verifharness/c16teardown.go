package main

// C16: exactly-once completion on a traced HTTP/2 connection for every Collector — the real
// TracingHTTP2Conn / http2RetryCollector over a scripted net.Conn with a COUNTING collector,
// through every tear-down sequence (failed Read, failed Write, Close, in every order and
// multiplicity) around streams that are refused in a retryable way, retried or not.

import (
	"encoding/json"
	"fmt"

	"connectrpc.com/conformance/internal/tracer"
	"connectrpc.com/conformance/internal/verifharness/gen"
)

type c16TeardownIn struct {
	Server bool     `json:"server"`
	Steps  []string `json:"steps"`
}

func init() {
	gen.RegisterOp("c16", "teardown", func(c *gen.Ctx, raw json.RawMessage) any {
		in := gen.Into[c16TeardownIn](raw)
		var out tracer.VerifC16TeardownOut
		for attempt := 0; attempt < 3; attempt++ {
			out = tracer.VerifC16Teardown(in.Server, in.Steps)
			if !out.Slow {
				return out
			}
			c.E.Count("teardown:repeated-too-slow")
		}
		c.E.Count("teardown:set-aside-too-slow")
		return out
	})
}

func c16TeardownGen(c *gen.Ctx) {
	r := c.R
	// histories on one connection: a stream refused (RST_STREAM REFUSED_STREAM) and never
	// retried, retried (retry finished / in flight / refused again), cut off by GOAWAY
	// (NO_ERROR: retryable; INTERNAL: not), ended normally, reset, still open, two streams
	// of one test name at once, a stream without test name
	bases := [][]string{
		{"o:1:a", "f:1"},
		{"o:1:a", "q:1", "f:1"},
		{"o:1:a", "f:1", "o:3:a", "p:3"},
		{"o:1:a", "f:1", "o:3:a"},
		{"o:1:a", "f:1", "o:3:a", "f:3"},
		{"o:1:a", "f:1", "o:3:b", "k:3"},
		{"o:1:a", "o:3:b", "g:1:0"},
		{"o:1:a", "o:3:b", "g:0:0"},
		{"o:1:a", "o:3:b", "g:0:0", "o:5:b", "p:5"},
		{"o:1:a", "g:0:2"},
		{"o:1:a", "p:1"},
		{"o:1:a", "q:1"},
		{"o:1:a", "kc:1"},
		{"o:1:a", "o:3:a", "f:1", "p:3"},
		{"o:1:-", "f:1", "o:3:a", "f:3"},
	}
	tds := []string{"re", "we", "cl", "ce", "rt"}
	maxLen := 3
	if c.Thorough() {
		maxLen = 4
	}
	var seqs [][]string
	var rec func(prefix []string)
	rec = func(prefix []string) {
		if len(prefix) > 0 {
			seqs = append(seqs, prefix)
		}
		if len(prefix) == maxLen {
			return
		}
		for _, t := range tds {
			rec(append(append([]string{}, prefix...), t))
		}
	}
	rec(nil)
	n := 0
	for bi, b := range bases {
		for si, td := range seqs {
			// EVERY tear-down sequence after the history
			c.Do("teardown", c16TeardownIn{Server: (bi+si)%2 == 1, Steps: append(append([]string{}, b...), td...)})
			n++
			// ... and split around a later part of the history (quick: a third of them)
			if len(td) >= 2 && len(b) >= 2 && (c.Thorough() || (bi+si)%3 == 0) {
				cut := 1 + (bi+si)%(len(b)-1)
				k := 1 + (si % (len(td) - 1))
				steps := append(append(append(append([]string{}, b[:cut]...), td[:k]...), b[cut:]...), td[k:]...)
				c.Do("teardown", c16TeardownIn{Server: (bi+si)%2 == 0, Steps: steps})
				n++
			}
		}
	}
	c.E.Add("teardown:exhaustive-tear-downs", n)
	// random scripts
	nRand := 1500
	if c.Thorough() {
		nRand = 30000
	}
	for i := 0; i < nRand; i++ {
		var steps []string
		next := 1
		var open []int
		names := []string{"a", "a", "b", "c", "-"}
		for k := r.Range(3, 12); k > 0; k-- {
			switch x := r.Intn(20); {
			case x < 5 || len(open) == 0:
				steps = append(steps, fmt.Sprintf("o:%d:%s", next, gen.Pick(r, names)))
				open = append(open, next)
				next += 2
			case x < 9:
				steps = append(steps, fmt.Sprintf("f:%d", gen.Pick(r, open)))
			case x < 11:
				steps = append(steps, fmt.Sprintf("p:%d", gen.Pick(r, open)))
			case x < 12:
				steps = append(steps, fmt.Sprintf("%s:%d", gen.Pick(r, []string{"k", "kc", "q"}), gen.Pick(r, open)))
			case x < 14:
				steps = append(steps, fmt.Sprintf("g:%d:%d", gen.Pick(r, []int{0, 1, 3, next}), gen.Pick(r, []int{0, 0, 2})))
			default:
				steps = append(steps, gen.Pick(r, tds))
			}
		}
		for k := r.Range(0, 3); k > 0; k-- {
			steps = append(steps, gen.Pick(r, tds))
		}
		c.Do("teardown", c16TeardownIn{Server: r.Bool(), Steps: steps})
	}
	// the retry timer (3 s) fires before / between / after the tear-downs: a few scripts
	timed := [][]string{
		{"o:1:a", "f:1", "t", "cl", "cl"},
		{"o:1:a", "f:1", "re", "t", "cl"},
		{"o:1:a", "f:1", "t", "re", "we", "cl"},
		{"o:1:a", "o:3:b", "g:0:0", "t", "cl", "cl"},
		{"o:1:a", "f:1", "o:3:a", "f:3", "t", "re", "cl"},
		{"o:1:a", "f:1", "o:3:b", "f:3", "cl", "t", "cl"},
	}
	if c.Thorough() {
		for i := 0; i < 24; i++ {
			b := gen.Pick(r, bases)
			cut := r.Intn(len(b) + 1)
			steps := append(append(append([]string{}, b[:cut]...), "t"), b[cut:]...)
			for k := r.Range(1, 3); k > 0; k-- {
				steps = append(steps, gen.Pick(r, tds))
			}
			if r.Bool() {
				steps = append(steps, "t", gen.Pick(r, tds))
			}
			timed = append(timed, steps)
		}
	}
	var ins []any
	for i, s := range timed {
		ins = append(ins, c16TeardownIn{Server: i%2 == 1, Steps: s})
	}
	c.E.Add("teardown:scripts-with-a-real-retry-timer", len(ins))
	c.DoParallel("teardown", ins, 16)
}
