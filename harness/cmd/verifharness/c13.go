package main

// C13 — reference client wire checks (wire_details.go) against the repository's own
// encoders (grpcutil.PercentEncodeMessage, grpcStatusTrailers, grpcWebStatusEndStream, the
// reference server handler) and against malformed input.
//
// ops (bytes are hex)
//   percent  : {msg}                         -> PercentEncodeMessage and what checkGRPCStatus says about it
//   status   : {headers:[[key,[val..]]..]}   -> checkGRPCStatus on that header map
//   grpcweb  : {block}                       -> examineGRPCEndStream, then checkGRPCStatus on its result
//   own      : {code,msg,details,trailers}   -> grpcWebStatusEndStream of that error, examined as above
//   cerr     : {json, kind}                  -> examineConnectError, the duplicate-preserving parse, the debug oracle
//   cend     : {json, kind}                  -> examineConnectEndStream, likewise (c13json.go)
//   serve    : {proto,codec,stream,code,msg,details,headers,trailers} -> the reference server handler
//              answers such an error in memory; the response goes through examineWireDetails
//   wire     : {ct,status,trailers,endStream,...} -> examineWireDetails dispatch / HTTP trailers
//
// The printer's messages are mapped to a feedback-class enum by anchored regular expressions.

import (
	"bytes"
	"encoding/base64"
	"encoding/binary"
	"encoding/hex"
	"encoding/json"
	"fmt"
	"net/http"
	"net/http/httptest"
	"regexp"
	"sort"
	"strings"
	"unicode/utf8"

	rc "connectrpc.com/conformance/internal/app/referenceclient"
	rs "connectrpc.com/conformance/internal/app/referenceserver"
	conformancev1 "connectrpc.com/conformance/internal/gen/proto/go/connectrpc/conformance/v1"
	"connectrpc.com/conformance/internal/grpcutil"
	"connectrpc.com/conformance/internal/verifharness/gen"
	"google.golang.org/genproto/googleapis/rpc/status"
	"google.golang.org/protobuf/encoding/protojson"
	"google.golang.org/protobuf/proto"
	"google.golang.org/protobuf/types/known/anypb"
)

func init() {
	areas["c13"] = runC13
	areas["c13facts"] = c13Facts
	gen.RegisterOp("c13", "percent", func(c *gen.Ctx, raw json.RawMessage) any {
		return c13Percent(c, gen.Into[c13PercentIn](raw))
	})
	gen.RegisterOp("c13", "status", func(c *gen.Ctx, raw json.RawMessage) any {
		return c13Status(c, gen.Into[c13StatusIn](raw))
	})
	gen.RegisterOp("c13", "grpcweb", func(c *gen.Ctx, raw json.RawMessage) any {
		in := gen.Into[c13BlockIn](raw)
		return c13Examine(c, string(c13Un(in.Block)))
	})
	gen.RegisterOp("c13", "own", func(c *gen.Ctx, raw json.RawMessage) any {
		return c13Own(c, gen.Into[c13ErrIn](raw))
	})
	gen.RegisterOp("c13", "cerr", func(c *gen.Ctx, raw json.RawMessage) any {
		return c13ExamineJSON(c, gen.Into[c13JSONIn](raw), false)
	})
	gen.RegisterOp("c13", "cend", func(c *gen.Ctx, raw json.RawMessage) any {
		return c13ExamineJSON(c, gen.Into[c13JSONIn](raw), true)
	})
	gen.RegisterOp("c13", "serve", func(c *gen.Ctx, raw json.RawMessage) any {
		return c13Serve(c, gen.Into[c13ServeIn](raw))
	})
	gen.RegisterOp("c13", "wire", func(c *gen.Ctx, raw json.RawMessage) any {
		return c13Wire(c, gen.Into[c13WireIn](raw))
	})
}

// ---------------------------------------------------------------- feedback classes

type c13Rule struct {
	re  *regexp.Regexp
	cls string
}

func c13R(re, cls string) c13Rule { return c13Rule{regexp.MustCompile(`(?s)` + re), cls} }

var c13Rules = []c13Rule{
	// gRPC-Web end-stream block
	c13R(`^grpc-web trailers include invalid field \(missing colon\): ".*"$`, "es:missing-colon"),
	c13R(`^grpc-web trailers include invalid field; name contains invalid characters: ".*"$`, "es:invalid-name"),
	c13R(`^grpc-web trailers include non-lower-case field key: ".*"$`, "es:non-lower-key"),
	c13R(`^grpc-web trailers include invalid field; value contains invalid characters: ".*"$`, "es:invalid-value"),
	c13R(`^grpc-web trailers use obsolete line-folding$`, "es:obs-fold"),
	c13R(`^grpc-web trailers ends in extra blank line$`, "es:extra-blank"),
	c13R(`^grpc-web trailers include blank lines$`, "es:blank-lines"),
	c13R(`^grpc-web trailers have lines with LF line ending instead of CRLF$`, "es:lf-only"),
	c13R(`^grpc-web trailers should end with CRLF but does not$`, "es:no-final-crlf"),
	// status trio
	c13R(`^trailers include multiple 'grpc-status' keys \(\d+\)$`, "st:multi-status"),
	c13R(`^trailers did not include 'grpc-status' key$`, "st:no-status"),
	c13R(`^trailers include invalid 'grpc-status' value -?\d+: should be >= 0 && <= 16$`, "st:status-range"),
	c13R(`^trailers include invalid 'grpc-status' value ".*": .*$`, "st:bad-status"),
	c13R(`^trailers include multiple 'grpc-message' keys \(\d+\)$`, "st:multi-message"),
	c13R(`^trailers include incorrectly-encoded 'grpc-message' value ".*": byte at position \d+ \(0x[0-9a-f]{2}\) should be hexadecimal digit$`, "st:msg-hex"),
	c13R(`^trailers include incorrectly-encoded 'grpc-message' value ".*": byte at position \d+ \(0x[0-9a-f]{2}\) should be percent-encoded$`, "st:msg-unescaped"),
	c13R(`^trailers include incorrectly-encoded 'grpc-message' value ".*": incomplete percent-encoded character at the end$`, "st:msg-incomplete"),
	c13R(`^trailers include a non-empty 'grpc-message' value with zero/okay 'grpc-status'$`, "st:msg-with-ok"),
	c13R(`^trailers include multiple 'grpc-status-details-bin' keys \(\d+\)$`, "st:multi-details"),
	c13R(`^trailers include incorrectly-encoded 'grpc-status-details-bin' value: .*$`, "st:details-base64"),
	c13R(`^trailers include 'grpc-status-details-bin' value with padding but servers should emit unpadded: .*$`, "st:details-padded"),
	c13R(`^trailers include un-parseable 'grpc-status-details-bin' value: .*$`, "st:details-unparseable"),
	c13R(`^trailers include 'grpc-status-details-bin' value that disagrees with 'grpc-status' value: -?\d+ != -?\d+$`, "st:details-code"),
	c13R(`^trailers include 'grpc-status-details-bin' value with zero/okay 'grpc-status' and non-empty details$`, "st:details-with-ok"),
	c13R(`^trailers include 'grpc-status-details-bin' value that disagrees with 'grpc-message' value: ".*" != ".*"$`, "st:details-msg"),
	// binary metadata
	c13R(`^(headers|trailers|metadata) include incorrectly-encoded '.*' value: .*$`, "bm:invalid"),
	c13R(`^(headers|trailers|metadata) include '.*' value with padding but servers should emit unpadded: .*$`, "bm:padded"),
	// Connect error JSON
	c13R(`^connect error JSON: value for key "code" is a [^"]+ instead of a string$`, "ce:code-type"),
	c13R(`^connect error JSON: value for key "code" is not a recognized error code name: ".*"$`, "ce:code-unknown"),
	c13R(`^connect error JSON: value for key "message" is a [^"]+ instead of a string$`, "ce:message-type"),
	c13R(`^connect error JSON: value for key "details" is a [^"]+ instead of a slice$`, "ce:details-type"),
	c13R(`^connect error JSON: invalid key ".*"$`, "ce:invalid-key"),
	c13R(`^connect error JSON: missing required key "code"$`, "ce:missing-code"),
	c13R(`^connect error JSON: details\[\d+\]: value for key "type" is a [^"]+ instead of a string$`, "cd:type-type"),
	c13R(`^connect error JSON: details\[\d+\]: value for key "type", ".*", is not a valid type name$`, "cd:type-invalid"),
	c13R(`^connect error JSON: details\[\d+\]: value for key "value" is a [^"]+ instead of a string$`, "cd:value-type"),
	c13R(`^connect error JSON: details\[\d+\]: value for key "value", ".*", is not valid unpadded base64-encoding: .*$`, "cd:value-base64"),
	c13R(`^connect error JSON: details\[\d+\]: invalid key ".*"$`, "cd:invalid-key"),
	c13R(`^connect error JSON: details\[\d+\]: missing required key "type"$`, "cd:missing-type"),
	c13R(`^connect error JSON: details\[\d+\]: missing required key "value"$`, "cd:missing-value"),
	c13R(`^connect error JSON: details\[\d+\]: could not check debug data because message type ".*" could not be resolved: .*$`, "cd:debug-unresolved"),
	c13R(`^connect error JSON: details\[\d+\]: could not unmarshal message ".*" from value: .*$`, "cd:debug-value"),
	c13R(`^connect error JSON: details\[\d+\]: could not unmarshal message ".*" from debug JSON: .*$`, "cd:debug-json"),
	c13R(`^connect error JSON: details\[\d+\]: debug data indicates type ".*" but should indicate type ".*"$`, "cd:debug-type"),
	c13R(`^connect error JSON: details\[\d+\]: debug data does not match value: .*$`, "cd:debug-mismatch"),
	// Connect end-stream JSON
	c13R(`^connect end stream JSON: value for key "error" is a [^"]+ instead of a map/object$`, "cs:error-type"),
	c13R(`^connect end stream JSON: value for key "metadata" is a [^"]+ instead of a map/object$`, "cs:metadata-type"),
	c13R(`^connect end stream JSON: metadata\[".*"\]: entry key is not a valid HTTP field name$`, "cs:meta-name"),
	c13R(`^connect end stream JSON: metadata\[".*"\]: value is a [^"]+ instead of an array of strings$`, "cs:meta-array"),
	c13R(`^connect end stream JSON: metadata\[".*"\]: value #\d+ is a [^"]+ instead of a string$`, "cs:meta-value-type"),
	c13R(`^connect end stream JSON: metadata\[".*"\]: value #\d+ is not a valid HTTP field value: ".*"$`, "cs:meta-value"),
	c13R(`^connect end stream JSON: invalid key ".*"$`, "cs:invalid-key"),
	// generic JSON layer (examineJSON)
	c13R(`^connect (error|end stream) JSON(: details\[\d+\])?: (.*: )?contains duplicate key ".*"$`, "json:duplicate-key"),
	c13R(`^connect (error|end stream) JSON(: details\[\d+\])?: expecting an object but got <nil>$`, "json:null"),
	c13R(`^connect (error|end stream) JSON(: details\[\d+\])?: json: cannot unmarshal .*$`, "json:type"),
	c13R(`^connect (error|end stream) JSON(: details\[\d+\])?: .*$`, "json:syntax"),
	// wire dispatch
	c13R(`^response included \d+ HTTP trailers but should not have any$`, "wire:http-trailers"),
	c13R(`^unable to examine wire details: .*$`, "wire:unavailable"),
}

// c13ConnectRules: the rules for the messages of the Connect JSON examiners (they all start
// with "connect "), so that those messages are not tried against the other fifty expressions.
var c13ConnectRules = func() []c13Rule {
	var out []c13Rule
	for _, r := range c13Rules {
		if strings.HasPrefix(r.re.String(), "(?s)^connect ") {
			out = append(out, r)
		}
	}
	return out
}()

func c13Class(msg string) string {
	rules := c13Rules
	if strings.HasPrefix(msg, "connect ") {
		rules = c13ConnectRules
	}
	for _, r := range rules {
		if r.re.MatchString(msg) {
			return r.cls
		}
	}
	return "other:" + msg
}

func c13Classes(c *gen.Ctx, msgs []string) []string {
	out := make([]string, 0, len(msgs))
	for _, m := range msgs {
		cls := c13Class(m)
		if strings.HasPrefix(cls, "other:") {
			c.E.Count("fb:other")
		} else {
			c.E.Count("fb:" + cls)
		}
		out = append(out, cls)
	}
	return out
}

func c13Un(x string) []byte {
	b, err := hex.DecodeString(x)
	if err != nil {
		panic(err)
	}
	return b
}

func c13Hx(s string) string { return hex.EncodeToString([]byte(s)) }

type c13FbOut struct {
	Fb []string `json:"fb"`
}

// ---------------------------------------------------------------- oracle for grpc-status-details-bin

// c13Oracle is what base64 and proto.Unmarshal (libraries that are not modelled) make of a
// grpc-status-details-bin value.
type c13Oracle struct {
	Value   string `json:"value"` // hex of the header value
	Kind    string `json:"kind"`  // invalid | raw | padded
	Parsed  bool   `json:"parsed"`
	Code    int32  `json:"code"`
	Msg     string `json:"msg"` // hex
	Details int    `json:"details"`
}

func c13Decode(v string) c13Oracle {
	o := c13Oracle{Value: c13Hx(v), Kind: "raw"}
	data, err := base64.RawStdEncoding.DecodeString(v)
	if err != nil {
		data, err = base64.StdEncoding.DecodeString(v)
		if err != nil {
			o.Kind = "invalid"
			return o
		}
		o.Kind = "padded"
	}
	var st status.Status
	if err := proto.Unmarshal(data, &st); err != nil {
		return o
	}
	o.Parsed = true
	o.Code = st.Code
	o.Msg = c13Hx(st.Message)
	o.Details = len(st.Details)
	return o
}

func c13OracleFor(h http.Header) *c13Oracle {
	vals := h.Values("Grpc-Status-Details-Bin")
	if len(vals) == 0 {
		return nil
	}
	o := c13Decode(vals[0])
	return &o
}

// ---------------------------------------------------------------- percent / status / grpcweb

type c13PercentIn struct {
	Msg string `json:"msg"`
}
type c13PercentOut struct {
	Enc string   `json:"enc"`
	Fb  []string `json:"fb"`
	// Tab: ShouldEscapeByteInMessage of every byte of msg
	Escapes []bool `json:"escapes"`
}

func c13Percent(c *gen.Ctx, in c13PercentIn) c13PercentOut {
	msg := string(c13Un(in.Msg))
	enc := grpcutil.PercentEncodeMessage(msg)
	// checkGRPCStatus validates the encoding and compares the decoded message with the one in
	// grpc-status-details-bin: no feedback iff the validator accepts enc and decode(enc) == msg.
	h := http.Header{"Grpc-Status": {"2"}, "Grpc-Message": {enc}}
	if utf8.ValidString(msg) {
		data, err := proto.Marshal(&status.Status{Code: 2, Message: msg})
		if err == nil {
			h["Grpc-Status-Details-Bin"] = []string{base64.RawStdEncoding.EncodeToString(data)}
		}
	}
	out := c13PercentOut{Enc: c13Hx(enc), Fb: c13Classes(c, rc.VerifC13CheckGRPCStatus(h)), Escapes: []bool{}}
	for i := 0; i < len(msg); i++ {
		out.Escapes = append(out.Escapes, grpcutil.ShouldEscapeByteInMessage(msg[i]))
	}
	return out
}

type c13HdrIn struct {
	K string   `json:"k"`
	V []string `json:"v"`
}
type c13StatusIn struct {
	Headers []c13HdrIn `json:"headers"`
}
type c13StatusOut struct {
	Fb     []string   `json:"fb"`
	Oracle *c13Oracle `json:"oracle"`
}

func c13Status(c *gen.Ctx, in c13StatusIn) c13StatusOut {
	h := http.Header{}
	for _, kv := range in.Headers {
		k := string(c13Un(kv.K))
		for _, v := range kv.V {
			h[k] = append(h[k], string(c13Un(v)))
		}
	}
	return c13StatusOut{Fb: c13Classes(c, rc.VerifC13CheckGRPCStatus(h)), Oracle: c13OracleFor(h)}
}

type c13BlockIn struct {
	Block string `json:"block"`
}
type c13ExamineOut struct {
	Block   string     `json:"block,omitempty"`
	Fb1     []string   `json:"fb1"`
	Headers []c13HdrIn `json:"headers"`
	Fb2     []string   `json:"fb2"`
	Oracle  *c13Oracle `json:"oracle"`
	// Fb3: checkBinaryMetadata on the parsed trailers (in the order of Headers), as the reference
	// client applies it to the trailers of a gRPC-Web response
	Fb3 []string `json:"fb3"`
}

func c13Examine(c *gen.Ctx, block string) c13ExamineOut {
	h, msgs := rc.VerifC13ExamineGRPCEndStream(block)
	var out c13ExamineOut
	out.Fb1 = c13Classes(c, msgs)
	keys := make([]string, 0, len(h))
	for k := range h {
		keys = append(keys, k)
	}
	sort.Strings(keys)
	out.Headers = []c13HdrIn{}
	for _, k := range keys {
		e := c13HdrIn{K: c13Hx(k), V: []string{}}
		for _, v := range h[k] {
			e.V = append(e.V, c13Hx(v))
		}
		out.Headers = append(out.Headers, e)
	}
	out.Oracle = c13OracleFor(h)
	out.Fb2 = c13Classes(c, rc.VerifC13CheckGRPCStatus(h))
	var parsed []*conformancev1.Header
	for _, k := range keys {
		parsed = append(parsed, &conformancev1.Header{Name: k, Value: h[k]})
	}
	out.Fb3 = c13Classes(c, rc.VerifC13CheckBinaryMetadata("trailers", parsed))
	if len(out.Fb1) == 0 && len(out.Fb2) == 0 {
		c.E.Count("examine:clean")
	} else {
		c.E.Count("examine:feedback")
	}
	return out
}

// ---------------------------------------------------------------- own output

type c13Detail struct {
	Type  string `json:"type"`
	Value string `json:"value"` // hex
	// Prefix: what stands in front of the type name in the type URL of the detail the test case
	// defines (serve only; absent: the default "type.googleapis.com/")
	Prefix *string `json:"prefix,omitempty"`
}

func (d c13Detail) url() string {
	if d.Prefix != nil {
		return *d.Prefix + d.Type
	}
	return "type.googleapis.com/" + d.Type
}
type c13ErrIn struct {
	Code     int32       `json:"code"`
	Msg      string      `json:"msg"` // hex, valid UTF-8
	Details  []c13Detail `json:"details"`
	Trailers []c13HdrIn  `json:"trailers"` // names and values as hex
}
type c13OwnOut struct {
	c13ExamineOut
	DetailsBin *string `json:"detailsBin"` // hex of the grpc-status-details-bin value rendered
}

func c13Details(ds []c13Detail) []rs.VerifC13Detail {
	var out []rs.VerifC13Detail
	for _, d := range ds {
		out = append(out, rs.VerifC13Detail{Type: d.Type, Value: c13Un(d.Value)})
	}
	return out
}

func c13Headers(hs []c13HdrIn) []*conformancev1.Header {
	var out []*conformancev1.Header
	for _, h := range hs {
		e := &conformancev1.Header{Name: string(c13Un(h.K))}
		for _, v := range h.V {
			e.Value = append(e.Value, string(c13Un(v)))
		}
		out = append(out, e)
	}
	return out
}

func c13Own(c *gen.Ctx, in c13ErrIn) c13OwnOut {
	msg := string(c13Un(in.Msg))
	block := rs.VerifC13GrpcWebEndStream(in.Code, msg, c13Details(in.Details), c13Headers(in.Trailers))
	out := c13OwnOut{c13ExamineOut: c13Examine(c, block)}
	out.Block = c13Hx(block)
	for _, t := range rs.VerifC13GrpcStatusTrailers(in.Code, msg, c13Details(in.Details)) {
		if t.Name == "grpc-status-details-bin" && len(t.Value) == 1 {
			s := c13Hx(t.Value[0])
			out.DetailsBin = &s
		}
	}
	return out
}

// ---------------------------------------------------------------- JSON examiners (see c13json.go)

type c13JSONIn struct {
	JSON string `json:"json"` // hex
	Kind string `json:"kind"` // own | mut:<class> | random
}

// ---------------------------------------------------------------- the reference server answers in memory

type c13ServeIn struct {
	Proto    string      `json:"proto"` // connect | grpc | grpcweb
	Codec    string      `json:"codec"` // proto | json
	Stream   bool        `json:"stream"`
	Code     int32       `json:"code"`
	Msg      string      `json:"msg"` // hex, valid UTF-8
	Details  []c13Detail `json:"details"`
	Headers  []c13HdrIn  `json:"headers"`
	Trailers []c13HdrIn  `json:"trailers"`
}
type c13ServeOut struct {
	Status      int      `json:"status"`
	ContentType string   `json:"ct"`
	Fb          []string `json:"fb"`
	Examined    string   `json:"examined"` // which kind of payload was examined
	OK          bool     `json:"ok"`
}

func c13Envelope(flags byte, data []byte) []byte {
	out := make([]byte, 5+len(data))
	out[0] = flags
	binary.BigEndian.PutUint32(out[1:5], uint32(len(data)))
	copy(out[5:], data)
	return out
}

// splits an enveloped body; returns the payload of the first frame with one of the flag bits
// set in mask, and whether any other frame came before it
func c13EndStreamFrame(body []byte, mask byte) (content *string, dataBefore bool) {
	for len(body) >= 5 {
		n := int(binary.BigEndian.Uint32(body[1:5]))
		if 5+n > len(body) {
			return nil, dataBefore
		}
		if body[0]&mask != 0 {
			s := string(body[5 : 5+n])
			return &s, dataBefore
		}
		dataBefore = true
		body = body[5+n:]
	}
	return nil, dataBefore
}

var c13Handler = rs.VerifC13Handler()

func c13StatusBytes(code int32, msg string, details []c13Detail) []byte {
	st := &status.Status{Code: code, Message: msg}
	for _, d := range details {
		st.Details = append(st.Details, &anypb.Any{TypeUrl: "type.googleapis.com/" + d.Type, Value: c13Un(d.Value)})
	}
	b, err := proto.Marshal(st)
	if err != nil {
		panic(err)
	}
	return b
}

func c13B64Raw(b []byte) string { return base64.RawStdEncoding.EncodeToString(b) }
func c13B64Std(b []byte) string { return base64.StdEncoding.EncodeToString(b) }

// c13ServeResp sends the error-producing request to the reference server handler in memory.
func c13ServeResp(in c13ServeIn) (*http.Response, []byte) {
	errDef := &conformancev1.Error{Code: conformancev1.Code(in.Code)}
	m := string(c13Un(in.Msg))
	errDef.Message = &m
	for _, d := range in.Details {
		errDef.Details = append(errDef.Details, &anypb.Any{TypeUrl: d.url(), Value: c13Un(d.Value)})
	}
	var reqMsg proto.Message
	path := "/connectrpc.conformance.v1.ConformanceService/Unary"
	if in.Stream {
		path = "/connectrpc.conformance.v1.ConformanceService/ServerStream"
		reqMsg = &conformancev1.ServerStreamRequest{ResponseDefinition: &conformancev1.StreamResponseDefinition{
			ResponseHeaders: c13Headers(in.Headers), ResponseTrailers: c13Headers(in.Trailers), Error: errDef}}
	} else {
		reqMsg = &conformancev1.UnaryRequest{ResponseDefinition: &conformancev1.UnaryResponseDefinition{
			ResponseHeaders: c13Headers(in.Headers), ResponseTrailers: c13Headers(in.Trailers),
			Response: &conformancev1.UnaryResponseDefinition_Error{Error: errDef}}}
	}
	var payload []byte
	var err error
	if in.Codec == "json" {
		payload, err = protojson.Marshal(reqMsg)
	} else {
		payload, err = proto.Marshal(reqMsg)
	}
	if err != nil {
		panic(err)
	}
	var ct string
	switch {
	case in.Proto == "connect" && !in.Stream:
		ct = "application/" + in.Codec
	case in.Proto == "connect":
		ct = "application/connect+" + in.Codec
		payload = c13Envelope(0, payload)
	case in.Proto == "grpc":
		ct = "application/grpc+" + in.Codec
		payload = c13Envelope(0, payload)
	default:
		ct = "application/grpc-web+" + in.Codec
		payload = c13Envelope(0, payload)
	}
	req := httptest.NewRequest(http.MethodPost, path, bytes.NewReader(payload))
	req.Header.Set("Content-Type", ct)
	if in.Proto == "connect" {
		req.Header.Set("Connect-Protocol-Version", "1")
	}
	if in.Proto == "grpc" {
		req.Header.Set("Te", "trailers")
	}
	req.ProtoMajor, req.ProtoMinor, req.Proto = 2, 0, "HTTP/2.0"
	rec := httptest.NewRecorder()
	c13Handler.ServeHTTP(rec, req)
	return rec.Result(), rec.Body.Bytes()
}

func c13ServeRaw(in c13ServeIn) (body []byte, contentType string, statusCode int) {
	resp, body := c13ServeResp(in)
	return body, resp.Header.Get("Content-Type"), resp.StatusCode
}

func c13Serve(c *gen.Ctx, in c13ServeIn) c13ServeOut {
	resp, body := c13ServeResp(in)
	w := rc.VerifC13Wire{StatusCode: resp.StatusCode, Header: resp.Header, Trailer: resp.Trailer}
	rct := resp.Header.Get("Content-Type")
	out := c13ServeOut{Status: resp.StatusCode, ContentType: rct}
	switch {
	case rct == "application/json" && resp.StatusCode != 200:
		w.CapturedBuf = body
		out.Examined = "connect-error"
	case strings.HasPrefix(rct, "application/connect+"):
		w.EndStream, w.BodyData = c13EndStreamFrame(body, 0x02)
		out.Examined = "connect-end-stream"
	case strings.HasPrefix(rct, "application/grpc-web"):
		w.EndStream, w.BodyData = c13EndStreamFrame(body, 0x80)
		out.Examined = "grpc-web-trailers"
		if w.EndStream == nil {
			out.Examined = "grpc-web-trailers-only"
		}
	case strings.HasPrefix(rct, "application/grpc"):
		w.BodyData = len(body) > 0
		out.Examined = "grpc-trailers"
	default:
		out.Examined = "nothing:" + rct
	}
	_, ok, msgs := rc.VerifC13ExamineWire(w)
	out.OK = ok
	out.Fb = c13Classes(c, msgs)
	c.E.Count("serve:" + out.Examined)
	return out
}

// ---------------------------------------------------------------- wire dispatch

type c13WireIn struct {
	CT        string  `json:"ct"`
	Status    int     `json:"status"`
	Trailers  int     `json:"trailers"`
	EndStream *string `json:"endStream"` // hex
	BodyData  bool    `json:"bodyData"`
	Body      string  `json:"body"` // hex, captured body of a unary JSON error
	// header-borne status (trailers-only responses)
	GrpcStatus *string `json:"grpcStatus"`
}

func c13Wire(c *gen.Ctx, in c13WireIn) c13FbOut {
	w := rc.VerifC13Wire{StatusCode: in.Status, Header: http.Header{}, BodyData: in.BodyData, CapturedBuf: c13Un(in.Body)}
	if in.CT != "" {
		w.Header.Set("Content-Type", in.CT)
	}
	if in.GrpcStatus != nil {
		w.Header.Set("Grpc-Status", *in.GrpcStatus)
	}
	if in.Trailers > 0 {
		w.Trailer = http.Header{}
		for i := 0; i < in.Trailers; i++ {
			w.Trailer[fmt.Sprintf("X-T%d", i)] = []string{"v"}
		}
	}
	if in.EndStream != nil {
		s := string(c13Un(*in.EndStream))
		w.EndStream = &s
	}
	_, _, msgs := rc.VerifC13ExamineWire(w)
	return c13FbOut{Fb: c13Classes(c, msgs)}
}
