/-
Helper lemmas for the raw-payload-encoder and wire-tracer theorems of `Props/C20.lean`.
-/
import ConfModel.Model.CompressionRaw
import ConfModel.Lemmas.Compression
namespace ConfModel.Compression

theorem be32val_be32 (n : Nat) (h : n < 4294967296) :
    be32val (UInt8.ofNat (n / 16777216 % 256)) (UInt8.ofNat (n / 65536 % 256)) (UInt8.ofNat (n / 256 % 256))
      (UInt8.ofNat (n % 256)) = n := by
  simp only [be32val, UInt8.toNat_ofNat']
  omega

/-- one envelope in front of a body is split off again -/
theorem splitFrames_cons (fuel f : Nat) (p rest : Bytes) (hf : f ≤ 255) (hp : p.length < 4294967296) :
    splitFrames (fuel + 1) (UInt8.ofNat f :: RawBody.be32 p.length ++ p ++ rest) =
      ((f, p) :: (splitFrames fuel rest).1, (splitFrames fuel rest).2) := by
  simp only [RawBody.be32, List.cons_append, List.nil_append, splitFrames, be32val_be32 p.length hp]
  have hf' : (UInt8.ofNat f).toNat = f := by
    simp only [UInt8.toNat_ofNat']; omega
  simp [hf']

theorem tracerDecode_valid (l : Lib) (hl : l.Lawful) (s : St) (b : Bytes) :
    (tracerDecode l s (l.enc b)).2 = b := by
  cases s <;> simp [tracerDecode, step, Rd.reset, hl b, okIf, readOpt, Rd.readAll]

theorem tracerRun_valid (l : Lib) (hl : l.Lawful) (s : St) (srcs : List Bytes) (i : Nat) (b : Bytes)
    (hi : srcs[i]? = some (l.enc b)) : (tracerRun l s srcs)[i]? = some b := by
  induction srcs generalizing s i with
  | nil => simp at hi
  | cons x t ih =>
    cases i with
    | zero =>
      simp only [List.getElem?_cons_zero, Option.some.injEq] at hi
      subst hi
      simp [tracerRun, tracerDecode_valid l hl s b]
    | succ j =>
      simp only [List.getElem?_cons_succ] at hi
      simp only [tracerRun, List.getElem?_cons_succ]
      exact ih _ j hi

/-- whatever the first message is, the rest of the body is traced from *some* state -/
theorem tracerBody_cons (l : Lib) (s : St) (m : TMsg) (t : List TMsg) :
    ∃ x s', tracerBody l s (m :: t) = x :: tracerBody l s' t := by
  by_cases h1 : (m.src.isEmpty || (decide (m.flags % 4 < 2) && decide (m.flags % 256 < 128))) = true
  · exact ⟨[], s, by rw [tracerBody]; simp only [h1, if_true]⟩
  · by_cases h2 : (m.flags % 2 == 0) = true
    · exact ⟨m.src, s, by rw [tracerBody]; simp [h1, h2]⟩
    · exact ⟨(tracerDecode l s m.src).2, (tracerDecode l s m.src).1, by rw [tracerBody]; simp [h1, h2]⟩

end ConfModel.Compression
