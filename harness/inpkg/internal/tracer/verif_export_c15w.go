//go:build verif

package tracer

import (
	"bytes"
	"reflect"

	"golang.org/x/net/http2"
)

// VerifC15Widths reports, by reflection over the compiled types, the kinds of the counters of
// http2FrameTracer and of http2.FrameHeader.Length ("uint32", "uint64", ...; a field that no
// longer exists: "missing"), and the Length the real http2.ReadFrameHeader reads from a frame
// header whose three length bytes are all 0xff (the largest frame a peer can announce).
func VerifC15Widths() (kinds map[string]string, maxWireLen uint64) {
	kind := func(t reflect.Type, field string) string {
		f, ok := t.FieldByName(field)
		if !ok {
			return "missing"
		}
		return f.Type.Kind().String()
	}
	ft := reflect.TypeOf((*http2FrameTracer)(nil)).Elem()
	kinds = map[string]string{
		"ftExpecting": kind(ft, "expecting"),
		"ftActual":    kind(ft, "actual"),
		"frameLength": kind(reflect.TypeOf(http2.FrameHeader{}), "Length"),
	}
	fh, err := http2.ReadFrameHeader(bytes.NewReader([]byte{0xff, 0xff, 0xff, 0, 0, 0, 0, 0, 1}))
	if err == nil {
		maxWireLen = uint64(fh.Length)
	}
	return kinds, maxWireLen
}
