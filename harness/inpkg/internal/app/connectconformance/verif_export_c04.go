//go:build verif

package connectconformance

import (
	"context"
	"errors"
	"fmt"
	"io"
	"os"
	"path/filepath"
	"sync"
	"sync/atomic"
	"time"

	"connectrpc.com/conformance/internal"
	conformancev1 "connectrpc.com/conformance/internal/gen/proto/go/connectrpc/conformance/v1"
)

// VerifC04Case is one selected case of an assignment: what happened to it, how it is marked,
// whether a reference peer reported feedback about it (and whether that was recorded before
// or after the outcome).
type VerifC04Case struct {
	Name          string
	Kind          string // pass | assert | clienterr | setup | noresult | cnr | missing
	Mark          string // u | f | k  (unmarked, known failing, known flaky)
	Feedback      bool
	SidebandFirst bool
	// what the peers said: the message of the client-reported error (Kind clienterr) and the feedback
	// text of the reference peer — arbitrary strings (empty, blank, many lines, format verbs, long)
	ErrMsg string
	FbMsg  string
}

// VerifC04Report drives the real testResults (newResults, assert, failed, failedToStart,
// setOutcome with a couldNotRunError, recordSideband, failRemaining, report) with the given
// assignment and returns report()'s verdict and everything it printed.
func VerifC04Report(total int, cases []VerifC04Case) (bool, []string) {
	var failing, flaky []string
	for _, c := range cases {
		switch c.Mark {
		case "f":
			failing = append(failing, c.Name)
		case "k":
			flaky = append(flaky, c.Name)
		}
	}
	kf := parsePatterns(failing)
	if kf == nil {
		kf = &testTrie{} // as Run does
	}
	kl := parsePatterns(flaky)
	if kl == nil {
		kl = &testTrie{}
	}
	res := newResults(total, kf, kl, nil)
	def := func(name string) *conformancev1.TestCase {
		return &conformancev1.TestCase{
			Request: &conformancev1.ClientCompatRequest{TestName: name, StreamType: conformancev1.StreamType_STREAM_TYPE_UNARY},
			ExpectedResponse: &conformancev1.ClientResponseResult{
				Payloads: []*conformancev1.ConformancePayload{{Data: []byte("data")}},
			},
		}
	}
	var batch []*conformancev1.TestCase
	for _, c := range cases {
		if c.Feedback && c.SidebandFirst {
			res.recordSideband(c.Name, c.FbMsg)
		}
		tc := def(c.Name)
		switch c.Kind {
		case "pass":
			res.assert(c.Name, tc, &conformancev1.ClientResponseResult{
				Payloads: []*conformancev1.ConformancePayload{{Data: []byte("data")}},
			})
		case "assert":
			res.assert(c.Name, tc, &conformancev1.ClientResponseResult{
				Payloads: []*conformancev1.ConformancePayload{{Data: []byte("other")}},
			})
		case "clienterr":
			res.failed(c.Name, &conformancev1.ClientErrorResult{Message: c.ErrMsg})
		case "setup":
			res.failedToStart([]*conformancev1.TestCase{tc}, errors.New("error starting server: boom"))
		case "cnr":
			res.setOutcome(c.Name, true, &couldNotRunError{errClosed})
		case "noresult", "missing":
		default:
			panic("VerifC04Report: unknown kind " + c.Kind)
		}
		if c.Feedback && !c.SidebandFirst {
			res.recordSideband(c.Name, c.FbMsg)
		}
		if c.Kind != "missing" {
			batch = append(batch, tc)
		}
	}
	// as at the end of runTestCasesForServer
	res.failRemaining(batch, &failedToGetResultError{errNoOutcome})
	printer := &internal.SimplePrinter{}
	ok := res.report(printer)
	return ok, printer.Messages
}

type verifC04Printer struct {
	mu    sync.Mutex
	lines []string
}

func (p *verifC04Printer) Printf(msg string, args ...any) {
	p.mu.Lock()
	defer p.mu.Unlock()
	p.lines = append(p.lines, fmt.Sprintf(msg, args...))
}

// PrefixPrintf: the prefix is data, never part of the format (a prefix may hold a '%').
func (p *verifC04Printer) PrefixPrintf(prefix, msg string, args ...any) {
	p.Printf("%s: %s", prefix, fmt.Sprintf(msg, args...))
}

// VerifC04Run calls the real Run (client mode: the given client command against the in-process
// reference server) on a suite and configuration written into dir, and returns Run's verdict,
// its error and everything printed to the log printer.
func VerifC04Run(dir string, clientCommand []string, suiteYAML, cfgYAML string, knownFailing, knownFlaky []string) (bool, string, []string) {
	suitePath := filepath.Join(dir, "suite.yaml")
	cfgPath := filepath.Join(dir, "config.yaml")
	if err := os.WriteFile(suitePath, []byte(suiteYAML), 0o600); err != nil {
		return false, "verif: " + err.Error(), nil
	}
	if err := os.WriteFile(cfgPath, []byte(cfgYAML), 0o600); err != nil {
		return false, "verif: " + err.Error(), nil
	}
	logPrinter, errPrinter := &verifC04Printer{}, &verifC04Printer{}
	ok, err := Run(&Flags{
		ConfigFile:           cfgPath,
		TestFiles:            []string{suitePath},
		KnownFailingPatterns: knownFailing,
		KnownFlakyPatterns:   knownFlaky,
		ClientCommand:        clientCommand,
		MaxServers:           1,
		Parallelism:          1,
		ServerBind:           "127.0.0.1",
	}, logPrinter, errPrinter)
	errText := ""
	if err != nil {
		errText = err.Error()
	}
	logPrinter.mu.Lock()
	defer logPrinter.mu.Unlock()
	return ok, errText, append([]string{}, logPrinter.lines...)
}

// VerifC04BatchReport runs one scripted server batch through the real runTestCasesForServer
// (scripted process and client of the C11 wrapper, including the reference server's stderr
// stream) and then the real report(): the verdict and the printed lines.
func VerifC04BatchReport(spec VerifC11Spec) (bool, []string, bool) {
	obs, results := verifC11Run(spec)
	if obs.Hang || results == nil {
		return false, nil, true
	}
	p := &verifC04Printer{}
	ok := results.report(p)
	return ok, p.lines, false
}

// VerifC04RunLoop is VerifC04Run with the number of concurrently running servers as a parameter
// and the server instances in sorted order (Verbose), for the scripted-client scenarios.
func VerifC04RunLoop(dir string, clientCommand []string, suiteYAML, cfgYAML string, knownFailing, knownFlaky []string, maxServers uint) (bool, string, []string, []string) {
	return VerifC04RunLoopFlags(dir, clientCommand, suiteYAML, cfgYAML, knownFailing, knownFlaky, maxServers, true)
}

// VerifC04RunLoopFlags is VerifC04RunLoop with the runner's verbosity as a parameter: verbose =
// false is the command line's default (no -v): nothing is logged before the report and the server
// instances are visited in map order.  Verdict, FAILED / INFO lines and totals must not depend on it.
func VerifC04RunLoopFlags(dir string, clientCommand []string, suiteYAML, cfgYAML string, knownFailing, knownFlaky []string, maxServers uint, verbose bool) (bool, string, []string, []string) {
	suitePath := filepath.Join(dir, "suite.yaml")
	cfgPath := filepath.Join(dir, "config.yaml")
	if err := os.WriteFile(suitePath, []byte(suiteYAML), 0o600); err != nil {
		return false, "verif: " + err.Error(), nil, nil
	}
	if err := os.WriteFile(cfgPath, []byte(cfgYAML), 0o600); err != nil {
		return false, "verif: " + err.Error(), nil, nil
	}
	logPrinter, errPrinter := &verifC04Printer{}, &verifC04Printer{}
	ok, err := Run(&Flags{
		ConfigFile:           cfgPath,
		TestFiles:            []string{suitePath},
		KnownFailingPatterns: knownFailing,
		KnownFlakyPatterns:   knownFlaky,
		ClientCommand:        clientCommand,
		MaxServers:           maxServers,
		Parallelism:          1,
		ServerBind:           "127.0.0.1",
		Verbose:              verbose,
	}, logPrinter, errPrinter)
	errText := ""
	if err != nil {
		errText = err.Error()
	}
	logPrinter.mu.Lock()
	defer logPrinter.mu.Unlock()
	errPrinter.mu.Lock()
	defer errPrinter.mu.Unlock()
	return ok, errText, append([]string{}, logPrinter.lines...), append([]string{}, errPrinter.lines...)
}

// VerifC04Batches loads the suite and configuration exactly as Run does (client mode: client
// under test against the reference servers) and returns the selected permutations grouped into
// the server batches run() will spawn, in spawn order (reference server first, then the gRPC
// reference server; server instances sorted as with Verbose).
func VerifC04Batches(suitePath string, suiteYAML, cfgYAML string) ([][]string, error) {
	suites, err := parseTestSuites(map[string][]byte{suitePath: []byte(suiteYAML)})
	if err != nil {
		return nil, err
	}
	cases, err := parseConfig("config.yaml", []byte(cfgYAML))
	if err != nil {
		return nil, err
	}
	lib, err := newTestCaseLibrary(suites, cases, conformancev1.TestSuite_TEST_MODE_CLIENT)
	if err != nil {
		return nil, err
	}
	var out [][]string
	for _, serverIsGRPC := range []bool{false, true} {
		for _, inst := range serverInstancesSlice(lib, true) {
			tcs := lib.filterGRPCImplTestCases(lib.casesByServer[inst], false, serverIsGRPC)
			if len(tcs) == 0 {
				continue
			}
			names := make([]string, len(tcs))
			for i, tc := range tcs {
				names[i] = tc.Request.TestName
			}
			out = append(out, names)
		}
	}
	return out, nil
}

// VerifC04InObs is what VerifC04InProc observed.
type VerifC04InObs struct {
	OK      bool     // the verdict as Run forms it: report() && the client's final wait returned nil
	Report  bool     // report()'s verdict
	WaitErr string   // "" | error text of waitForResponses | "hang"
	Lines   []string // everything report() printed
	Rets    []string // per case: what the real sendRequest returned: ok | closed | dup | fail | unsent
	Cbs     []int    // per case: invocations of the completion callback
	Panics  []string
	Hang    bool
}

// VerifC04InProc is one whole run in one process, nothing scripted between the pieces under test:
// the real runClient / clientProcessRunner over the real pipes of an in-process scripted client (the
// client program of C11's op "inproc": it reads requests, answers some of them, returns), the real
// runTestCasesForServer against an in-process server (runInProcess, as both reference servers are
// run), testResults with tries built from the given known-failing / known-flaky patterns, and then
// what run() / Run do after the last batch: closeSend, waitForResponses, report, verdict =
// report && err == nil.  An in-process client that returns nil closes its pipes at once: the reader
// sees a clean end of stream while requests it accepted are still unanswered.
// VerifC04SrvFb is one feedback line "<name of case Case>: <Msg>" the in-process (reference) server
// prints on its stderr: Phase "early" = right after its handshake, before any request is handed to
// the client; "shutdown" = DelayMs after the runner has told it to stop (ctx cancelled: the batch
// is over, the graceful shutdown runs), before its function returns.
type VerifC04SrvFb struct {
	Phase   string
	Case    int
	Msg     string
	DelayMs int
}

func VerifC04InProc(spec VerifC11InSpec, knownFailing, knownFlaky []string) VerifC04InObs {
	return VerifC04InProcFb(spec, knownFailing, knownFlaky, nil)
}

// VerifC04InProcFb is VerifC04InProc with a server that prints feedback lines as scripted.
func VerifC04InProcFb(spec VerifC11InSpec, knownFailing, knownFlaky []string, srvFb []VerifC04SrvFb) VerifC04InObs {
	n := len(spec.Names)
	cases := make([]*conformancev1.TestCase, n)
	mux := &verifC11InMux{idx: map[string]int{}, rets: make([]string, n), cbs: make([]int, n), fired: make([]chan struct{}, n), once: make([]sync.Once, n)}
	for i, name := range spec.Names {
		cases[i] = &conformancev1.TestCase{
			Request:          &conformancev1.ClientCompatRequest{TestName: name},
			ExpectedResponse: &conformancev1.ClientResponseResult{Payloads: []*conformancev1.ConformancePayload{{Data: []byte("data")}}},
		}
		if _, dup := mux.idx[name]; dup {
			panic("c04 inproc: batch names must be distinct")
		}
		mux.idx[name] = i
		mux.rets[i] = "unsent"
		mux.fired[i] = make(chan struct{})
	}
	kf := parsePatterns(knownFailing)
	if kf == nil {
		kf = &testTrie{} // as Run does
	}
	kl := parsePatterns(knownFlaky)
	if kl == nil {
		kl = &testTrie{}
	}
	results := newResults(n, kf, kl, nil)
	obs := VerifC04InObs{Panics: []string{}}

	say := func(errW io.Writer, phase string) {
		for _, f := range srvFb {
			if f.Phase == phase && f.Case >= 0 && f.Case < n {
				if f.DelayMs > 0 {
					time.Sleep(time.Duration(f.DelayMs) * time.Millisecond)
				}
				_, _ = io.WriteString(errW, spec.Names[f.Case]+": "+f.Msg+"\n")
			}
		}
	}
	server := func(ctx context.Context, _ []string, in io.ReadCloser, out, errW io.WriteCloser) error {
		req := &conformancev1.ServerCompatRequest{}
		if err := internal.ReadDelimitedMessage(in, req, "runner", 10*time.Second, maxServerResponseSize); err != nil {
			return err
		}
		say(errW, "early")
		if err := internal.WriteDelimitedMessage(out, &conformancev1.ServerCompatResponse{Host: "127.0.0.1", Port: 12345}); err != nil {
			return err
		}
		<-ctx.Done()
		// the graceful shutdown: handlers still running may have something to say
		say(errW, "shutdown")
		return nil
	}
	var awaitTimeout atomic.Bool
	clientCtx, clientCancel := context.WithCancel(context.Background())
	defer clientCancel()
	runner, err := runClient(clientCtx, runInProcess([]string{"verif-client"}, verifC11InClient(&spec, mux, &awaitTimeout)))
	if err != nil {
		panic(fmt.Sprintf("c04 inproc: runClient: %v", err))
	}
	mux.inner = runner
	defer func() { go runner.stop() }()

	meta := serverInstance{protocol: conformancev1.Protocol_PROTOCOL_CONNECT, httpVersion: conformancev1.HTTPVersion_HTTP_VERSION_1}
	done := make(chan struct{})
	go func() {
		defer close(done)
		defer func() {
			if r := recover(); r != nil {
				mux.mu.Lock()
				mux.panics = append(mux.panics, "batch")
				mux.mu.Unlock()
			}
		}()
		runTestCasesForServer(context.Background(), false, spec.IsRef, meta, cases, nil, nil,
			runInProcess([]string{"verif-server"}, server), verifNopPrinter{}, verifNopPrinter{}, results, mux, nil, false)
	}()
	timeout := spec.TimeoutS
	if timeout <= 0 {
		timeout = 30
	}
	select {
	case <-done:
	case <-time.After(time.Duration(timeout) * time.Second):
		obs.Hang = true
		return obs
	}
	// run(): after the last batch
	runner.closeSend()
	waited := make(chan error, 1)
	go func() { waited <- runner.waitForResponses() }()
	var waitErr error
	select {
	case waitErr = <-waited:
		if waitErr != nil {
			obs.WaitErr = waitErr.Error()
		}
	case <-time.After(30 * time.Second):
		obs.WaitErr = "hang"
		waitErr = errors.New("hang")
	}
	// Run(): results.report(logPrinter) && err == nil
	p := &verifC04Printer{}
	obs.Report = results.report(p)
	obs.OK = obs.Report && waitErr == nil
	obs.Lines = p.lines
	mux.mu.Lock()
	defer mux.mu.Unlock()
	obs.Rets = append([]string{}, mux.rets...)
	obs.Cbs = append([]int{}, mux.cbs...)
	obs.Panics = append(obs.Panics, mux.panics...)
	return obs
}
