/-
C04, finding F32 — a possible repair of the reader of the reference server's feedback lines
(`runTestCasesForServer`, stderr goroutine).  The reader as it is (`ServerRunner.lineAct`) splits the
trimmed line at the FIRST `": "` and looks the front part up among the batch's test names; a test
name that itself contains `": "` is cut in two and the line is forwarded as noise (or attributed to
another case whose name is the front part).  The repair: the line belongs to the test case whose name,
followed by `": "`, is a prefix of the trimmed line — the longest such name.  Not the code under test;
kept to state what the repair would guarantee.  Core Lean only.
-/
import ConfModel.Model.ServerRunner
namespace ConfModel.FeedbackLineRepair
open ConfModel.ServerRunner

/-- the longest name `nm` of the batch such that `nm ++ ": "` is a prefix of `str` -/
def ownerOf (names : List (List Char)) (str : List Char) : Option (List Char) :=
  names.foldl (fun best nm =>
    if (nm ++ [':', ' ']).isPrefixOf str && (match best with | some b => b.length < nm.length | none => true)
    then some nm else best) none

def lineAct (names : List (List Char)) (orig : List Char) : LineAct :=
  let str := trim orig
  if str.isEmpty then .skip
  else match ownerOf names str with
    | some nm => .record nm (str.drop (nm.length + 2))
    | none => .forward orig

end ConfModel.FeedbackLineRepair
