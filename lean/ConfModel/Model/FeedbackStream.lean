/-
C12 — the whole stderr stream of a reference server, as the runner reads it.

`Model/FeedbackLine.lean` is about one feedback line.  A reference server serves a batch of
test cases and prints one line per deviation, for many requests, into one stream; some of the
messages echo values the client controls (a content type, an encoding, a header value) and are
as long as the client makes them.  The runner reads that stream through a buffered reader, in
reads of whatever size the pipe delivers, and must put the lines together again: every line,
of any length, however the stream was cut into reads.

`readChunks` is that reader: the bytes of a read are appended to the line being collected, a
line is complete at its line break, what is left at the end of the stream is the last line
(`bufio.Reader.ReadString('\n')`, which grows its result beyond the buffer; the buffer size
therefore does not appear).  `limitedLines` is a line reader with a bounded token size
(`bufio.Scanner`): it gives up at the first line that does not fit.

`sideband` is `results.recordSideband` (a map, the last message for a test case wins).

Core Lean only.
-/
import ConfModel.Model.FeedbackLine
import ConfModel.Spec.ServerRunner
namespace ConfModel.FeedbackStream
open ConfModel.ServerRunner ConfModel.FeedbackLine

/-- one read: (lines completed by it, the line still being collected - reversed) -/
def feed : List Char → List Char → List (List Char) × List Char
  | [], acc => ([], acc)
  | c :: rest, acc =>
    if c == '\n' then ((c :: acc).reverse :: (feed rest []).1, (feed rest []).2)
    else feed rest (c :: acc)

/-- the results of `ReadString('\n')` over a stream delivered in these reads -/
def readChunks : List (List Char) → List Char → List (List Char)
  | [], acc => if acc.isEmpty then [] else [acc.reverse]
  | ch :: rest, acc => (feed ch acc).1 ++ readChunks rest (feed ch acc).2

/-- what the stderr goroutine does with a stream delivered in these reads -/
def readStreamChunked (names : List (List Char)) (chunks : List (List Char)) :
    List (List Char) × List (List Char × List Char) :=
  processLines names (readChunks chunks [])

/-- the stream the printer writes for these feedback messages (test case, text), in order -/
def printed : List (List Char × List Char) → List Char
  | [] => []
  | m :: ms => prefixLine m.1 m.2 ++ printed ms

/-- `recordSideband` after these calls: the message held for test case `name` -/
def sideband (records : List (List Char × List Char)) (name : List Char) : Option (List Char) :=
  match records with
  | [] => none
  | r :: rs =>
    match sideband rs name with
    | some m => some m
    | none => if r.1 == name then some r.2 else none

/-- the `recordSideband` calls the callback of `runTestCasesForServer` makes for the responses of
a reference client: every message of `ClientResponseResult.feedback`, as it is, for the test case
the response names -/
def clientRecords : List (List Char × List (List Char)) → List (List Char × List Char)
  | [] => []
  | (nm, msgs) :: rest => msgs.map (fun m => (nm, m)) ++ clientRecords rest

/-- a line reader that cannot hold more than `max` characters of a line: everything from the
first longer line on is lost -/
def limitedLines (max : Nat) (stream : List Char) : List (List Char) :=
  (splitLines stream []).takeWhile (fun l => l.length ≤ max)

/-- the hypotheses of `feedback_line_attributed` on one message -/
def wellFormed (names : List (List Char)) (m : List Char × List Char) : Bool :=
  names.contains m.1 && Spec.noSep m.1 && startsClean m.1 && oneLine m.1 && endsClean m.2 && oneLine m.2

end ConfModel.FeedbackStream
