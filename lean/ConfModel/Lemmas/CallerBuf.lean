import ConfModel.Model.CallerBuf
namespace ConfModel.CallerBuf

theorem window_eq_chunk (b : BCall) (h : b.fits) : b.window = b.chunk := by
  unfold BCall.fits at h
  unfold BCall.window BCall.array
  have hl : (b.before.take b.off).length = b.off := by simp [List.length_take]; omega
  rw [List.append_assoc, List.drop_append_of_le_length (by omega), List.drop_of_length_le (by omega)]
  simp

theorem windows_eq_chunks : ∀ (bs : List BCall), (∀ b ∈ bs, b.fits) → bs.map BCall.window = bs.map BCall.chunk
  | [], _ => rfl
  | b :: t, h => by
    simp only [List.map_cons]
    rw [window_eq_chunk b (h b (by simp)), windows_eq_chunks t (fun x hx => h x (by simp [hx]))]

theorem array_length (b : BCall) (h : b.fits) : b.array.length = b.before.length := by
  unfold BCall.fits at h
  simp [BCall.array, List.length_take]; omega

end ConfModel.CallerBuf
