/-
C12 — how a feedback message of the reference server reaches the runner.

`referenceServerChecks` reports through `feedbackPrinter.Printf`, which calls
`PrefixPrintf(testCaseName, format, args...)` on the printer `run()` made with
`internal.NewPrinter(stderr)` (internal/printer.go, `safePrinter`): the prefix is written with its
own `"%s: "`, then the formatted message, then a line break unless the last byte written is one.
The runner (`runTestCasesForServer`, modelled in `Model/ServerRunner.lean`: `splitLines`,
`lineAct`) reads that stream line by line, trims the line, splits it at the first `": "` and
records the rest as feedback for the test case named in front of it.

`text` is the formatted message (`fmt.Sprintf(format, args...)`; `fmt` itself is not modelled).

Core Lean only.
-/
import ConfModel.Model.ServerRunner
namespace ConfModel.FeedbackLine
open ConfModel.ServerRunner

/-- `safePrinter.PrefixPrintf prefix format args` with `text = Sprintf format args`: the bytes
written to the stream.  The prefix is *not* part of a format string. -/
def prefixLine (pfx text : List Char) : List Char :=
  let w := pfx ++ ':' :: ' ' :: text
  if w.getLast? == some '\n' then w else w ++ ['\n']

/-- what the stderr goroutine of the runner does with a piece of the stream: (lines forwarded as
noise, `recordSideband` calls) -/
def readStream (names : List (List Char)) (stream : List Char) : List (List Char) × List (List Char × List Char) :=
  processLines names (splitLines stream [])

/-- the first character is not white space (the runner trims the line) -/
def startsClean : List Char → Bool
  | [] => true
  | c :: _ => !isSpace c

/-- not empty and the last character is not white space (in particular not a line break) -/
def endsClean (l : List Char) : Bool :=
  match l.getLast? with
  | some c => !isSpace c
  | none => false

def oneLine (l : List Char) : Bool := !l.contains '\n'

/-- the runner records everything in this piece of the stream as feedback for test case `name`
(at least one record, nothing forwarded as noise) -/
def attributedTo (names : List (List Char)) (name stream : List Char) : Bool :=
  match readStream names stream with
  | ([], r :: rs) => (r :: rs).all (fun x => x.1 == name)
  | _ => false

end ConfModel.FeedbackLine
