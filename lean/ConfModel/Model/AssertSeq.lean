/-
C03 — what `assert` PUBLISHES: the `testResults` accumulator of `results.go` under a sequence of
calls (`assert`, `failed`, `setOutcome`, `failedToStart`, `failRemaining`, `recordSideband`) on ONE
accumulator with repeated names, and what `report` then shows for a name.  `setOutcomeLocked` stores
unconditionally (the last stored outcome of a name stays); only `failRemaining` skips names that
already have an outcome.  Tries are empty (nothing is known to fail).  Core Lean only.
-/
import ConfModel.Model.Assert
namespace ConfModel.AssertSeq
open ConfModel.Assert

/-- `testOutcome.actualFailure` when it is not nil -/
inductive Fail where
  /-- `errs.Result()` of `assert`: the discrepancies (not empty) -/
  | discrepancies (ds : List Discrepancy)
  /-- `results.failed` -/
  | client
  /-- "client returned a response with neither an error nor result" -/
  | neither
  /-- `setOutcome(name, true, err)` -/
  | setup
  /-- `failedToStart` -/
  | start
  /-- `failRemaining` (`failedToGetResultError`) -/
  | noResult
  /-- `processSidebandInfoLocked`: the side-band message, joined with whatever was there -/
  | sideband (msg : String)
  deriving DecidableEq, Repr, Inhabited

structure Outcome where
  setupError : Bool
  failure : Option Fail
  deriving DecidableEq, Repr, Inhabited

/-- a Go map as an association list: `set` puts the entry in front, `get` finds the first -/
abbrev Store (β : Type) := List (String × β)

def get {β : Type} : Store β → String → Option β
  | [], _ => none
  | (m, o) :: rest, n => if m = n then some o else get rest n

def set {β : Type} (s : Store β) (n : String) (o : β) : Store β := (n, o) :: s

structure State where
  outcomes : Store Outcome
  sideband : Store String
  deriving Repr, Inhabited

inductive Call where
  | assert (n : String) (st : StreamType) (other : List Nat) (e a : Result)
  | failed (n : String)
  | neither (n : String)
  | setup (n : String)
  | start (ns : List String)
  | remaining (ns : List String)
  | sideband (n : String) (msg : String)
  deriving Repr, Inhabited

/-- `errs.Result()`: nil when nothing was found -/
def verdictOf (ds : List Discrepancy) : Outcome :=
  { setupError := false, failure := if ds.isEmpty then none else some (.discrepancies ds) }

/-- `failedToStart`: every name, unconditionally -/
def startAll (o : Store Outcome) : List String → Store Outcome
  | [] => o
  | n :: ns => startAll (set o n ⟨true, some .start⟩) ns

/-- `failRemaining`: only names without an outcome -/
def remainingAll (o : Store Outcome) : List String → Store Outcome
  | [] => o
  | n :: ns => remainingAll (match get o n with | some _ => o | none => set o n ⟨true, some .noResult⟩) ns

def step (grace : Int) (s : State) : Call → State
  | .assert n st other e a => { s with outcomes := set s.outcomes n (verdictOf (Assert.assert grace st other e a)) }
  | .failed n => { s with outcomes := set s.outcomes n ⟨false, some .client⟩ }
  | .neither n => { s with outcomes := set s.outcomes n ⟨false, some .neither⟩ }
  | .setup n => { s with outcomes := set s.outcomes n ⟨true, some .setup⟩ }
  | .start ns => { s with outcomes := startAll s.outcomes ns }
  | .remaining ns => { s with outcomes := remainingAll s.outcomes ns }
  | .sideband n msg => { s with sideband := set s.sideband n msg }

def run (grace : Int) (cs : List Call) : State := cs.foldl (step grace) ⟨[], []⟩

/-- the call stores an outcome for `n` whatever the state -/
def Call.writes (n : String) : Call → Bool
  | .assert m _ _ _ _ => m = n
  | .failed m => m = n
  | .neither m => m = n
  | .setup m => m = n
  | .start ns => ns.contains n
  | .remaining _ => false
  | .sideband _ _ => false

def Call.isSidebandFor (n : String) : Call → Bool
  | .sideband m _ => m = n
  | _ => false

/-- `processSidebandInfoLocked` (oldest entry first; a map has one message per name, the last) -/
def processSideband (o : Store Outcome) : Store String → Store Outcome
  | [] => o
  | (n, msg) :: older =>
    let o' := processSideband o older
    set o' n ⟨((get o' n).map (·.setupError)).getD false, some (.sideband msg)⟩

/-- what `report` works on -/
def published (s : State) : Store Outcome := processSideband s.outcomes s.sideband

/-- `report` prints "FAILED: <name>" (empty tries: nothing is expected to fail) -/
def listedFailed (s : State) (n : String) : Bool :=
  match get (published s) n with
  | some o => o.failure.isSome
  | none => false

def hasOutcome (s : State) (n : String) : Bool := (get (published s) n).isSome

end ConfModel.AssertSeq
