/-
Helper lemmas for the history / status theorems of `Props/C17.lean`.
-/
import ConfModel.Model.RawSeq
import ConfModel.Lemmas.RawBody
namespace ConfModel.RawSeq
open ConfModel.RawBody

theorem take_append_fit (a b : Bytes) (k : Nat) (h : a.length ≤ k) :
    (a ++ b).take k = a ++ b.take (k - a.length) := by
  rw [List.take_append, List.take_of_length_le h]

theorem take_append_cut (a b : Bytes) (k : Nat) (h : k ≤ a.length) :
    (a ++ b).take k = a.take k := by
  rw [List.take_append]
  have : k - a.length = 0 := by omega
  simp [this]

theorem write_none (g c : Bytes) : (Dest.mk g none).write c = (⟨g ++ c, none⟩, [], true) := rfl

theorem write_fit (g c : Bytes) (k : Nat) (h : c.length ≤ k) :
    (Dest.mk g (some k)).write c = (⟨g ++ c, some (k - c.length)⟩, [], true) := by
  simp [Dest.write, h]

theorem write_cut (g c : Bytes) (k : Nat) (h : k < c.length) :
    (Dest.mk g (some k)).write c = (⟨g ++ c.take k, some 0⟩, c.drop k, false) := by
  have : ¬ c.length ≤ k := by omega
  simp [Dest.write, this]

theorem length_be32 (n : Nat) : (be32 n).length = 4 := rfl

/-- a destination that never fails receives exactly what `writeStream` writes -/
theorem writeItems_unlimited (compress : Compress) (items : List Item) : ∀ (g s : Bytes),
    (writeItems compress ⟨g, none⟩ s items).dest.got = g ++ (writeStream compress items).bytes ∧
    (writeItems compress ⟨g, none⟩ s items).failed = (writeStream compress items).failed := by
  induction items with
  | nil => intro g s; simp [writeItems, writeStream]
  | cons it rest ih =>
    intro g s
    by_cases hf : it.flags > 255
    · simp [writeItems, writeStream, hf]
    · cases hl : it.length with
      | some n =>
        cases hm : writeMessage compress it.payload with
        | none => simp [writeItems, writeStream, hf, hl, hm, write_none]
        | some p =>
          have := ih (g ++ UInt8.ofNat it.flags :: be32 n ++ p) s
          simp [writeItems, writeStream, hf, hl, hm, write_none] at this ⊢
          simpa [List.append_assoc] using this
      | none =>
        cases hm : writeMessage compress it.payload with
        | none => simp [writeItems, writeStream, hf, hl, hm]
        | some p =>
          have := ih (g ++ UInt8.ofNat it.flags :: be32 p.length ++ p) []
          simp [writeItems, writeStream, hf, hl, hm, write_none] at this ⊢
          simpa [List.append_assoc] using this

/-- a destination that takes `k` bytes receives exactly the first `k` bytes of what `writeStream`
writes, and the loop reports an error iff something was cut off or the encoder gave up -/
theorem writeItems_budget (compress : Compress) (items : List Item) : ∀ (g : Bytes) (k : Nat) (s : Bytes),
    (writeItems compress ⟨g, some k⟩ s items).dest.got = g ++ (writeStream compress items).bytes.take k ∧
    (writeItems compress ⟨g, some k⟩ s items).failed =
      ((writeStream compress items).failed || decide (k < (writeStream compress items).bytes.length)) := by
  induction items with
  | nil => intro g k s; simp [writeItems, writeStream]
  | cons it rest ih =>
    intro g k s
    by_cases hf : it.flags > 255
    · simp [writeItems, writeStream, hf]
    · cases hl : it.length with
      | some n =>
        have hp5 : (UInt8.ofNat it.flags :: be32 n).length = 5 := rfl
        by_cases h1 : (UInt8.ofNat it.flags :: be32 n).length ≤ k
        · -- the prefix fits
          cases hm : writeMessage compress it.payload with
          | none =>
            simp only [writeItems, writeStream, hf, if_false, hl, hm, write_fit _ _ _ h1]
            simp [List.take_of_length_le h1]
          | some p =>
            by_cases h2 : p.length ≤ k - (UInt8.ofNat it.flags :: be32 n).length
            · have := ih (g ++ (UInt8.ofNat it.flags :: be32 n) ++ p) (k - (UInt8.ofNat it.flags :: be32 n).length - p.length) s
              simp only [writeItems, writeStream, hf, if_false, hl, hm, write_fit _ _ _ h1, write_fit _ _ _ h2]
              simp only [Bool.true_eq_false, if_false]
              rw [this.1, this.2]
              constructor
              · rw [List.append_assoc (UInt8.ofNat it.flags :: be32 n) p, take_append_fit _ _ _ h1, take_append_fit _ _ _ h2]
                simp [List.append_assoc]
              · simp only [List.length_append, hp5] at *
                congr 1
                apply decide_eq_decide.mpr
                omega
            · have h2' : k - (UInt8.ofNat it.flags :: be32 n).length < p.length := by omega
              simp only [writeItems, writeStream, hf, if_false, hl, hm, write_fit _ _ _ h1, write_cut _ _ _ h2']
              simp only [if_true]
              constructor
              · rw [List.append_assoc (UInt8.ofNat it.flags :: be32 n) p, take_append_fit _ _ _ h1,
                  take_append_cut _ _ _ (Nat.le_of_lt h2')]
                simp [List.append_assoc]
              · simp only [List.length_append, hp5] at *
                have : decide (k < 5 + p.length + (writeStream compress rest).bytes.length) = true := by
                  apply decide_eq_true; omega
                simp [this]
        · -- the prefix is cut
          have h1' : k < (UInt8.ofNat it.flags :: be32 n).length := by omega
          cases hm : writeMessage compress it.payload with
          | none =>
            simp only [writeItems, writeStream, hf, if_false, hl, hm, write_cut _ _ _ h1']
            simp
          | some p =>
            simp only [writeItems, writeStream, hf, if_false, hl, hm, write_cut _ _ _ h1']
            simp only [if_true]
            constructor
            · rw [List.append_assoc (UInt8.ofNat it.flags :: be32 n) p, take_append_cut _ _ _ (Nat.le_of_lt h1')]
            · simp only [List.length_append, hp5] at *
              have : decide (k < 5 + p.length + (writeStream compress rest).bytes.length) = true := by
                apply decide_eq_true; omega
              simp [this]
      | none =>
        cases hm : writeMessage compress it.payload with
        | none => simp [writeItems, writeStream, hf, hl, hm]
        | some p =>
          have hp5 : (UInt8.ofNat it.flags :: be32 p.length).length = 5 := rfl
          by_cases h1 : (UInt8.ofNat it.flags :: be32 p.length).length ≤ k
          · by_cases h2 : p.length ≤ k - (UInt8.ofNat it.flags :: be32 p.length).length
            · have := ih (g ++ (UInt8.ofNat it.flags :: be32 p.length) ++ p) (k - (UInt8.ofNat it.flags :: be32 p.length).length - p.length) []
              simp only [writeItems, writeStream, hf, if_false, hl, hm, List.nil_append, write_fit _ _ _ h1, write_fit _ _ _ h2]
              simp only [Bool.true_eq_false, if_false]
              rw [this.1, this.2]
              constructor
              · rw [List.append_assoc (UInt8.ofNat it.flags :: be32 p.length) p, take_append_fit _ _ _ h1, take_append_fit _ _ _ h2]
                simp [List.append_assoc]
              · simp only [List.length_append, hp5] at *
                congr 1
                apply decide_eq_decide.mpr
                omega
            · have h2' : k - (UInt8.ofNat it.flags :: be32 p.length).length < p.length := by omega
              simp only [writeItems, writeStream, hf, if_false, hl, hm, List.nil_append, write_fit _ _ _ h1, write_cut _ _ _ h2']
              simp only [if_true]
              constructor
              · rw [List.append_assoc (UInt8.ofNat it.flags :: be32 p.length) p, take_append_fit _ _ _ h1,
                  take_append_cut _ _ _ (Nat.le_of_lt h2')]
                simp [List.append_assoc]
              · simp only [List.length_append, hp5] at *
                have : decide (k < 5 + p.length + (writeStream compress rest).bytes.length) = true := by
                  apply decide_eq_true; omega
                simp [this]
          · have h1' : k < (UInt8.ofNat it.flags :: be32 p.length).length := by omega
            simp only [writeItems, writeStream, hf, if_false, hl, hm, List.nil_append, write_cut _ _ _ h1']
            simp only [if_true]
            constructor
            · rw [List.append_assoc (UInt8.ofNat it.flags :: be32 p.length) p, take_append_cut _ _ _ (Nat.le_of_lt h1')]
            · simp only [List.length_append, hp5] at *
              have : decide (k < 5 + p.length + (writeStream compress rest).bytes.length) = true := by
                apply decide_eq_true; omega
              simp [this]

/-- one write of a history shows what `obsOf` says — whatever the scratch buffer held before -/
theorem runStep_obs (compress : Compress) (s : Bytes) (st : Step) :
    (runStep compress s st).2 = obsOf compress st := by
  obtain ⟨body, budget⟩ := st
  cases body with
  | unary c =>
    cases hm : writeMessage compress c with
    | none => simp [runStep, obsOf, hm]
    | some b =>
      cases budget with
      | none => simp [runStep, obsOf, hm, cut, write_none]
      | some k =>
        by_cases h : b.length ≤ k
        · have : ¬ k < b.length := by omega
          simp [runStep, obsOf, hm, cut, write_fit _ _ _ h, List.take_of_length_le h, this]
        · have h' : k < b.length := by omega
          simp [runStep, obsOf, hm, cut, write_cut _ _ _ h', h']
  | stream items =>
    cases budget with
    | none =>
      have := writeItems_unlimited compress items [] s
      simp only [runStep, obsOf, cut]
      rw [this.1, this.2]; simp
    | some k =>
      have := writeItems_budget compress items [] k s
      simp only [runStep, obsOf, cut]
      rw [this.1, this.2]; simp

theorem runHist_obs (compress : Compress) (hist : List Step) : ∀ s : Bytes,
    (runHist compress s hist).2 = hist.map (obsOf compress) := by
  induction hist with
  | nil => intro s; rfl
  | cons st t ih =>
    intro s
    simp only [runHist, List.map_cons]
    rw [runStep_obs, ih]

theorem runHist_append (compress : Compress) (h1 h2 : List Step) : ∀ s : Bytes,
    (runHist compress s (h1 ++ h2)).2 =
      (runHist compress s h1).2 ++ (runHist compress (runHist compress s h1).1 h2).2 := by
  induction h1 with
  | nil => intro s; rfl
  | cons st t ih => intro s; simp only [List.cons_append, runHist, ih, List.cons_append]

theorem evalRuns_statusRuns (c : Nat) (h : c ≤ 1100) : evalRuns statusRuns c = some (finishStatus c) := by
  by_cases h0 : c = 0
  · subst h0; rfl
  · have h1 : 1 ≤ c := by omega
    have hb : (c == 0) = false := by simpa using h0
    simp [evalRuns, statusRuns, finishStatus, h0, h1, h, hb]

end ConfModel.RawSeq
