import ConfModel.Model.Run
namespace ConfModel.Run

theorem filter_length_set {α} (p : α → Bool) (l : List α) (i : Nat) (a b : α) (h : l[i]? = some a) :
    ((l.set i b).filter p).length + (if p a then 1 else 0) = (l.filter p).length + (if p b then 1 else 0) := by
  induction l generalizing i with
  | nil => simp at h
  | cons x xs ih =>
    cases i with
    | zero =>
      simp at h; subst h
      simp only [List.set_cons_zero, List.filter_cons]
      cases p x <;> cases p b <;> simp <;> omega
    | succ i =>
      simp at h
      have := ih i h
      simp only [List.set_cons_succ, List.filter_cons]
      cases p x <;> simp <;> omega

theorem alive_le_holding (s : List PC) : aliveCount s ≤ holdingCount s := by
  induction s with
  | nil => simp [aliveCount, holdingCount]
  | cons x xs ih =>
    simp only [aliveCount, holdingCount, List.filter_cons] at ih ⊢
    cases x <;> simp [PC.holds] <;> omega

/-- a step never lets the number of held permits exceed `max` -/
theorem step_inv (max : Nat) (s s' : List PC) (i : Nat) (h : holdingCount s ≤ max)
    (hs : stepThread max s i = some s') : holdingCount s' ≤ max := by
  unfold stepThread at hs
  cases hg : s[i]? with
  | none => simp [hg] at hs
  | some pc =>
    simp only [hg] at hs
    cases pc with
    | idle =>
      by_cases hl : holdingCount s < max
      · simp only [hl, if_true, Option.some.injEq] at hs; subst hs
        have := filter_length_set PC.holds s i .idle .holding hg
        simp [PC.holds] at this
        simp only [holdingCount]; simp only [holdingCount] at hl; omega
      · simp [hl] at hs
    | holding =>
      simp only [Option.some.injEq] at hs; subst hs
      have := filter_length_set PC.holds s i .holding .alive hg
      simp [PC.holds] at this
      simp only [holdingCount] at h ⊢; omega
    | alive =>
      simp only [Option.some.injEq] at hs; subst hs
      have := filter_length_set PC.holds s i .alive .stopped hg
      simp [PC.holds] at this
      simp only [holdingCount] at h ⊢; omega
    | stopped =>
      simp only [Option.some.injEq] at hs; subst hs
      have := filter_length_set PC.holds s i .stopped .done hg
      simp [PC.holds] at this
      simp only [holdingCount] at h ⊢; omega
    | done => simp at hs

/-! ### the dispatching loop (`Sys`) -/

theorem allDone_get (ts : List PC) (h : allDone ts = true) (i : Nat) (pc : PC) (hi : ts[i]? = some pc) :
    pc = .idle ∨ pc = .done := by
  have hm : pc ∈ ts := List.mem_of_getElem? hi
  simp only [allDone, List.all_eq_true] at h
  have := h pc hm
  cases pc <;> simp_all

theorem allDone_counts (ts : List PC) (h : allDone ts = true) : aliveCount ts = 0 ∧ holdingCount ts = 0 := by
  induction ts with
  | nil => simp [aliveCount, holdingCount]
  | cons x xs ih =>
    simp only [allDone, List.all_cons, Bool.and_eq_true] at h
    have ih' := ih (by simpa [allDone] using h.2)
    have h1 := h.1
    simp only [aliveCount, holdingCount, List.filter_cons] at ih' ⊢
    cases x <;> simp_all [PC.holds]

/-- with no spawned thread left nothing can move any more -/
theorem stepBatch_none_of_allDone (max : Nat) (s : Sys) (i : Nat) (h : allDone s.threads = true) :
    stepBatch max s i = none := by
  unfold stepBatch
  cases hg : s.threads[i]? with
  | none => simp [stepThread, hg]
  | some pc =>
    rcases allDone_get _ h i pc hg with rfl | rfl
    · rfl
    · simp [stepThread, hg]

/-- the closure has returned only if no spawned batch thread is left -/
def RetInv (s : Sys) : Prop := s.disp = .returned → allDone s.threads = true

theorem stepSys_retInv (max : Nat) (s s' : Sys) (e : Ev) (h : RetInv s) (hs : stepSys max s e = some s') : RetInv s' := by
  cases e with
  | clientDies =>
    simp only [stepSys, Option.some.injEq] at hs; subst hs; exact h
  | thread i =>
    simp only [stepSys] at hs
    intro hr
    by_cases hd : s.disp = .returned
    · rw [stepBatch_none_of_allDone max s i (h hd)] at hs; cases hs
    · unfold stepBatch at hs
      split at hs
      · cases hs
      · cases hst : stepThread max s.threads i with
        | none => simp [hst] at hs
        | some ts => simp only [hst, Option.map_some, Option.some.injEq] at hs; subst hs; exact absurd hr hd
  | dispatch =>
    simp only [stepSys, stepDisp] at hs
    intro hr
    cases hd : s.disp with
    | looping =>
      simp only [hd] at hs
      split at hs
      · split at hs
        · cases hs
        · split at hs <;> (simp only [Option.some.injEq] at hs; subst hs; first | (simp at hr; done) | simp [hd] at hr)
      · simp only [Option.some.injEq] at hs; subst hs; simp at hr
    | draining =>
      simp only [hd] at hs
      split at hs
      · rename_i hall
        simp only [Option.some.injEq] at hs; subst hs; exact hall
      · cases hs
    | returned => simp [hd] at hs

theorem execSys_retInv (max : Nat) (evs : List Ev) (s : Sys) (h : RetInv s) : RetInv (execSys max s evs) := by
  induction evs generalizing s with
  | nil => exact h
  | cons e es ih =>
    simp only [execSys]
    cases hs : stepSys max s e with
    | none => exact ih s h
    | some s' => exact ih s' (stepSys_retInv max s s' e h hs)

/-- no step of the dispatching system lets the number of held permits exceed `max` -/
theorem stepSys_holding (max : Nat) (s s' : Sys) (e : Ev) (h : holdingCount s.threads ≤ max)
    (hs : stepSys max s e = some s') : holdingCount s'.threads ≤ max := by
  cases e with
  | clientDies => simp only [stepSys, Option.some.injEq] at hs; subst hs; exact h
  | thread i =>
    simp only [stepSys, stepBatch] at hs
    split at hs
    · cases hs
    · cases hst : stepThread max s.threads i with
      | none => simp [hst] at hs
      | some ts =>
        simp only [hst, Option.map_some, Option.some.injEq] at hs; subst hs
        exact step_inv max s.threads ts i h hst
  | dispatch =>
    simp only [stepSys, stepDisp] at hs
    cases hd : s.disp with
    | looping =>
      simp only [hd] at hs
      split at hs
      · cases hst : stepThread max s.threads s.next with
        | none => simp [hst] at hs
        | some ts =>
          simp only [hst] at hs
          split at hs
          · simp only [Option.some.injEq] at hs; subst hs; exact step_inv max s.threads ts s.next h hst
          · simp only [Option.some.injEq] at hs; subst hs; exact h
      · simp only [Option.some.injEq] at hs; subst hs; exact h
    | draining =>
      simp only [hd] at hs
      split at hs
      · simp only [Option.some.injEq] at hs; subst hs; exact h
      · cases hs
    | returned => simp [hd] at hs

theorem execSys_holding (max : Nat) (evs : List Ev) (s : Sys) (h : holdingCount s.threads ≤ max) :
    holdingCount (execSys max s evs).threads ≤ max := by
  induction evs generalizing s with
  | nil => exact h
  | cons e es ih =>
    simp only [execSys]
    cases hs : stepSys max s e with
    | none => exact ih s h
    | some s' => exact ih s' (stepSys_holding max s s' e h hs)

/-- batches that were not dispatched yet have no thread -/
def NextInv (s : Sys) : Prop := ∀ j, s.next ≤ j → j < s.threads.length → s.threads[j]? = some .idle

theorem stepThread_eq_set (max : Nat) (ts ts' : List PC) (i : Nat) (h : stepThread max ts i = some ts') :
    ∃ pc, ts' = ts.set i pc := by
  unfold stepThread at h
  split at h
  · split at h
    · exact ⟨_, (Option.some.inj h).symm⟩
    · cases h
  · exact ⟨_, (Option.some.inj h).symm⟩
  · exact ⟨_, (Option.some.inj h).symm⟩
  · exact ⟨_, (Option.some.inj h).symm⟩
  · cases h

theorem stepSys_nextInv (max : Nat) (s s' : Sys) (e : Ev) (h : NextInv s) (hs : stepSys max s e = some s') : NextInv s' := by
  cases e with
  | clientDies => simp only [stepSys, Option.some.injEq] at hs; subst hs; exact h
  | thread i =>
    simp only [stepSys, stepBatch] at hs
    split at hs
    · cases hs
    · rename_i hni
      cases hst : stepThread max s.threads i with
      | none => simp [hst] at hs
      | some ts =>
        simp only [hst, Option.map_some, Option.some.injEq] at hs; subst hs
        obtain ⟨pc, rfl⟩ := stepThread_eq_set max _ _ _ hst
        intro j hj hlen
        simp only [List.length_set] at hlen
        have hjdle := h j hj hlen
        have hne : i ≠ j := by
          intro heq; subst heq; exact hni hjdle
        simp only [List.getElem?_set_ne hne]; exact hjdle
  | dispatch =>
    simp only [stepSys, stepDisp] at hs
    cases hd : s.disp with
    | looping =>
      simp only [hd] at hs
      split at hs
      · cases hst : stepThread max s.threads s.next with
        | none => simp [hst] at hs
        | some ts =>
          simp only [hst] at hs
          split at hs
          · simp only [Option.some.injEq] at hs; subst hs
            obtain ⟨pc, rfl⟩ := stepThread_eq_set max _ _ _ hst
            intro j hj hlen
            simp only [List.length_set] at hlen
            have hj' : s.next ≤ j := by simp only at hj; omega
            have hne : s.next ≠ j := by simp only at hj; omega
            simp only [List.getElem?_set_ne hne]; exact h j hj' hlen
          · simp only [Option.some.injEq] at hs; subst hs; exact h
      · simp only [Option.some.injEq] at hs; subst hs; exact h
    | draining =>
      simp only [hd] at hs
      split at hs
      · simp only [Option.some.injEq] at hs; subst hs; exact h
      · cases hs
    | returned => simp [hd] at hs

theorem execSys_nextInv (max : Nat) (evs : List Ev) (s : Sys) (h : NextInv s) : NextInv (execSys max s evs) := by
  induction evs generalizing s with
  | nil => exact h
  | cons e es ih =>
    simp only [execSys]
    cases hs : stepSys max s e with
    | none => exact ih s h
    | some s' => exact ih s' (stepSys_nextInv max s s' e h hs)

theorem exists_holding (ts : List PC) (h : 0 < holdingCount ts) : ∃ (j : Nat) (pc : PC), ts[j]? = some pc ∧ pc.holds = true := by
  have h' : 0 < (ts.filter PC.holds).length := h
  obtain ⟨pc, hmem⟩ := List.exists_mem_of_length_pos h'
  simp only [List.mem_filter] at hmem
  obtain ⟨j, hj, rfl⟩ := List.mem_iff_getElem.mp hmem.1
  exact ⟨j, ts[j], List.getElem?_eq_getElem hj, hmem.2⟩

theorem exists_holding_of_not_allDone (ts : List PC) (h : allDone ts = false) : ∃ (j : Nat) (pc : PC), ts[j]? = some pc ∧ pc.holds = true := by
  have : ¬ (∀ x ∈ ts, (x == PC.idle || x == PC.done) = true) := by
    intro hall
    have : allDone ts = true := by simpa [allDone] using hall
    rw [this] at h; cases h
  have ⟨x, hx, hnx⟩ : ∃ x ∈ ts, ¬ (x == PC.idle || x == PC.done) = true := by
    by_cases hex : ∃ x ∈ ts, ¬ (x == PC.idle || x == PC.done) = true
    · exact hex
    · exfalso; apply this; intro x hx
      by_cases hp : (x == PC.idle || x == PC.done) = true
      · exact hp
      · exact absurd ⟨x, hx, hp⟩ hex
  obtain ⟨j, hj, rfl⟩ := List.mem_iff_getElem.mp hx
  refine ⟨j, ts[j], List.getElem?_eq_getElem hj, ?_⟩
  cases hpc : ts[j] <;> simp_all [PC.holds]

/-- a thread that holds a permit can always move -/
theorem stepBatch_some_of_holds (max : Nat) (s : Sys) (j : Nat) (pc : PC) (hj : s.threads[j]? = some pc)
    (hh : pc.holds = true) : (stepBatch max s j).isSome = true := by
  unfold stepBatch
  cases pc <;> simp_all [stepThread, PC.holds]

/-! ### names of the gRPC-peer permutations -/

theorem markName_shape (pre simple : List String) (m : String) :
    markName (pre ++ simple) simple m = pre ++ m :: simple := by
  simp [markName, namePrefix]

/-- split at the only occurrence of `m` -/
theorem split_unique {α} [DecidableEq α] (m : α) : ∀ (p1 s1 p2 s2 : List α), m ∉ p1 → m ∉ p2 →
    p1 ++ m :: s1 = p2 ++ m :: s2 → p1 = p2 ∧ s1 = s2 := by
  intro p1
  induction p1 with
  | nil =>
    intro s1 p2 s2 _ h2 h
    cases p2 with
    | nil => simp at h; exact ⟨rfl, h⟩
    | cons y ys =>
      simp only [List.nil_append, List.cons_append, List.cons.injEq] at h
      exact absurd (by rw [h.1]; simp) h2
  | cons x xs ih =>
    intro s1 p2 s2 h1 h2 h
    cases p2 with
    | nil =>
      simp only [List.nil_append, List.cons_append, List.cons.injEq] at h
      exact absurd (by rw [← h.1]; simp) h1
    | cons y ys =>
      simp only [List.cons_append, List.cons.injEq] at h
      have := ih s1 ys s2 (fun hm => h1 (by simp [hm])) (fun hm => h2 (by simp [hm])) h.2
      exact ⟨by rw [h.1, this.1], this.2⟩

theorem markName_inj (p1 s1 p2 s2 : List String) (m : String)
    (h1 : m ∉ p1 ++ s1) (h2 : m ∉ p2 ++ s2)
    (h : markName (p1 ++ s1) s1 m = markName (p2 ++ s2) s2 m) : p1 = p2 ∧ s1 = s2 := by
  rw [markName_shape, markName_shape] at h
  exact split_unique m p1 s1 p2 s2 (fun hm => h1 (by simp [hm])) (fun hm => h2 (by simp [hm])) h

theorem marked_nodup (m : String) : ∀ (lib : List (List String × List String)),
    (lib.map (fun e => e.1 ++ e.2)).Nodup → (∀ e ∈ lib, m ∉ e.1 ++ e.2) →
    (lib.map (fun e => markName (e.1 ++ e.2) e.2 m)).Nodup := by
  intro lib
  induction lib with
  | nil => intro _ _; simp
  | cons e rest ih =>
    intro hn hm
    simp only [List.map_cons, List.nodup_cons] at hn ⊢
    refine ⟨?_, ih hn.2 (fun e' he' => hm e' (by simp [he']))⟩
    intro hmem
    obtain ⟨e', he', heq⟩ := List.mem_map.mp hmem
    have := markName_inj e'.1 e'.2 e.1 e.2 m (hm e' (by simp [he'])) (hm e (by simp)) heq
    apply hn.1
    exact List.mem_map.mpr ⟨e', he', by rw [this.1, this.2]⟩

end ConfModel.Run
