/-
Helper lemmas for C14: segments (`Model/DataTracerSeg.lean`) stand for their bytes.
-/
import ConfModel.Lemmas.DataTracer
import ConfModel.Model.DataTracerSeg
namespace ConfModel.DataTracer

theorem finishMsg_no_eos (c : Cfg) (s : St) (x : Bytes) (h : s.eos = none) :
    finishMsg c s x = finishMsg c s [] := by
  simp [finishMsg, h]

theorem feedSeg_eq (c : Cfg) (s : St) (g : Seg) (hi : c.isStream = true → Inv s) :
    feedSeg c s g = feed c s g.bytes := by
  cases g with
  | lit b => rfl
  | fill n =>
    cases hs : c.isStream
    · simp [feedSeg, feed, hs, Seg.bytes]
    · have hinv := hi hs
      simp only [feedSeg, feed, hs, Seg.bytes, Bool.not_true, Bool.false_eq_true, if_false, if_true]
      by_cases hc : s.expecting ≠ 0 ∧ s.eos = none
      · obtain ⟨he, heos⟩ := hc
        have hm := hinv.2.2 he
        simp only [he, heos, ne_eq, not_false_eq_true, and_self, if_true]
        by_cases hn : n < s.expecting - s.actual
        · simp only [hn, if_true]
          by_cases h0 : n = 0
          · subst h0
            have : s = { s with eos := none } := by cases s; simp_all
            simp [run_nil]
            exact this.symm
          · have hd : List.replicate n (0 : UInt8) ≠ [] := by
              intro h; have := congrArg List.length h; simp at this; exact h0 this
            rw [run_msg_short c s _ hd he (by simpa using hn)]
            simp [heos]
        · simp only [hn, if_false]
          have hpos : 0 < s.expecting - s.actual := by omega
          have hd : List.replicate n (0 : UInt8) ≠ [] := by
            intro h; have := congrArg List.length h; simp at this; omega
          rw [run_msg_full c s _ hinv hd he (by simpa using hn)]
          have e1 : (List.replicate n (0 : UInt8)).take (s.expecting - s.actual) =
              List.replicate (s.expecting - s.actual) 0 := by
            rw [List.take_replicate]; congr 1; omega
          have e2 : (List.replicate n (0 : UInt8)).drop (s.expecting - s.actual) =
              List.replicate (n - (s.expecting - s.actual)) 0 := by
            rw [List.drop_replicate]
          rw [e1, e2, finishMsg_no_eos c s (List.replicate (s.expecting - s.actual) 0) heos]
      · simp only [hc, if_false]

/-- the state of a wrapper whose tracer is in a reachable state -/
def WInv (c : Cfg) (w : WSt) : Prop := c.isStream = true → Inv w.dt

theorem winv_init (c : Cfg) : WInv c winit := fun _ => inv_init

theorem winv_step (c : Cfg) (w : WSt) (o : Op) (h : WInv c w) : WInv c (wstep c w o).1 := by
  intro hs
  cases o with
  | data d =>
    simp only [wstep, feed, hs, if_true]
    exact inv_run c d.length d (Nat.le_refl _) _ (h hs)
  | fin e =>
    simp only [wstep]
    split
    · exact h hs
    · exact inv_init

theorem wstepS_eq (c : Cfg) (w : WSt) (o : SOp) (h : WInv c w) : wstepS c w o = wstep c w o.toOp := by
  cases o with
  | seg g => simp only [wstepS, wstep, SOp.toOp, feedSeg_eq c w.dt g h]
  | fin e => rfl

theorem wrunS_eq (c : Cfg) : ∀ (ops : List SOp) (w : WSt), WInv c w →
    wrunS c w ops = wrun c w (ops.map SOp.toOp)
  | [], _, _ => rfl
  | o :: os, w, h => by
    simp only [wrunS, wrun, List.map_cons]
    rw [wstepS_eq c w o h, wrunS_eq c os _ (winv_step c w o.toOp h)]

theorem seg_bytes_length (g : Seg) : g.bytes.length = g.length := by
  cases g <;> simp [Seg.bytes, Seg.length]

end ConfModel.DataTracer
