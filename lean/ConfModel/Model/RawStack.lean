/-
C17 — the complete reference-server stack (`createServer`, reference mode) as a history of
exchanges served by one process:

  net/http (a new ResponseWriter per request) → `cors.Handler` (rs/cors, `handleActualRequest`)
  → `rawResponder` (header snapshot, a new `rawResponseWriter`) → `referenceServerChecks` → mux →
  connect-go with `serverNameHandlerInterceptor` and `rawResponseRecorder` → handler;
  then `rawResponseWriter.finish`.

What could survive from one request to the next is threaded through the history as `Proc`: the
encoder's scratch buffer (`RawSeq`), the arbitration state of the last `rawResponseWriter`, and the
header map of the last response.  What the code does with each of them (a new, empty one per
request) is a line of the model; "an exchange shows what it would show as the first exchange of a
fresh process" is a theorem (`Props/C17.lean`).  Core Lean only.
-/
import ConfModel.Model.RawBody
import ConfModel.Model.RawMerge
import ConfModel.Model.RawSeq
namespace ConfModel.RawStack
open ConfModel.RawBody ConfModel.RawMerge ConfModel.RawSeq

abbrev Hdrs := Values String

/-- the raw response a response definition prescribes -/
structure RawDef where
  status : Nat
  headers : List (String × List String)
  trailers : List (String × List String)
  body : Body
deriving DecidableEq, Repr

/-- one exchange: the request as far as the stack in front of the handler looks at it, and what
the handler would do for the rest of the response definition -/
structure Exch where
  /-- the request's `Origin` header -/
  origin : Option String
  /-- `response_definition.raw_response` -/
  prescribed : Option RawDef
  /-- what the interceptors and the handler put into the header map when they run
  (`Server`, `Content-Type`, the definition's response headers, …) -/
  handlerHdrs : List (String × List String)
  /-- what the handler does with the ResponseWriter when it runs (a unary gRPC error with headers
  installs a raw response of the server's own making: `.setRaw`) -/
  handler : List Op
  /-- how many bytes of a raw body the ResponseWriter takes (`none`: all) -/
  budget : Option Nat
deriving DecidableEq, Repr

/-- what may survive an exchange in the process -/
structure Proc where
  scratch : RawBody.Bytes := []
  lastWriter : St := {}
  lastHdrs : Hdrs := []
deriving DecidableEq, Repr

/-- what the peer sees of one exchange -/
structure Seen where
  /-- the response is the raw responder's -/
  raw : Bool
  status : Nat
  headers : Hdrs
  body : RawBody.Bytes
  trailers : List (String × List String)
deriving DecidableEq, Repr

/-- rs/cors v1.11 `handleActualRequest` as `createServer` configures it (`AllowOriginFunc` always
true, `AllowCredentials`, `ExposedHeaders: *`, POST allowed): `Vary: Origin` always (appended to a
`Vary` that is already there); with an `Origin`, the three `Access-Control-*` headers are *set*. -/
def corsActual (h : Hdrs) (origin : Option String) : Hdrs :=
  let h := add h "Vary" ["Origin"]
  match origin with
  | none => h
  | some o =>
    let h := set h "Access-Control-Allow-Origin" [o]
    let h := set h "Access-Control-Expose-Headers" ["*"]
    set h "Access-Control-Allow-Credentials" ["true"]

/-- the status the handler's output carries: the first `WriteHeader`, else the implicit 200 -/
def handlerStatus : List Ev → Nat
  | [] => 200
  | .header c :: _ => c
  | .body _ :: _ => 200
  | .flush :: _ => 200

def handlerBody (evs : List Ev) : RawBody.Bytes :=
  evs.flatMap fun e => match e with | .body b => b | _ => []

/-- One exchange.  `canon` is `textproto.CanonicalMIMEHeaderKey`. -/
def serve (compress : Compress) (canon : String → String) (p : Proc) (x : Exch) : Proc × Seen :=
  -- net/http: a new ResponseWriter with an empty header map — not `p.lastHdrs`
  let h0 : Hdrs := []
  -- cors.Handler → handleActualRequest
  let h1 := corsActual h0 x.origin
  -- rawResponder: `snapshotHeaders := respWriter.Header().Clone()`,
  -- `&rawResponseWriter{respWriter: respWriter}` — a new writer, not `p.lastWriter`
  let snap := h1
  let w0 : St := {}
  -- referenceServerChecks, mux, interceptors: `rawResponseRecorder` stores a prescribed raw
  -- response (the handler then does not run); otherwise the handler runs and sets its headers
  let ops := recorded (x.prescribed.map fun d => ⟨d.status, []⟩) x.handler
  let cur := match x.prescribed with
    | some _ => h1
    | none => addAll h1 (x.handlerHdrs.map fun q => (canon q.1, q.2))
  let w := (run w0 ops).1
  -- rawResponseWriter.finish
  match w.raw, x.prescribed with
  | none, _ =>
    -- `if resp == nil { return }`: the response is what the handler sent
    (⟨p.scratch, w, cur⟩, ⟨false, handlerStatus w.wire, cur, handlerBody w.wire, []⟩)
  | some r, some d =>
    let hdrs := finishHeaders canon cur snap d.headers d.trailers
    let b := runStep compress p.scratch ⟨d.body, x.budget⟩
    (⟨b.1, w, hdrs⟩, ⟨true, finishStatus r.status, hdrs, b.2.out, d.trailers⟩)
  | some r, none =>
    -- a raw response of the server's own making: no given headers, the body as it stands
    let hdrs := finishHeaders canon cur snap [] []
    (⟨p.scratch, w, hdrs⟩, ⟨true, finishStatus r.status, hdrs, r.body, []⟩)

/-- a history of exchanges with one process -/
def serveHist (compress : Compress) (canon : String → String) : Proc → List Exch → Proc × List Seen
  | p, [] => (p, [])
  | p, x :: t =>
    let r := serve compress canon p x
    let r2 := serveHist compress canon r.1 t
    (r2.1, r.2 :: r2.2)

/-- what one exchange must show, as a function of that exchange alone: its first showing in a
fresh process -/
def seenOf (compress : Compress) (canon : String → String) (x : Exch) : Seen :=
  (serve compress canon {} x).2

end ConfModel.RawStack
