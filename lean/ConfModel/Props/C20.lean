/-
C20 — every supported compression round-trips, also when instances are reused.
Property theorems only.

The third-party algorithms are a parameter `l : Lib`; the theorems hold for every `l` with
`l.Lawful` (a fresh library reader returns `b` on `l.enc b`) — what else the library does on
other inputs (corrupt, truncated, empty) is arbitrary.  The assumption that a library `Reset`
restores a fresh reader is part of the model (`Rd.reset`) and is what the implementation half
of the correspondence tests.  The theorems are about the repository's wrappers.
-/
import ConfModel.Lemmas.Compression
import ConfModel.Lemmas.CompressionRaw
import ConfModel.Generated.C20Facts
namespace ConfModel.Props.C20
open ConfModel.Compression ConfModel.CompressionSpec

/-- One message through a pooled instance returns the message, **in whatever state** the
instance is (closed, reset on an empty body, after a failed decode, never used). -/
theorem cycle_valid (l : Lib) (hl : l.Lawful) (s : St) (b : Bytes) :
    (cycle l s (l.enc b)).2 = .data b :=
  cycle_valid_aux l hl s b

/-- For every history of a pooled instance — messages with arbitrary (valid, corrupt,
truncated, empty) sources, stray closes, resets on an empty body, stray reads — and every
position in it: a step that carries a valid encoding of `b` returns exactly `b`. -/
theorem reuse_roundtrip (l : Lib) (hl : l.Lawful) (k : Kind) (h : List HStep) (i : Nat) (b : Bytes)
    (hi : h[i]? = some (.msg (l.enc b))) : (runH l (init k) h).2[i]? = some (.data b) :=
  runH_valid l hl (init k) h i b hi

/-- in particular after any history whatsoever -/
theorem reuse_after_any_history (l : Lib) (hl : l.Lawful) (k : Kind) (h : List HStep) (b : Bytes) :
    (hstep l (runH l (init k) h).1 (.msg (l.enc b))).2 = .data b :=
  cycle_valid_aux l hl _ b

/-- non-vacuity: a lawful library (identity with a one-byte header that a fresh reader checks) and a
history with a failed decode, a stray close and an empty reset before the valid message -/
def toyLib : Lib :=
  { enc := fun b => 7 :: b,
    look := fun s => match s with | 7 :: b => ⟨true, some b⟩ | [] => ⟨false, none⟩ | _ => ⟨true, none⟩ }

theorem toyLib_lawful : toyLib.Lawful := fun _ => rfl

example : (runH toyLib (init .zstd) [.msg [9, 9], .close, .resetEmpty, .read, .msg (toyLib.enc [1, 2])]).2 =
    [.err, .ok, .err, .err, .data [1, 2]] := by decide

example : (runH toyLib (init .deflate) [.msg [9, 9], .close, .resetEmpty, .msg (toyLib.enc [1, 2])]).2 =
    [.err, .err, .err, .data [1, 2]] := by decide

/-- `Close` twice is `Close` once: same state, and the second call cannot panic if the first did not. -/
theorem close_idempotent (l : Lib) (s : St) :
    (step l (step l s .close).1 .close).1 = (step l s .close).1 ∧
    ((step l s .close).2 ≠ .panic → (step l (step l s .close).1 .close).2 ≠ .panic) := by
  cases s with
  | noop r => cases r <;> simp [step]
  | gzip f r => cases f <;> simp [step]
  | brotli r => simp [step]
  | snappy r => simp [step]
  | zstd d => cases d <;> simp [step]
  | deflate r =>
    cases r with
    | none => simp [step]
    | some o => cases o <;> simp [step, okIf] <;> split <;> simp

/-- A closed zstd decompressor (decoder discarded) reads as EOF — no nil dereference —, and so
does a deflate decompressor that was never reset. -/
theorem read_after_close_eof (l : Lib) (d : Option Rd) :
    step l (step l (.zstd d) .close).1 .readAll = (.zstd none, .data []) ∧
    step l (init .deflate) .readAll = (.deflate none, .data []) := by
  cases d <;> simp [step, init]

/-- the zstd decoder discarded by `Close` is recreated by the next `Reset` -/
theorem zstd_recreated (l : Lib) (d : Option Rd) (src : Bytes) :
    (step l (step l (.zstd d) .close).1 (.reset src)).1 = .zstd (some (.fresh (l.look src).read)) := by
  cases d <;> simp [step, Rd.reset]

/-- the deflate error sentinel is replaced by the next good `Reset` -/
theorem deflate_sentinel_replaced (l : Lib) (hl : l.Lawful) (b : Bytes) :
    (step l (.deflate (some none)) (.reset (l.enc b))).1 = .deflate (some (some (.fresh (some b)))) := by
  simp [step, Rd.reset, hl b]

/-- Once an instance has been reset (`noop`) / reset successfully (`gzip`), and always for the
four wrappers, no method call panics, and that stays so. -/
theorem no_panic (l : Lib) (s : St) (hs : safe s = true) (op : Op) :
    (step l s op).2 ≠ .panic ∧ safe (step l s op).1 = true :=
  step_safe l s hs op

/-- a valid message makes every instance safe (whatever its state) -/
theorem safe_after_valid (l : Lib) (hl : l.Lawful) (s : St) (b : Bytes) :
    safe (step l s (.reset (l.enc b))).1 = true :=
  reset_valid_safe l hl s b

/-- A pooled compressor used for a list of messages (`Reset(dst); Write(m); Close()` each)
leaves in the i-th destination exactly the encoding of the i-th message. -/
theorem compressor_reuse (l : Lib) (ms : List Bytes) :
    (compressAll l cinit ms).done ++ (compressAll l cinit ms).dst.toList = ms.map l.enc := by
  have := compressAll_sinks l cinit ms rfl
  simpa [cinit] using this

/-- **How a message is handed over does not matter**: one `Write`, one per byte, the chunks of
an `io.Copy`, or no `Write` at all for the empty message (`bytes.Buffer.WriteTo`, which is what
connect-go's envelope writer does) — a pooled compressor ends in the same state as with one
`Write` per message, after any number of messages. -/
theorem handover_irrelevant (l : Lib) (s : CState) (css : List (List Bytes)) :
    compressVia l s css = compressAll l s (css.map List.flatten) :=
  compressVia_eq_compressAll l s css

/-- … hence the i-th destination holds exactly the encoding of the i-th message, whatever the
earlier messages were and however each was cut into `Write` calls (empty messages with no call
included). -/
theorem compressor_reuse_any_handover (l : Lib) (css : List (List Bytes)) :
    (compressVia l cinit css).done ++ (compressVia l cinit css).dst.toList =
      css.map (fun cs => l.enc cs.flatten) := by
  rw [handover_irrelevant, compressor_reuse]
  simp [List.map_map, Function.comp_def]

-- an empty message with no Write at all between two others: three destinations, the middle one `enc []`
example : (compressVia toyLib cinit [[[1], [2]], [], [[3]]]).done ++ (compressVia toyLib cinit [[[1], [2]], [], [[3]]]).dst.toList
    = [toyLib.enc [1, 2], toyLib.enc [], toyLib.enc [3]] := by decide

/-! ## fresh instances, in every environment -/

/-- **Fresh construction round-trips in every environment**: a compressor and a decompressor
constructed while the process may use `e.procs` CPUs — one, two or many — return every message
byte-exact, the empty one included (`historyOk`, the predicate the check evaluates on what the
real constructors deliver under `runtime.GOMAXPROCS(e.procs)`). -/
theorem fresh_roundtrip_any_env (l : Lib) (hl : l.Lawful) (e : Env) (k : Kind) (ms : List Bytes) :
    freshRoundTrip l e k ms = ms.map .data ∧
    historyOk (ms.map some) (freshRoundTrip l e k ms) = true := by
  have h1 : freshRoundTrip l e k ms = ms.map .data := by
    unfold freshRoundTrip cconstruct construct
    simp only []
    rw [compressor_reuse l ms]
    generalize init k = s
    induction ms generalizing s with
    | nil => rfl
    | cons m t ih =>
      simp only [List.map_cons, runH, hstep]
      rw [ih]
      simp [cycle_valid l hl s m]
  refine ⟨h1, ?_⟩
  rw [h1]
  clear h1
  unfold historyOk
  simp only [List.length_map, beq_self_eq_true, Bool.true_and]
  induction ms with
  | nil => rfl
  | cons m t ih =>
    simp only [List.map_cons, List.zip_cons_cons, List.all_cons, ih, Bool.and_true]
    simp

/-- the environment is not an input of the wrappers at all -/
theorem construct_env_independent (e e' : Env) (k : Kind) :
    construct e k = construct e' k ∧ cconstruct e = cconstruct e' := ⟨rfl, rfl⟩

example : freshRoundTrip toyLib ⟨1⟩ .zstd [[1, 2], [], [3]] = [.data [1, 2], .data [], .data [3]] := by decide

/-! ## raw-payload encoders (`internal/raw_http_body.go` with the compressors of `internal/compression`) -/

/-- A present payload — also the empty one — written by `WriteRawMessageContents` under one of
the six encodings (or unspecified) is the encoding of exactly that payload: a fresh reader of
the same algorithm returns it, and so does a pooled decompressor in whatever state it is. -/
theorem raw_message_roundtrip (ls : Alg → Lib) (hl : ∀ a, (ls a).Lawful) (e : Nat) (a : Alg)
    (ha : algOfEnum e = some a) (d : Bytes) (s : St) :
    ∃ w, RawBody.writeMessage (rawCompress ls) (some ⟨some d, e⟩) = some w ∧
      (ls a).look w = ⟨true, some d⟩ ∧ (cycle (ls a) s w).2 = .data d :=
  ⟨(ls a).enc d, by simp [RawBody.writeMessage, rawCompress, ha], hl a d, cycle_valid_aux _ (hl a) s d⟩

/-- in particular the empty payload is not "nothing": it is written as `enc []` -/
example (ls : Alg → Lib) : RawBody.writeMessage (rawCompress ls) (some ⟨some [], 2⟩) = some ((ls .gzip).enc []) := rfl

/-- an absent payload (nil contents, unset oneof) writes nothing and asks for no compressor;
an enum value outside the table is refused, also for the empty payload -/
theorem raw_message_absent_unsupported (ls : Alg → Lib) (e : Nat) (d : Bytes) :
    RawBody.writeMessage (rawCompress ls) none = some [] ∧
    RawBody.writeMessage (rawCompress ls) (some ⟨none, e⟩) = some [] ∧
    (algOfEnum e = none → RawBody.writeMessage (rawCompress ls) (some ⟨some d, e⟩) = none) := by
  refine ⟨rfl, rfl, fun h => ?_⟩
  simp [RawBody.writeMessage, rawCompress, h]

/-- `WriteRawStreamContents` on items without an explicit length: nothing fails, and the body
splits back into exactly one envelope per item, carrying the item's flags and the bytes
`WriteRawMessageContents` writes for its payload (which `raw_message_roundtrip` decodes). -/
theorem raw_stream_frames (ls : Alg → Lib) (items : List RawBody.Item)
    (h : ∀ it ∈ items, it.length = none ∧ it.flags ≤ 255 ∧
      ∃ p, RawBody.writeMessage (rawCompress ls) it.payload = some p ∧ p.length < 4294967296) :
    (RawBody.writeStream (rawCompress ls) items).failed = false ∧
    splitFrames items.length (RawBody.writeStream (rawCompress ls) items).bytes =
      (items.map (fun it => (it.flags, (RawBody.writeMessage (rawCompress ls) it.payload).getD [])), []) := by
  induction items with
  | nil => exact ⟨rfl, rfl⟩
  | cons it t ih =>
    obtain ⟨hlen, hfl, p, hp, hpl⟩ := h it (List.mem_cons_self ..)
    have ih' := ih (fun x hx => h x (List.mem_cons_of_mem _ hx))
    have hfl' : ¬ it.flags > 255 := by omega
    simp only [RawBody.writeStream, hfl', if_false, hlen, hp, List.length_cons, List.map_cons, Option.getD_some]
    refine ⟨ih'.1, ?_⟩
    rw [splitFrames_cons _ _ _ _ hfl hpl, ih'.2]

/-- non-vacuity: two items (an empty gzip payload with the compressed flag, an absent payload) -/
example : (RawBody.writeStream (rawCompress (fun _ => toyLib)) [⟨1, none, some ⟨some [], 2⟩⟩, ⟨2, none, none⟩]).bytes =
    [1, 0, 0, 0, 1, 7, 2, 0, 0, 0, 0] := by decide

/-! ## the wire tracer's end-stream path (`internal/tracer/reader.go`) -/

/-- A compressed end-stream message that is a valid encoding of `b` is reported as `b` by the
tracer's decompressor instance in whatever state earlier messages left it … -/
theorem tracer_valid (l : Lib) (hl : l.Lawful) (s : St) (b : Bytes) : (tracerDecode l s (l.enc b)).2 = b :=
  tracerDecode_valid l hl s b

/-- … hence at every position of every sequence of end-stream payloads of one response body
(damaged, truncated or valid), starting from the instance `GetDecompressor` returns. -/
theorem tracer_history (l : Lib) (hl : l.Lawful) (k : Kind) (srcs : List Bytes) (i : Nat) (b : Bytes)
    (hi : srcs[i]? = some (l.enc b)) : (tracerRun l (init k) srcs)[i]? = some b :=
  tracerRun_valid l hl (init k) srcs i b hi

/-- The same for a whole body of data and end-stream messages, compressed or not: the content
reported for a compressed, non-empty end-stream message carrying a valid encoding of `b` is
`b`; for an uncompressed one its payload; nothing for a message that is no end-stream message. -/
theorem tracer_body (l : Lib) (hl : l.Lawful) (s : St) (msgs : List TMsg) (i : Nat) (m : TMsg)
    (hi : msgs[i]? = some m) :
    (m.src ≠ [] → ¬ (m.flags % 4 < 2 ∧ m.flags % 256 < 128) → m.flags % 2 = 1 →
      ∀ b, m.src = l.enc b → (tracerBody l s msgs)[i]? = some b) ∧
    (m.src ≠ [] → ¬ (m.flags % 4 < 2 ∧ m.flags % 256 < 128) → m.flags % 2 = 0 →
      (tracerBody l s msgs)[i]? = some m.src) ∧
    ((m.flags % 4 < 2 ∧ m.flags % 256 < 128) → (tracerBody l s msgs)[i]? = some []) := by
  induction msgs generalizing s i with
  | nil => simp at hi
  | cons x t ih =>
    cases i with
    | zero =>
      simp only [List.getElem?_cons_zero, Option.some.injEq] at hi
      subst hi
      refine ⟨fun hne hend hc b hb => ?_, fun hne hend hc => ?_, fun hnot => ?_⟩
      · have h1 : (x.src.isEmpty || (decide (x.flags % 4 < 2) && decide (x.flags % 256 < 128))) = false := by
          cases hs : x.src with
          | nil => exact absurd hs hne
          | cons _ _ => simpa using hend
        have h2 : (x.flags % 2 == 0) = false := by simp [hc]
        rw [tracerBody]
        simp only [h1, h2, Bool.false_eq_true, if_false]
        simp [hb, tracerDecode_valid l hl s b]
      · have h1 : (x.src.isEmpty || (decide (x.flags % 4 < 2) && decide (x.flags % 256 < 128))) = false := by
          cases hs : x.src with
          | nil => exact absurd hs hne
          | cons _ _ => simpa using hend
        rw [tracerBody]
        simp [h1, hc]
      · rw [tracerBody]
        simp [hnot.1, hnot.2]
    | succ j =>
      simp only [List.getElem?_cons_succ] at hi
      obtain ⟨y, s', hy⟩ := tracerBody_cons l s x t
      rw [hy]
      simp only [List.getElem?_cons_succ]
      exact ih s' j hi

/-- non-vacuity: a damaged compressed end-stream message, an uncompressed one, a data message
and a valid compressed one, from a fresh zstd instance -/
example : tracerBody toyLib (init .zstd) [⟨3, [9, 9]⟩, ⟨2, [5]⟩, ⟨1, [7, 4]⟩, ⟨3, toyLib.enc [1, 2]⟩] =
    [[], [5], [], [1, 2]] := by decide

/-- within the model's tables a name and its enum value denote the same algorithm -/
theorem names_model : ∀ e ∈ [1, 2, 3, 4, 5, 6], (nameOfEnum e).bind algOfName = algOfEnum e := by decide

/-- The tables extracted from the current tree (constants, `GetCompressor`/`GetDecompressor`,
the raw-payload encoders, `tracer.GetDecompressor`, `checkCompression`, server and client
registrations) are consistent: the same name denotes the same algorithm everywhere, all six and only those. -/
theorem names_consistent : consistent Generated.C20Facts.tables = true := by decide

end ConfModel.Props.C20
