package main

import (
	"encoding/json"
	"fmt"
	"sort"
	"strconv"
	"strings"

	cc "connectrpc.com/conformance/internal/app/connectconformance"
	"connectrpc.com/conformance/internal/verifharness/gen"
)

// C04, op "inrun": one whole run in one process — the real client runner on an in-process scripted
// client, the real batch runner, the real testResults with known-failing / known-flaky tries, then
// closeSend / waitForResponses / report / verdict as run() and Run do (cc.VerifC04InProc).
//
// What this reaches and the scenarios with a client PROCESS (op "runloop") cannot: a client whose
// stdout ends CLEANLY while requests it accepted are still unanswered.  (With an OS process the
// runner's stdin copier keeps exec.Cmd.Wait from returning until the 20 s response time-out has
// fired, so the reader never sees a clean end of stream with callbacks pending; an in-process
// client — the way the reference clients are run — closes its pipes the moment it returns.)  Nothing
// fails anywhere then: no write error, no exit status, no error latched, waitForResponses returns
// nil.  Only the report stands between the unanswered cases and a successful run.
//
// in   = {marks (per case u|f|k), client (script: "req" read one request | "ans <m> <kind>" answer
//        case m with pass|mismatch|error|neither|error:<key> (a client-reported error whose message is
//        c04Msgs[key]: empty, blank, many lines, format verbs, long …) | "garbage" | "exit <code>"), isRef}
// impl = {ok (report && wait == nil), report, wait ("" | err | hang), the printed totals, FAILED /
//        INFO names, rets (what sendRequest returned per case), cbs}

type c04InIn struct {
	Marks  []string `json:"marks"`
	Client []string `json:"client"`
	IsRef  bool     `json:"isRef,omitempty"`
	// SrvFb: feedback lines the in-process reference server prints about cases of the batch:
	// "<phase> <case> <delay ms>" with phase early (after its handshake, before any request) |
	// shutdown (that long after the runner told it to stop, before it has ended).  Feedback counts
	// whenever the peer reports it, as long as it has not ended.
	SrvFb []string `json:"srvFb,omitempty"`
}

type c04InOut struct {
	OK          bool     `json:"ok"`
	Report      bool     `json:"report"`
	Wait        string   `json:"wait"`
	Total       int      `json:"total"`
	Passed      int      `json:"passed"`
	Failed      int      `json:"failed"`
	NotRun      int      `json:"notRun"`
	Expected    int      `json:"expected"`
	FailedNames []string `json:"failedNames"`
	InfoNames   []string `json:"infoNames"`
	Rets        []string `json:"rets"`
	Cbs         []int    `json:"cbs"`
	Panics      []string `json:"panics"`
	Hang        bool     `json:"hang,omitempty"`
	Invalid     bool     `json:"invalid,omitempty"`
}

func init() {
	gen.RegisterOp("c04", "inrun", func(_ *gen.Ctx, raw json.RawMessage) any {
		return c04InRun(gen.Into[c04InIn](raw))
	})
}

func c04InName(i int) string { return fmt.Sprintf("Suite/in/case%d", i) }

// c04InScript parses the client script; ok = it is a well-formed client: it answers only requests
// it has read, each at most once, and nothing follows an exit or a garbage write.
func c04InScript(n int, script []string) ([]cc.VerifC11InAct, bool) {
	var acts []cc.VerifC11InAct
	read, ended := 0, false
	answered := map[int]bool{}
	for _, a := range script {
		f := strings.Fields(a)
		if len(f) == 0 || ended {
			return nil, false
		}
		switch {
		case f[0] == "req" && len(f) == 1:
			read++
			acts = append(acts, cc.VerifC11InAct{K: "req"})
		case f[0] == "ans" && len(f) == 3:
			m, err := strconv.Atoi(f[1])
			if err != nil || m < 0 || m >= n || m >= read || answered[m] {
				return nil, false
			}
			kind := f[2]
			switch {
			case kind == "pass", kind == "mismatch", kind == "error", kind == "neither":
			case strings.HasPrefix(kind, "error:") && len(kind) == 7:
				// a client-reported error with the message c04Msgs[key]
				msg, ok := c04Msgs[kind[6]]
				if !ok {
					return nil, false
				}
				kind = "error:" + msg
			default:
				return nil, false
			}
			answered[m] = true
			acts = append(acts, cc.VerifC11InAct{K: "ans", M: m, Kind: kind})
		case f[0] == "garbage" && len(f) == 1:
			ended = true
			acts = append(acts, cc.VerifC11InAct{K: "garbage"})
		case f[0] == "exit" && len(f) == 2:
			code, err := strconv.Atoi(f[1])
			if err != nil || code < 0 {
				return nil, false
			}
			ended = true
			acts = append(acts, cc.VerifC11InAct{K: "exit", Code: code})
		default:
			return nil, false
		}
	}
	return acts, read <= n
}

func c04InRun(in c04InIn) c04InOut {
	out := c04InOut{Total: -1, FailedNames: []string{}, InfoNames: []string{}, Rets: []string{}, Cbs: []int{}, Panics: []string{}}
	n := len(in.Marks)
	acts, ok := c04InScript(n, in.Client)
	if !ok || n == 0 {
		out.Invalid = true
		return out
	}
	names := make([]string, n)
	var failing, flaky []string
	for i, m := range in.Marks {
		names[i] = c04InName(i)
		switch m {
		case "u":
		case "f":
			failing = append(failing, names[i])
		case "k":
			flaky = append(flaky, names[i])
		default:
			out.Invalid = true
			return out
		}
	}
	var srvFb []cc.VerifC04SrvFb
	for _, l := range in.SrvFb {
		f := strings.Fields(l)
		if len(f) != 3 || (f[0] != "early" && f[0] != "shutdown") {
			out.Invalid = true
			return out
		}
		ci, err1 := strconv.Atoi(f[1])
		ms, err2 := strconv.Atoi(f[2])
		if err1 != nil || err2 != nil || ci < 0 || ci >= n || ms < 0 || ms > 2000 {
			out.Invalid = true
			return out
		}
		srvFb = append(srvFb, cc.VerifC04SrvFb{Phase: f[0], Case: ci, Msg: "late or early, feedback is feedback", DelayMs: ms})
	}
	obs := cc.VerifC04InProcFb(cc.VerifC11InSpec{Names: names, Client: acts, IsRef: in.IsRef, TimeoutS: 40}, failing, flaky, srvFb)
	out.OK, out.Report, out.Hang = obs.OK, obs.Report, obs.Hang
	switch obs.WaitErr {
	case "", "hang":
		out.Wait = obs.WaitErr
	default:
		out.Wait = "err"
	}
	out.Rets = append(out.Rets, obs.Rets...)
	out.Cbs = append(out.Cbs, obs.Cbs...)
	out.Panics = append(out.Panics, obs.Panics...)
	atoi := func(s string) int { v, _ := strconv.Atoi(s); return v }
	for _, m := range obs.Lines {
		if !strings.HasSuffix(m, "\n") {
			m += "\n"
		}
		switch {
		case c04ReFailedUP.MatchString(m):
			out.FailedNames = append(out.FailedNames, c04ReFailedUP.FindStringSubmatch(m)[1])
		case c04ReFailed.MatchString(m):
			out.FailedNames = append(out.FailedNames, c04ReFailed.FindStringSubmatch(m)[1])
		case c04ReInfo.MatchString(m):
			out.InfoNames = append(out.InfoNames, c04ReInfo.FindStringSubmatch(m)[1])
		case c04ReTotal.MatchString(m) && out.Total < 0:
			g := c04ReTotal.FindStringSubmatch(m)
			out.Total, out.Passed, out.Failed = atoi(g[1]), atoi(g[2]), atoi(g[3])
		case c04ReNotRun.MatchString(m) && out.NotRun == 0:
			out.NotRun = atoi(c04ReNotRun.FindStringSubmatch(m)[1])
		case c04ReExpected.MatchString(m) && out.Expected == 0:
			out.Expected = atoi(c04ReExpected.FindStringSubmatch(m)[1])
		}
	}
	sort.Strings(out.FailedNames)
	sort.Strings(out.InfoNames)
	return out
}

// c04InGen: every marking of 1-3 cases x every subset of them answered, the client having read
// every request and returning cleanly (the path on which nothing but the report can fail the run);
// then random scripts: fewer requests read, unclean ends, garbage, answers of every kind.
func c04InGen(c *gen.Ctx) {
	r := c.R.Fork()
	var ins []any
	marks := []string{"u", "f", "k"}
	maxN := 3
	for n := 1; n <= maxN; n++ {
		nm := 1
		for i := 0; i < n; i++ {
			nm *= 3
		}
		for mi := 0; mi < nm; mi++ {
			ms := make([]string, n)
			for i, v := 0, mi; i < n; i, v = i+1, v/3 {
				ms[i] = marks[v%3]
			}
			for sub := 0; sub < 1<<n; sub++ {
				var script []string
				for i := 0; i < n; i++ {
					script = append(script, "req")
					if sub&(1<<i) != 0 {
						kind := "pass"
						if ms[i] == "f" || r.Chance(1, 4) {
							kind = gen.Pick(r, []string{"mismatch", "error", "pass", "error:"})
						}
						if kind == "error:" {
							kind += string(c04MsgKeys[r.Intn(len(c04MsgKeys))])
						}
						script = append(script, fmt.Sprintf("ans %d %s", i, kind))
					}
				}
				if r.Bool() {
					script = append(script, "exit 0") // or simply the end of the program
				}
				ins = append(ins, c04InIn{Marks: ms, Client: script, IsRef: r.Bool()})
				c.E.Count("inrun:all-read-clean-end")
			}
		}
	}
	// what the client SAYS when it reports an error never changes what happened: every message of the
	// pool on an unmarked case (the run must fail and name it) and on a known-failing / known-flaky
	// one (an expected failure: the run must succeed)
	for _, k := range c04MsgKeys {
		for _, m := range marks {
			ins = append(ins, c04InIn{Marks: []string{m, "u"}, Client: []string{"req", "ans 0 error:" + string(k), "req", "ans 1 pass"}, IsRef: r.Bool()})
			c.E.Count("inrun:client-error-message")
		}
	}
	// feedback of the reference server counts whenever it is printed before the server has ENDED: right
	// after its start, and during its graceful shutdown (the runner tells the server to stop as soon
	// as the last response of the batch has arrived; a handler still running then may complain —
	// request trailers, a request finished late, a cancelled call).  Every marking of the case the
	// late complaint is about, clients that answer everything as expected.
	for _, phase := range []string{"early", "shutdown"} {
		for _, m := range marks {
			for _, delay := range []int{0, 40, 150} {
				if phase == "early" && delay > 0 {
					continue
				}
				ins = append(ins, c04InIn{Marks: []string{m}, Client: []string{"req", "ans 0 pass"}, IsRef: true,
					SrvFb: []string{fmt.Sprintf("%s 0 %d", phase, delay)}})
				ins = append(ins, c04InIn{Marks: []string{"u", m}, Client: []string{"req", "ans 0 pass", "req", "ans 1 pass"}, IsRef: true,
					SrvFb: []string{fmt.Sprintf("%s 1 %d", phase, delay)}})
				c.E.Add("inrun:server-feedback:"+phase, 2)
			}
		}
	}
	nSrv := 12
	if c.Thorough() {
		nSrv = 300
	}
	for i := 0; i < nSrv; i++ {
		n := r.Range(1, 4)
		in := c04InIn{IsRef: true}
		for k := 0; k < n; k++ {
			in.Marks = append(in.Marks, gen.Pick(r, []string{"u", "u", "f", "k"}))
			in.Client = append(in.Client, "req")
			if r.Chance(5, 6) {
				in.Client = append(in.Client, fmt.Sprintf("ans %d %s", k, gen.Pick(r, []string{"pass", "pass", "pass", "mismatch", "error:e"})))
			}
		}
		for k := r.Range(1, 3); k > 0; k-- {
			in.SrvFb = append(in.SrvFb, fmt.Sprintf("%s %d %d", gen.Pick(r, []string{"early", "shutdown", "shutdown"}), r.Intn(n), r.Intn(120)))
		}
		ins = append(ins, in)
		c.E.Count("inrun:server-feedback:random")
	}
	nRand := 80
	if c.Thorough() {
		nRand = 3000
	}
	for i := 0; i < nRand; i++ {
		n := r.Range(1, 5)
		ms := make([]string, n)
		for k := range ms {
			ms[k] = gen.Pick(r, []string{"u", "u", "f", "k"})
		}
		read := n
		if r.Chance(1, 3) {
			read = r.Intn(n + 1)
		}
		var script []string
		var pendingAns []int
		for k := 0; k < read; k++ {
			script = append(script, "req")
			if r.Chance(3, 4) {
				pendingAns = append(pendingAns, k)
			}
			// answers may come later than the request, in any order
			for len(pendingAns) > 0 && r.Chance(2, 3) {
				j := r.Intn(len(pendingAns))
				m := pendingAns[j]
				pendingAns = append(pendingAns[:j], pendingAns[j+1:]...)
				kind := gen.Pick(r, []string{"pass", "pass", "pass", "mismatch", "error", "neither", "error:", "error:"})
				if kind == "error:" {
					kind += string(c04MsgKeys[r.Intn(len(c04MsgKeys))])
				}
				script = append(script, fmt.Sprintf("ans %d %s", m, kind))
			}
		}
		switch r.Intn(6) {
		case 0:
			script = append(script, "exit 1")
			c.E.Count("inrun:unclean-exit")
		case 1:
			script = append(script, "garbage")
			c.E.Count("inrun:garbage")
		case 2:
			script = append(script, "exit 0")
			c.E.Count("inrun:random")
		default:
			c.E.Count("inrun:random")
		}
		ins = append(ins, c04InIn{Marks: ms, Client: script, IsRef: r.Bool()})
	}
	c.DoParallel("inrun", ins, 8)
}
