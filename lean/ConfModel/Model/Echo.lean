/-
C02 — model of how an expected result is derived from a test-case definition
(`populateExpectedResponse`, `populateExpectedUnaryResponse`, `populateExpectedStreamResponse`
in test_case_library.go) and of what the reference peers produce for it
(`referenceserver/impl.go`, `grpcserver/impl.go` handlers composed with
`referenceclient/impl.go`, `grpcclient/impl.go` observers) in the deterministic fragment:
no delays, timeouts, cancellation, raw payloads or size-limit directives.

Request messages are opaque identifiers (`ReqId`): the only thing the peers do with a request
message besides reading the response definition of the first one is to echo it back.
The response definition lives in the first request message; `TC.udef` / `TC.sdef` is that
definition (`none` when the first message carries none).

Connect GET (`use_get_http_method`, method `IdempotentUnary`): the expectation of a unary /
client-stream case then lists the query parameters `encoding=<codec>` and `connect=v1`
(`getQuery`); what the server's RPC library presents as query parameters is a component of the
transport (`Wire.query`) that every `createRequestInfo` echoes.  The `Unimplemented` method has no
response definition: nothing can be derived for it (`populate` rejects unless the suite gives the
expected response itself) and both servers answer `unimplemented` without looking at the request.
-/
namespace ConfModel.Echo

structure Hdr where
  name : String
  vals : List String
deriving DecidableEq, Repr, Inhabited

abbrev ReqId := Nat

/-- `ConformancePayload.RequestInfo` without timeout (outside the fragment); `query` are the
`connect_get_info.query_params` (`[]`: no `ConnectGetInfo`, or one that lists nothing — the code
only ever asks for `len(...GetQueryParams())`) -/
structure ReqInfo where
  hdrs : List Hdr
  reqs : List ReqId
  query : List Hdr
deriving DecidableEq, Repr, Inhabited

/-- an error detail: an arbitrary registered message (other) or a `RequestInfo` -/
inductive Detail
  | other (id : Nat)
  | info (ri : ReqInfo)
deriving DecidableEq, Repr, Inhabited

structure Err where
  code : Nat
  msg : Option String
  details : List Detail
deriving DecidableEq, Repr, Inhabited

inductive UResp
  | none
  | data (d : String)
  | error (e : Err)
deriving DecidableEq, Repr, Inhabited

structure UnaryDef where
  hdrs : List Hdr
  trls : List Hdr
  resp : UResp
deriving DecidableEq, Repr, Inhabited

structure StreamDef where
  hdrs : List Hdr
  trls : List Hdr
  data : List String
  err : Option Err
deriving DecidableEq, Repr, Inhabited

inductive ST
  | unary | clientStream | serverStream | halfDuplex | fullDuplex
deriving DecidableEq, Repr, Inhabited

structure Payload where
  data : String
  info : Option ReqInfo
deriving DecidableEq, Repr, Inhabited

/-- `ClientResponseResult` (status code, feedback and unsent-count are not part of the fragment) -/
structure Result where
  hdrs : List Hdr
  trls : List Hdr
  payloads : List Payload
  err : Option Err
deriving DecidableEq, Repr, Inhabited

/-- the permutation's codec, as far as the generator looks at it (`CODEC_JSON` or anything else) -/
inductive Codec
  | proto | json
deriving DecidableEq, Repr, Inhabited

/-- value of the `encoding` query parameter the generator expects -/
def Codec.encoding : Codec → String
  | .json => "json"
  | .proto => "proto"

/-- the method called: the stream type's default method (`Unary`, `ClientStream`, `ServerStream`,
`BidiStream` — given explicitly or filled in by the runner), `IdempotentUnary`, or `Unimplemented` -/
inductive Method
  | std | idempotent | unimplemented
deriving DecidableEq, Repr, Inhabited

/-- a test case of the deterministic fragment -/
structure TC where
  st : ST
  reqHdrs : List Hdr
  reqs : List ReqId
  /-- response definition carried by the first request message (unary / client stream) -/
  udef : Option UnaryDef
  /-- response definition carried by the first request message (server / bidi stream) -/
  sdef : Option StreamDef
  /-- `full_duplex` field of the first `BidiStreamRequest` (what the server looks at) -/
  fdFlag : Bool
  /-- `use_get_http_method` -/
  get : Bool
  /-- the permutation's codec -/
  codec : Codec
  method : Method
  /-- an `expected_response` given by the suite itself -/
  explicit : Option Result
deriving DecidableEq, Repr, Inhabited

def Err.addDetail (e : Err) (d : Detail) : Err := { e with details := e.details ++ [d] }

/-! ### the generator: `populateExpectedResponse` -/

/-- the `ConnectGetInfo` branch of `populateExpectedUnaryResponse`: for a GET test the query
parameters `encoding` (by codec) and `connect=v1`; "message", "base64" and "compression" are
deliberately not expected -/
def getQuery (tc : TC) : List Hdr :=
  if tc.get then [⟨"encoding", [tc.codec.encoding]⟩, ⟨"connect", ["v1"]⟩] else []

/-- `populateExpectedUnaryResponse` (unary and client-stream) -/
def expectedUnary (tc : TC) : Result :=
  let ri : ReqInfo := ⟨tc.reqHdrs, tc.reqs, getQuery tc⟩
  match (if tc.reqs.isEmpty then none else tc.udef) with
  | none => ⟨[], [], [⟨"", some ri⟩], none⟩
  | some d =>
    match d.resp with
    | .error e => ⟨d.hdrs, d.trls, [], some (e.addDetail (.info ri))⟩
    | .data b => ⟨d.hdrs, d.trls, [⟨b, some ri⟩], none⟩
    | .none => ⟨d.hdrs, d.trls, [⟨"", some ri⟩], none⟩

/-- payloads of `populateExpectedStreamResponse`, index by index.  For a full-duplex stream
the `idx`-th payload echoes the `idx`-th request; when there are more responses than requests
(`reqs[idx]? = none`) no request is echoed (repaired code, F06: the unrepaired code indexed
out of range and crashed). -/
def expectedStreamPayloads (tc : TC) : Nat → List String → List Payload
  | _, [] => []
  | idx, b :: bs =>
    let info : Option ReqInfo :=
      match tc.st with
      | .fullDuplex =>
        match tc.reqs[idx]? with
        | some r => some ⟨if idx = 0 then tc.reqHdrs else [], [r], []⟩
        | none => none
      | _ => if idx = 0 then some ⟨tc.reqHdrs, tc.reqs, []⟩ else none
    ⟨b, info⟩ :: expectedStreamPayloads tc (idx + 1) bs

/-- `populateExpectedStreamResponse` (server stream, half- and full-duplex bidi).  For an
immediate error the request info appended to the error details lists *all* request messages
of the test case — also on a full-duplex stream, where the servers have read only the first
request when they give up (finding F07; `expectedStreamRepaired` is what the peers do). -/
def expectedStream (tc : TC) : Result :=
  match (if tc.reqs.isEmpty then none else tc.sdef) with
  | none => ⟨[], [], [], none⟩
  | some d =>
    let err := if d.data.isEmpty then d.err.map (·.addDetail (.info ⟨tc.reqHdrs, tc.reqs, []⟩)) else d.err
    ⟨d.hdrs, d.trls, expectedStreamPayloads tc 0 d.data, err⟩

/-- the F07 shape: full-duplex, no responses, an error, two or more requests -/
def isF07 (tc : TC) : Bool :=
  tc.st == .fullDuplex && tc.reqs.length ≥ 2 &&
  (match tc.sdef with | some d => d.data.isEmpty && d.err.isSome | none => false)

/-- the F27 shape: a client-streaming stream type with an empty request stream -/
def isF27 (tc : TC) : Bool :=
  (tc.st == .clientStream || tc.st == .halfDuplex || tc.st == .fullDuplex) && tc.reqs.isEmpty

/-- what `populateExpectedUnaryResponse` / `populateExpectedStreamResponse` derive -/
def expected (tc : TC) : Result :=
  match tc.st with
  | .unary | .clientStream => expectedUnary tc
  | _ => expectedStream tc

/-- the type assertion on the first request message (`unaryResponseDefiner` /
`streamResponseDefiner`): an `UnimplementedRequest` carries no response definition.  Without
request messages nothing is asserted. -/
def derivable (tc : TC) : Bool := tc.reqs.isEmpty || tc.method != .unimplemented

/-- `populateExpectedResponse`: an expected response given by the suite is left alone; otherwise
the derived one, or an error (`none`) when the first request message is not of a kind that
defines a response. -/
def populate (tc : TC) : Option Result :=
  match tc.explicit with
  | some e => some e
  | none => if derivable tc then some (expected tc) else none

/-! ### the peers: server handler composed with client observation

`seen` are the request headers as the server's RPC library presents them (the test's headers
plus whatever the stack adds); `wh`, `wt` are functions describing how response headers and
trailers set by the handler appear to the client (the transport parameter `W`). -/

structure Wire where
  seen : List Hdr
  hdrs : List Hdr → List Hdr
  trls : List Hdr → List Hdr
  /-- on a unary / client-stream error some protocols deliver headers and trailers as one bag of
  error metadata, which the client records as trailers -/
  merged : List Hdr → List Hdr → List Hdr
  /-- the query parameters the server's RPC library presents (`Peer().Query`): those of the GET
  request line when the client chose GET, nothing for a POST -/
  query : List Hdr
  /-- wording of the `unimplemented` error of the server's RPC library -/
  unimplMsg : String

/-- unary and client-stream handlers (`doUnary`, `ClientStream`, `parseUnaryResponseDefinition`)
followed by the client's `doUnary` / `clientStream`.  `mergedErr` selects the "one bag of error
metadata" delivery. -/
def actualUnary (tc : TC) (w : Wire) (mergedErr : Bool) : Result :=
  let ri : ReqInfo := ⟨w.seen, tc.reqs, w.query⟩
  match (if tc.reqs.isEmpty then none else tc.udef) with
  | none => ⟨w.hdrs [], w.trls [], [⟨"", some ri⟩], none⟩
  | some d =>
    match d.resp with
    | .error e =>
      if mergedErr then ⟨[], w.merged d.hdrs d.trls, [], some (e.addDetail (.info ri))⟩
      else ⟨w.hdrs d.hdrs, w.trls d.trls, [], some (e.addDetail (.info ri))⟩
    | .data b => ⟨w.hdrs d.hdrs, w.trls d.trls, [⟨b, some ri⟩], none⟩
    | .none => ⟨w.hdrs d.hdrs, w.trls d.trls, [⟨"", some ri⟩], none⟩

/-- responses of the `ServerStream` handler / the flush loop of `BidiStream`: request info on
the first response only -/
def flushPayloads (ri : ReqInfo) : Nat → List String → List Payload
  | _, [] => []
  | respNum, b :: bs => ⟨b, if respNum = 0 then some ri else none⟩ :: flushPayloads ri (respNum + 1) bs

/-- the ping-pong phase of a full-duplex `BidiStream`: one response per received request while
responses are left; returns the payloads sent and the responses still to flush. -/
def pingPong (seen query : List Hdr) : Nat → List ReqId → List String → List Payload × List String
  | _, [], data => ([], data)
  | _, _ :: _, [] => ([], [])
  | respNum, r :: rs, b :: bs =>
    let p : Payload := ⟨b, some ⟨if respNum = 0 then seen else [], [r], if respNum = 0 then query else []⟩⟩
    let (ps, rest) := pingPong seen query (respNum + 1) rs bs
    (p :: ps, rest)

/-- `ServerStream` / `BidiStream` handlers followed by the client's `serverStream` / `bidiStream` -/
def actualStream (tc : TC) (w : Wire) : Result :=
  match (if tc.reqs.isEmpty then none else tc.sdef) with
  | none => ⟨w.hdrs [], w.trls [], [], none⟩
  | some d =>
    if tc.fdFlag then
      let (pp, rest) := pingPong w.seen w.query 0 tc.reqs d.data
      -- the flush loop continues at respNum = pp.length > 0 whenever something is left
      let flushed := rest.map (fun b => (⟨b, none⟩ : Payload))
      let err := if d.data.isEmpty then d.err.map (·.addDetail (.info ⟨w.seen, tc.reqs.take 1, w.query⟩)) else d.err
      ⟨w.hdrs d.hdrs, w.trls d.trls, pp ++ flushed, err⟩
    else
      let ri : ReqInfo := ⟨w.seen, tc.reqs, w.query⟩
      let err := if d.data.isEmpty then d.err.map (·.addDetail (.info ri)) else d.err
      ⟨w.hdrs d.hdrs, w.trls d.trls, flushPayloads ri 0 d.data, err⟩

/-- the `Unimplemented` method: neither reference server implements it; the RPC library answers
`unimplemented` (code 12) in its own words, without details, whatever the request says -/
def actualUnimpl (w : Wire) (mergedErr : Bool) : Result :=
  if mergedErr then ⟨[], w.merged [] [], [], some ⟨12, some w.unimplMsg, []⟩⟩
  else ⟨w.hdrs [], w.trls [], [], some ⟨12, some w.unimplMsg, []⟩⟩

/-- both reference clients choose the call by the method name -/
def actual (tc : TC) (w : Wire) (mergedErr : Bool) : Result :=
  if tc.method = .unimplemented then actualUnimpl w mergedErr else
  match tc.st with
  | .unary | .clientStream => actualUnary tc w mergedErr
  | _ => actualStream tc w

/-- shape constraints of the fragment: exactly one request for unary and server-stream, the
`full_duplex` flag of the first message agrees with the declared stream type, and the two extra
methods of the service are unary (service.proto) -/
def WellFormed (tc : TC) : Bool :=
  (match tc.st with
   | .unary | .serverStream => tc.reqs.length == 1
   | _ => true) &&
  (tc.fdFlag == (tc.st == .fullDuplex)) &&
  (tc.method == .std || tc.st == .unary)

end ConfModel.Echo
