#!/usr/bin/env python3
"""Imports and evaluates the outputs of a round of mutation agents: /tmp/mut/<Cxx>/out-<Cxx>-<k> for the given ks."""
import os, sys, json, subprocess, glob
VERIF = os.path.dirname(os.path.abspath(__file__))
ks = sys.argv[1].split(",")
pids = sys.argv[2].split(",") if len(sys.argv) > 2 else [f"C{i:02d}" for i in range(1, 21)]
for pid in pids:
    for k in ks:
        out = f"/tmp/mut/{pid}/out-{pid}-{k}"
        sid = f"S-{pid}-{k}"
        if not os.path.isdir(out):
            print(sid, "no output yet"); continue
        if not os.path.exists(os.path.join(VERIF, "seeded", sid, "patch.diff")):
            ok = False
            for attempt in range(2):
                r = subprocess.run(["python3", os.path.join(VERIF, "seeded_import.py"), out, sid], capture_output=True, text=True)
                if "OK" in r.stdout.splitlines()[-1:][0] if r.stdout.strip() else False:
                    ok = True; break
            if not ok:
                print(sid, "IMPORT REJECTED", (r.stdout.strip().splitlines() or ["?"])[0][:200]); continue
        subprocess.run(["python3", os.path.join(VERIF, "seeded_eval.py"), sid], capture_output=True, text=True)
        ev = os.path.join(VERIF, "seeded", sid, "eval.json")
        e = json.load(open(ev)) if os.path.exists(ev) else {}
        print(sid, {k2: (v.get("detected"), v.get("wall_s")) for k2, v in e.items()}, flush=True)
subprocess.run(["git", "checkout", "evidence/"], cwd=VERIF, capture_output=True)
