package main

import (
	"encoding/json"
	"fmt"
	"runtime"
	"sort"
	"strings"
	"sync"
	"sync/atomic"
	"time"

	"connectrpc.com/conformance/internal/tracer"
	"connectrpc.com/conformance/internal/verifharness/gen"
)

func init() {
	areas["c16"] = runC16
	gen.RegisterOp("c16", "slots", func(_ *gen.Ctx, raw json.RawMessage) any {
		in := gen.Into[c16SlotsIn](raw)
		v := tracer.VerifNewSlots(in.Nil)
		defer v.Close()
		out := c16SlotsOut{Obs: make([]string, 0, len(in.Ops))}
		for _, op := range in.Ops {
			out.Obs = append(out.Obs, v.Do(op))
		}
		return out
	})
	gen.RegisterOp("c16", "builder", func(_ *gen.Ctx, raw json.RawMessage) any {
		in := gen.Into[c16BuilderIn](raw)
		b := tracer.VerifNewBuilder(in.Named, in.Client)
		for i, op := range in.Ops {
			if op == "build" {
				b.Build()
			} else {
				b.Add(b.NewEvent(op, i))
			}
		}
		return c16BuilderOut{b.Completions()}
	})
	gen.RegisterOp("c16", "cancelrt", func(_ *gen.Ctx, raw json.RawMessage) any {
		return c16CancelRT(gen.Into[c16CancelRTIn](raw))
	})
	gen.RegisterOp("c16", "cancelhandler", func(_ *gen.Ctx, raw json.RawMessage) any {
		return c16CancelHandler(gen.Into[c16CancelHandlerIn](raw))
	})
	gen.RegisterOp("c16", "stressSlots", func(_ *gen.Ctx, raw json.RawMessage) any {
		in := gen.Into[c16StressSlotsIn](raw)
		s, a := tracer.VerifStressSlots(in.Setup, in.Threads, in.After, 5*time.Second, 150*time.Millisecond)
		return c16StressSlotsOut{nn(s), nn(a)}
	})
	gen.RegisterOp("c16", "stressBuilder", func(_ *gen.Ctx, raw json.RawMessage) any {
		return c16StressBuilder(gen.Into[c16StressBuilderIn](raw))
	})
}

// c16StressBuilder fires the threads' add/build calls at one real builder from one goroutine
// per thread, all released at the same instant by a spin barrier, and repeats that on a
// fresh builder in.Reps times; it returns the distinct outcomes seen. (The outcome of a
// concurrent run is not a function of the input — every outcome must be the outcome of some
// linearisation, which is what the driver checks.)
func c16StressBuilder(in c16StressBuilderIn) c16StressBuilderOut {
	reps := in.Reps
	if reps <= 0 {
		reps = 1
	}
	if runtime.GOMAXPROCS(0) < 4 {
		runtime.GOMAXPROCS(4) // the gap between two critical sections is only hit by truly parallel threads
	}
	type act struct {
		ev    tracer.Event
		build bool
	}
	nt := len(in.Threads)
	builders := make([]*tracer.VerifBuilder, reps)
	acts := make([][][]act, reps)
	for r := range builders {
		// events are created up front (ids: thread*100 + position), then added concurrently
		b := tracer.VerifNewBuilder(in.Named, in.Client)
		builders[r] = b
		acts[r] = make([][]act, nt)
		for t, th := range in.Threads {
			for i, op := range th {
				if op == "build" {
					acts[r][t] = append(acts[r][t], act{build: true})
				} else {
					acts[r][t] = append(acts[r][t], act{ev: b.NewEvent(op, t*100+i)})
				}
			}
		}
	}
	var arrived, gate atomic.Int64
	var wg sync.WaitGroup
	for t := 0; t < nt; t++ {
		wg.Add(1)
		go func(t int) {
			defer wg.Done()
			for r := 0; r < reps; r++ {
				// spin barrier: the last thread to arrive opens the gate of repetition r
				if arrived.Add(1) == int64((r+1)*nt) {
					gate.Store(int64(r + 1))
				} else {
					for spins := 0; gate.Load() < int64(r+1); spins++ {
						if spins > 5000 {
							runtime.Gosched()
						}
					}
				}
				b := builders[r]
				for _, a := range acts[r][t] {
					if a.build {
						b.Build()
					} else {
						b.Add(a.ev)
					}
				}
			}
		}(t)
	}
	wg.Wait()
	seen := map[string][][]string{}
	for _, b := range builders {
		comp := b.Completions()
		key, _ := json.Marshal(comp)
		seen[string(key)] = comp
	}
	keys := make([]string, 0, len(seen))
	for k := range seen {
		keys = append(keys, k)
	}
	sort.Strings(keys)
	out := c16StressBuilderOut{Outcomes: make([][][]string, 0, len(keys))}
	for _, k := range keys {
		out.Outcomes = append(out.Outcomes, seen[k])
	}
	return out
}

// cancellation racing the body events, through the real middleware (the sessions of c14.go)
type c16CancelRTIn struct {
	RT       c14RTIn `json:"rt"`
	CancelAt int     `json:"cancelAt"` // the caller cancels the context before its action number CancelAt
	Yield    bool    `json:"yield"`    // and then pauses for a moment
}
type c16CancelHandlerIn struct {
	H        c14HandlerIn `json:"h"`
	CancelAt int          `json:"cancelAt"`
	Yield    bool         `json:"yield"`
}
type c16CancelOut struct {
	Ref         []string `json:"ref"` // the trace of the same session without the cancellation
	Got         []string `json:"got"`
	Completions int      `json:"completions"`
}

func c16CancelRT(in c16CancelRTIn) c16CancelOut {
	run := func(cancelAt int) tracer.VerifRoundTripOut {
		reqBody, _ := in.RT.Req.script()
		respBody, actions := in.RT.Resp.script()
		if cancelAt >= 0 {
			if cancelAt > len(actions) {
				cancelAt = len(actions)
			}
			ins := []string{"x"}
			if in.Yield {
				ins = append(ins, "y")
			}
			actions = append(actions[:cancelAt:cancelAt], append(ins, actions[cancelAt:]...)...)
		}
		return tracer.VerifRoundTrip(in.RT.Req.headers(), reqBody, in.RT.Fail, in.RT.Status, in.RT.Resp.headers(), respBody, actions)
	}
	ref := run(-1)
	got := run(in.CancelAt)
	return c16CancelOut{Ref: ref.Events, Got: got.Events, Completions: got.Completions}
}

func c16CancelHandler(in c16CancelHandlerIn) c16CancelOut {
	run := func(cancelAt int) tracer.VerifHandlerOut {
		actions := in.H.Actions
		if cancelAt >= 0 {
			if cancelAt > len(actions) {
				cancelAt = len(actions)
			}
			ins := []tracer.VerifHAction{{Kind: "cancel"}}
			if in.Yield {
				ins = append(ins, tracer.VerifHAction{Kind: "yield"})
			}
			actions = append(actions[:cancelAt:cancelAt], append(ins, actions[cancelAt:]...)...)
		}
		h := in.H
		h.Actions = actions
		return c14Handler1(h, true)
	}
	ref := run(-1)
	got := run(in.CancelAt)
	return c16CancelOut{Ref: ref.Events, Got: got.Events, Completions: got.Completions}
}

type c16SlotsIn struct {
	Ops []string `json:"ops"`
	Nil bool     `json:"nil"` // a nil *Tracer ("tracing not enabled")
}
type c16SlotsOut struct {
	Obs []string `json:"obs"`
}
type c16BuilderIn struct {
	Named  bool     `json:"named"`
	Client bool     `json:"client"`
	Ops    []string `json:"ops"` // event kinds and "build"; the id of an event is its position
}
type c16BuilderOut struct {
	Completions [][]string `json:"completions"`
}
type c16StressSlotsIn struct {
	Setup   []string   `json:"setup"`
	Threads [][]string `json:"threads"`
	After   []string   `json:"after"`
}
type c16StressSlotsOut struct {
	Setup []string `json:"setup"`
	After []string `json:"after"`
}
type c16StressBuilderIn struct {
	Named   bool       `json:"named"`
	Client  bool       `json:"client"`
	Threads [][]string `json:"threads"`
	Reps    int        `json:"reps,omitempty"` // repetitions on fresh builders (default 1)
}
type c16StressBuilderOut struct {
	Outcomes [][][]string `json:"outcomes"` // the distinct outcomes (lists of completions) observed
}

// c16Annotate turns a raw operation order into a script: unique ids for completions, a join
// right after every completion that (by this generator-side bookkeeping) must wake a waiter,
// optionally one peek at a waiter that should be blocked, and a final cancel+join for both
// waiters. The bookkeeping only decides *where to look*; what must be seen there is judged
// by the Lean model and specification.
func c16Annotate(seq []string, peekAt int) (out []string, peeked bool) {
	out, peeked, _ = c16AnnotateLazy(seq, peekAt, false)
	return out, peeked
}

// c16AnnotateLazy: with lazy set, the join of a waiter that a completion must wake is put
// AFTER the operation that follows the completion (a Clear, a re-Init, another completion …)
// instead of right after the completion: the woken waiter has not been joined yet when the
// slot changes again, so whatever it does after waking up (it must return the trace of the
// slot it waited on) races with that operation. differs tells whether that moved anything.
func c16AnnotateLazy(seq []string, peekAt int, lazy bool) (out []string, peeked bool, differs bool) {
	var deferred []string
	cur := map[string]int{}   // name -> epoch
	done := map[int]bool{}    // epoch completed
	waits := map[string]int{} // waiter -> epoch
	epoch := 0
	for i, op := range seq {
		joins := deferred // the joins deferred by the previous operation follow this one
		deferred = nil
		f := strings.Split(op, ":")
		switch f[0] {
		case "i":
			epoch++
			cur[f[1]] = epoch
			out = append(out, op)
		case "x":
			delete(cur, f[1])
			out = append(out, op)
		case "c":
			out = append(out, fmt.Sprintf("c:%s:%d", f[1], 10+i))
			if e, ok := cur[f[1]]; ok && !done[e] {
				done[e] = true
				for _, w := range []string{"1", "2"} {
					if we, ok := waits[w]; ok && we == e {
						if lazy && i+1 < len(seq) {
							deferred = append(deferred, "j:"+w)
							differs = true
						} else {
							out = append(out, "j:"+w)
						}
						delete(waits, w)
					}
				}
			}
		case "a":
			out = append(out, op)
			if _, busy := waits[f[1]]; !busy {
				if e, ok := cur[f[2]]; ok && !done[e] {
					waits[f[1]] = e
				}
			}
		case "k":
			out = append(out, op)
			delete(waits, f[1])
		default:
			out = append(out, op)
		}
		out = append(out, joins...)
		if i == peekAt && !peeked {
			for _, w := range []string{"1", "2"} {
				if e, ok := waits[w]; ok && !done[e] {
					out = append(out, "p:"+w)
					peeked = true
					break
				}
			}
		}
	}
	out = append(out, "k:1", "k:2")
	return out, peeked, differs
}

var c16SlotSyms = []string{"i:a", "i:b", "x:a", "x:b", "c:a", "c:b", "c:z", "a:1:a", "a:1:b", "a:1:z", "a:2:a", "a:2:b", "a:2:z", "k:1", "k:2"}

func runC16(c *gen.Ctx) error {
	r := c.R
	e := c.E
	// ---- the runner's consumer of the tracer (testResults.fetchTrace)
	c16ResultsGen(c)
	// ---- the glue around the slots: the reference client's per-call hand-off, and the
	// server-side middleware handing over a trace that must be final
	c16WireGen(c)
	c16AsyncGen(c)
	c16FinalGen(c)
	// ---- exactly-once on a traced HTTP/2 connection under every tear-down sequence
	c16TeardownGen(c)
	// ---- Tracer: every operation order up to maxLen
	maxLen := 4
	peekBudget := 120
	if c.Thorough() {
		maxLen = 5
		peekBudget = 500
	}
	n := 0
	var rec func(prefix []string, open1, open2 bool)
	emit := func(seq []string) {
		n++
		peekAt := -1
		if peekBudget > 0 && n%37 == 0 && len(seq) > 1 {
			peekAt = r.Intn(len(seq))
		}
		ops, peeked := c16Annotate(seq, peekAt)
		if peeked {
			peekBudget--
			e.Count("slots:with-peek")
		}
		c.Do("slots", c16SlotsIn{Ops: ops, Nil: false})
		// the same order with the woken waiter joined only after the operation that follows
		// its completion (Clear / re-Init / … race with whatever the waiter does on waking up)
		if lazyOps, _, differs := c16AnnotateLazy(seq, -1, true); differs {
			e.Count("slots:join-deferred-past-the-next-operation")
			c.Do("slots", c16SlotsIn{Ops: lazyOps, Nil: false})
		}
	}
	rec = func(prefix []string, open1, open2 bool) {
		if len(prefix) > 0 {
			emit(prefix)
		}
		if len(prefix) == maxLen {
			return
		}
		for _, s := range c16SlotSyms {
			o1, o2 := open1, open2
			switch {
			case s == "k:1":
				if !open1 {
					continue // nothing of waiter 1 can be in flight
				}
				o1 = false
			case s == "k:2":
				if !open2 {
					continue
				}
				o2 = false
			case strings.HasPrefix(s, "a:1"):
				o1 = true
			case strings.HasPrefix(s, "a:2"):
				o2 = true
			}
			rec(append(append([]string{}, prefix...), s), o1, o2)
		}
	}
	rec(nil, false, false)
	e.Add("slots:exhaustive-orders", n)
	// longer random orders
	nRand := 4000
	if c.Thorough() {
		nRand = 60000
	}
	for i := 0; i < nRand; i++ {
		seq := make([]string, r.Range(maxLen+1, 10))
		for k := range seq {
			seq[k] = gen.Pick(r, c16SlotSyms)
		}
		peekAt := -1
		if peekBudget > 0 && i%29 == 0 {
			peekAt = r.Intn(len(seq))
		}
		ops, peeked := c16Annotate(seq, peekAt)
		if peeked {
			peekBudget--
			e.Count("slots:with-peek")
		}
		c.Do("slots", c16SlotsIn{Ops: ops})
		if lazyOps, _, differs := c16AnnotateLazy(seq, -1, true); differs && i%2 == 0 {
			e.Count("slots:join-deferred-past-the-next-operation")
			c.Do("slots", c16SlotsIn{Ops: lazyOps})
		}
	}
	// a nil tracer
	for _, seq := range [][]string{{"i:a", "a:1:a", "c:a", "a:2:a"}, {"a:1:z"}, {"i:a", "c:a", "x:a", "a:1:a"}} {
		ops, _ := c16Annotate(seq, -1)
		c.Do("slots", c16SlotsIn{Ops: ops, Nil: true})
	}

	// ---- builder: every order of events
	kinds := []string{"reqData", "reqEnd", "reqEndErr", "respStart", "respErr", "respData", "respEos", "respEnd", "respEndErr", "cancel", "build"}
	bMax := 4
	if c.Thorough() {
		bMax = 5
	}
	nb := 0
	var brec func(prefix []string, alphabet []string, max int, minEmit int)
	brec = func(prefix []string, alphabet []string, max int, minEmit int) {
		if len(prefix) >= minEmit {
			nb++
			c.Do("builder", c16BuilderIn{Named: nb%13 != 0, Client: nb%2 == 0, Ops: nn(prefix)})
		}
		if len(prefix) == max {
			return
		}
		for _, k := range alphabet {
			brec(append(append([]string{}, prefix...), k), alphabet, max, minEmit)
		}
	}
	brec(nil, kinds, bMax, 0)
	if c.Thorough() {
		// length 6 over the alphabet with one representative per behaviour class
		brec(nil, []string{"reqData", "reqEnd", "reqEndErr", "respStart", "respData", "respEnd", "cancel", "build"}, 6, 6)
	}
	e.Add("builder:exhaustive-orders", nb)
	nbr := 3000
	if c.Thorough() {
		nbr = 50000
	}
	for i := 0; i < nbr; i++ {
		ops := make([]string, r.Range(bMax+1, 12))
		for k := range ops {
			if r.Chance(2, 3) {
				ops[k] = gen.Pick(r, []string{"reqData", "respData", "respStart", "reqEnd", "respEos"})
			} else {
				ops[k] = gen.Pick(r, kinds)
			}
		}
		c.Do("builder", c16BuilderIn{Named: !r.Chance(1, 15), Client: r.Bool(), Ops: ops})
	}

	// ---- concurrent stress: outcome must be one the model produces for some linearisation
	nsb := 400
	nss := 300
	nssRacy := 15
	if c.Thorough() {
		nsb, nss, nssRacy = 6000, 4000, 120
	}
	sbReps, tightReps := 40, 400
	if c.Thorough() {
		sbReps, tightReps = 25, 600
	}
	for i := 0; i < nsb; i++ {
		nt := r.Range(2, 4)
		budget := 8
		threads := make([][]string, nt)
		for t := range threads {
			l := r.Range(1, 3)
			if l > budget-(nt-t-1) {
				l = budget - (nt - t - 1)
			}
			budget -= l
			for k := 0; k < l; k++ {
				if r.Chance(1, 2) {
					threads[t] = append(threads[t], gen.Pick(r, []string{"reqData", "respData", "respStart", "reqEnd"}))
				} else {
					threads[t] = append(threads[t], gen.Pick(r, kinds))
				}
			}
		}
		c.Do("stressBuilder", c16StressBuilderIn{Named: !r.Chance(1, 15), Client: r.Bool(), Threads: threads, Reps: sbReps})
	}
	// tight races: one call per thread, a finishing event against every other kind of call —
	// an event accepted between "finishing event recorded" and "trace handed over" shows here
	closers := []string{"reqEndErr", "respErr", "respEnd", "respEndErr", "cancel"}
	for ci, cl := range closers {
		for ki, k := range kinds {
			if !c.Thorough() && (ci+ki)%2 == 1 {
				continue
			}
			c.Do("stressBuilder", c16StressBuilderIn{Named: true, Client: (ci+ki)%4 < 2, Threads: [][]string{{cl}, {k}}, Reps: tightReps})
			third := kinds[(ci+2*ki+1)%len(kinds)]
			c.Do("stressBuilder", c16StressBuilderIn{Named: true, Client: (ci+ki)%4 >= 2, Threads: [][]string{{k}, {cl}, {third}}, Reps: tightReps})
			c.Do("stressBuilder", c16StressBuilderIn{Named: true, Client: ki%2 == 0, Threads: [][]string{{"reqData", cl}, {k, "respData"}, {third}, {closers[(ci+1)%len(closers)]}}, Reps: tightReps / 2})
		}
	}
	stress := func(racy bool) {
		names := []string{"a", "b"}
		setup := []string{"i:a"}
		if r.Bool() {
			setup = append(setup, "i:b")
		}
		awaited := map[string]string{}
		for _, w := range []string{"1", "2"} {
			if r.Chance(3, 4) {
				nm := gen.Pick(r, names)
				setup = append(setup, "a:"+w+":"+nm)
				awaited[w] = nm
			}
		}
		nt := r.Range(2, 4)
		threads := make([][]string, nt)
		completed := map[string]bool{}
		id := 20
		total := 0
		for t := range threads {
			for k := r.Range(1, 2); k > 0 && total < 7; k-- {
				total++
				id++
				nm := gen.Pick(r, []string{"a", "a", "b", "z"})
				op := fmt.Sprintf("c:%s:%d", nm, id)
				if racy && r.Chance(1, 3) {
					op = gen.Pick(r, []string{"x:a", "i:a", "x:b", "i:b"})
				} else {
					completed[nm] = true
				}
				threads[t] = append(threads[t], op)
			}
		}
		if racy {
			// make sure something races with the completions of a
			threads[0] = append([]string{gen.Pick(r, []string{"x:a", "i:a"})}, threads[0]...)
		}
		var after []string
		for _, w := range []string{"1", "2"} {
			nm, ok := awaited[w]
			if !ok {
				continue
			}
			hasB := false
			for _, s := range setup {
				if s == "i:"+nm {
					hasB = true
				}
			}
			if !racy && completed[nm] && hasB {
				after = append(after, "j:"+w) // must be delivered: wait generously
			} else if racy {
				after = append(after, "p:"+w) // may legitimately stay blocked: bounded wait
			}
			after = append(after, "k:"+w)
		}
		after = append(after, "a:3:a", "k:3", "a:3:b", "k:3")
		c.Do("stressSlots", c16StressSlotsIn{Setup: setup, Threads: threads, After: after})
		if racy {
			e.Count("stressSlots:racing-clear-or-init")
		}
	}
	// ---- the real middleware with a cancellation racing the body events
	nCancel := 300
	if c.Thorough() {
		nCancel = 4000
	}
	for i := 0; i < nCancel; i++ {
		rt, h := c14RandMiddleware(c)
		_, acts := rt.Resp.script()
		c.Do("cancelrt", c16CancelRTIn{RT: rt, CancelAt: r.Intn(len(acts) + 1), Yield: r.Chance(2, 3)})
		c.Do("cancelhandler", c16CancelHandlerIn{H: h, CancelAt: r.Intn(len(h.Actions) + 1), Yield: r.Chance(2, 3)})
	}
	for i := 0; i < nss; i++ {
		stress(false)
	}
	for i := 0; i < nssRacy; i++ {
		stress(true)
	}
	return nil
}
