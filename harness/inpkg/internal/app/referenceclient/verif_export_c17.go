//go:build verif

package referenceclient

import (
	"net/http"

	conformancev1 "connectrpc.com/conformance/internal/gen/proto/go/connectrpc/conformance/v1"
)

// VerifC17RawRequestSender wraps the real rawRequestSender.
func VerifC17RawRequestSender(transport http.RoundTripper, raw *conformancev1.RawHTTPRequest) http.RoundTripper {
	return &rawRequestSender{transport: transport, rawRequest: raw}
}
