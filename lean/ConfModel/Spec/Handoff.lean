/-
Declarative side of C16: what a waiter must obtain, and what a traced operation must deliver.
-/
import ConfModel.Model.TracerSlots
import ConfModel.Model.Builder
namespace ConfModel.Handoff
open ConfModel

/-! ### Tracer slots -/
open TracerSlots in
/-- the operation re-initialises or clears the slot of `n` -/
def touches (n : TracerSlots.Name) : TracerSlots.Op → Bool
  | .init m => m == n
  | .clear m => m == n
  | _ => false

open TracerSlots in
/-- the operation is performed by / on waiter `w` -/
def usesWaiter (w : Nat) : TracerSlots.Op → Bool
  | .await v _ => v == w
  | .join v => v == w
  | .peek v => v == w
  | .ctx v => v == w
  | _ => false

open TracerSlots in
def completesOn (n : TracerSlots.Name) : TracerSlots.Op → Option Nat
  | .complete m t => if m == n then some t else none
  | _ => none

/-- the first trace completed for `n` among `ops` -/
def firstComplete (n : TracerSlots.Name) (ops : List TracerSlots.Op) : Option Nat :=
  (ops.filterMap (completesOn n)).head?

open TracerSlots in
/-- is the slot of `n` initialised after `ops`, given whether it was before?  (the last
`init n` / `clear n` decides) -/
def slotLive (n : TracerSlots.Name) (before : Bool) (ops : List TracerSlots.Op) : Bool :=
  ops.foldl (fun b o => match o with
    | .init m => if m == n then true else b
    | .clear m => if m == n then false else b
    | _ => b) before

/-! ### Builder -/
open Builder in
/-- an operation that takes the trace: a finishing event or `build` -/
def isCloser : Builder.Op → Bool
  | .add k _ => k.finishes
  | .build => true

open Builder in
/-- the events that belong to the trace: everything added before the first closer, and the
closer itself when it is an event -/
def kept : List Builder.Op → List (Builder.Kind × Nat)
  | [] => []
  | .build :: _ => []
  | .add k id :: rest => if k.finishes then [(k, id)] else (k, id) :: kept rest

open Builder in
/-- request and response data events are numbered 0,1,2,… separately -/
def numberFrom : Nat → Nat → List (Builder.Kind × Nat) → List Builder.Item
  | _, _, [] => []
  | rq, rp, (k, id) :: t =>
    match k with
    | .reqData => ⟨k, id, some rq⟩ :: numberFrom (rq+1) rp t
    | .respData => ⟨k, id, some rp⟩ :: numberFrom rq (rp+1) t
    | _ => ⟨k, id, none⟩ :: numberFrom rq rp t

/-- the `Collector.Complete` calls a traced operation must make -/
def deliveries (named : Bool) (ops : List Builder.Op) : List (List Builder.Item) :=
  if named && ops.any isCloser then [numberFrom 0 0 (kept ops)] else []

end ConfModel.Handoff
