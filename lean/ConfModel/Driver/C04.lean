import ConfModel.Driver.Common
import ConfModel.Model.ReportScript
import ConfModel.Model.ReportMsg
import ConfModel.Spec.RunVerdict
import ConfModel.Model.RunLoop
import ConfModel.Model.FeedbackLine
import ConfModel.Model.Cli
import ConfModel.Model.SrvFeedback
namespace ConfModel.Driver.C04
open Lean ConfModel.Driver ConfModel.Report ConfModel.RunVerdict

def parseKind : Char → Option Kind
  | 'p' => some .pass | 'a' => some .assertFail | 'c' => some .clientErr | 's' => some .setupErr
  | 'n' => some .noResult | 'r' => some .couldNotRun | 'm' => some .missing | _ => none

def parseMark : Char → Option Mark
  | 'u' => some .unmarked | 'f' => some .failing | 'k' => some .flaky | _ => none

def parseBit : Char → Option Bool
  | '0' => some false | '1' => some true | _ => none

def parseStep (i : Nat) (code : String) : Option Step :=
  match code.toList with
  | [k, m, fb, sf] => do
    let k ← parseKind k
    let m ← parseMark m
    let fb ← parseBit fb
    let sf ← parseBit sf
    pure { c := { name := "s/c" ++ toString i, kind := k, mark := m, feedback := fb }, sbFirst := sf }
  | _ => none

def parseSteps (codes : List String) : Option (List Step) :=
  (codes.zipIdx.map (fun (c, i) => parseStep i c)).mapM id

/-- the texts a peer may report (the table `c04Msgs` of the harness) -/
def msgOf : Char → Option String
  | 'd' => some "client could not do it"
  | 'e' => some ""
  | 'n' => some "\n"
  | 'b' => some " \r\n\t\n"
  | 's' => some " "
  | 'm' => some "first line\n\n  third line  \r\n"
  | 'f' => some "%s %d %!v(MISSING) 100% %[2]q"
  | 'l' => some (String.join (List.replicate 2000 "long "))
  | 'c' => some "a: b: c"
  | 'u' => some "non-ASCII: ünï ✓"
  | _ => none

/-- a case code with what the peers said: 4 characters (default texts) or 6 -/
def parseMStep (i : Nat) (code : String) : Option ReportMsg.MStep :=
  match code.toList with
  | [k, m, fb, sf] => (parseStep i (String.ofList [k, m, fb, sf])).map fun s => { s := s, errMsg := "client could not do it", fbMsg := "peer feedback" }
  | [k, m, fb, sf, e, f] => do
    let s ← parseStep i (String.ofList [k, m, fb, sf])
    let em ← msgOf e
    let fm ← msgOf f
    pure { s := s, errMsg := em, fbMsg := if f == 'd' then "peer feedback" else fm }
  | _ => none

def parseMSteps (codes : List String) : Option (List ReportMsg.MStep) :=
  (codes.zipIdx.map (fun (c, i) => parseMStep i c)).mapM id


/-! ### op "runloop": the real `Run` with a scripted client process, judged by the rule of the
property on what the client really answered; the model is `ConfModel.RunLoop.Run` (interface layer:
one batch per server batch, per case the observation "answered with the reference client's result"
or "refused") -/

/-- code of the suite case a permutation name belongs to: its last component is `c<i>` -/
def loopCode (codes : List String) (name : String) : Option String :=
  match (name.splitOn "/").getLast? with
  | some base => match (base.drop 1).toString.toNat? with
    | some i => if base.startsWith "c" then codes[i]? else none
    | none => none
  | none => none

/-- index of the suite case a permutation name belongs to when the cases carry their own test names:
the permutation's name ends in "/" ++ that name (the longest such name wins) -/
def loopIdx (names : List String) (name : String) : Option Nat :=
  (names.zipIdx.foldl (fun (best : Option (Nat × Nat)) (nm, i) =>
    if name.endsWith ("/" ++ nm) && (match best with | some (l, _) => l < nm.length | none => true)
    then some (nm.length, i) else best) none).map (·.2)

/-- `loopCode` for either naming -/
def loopCodeN (names codes : List String) (name : String) : Option String :=
  if names.isEmpty then loopCode codes name else (loopIdx names name).bind (codes[·]?)

def handleRunLoop (inp impl : Json) : Verdict :=
  if !(isNull (field impl "panic")) then
    { agree := false, holds := false, why := "panic: " ++ str (field impl "panic") } else
  if bool (field impl "invalid") then
    { agree := true, holds := true, nontrivial := false, cls := "invalid-input" } else
  let codes := strList (field inp "cases")
  let stop := str (field inp "stop")
  let answered := strList (field impl "answered")
  let blind := strList (field impl "blind")
  -- requests the client read completely and never answered (stops readexit0 / readexit3)
  let read := strList (field impl "read")
  let tnames := strList (field inp "names")
  let tamper := strList (field inp "tamper")
  -- the order of the cases inside a batch is the library's (a Go map order, different in every
  -- run); the sends of a batch are sequential and the client answers in arrival order, so inside a
  -- batch the answered requests precede the others: canonical order
  let batches := (arr (field impl "batches")).map fun b =>
    (strList b).filter (fun n => answered.contains n) ++
      (strList b).filter (fun n => !answered.contains n && read.contains n) ++
      (strList b).filter (fun n => !answered.contains n && !read.contains n)
  let names := batches.flatten
  if batches.isEmpty || names.any (fun n => (loopCodeN tnames codes n).isNone) then
    bad ("runloop: no batches / unknown permutation name; err: " ++ str (field impl "err")) else
  let codeOf (n : String) : List Char := ((loopCodeN tnames codes n).getD "ru").toList
  -- the client deviated on the wire for this case (and reported the expected result): the reference
  -- server has something to say about it — if the request was made at all, and to a server that checks
  let idxOf (n : String) : Option Nat :=
    if tnames.isEmpty then (match (n.splitOn "/").getLast? with
      | some base => (base.drop 1).toString.toNat?
      | none => none) else loopIdx tnames n
  let tamperOf (n : String) : String := ((idxOf n).bind (tamper[·]?)).getD ""
  -- "err:<key>": the client reports an error of its own (whatever its message) instead of a result
  let ownErr (n : String) : Bool := (tamperOf n).startsWith "err:"
  let tampered (n : String) : Bool :=
    tamperOf n != "" && !ownErr n && (n.splitOn "(grpc server impl)").length == 1
  -- requests the client finished (with a request trailer) only after it had reported a matching
  -- result: the reference server complains while it is shutting down
  let late := strList (field impl "late")
  let fb (n : String) : Bool := (tampered n && answered.contains n && !blind.contains n) || late.contains n
  let markOfName (n : String) : Mark := ((codeOf n)[1]?.bind parseMark).getD .unmarked
  let right (n : String) : Bool := (codeOf n)[0]? == some 'r'
  -- the assignment, by the property's words: a selected case ran iff the client answered it
  let cases : List Case := names.map fun n =>
    { name := n
      kind := if blind.contains n then .clientErr
              else if answered.contains n then (if ownErr n then .clientErr else if right n then .pass else .assertFail)
              else .noResult
      mark := markOfName n, feedback := fb n }
  let want := specOk cases 0
  -- a client that has closed its stdout after answering everything still ends cleanly: it exits
  -- with status 0 when its stdin is closed and the reader sees a plain end of stream
  let clean := stop == "serve" || stop == "exit0" || stop == "blind0" || stop == "readexit0" ||
    (stop == "closeout" && names.all (fun n => answered.contains n))
  -- implementation's observation
  let iOk := bool (field impl "ok")
  let iTot : Totals := { passed := nat (field impl "passed"), failed := nat (field impl "failed"),
                         expected := nat (field impl "expected"), notRun := nat (field impl "notRun") }
  let iFailed := strList (field impl "failedNames")
  let iInfo := strList (field impl "infoNames")
  let sum := iTot.passed + iTot.failed + iTot.expected + iTot.notRun
  let answeredCases := cases.filter (fun c => answered.contains c.name)
  let unnamed := (specFailedNames answeredCases).filter (fun n => !iFailed.contains n)
  let wantTot := specTotals cases 0
  -- model: `RunLoop.Run` on the same batches, the same answers, a clean or unclean end of the client
  let mk : Report.Marks :=
    { failing := fun n => markOfName n == .failing, flaky := fun n => markOfName n == .flaky }
  let script (b : List String) : ServerRunner.Script :=
    { cases := b.map fun n =>
        if blind.contains n then .answer .error true
        else if answered.contains n then .answer (if ownErr n then .error else if right n then .pass else .mismatch) true
        else if read.contains n then .answer .noresult true   -- handed over, never answered
        else .refuse
      isRef := true, useTLS := false, startErr := false, writeErr := false, closeErr := false
      resp := .ok, dies := none, names := b.map (·.toList)
      -- the reference server's feedback lines as its printer writes them (C12: `prefixLine`)
      stderr := ((b.filter fb).map fun n => FeedbackLine.prefixLine n.toList "deviating request".toList).flatten }
  let world : List RunLoop.Client :=
    [{ startErr := false, batches := batches.map (fun b => { s := script b, noticed := false }), waitErr := !clean }]
  let mOk := RunLoop.Run mk world
  let mRep := RunLoop.runReport mk world
  let mTot : Totals := match mRep with
    | some r => { passed := r.succeeded, failed := r.failed, expected := r.expectedFailures, notRun := r.couldNotRun }
    | none => { passed := 0, failed := 0, expected := 0, notRun := 0 }
  -- which of the classes "failed" (set-up error: no result) and "could not be run" a case that got
  -- no answer falls into depends on the race between the sender and the shut-down; their sum does not
  -- a request answered "blindly" (before it was fully sent, the client exiting right after) races
  -- with the failing write of that same request: it is recorded either with the client's answer or
  -- as could-not-run; both are legitimate, so class counts are compared only without such requests
  let strict := blind.isEmpty
  let agree := iOk == mOk && (!strict || (iTot.passed == mTot.passed && iTot.expected == mTot.expected
    && iTot.failed + iTot.notRun == mTot.failed + mTot.notRun))
  let why :=
    if !want && iOk then
      "verdict: Run returned success although not every selected case ran and met its expectation ("
        ++ toString ((cases.filter (fun c => !c.meets)).map (·.name)) ++ "); client: " ++ stop
        ++ " after " ++ toString (int (field inp "k")) ++ " answers"
    else if want && clean && !iOk then
      "verdict: Run returned failure although every selected case ran and met its expectation and the client ended cleanly"
    else if !unnamed.isEmpty then "unnamed: failing cases not named on a FAILED line: " ++ toString unnamed
    else if sum != names.length then
      "totals: the printed totals account for " ++ toString sum ++ " of " ++ toString names.length ++ " selected cases"
    else if strict && (iTot.passed != wantTot.passed || iTot.expected != wantTot.expected) then
      "classes: printed passed/expected " ++ toString iTot.passed ++ "/" ++ toString iTot.expected ++
        " but the answered cases give " ++ toString wantTot.passed ++ "/" ++ toString wantTot.expected
    else if iFailed.length != iTot.failed || iInfo.length != iTot.expected then
      "names: " ++ toString iFailed.length ++ " FAILED / " ++ toString iInfo.length ++ " INFO lines for totals " ++ reprStr iTot
    else ""
  { agree := agree, holds := why.isEmpty, nontrivial := true,
    model := Json.mkObj [("ok", mOk), ("passed", mTot.passed), ("expected", mTot.expected), ("failedOrNotRun", mTot.failed + mTot.notRun)],
    why := why,
    cls := (if !late.isEmpty then "feedback-during-shutdown:" else "") ++ (if names.any fb then "peer-feedback:" else "") ++ (if names.any ownErr then "client-error-message:" else "") ++ (if tnames.isEmpty then "" else "odd-names:") ++
      stop ++ (if want then ":all-answered" else ":not-all") ++ (if iOk then ":success" else ":failure") }

/-! ### ops "srvloop" / "srvcli": the real `Run` / the real command in mode SERVER — the in-process
reference client against a server under test (the stock reference server behind a proxy that deviates on
the wire for some cases without changing the decoded result).  Judged by the rule of the property: a
case for which the reference peer had something to complain about is failed and the run fails; the
model is `ConfModel.SrvFeedback.srvReport` (the callback with its `isReferenceClient` branch). -/

def handleSrvLoop (inp impl : Json) : Verdict :=
  if !(isNull (field impl "panic")) then
    { agree := false, holds := false, why := "panic: " ++ str (field impl "panic") } else
  if bool (field impl "invalid") then
    { agree := true, holds := true, nontrivial := false, cls := "invalid-input" } else
  let codes := strList (field inp "cases")
  let tamper := strList (field inp "tamper")
  let batches := (arr (field impl "batches")).map strList
  let names := batches.flatten
  let served := strList (field impl "served")
  let tampered := strList (field impl "tampered")
  let idxOf (n : String) : Option Nat := match (n.splitOn "/").getLast? with
    | some base => if base.startsWith "c" then (base.drop 1).toString.toNat? else none
    | none => none
  if batches.isEmpty || names.any (fun n => ((idxOf n).bind (codes[·]?)).isNone) then
    bad ("srvloop: no batches / unknown permutation name; err: " ++ str (field impl "err")) else
  let codeOf (n : String) : List Char := (((idxOf n).bind (codes[·]?)).getD "ruo").toList
  let tamperOf (n : String) : String := ((idxOf n).bind (tamper[·]?)).getD ""
  let isWeb (n : String) : Bool := (n.splitOn "PROTOCOL_GRPC_WEB").length > 1
  let isErr (n : String) : Bool := (codeOf n)[2]? == some 'e'
  -- where the proxy is expected to deviate: errkey on a Connect unary error, httptrailer anywhere,
  -- webmsg on a gRPC-Web response that ends with status 0
  let eff (n : String) : Bool := match tamperOf n with
    | "errkey" => !isWeb n && isErr n
    | "httptrailer" => true
    | "webmsg" => isWeb n && !isErr n
    | _ => false
  -- the reference peer has something to say about a case iff the server really deviated on it
  let fb (n : String) : Bool := tampered.contains n
  let markOfName (n : String) : Mark := ((codeOf n)[1]?.bind parseMark).getD .unmarked
  let right (n : String) : Bool := (codeOf n)[0]? == some 'r'
  let cases : List Case := names.map fun n =>
    { name := n
      kind := if served.contains n then (if right n then .pass else .assertFail) else .noResult
      mark := markOfName n, feedback := fb n }
  let want := specOk cases 0
  let wantTot := specTotals cases 0
  let iOk := bool (field impl "ok")
  let iTot : Totals := { passed := nat (field impl "passed"), failed := nat (field impl "failed"),
                         expected := nat (field impl "expected"), notRun := nat (field impl "notRun") }
  let iFailed := strList (field impl "failedNames")
  let iInfo := strList (field impl "infoNames")
  let sum := iTot.passed + iTot.failed + iTot.expected + iTot.notRun
  let unnamed := (specFailedNames cases).filter (fun n => !iFailed.contains n)
  let wrongly := iFailed.filter (fun n => !(specFailedNames cases).contains n)
  -- model: the callback with isReferenceClient = true on the same answers
  let mk : Report.Marks :=
    { failing := fun n => markOfName n == .failing, flaky := fun n => markOfName n == .flaky }
  let resps : List SrvFeedback.Resp := names.map fun n =>
    { name := n, ans := if right n then .pass else .mismatch
      feedback := if fb n then ["wire deviation"] else [] }
  let mRep := SrvFeedback.srvReport mk true resps
  let allServed := names.all (fun n => served.contains n)
  let harnessOK := allServed && names.all (fun n => eff n == fb n) && str (field impl "err") == ""
  let agree := harnessOK && iOk == mRep.ok && iTot.passed == mRep.succeeded && iTot.failed == mRep.failed
    && iTot.expected == mRep.expectedFailures && iTot.notRun == mRep.couldNotRun
    && iFailed == mRep.failedNames.mergeSort (· ≤ ·) && iInfo == mRep.infoNames.mergeSort (· ≤ ·)
  let why :=
    if !want && iOk then
      "verdict: the run succeeded although not every selected case ran and met its expectation ("
        ++ toString ((cases.filter (fun c => !c.meets)).map (·.name)) ++ "); server mode, the server deviated on the wire for "
        ++ toString tampered ++ " (the reference client reports that as feedback)"
    else if want && !iOk then
      "verdict: the run failed although every selected case ran and met its expectation; err: " ++ str (field impl "err")
    else if !unnamed.isEmpty then "unnamed: failing cases not named on a FAILED line: " ++ toString unnamed
    else if !wrongly.isEmpty then "misnamed: cases named on a FAILED line that met their expectation: " ++ toString wrongly
    else if sum != names.length then
      "totals: the printed totals account for " ++ toString sum ++ " of " ++ toString names.length ++ " selected cases"
    else if iTot.passed != wantTot.passed || iTot.expected != wantTot.expected || iTot.failed != wantTot.failed then
      "classes: printed passed/failed/expected " ++ toString iTot.passed ++ "/" ++ toString iTot.failed ++ "/" ++ toString iTot.expected ++
        " but the cases give " ++ toString wantTot.passed ++ "/" ++ toString wantTot.failed ++ "/" ++ toString wantTot.expected
    else ""
  { agree := agree, holds := why.isEmpty, nontrivial := true,
    model := Json.mkObj [("ok", mRep.ok), ("passed", mRep.succeeded), ("failed", mRep.failed), ("expected", mRep.expectedFailures),
      ("failedNames", Json.arr (mRep.failedNames.map Json.str).toArray), ("harnessOK", harnessOK)],
    why := why,
    cls := "server-mode:" ++ (if names.any fb then "client-feedback:" else "no-feedback:") ++
      (if want then "all-met" else "not-all") ++ (if iOk then ":success" else ":failure") }


/-! ### op "inrun": one whole run in one process (real client runner on an in-process scripted client,
real batch runner, real results and report, then the verdict as `Run` forms it) -/

/-- what the scripted client did: (requests read, answers (case, kind) in order, it ended cleanly) -/
def inScript (script : List String) : Nat × List (Nat × String) × Bool :=
  script.foldl (fun (st : Nat × List (Nat × String) × Bool) a =>
    match a.splitOn " " with
    | ["req"] => (st.1 + 1, st.2.1, st.2.2)
    | ["ans", m, k] => (st.1, st.2.1 ++ [(m.toNat?.getD 0, k)], st.2.2)
    | ["garbage"] => (st.1, st.2.1, false)
    | ["exit", c] => (st.1, st.2.1, st.2.2 && c == "0")
    | _ => st) (0, [], true)

def handleInRun (inp impl : Json) : Verdict :=
  if bool (field impl "invalid") then
    { agree := true, holds := true, nontrivial := false, cls := "invalid-input" } else
  if !(isNull (field impl "panic")) || bool (field impl "hang") || !(strList (field impl "panics")).isEmpty then
    { agree := false, holds := false, why := "inrun: the run panicked or hung: " ++ toString (strList (field impl "panics")) ++ " " ++ str (field impl "panic") } else
  let marks := (strList (field inp "marks")).map fun m => ((m.toList.head?.bind parseMark).getD .unmarked)
  let n := marks.length
  let (read, answers, clean) := inScript (strList (field inp "client"))
  let name (i : Nat) : String := "Suite/in/case" ++ toString i
  let ansOf (i : Nat) : Option String := (answers.find? (fun a => a.1 == i)).map (·.2)
  -- feedback lines the (reference) server printed about case i, in whatever phase of its life
  let isRef := bool (field inp "isRef")
  let srvFb : List (String × Nat) := (strList (field inp "srvFb")).filterMap fun l =>
    match l.splitOn " " with
    | [ph, ci, _] => ci.toNat?.map (fun c => (ph, c))
    | _ => none
  let fbOf (i : Nat) : Bool := isRef && srvFb.any (fun e => e.2 == i)
  -- the assignment, by the property's words: a selected case ran iff the client answered it
  let cases : List Case := (List.range n).map fun i =>
    { name := name i
      kind := match ansOf i with
        | some "pass" => .pass
        | some "mismatch" => .assertFail
        | some _ => .clientErr
        | none => .noResult
      mark := marks.getD i .unmarked, feedback := fbOf i }
  let want := specOk cases 0
  let iOk := bool (field impl "ok")
  let iTot : Totals := { passed := nat (field impl "passed"), failed := nat (field impl "failed"),
                         expected := nat (field impl "expected"), notRun := nat (field impl "notRun") }
  let iFailed := strList (field impl "failedNames")
  let iInfo := strList (field impl "infoNames")
  let sum := iTot.passed + iTot.failed + iTot.expected + iTot.notRun
  let answeredCases := cases.filter (fun c => (ansOf ((c.name.drop 13).toString.toNat?.getD 0)).isSome)
  let unnamed := (specFailedNames answeredCases).filter (fun n => !iFailed.contains n)
  let wantTot := specTotals cases 0
  -- model: `RunLoop.Run` on one client with one batch: answered / handed over and never answered /
  -- never handed over
  let mk : Report.Marks :=
    { failing := fun nm => cases.any (fun c => c.name == nm && c.mark == .failing)
      flaky := fun nm => cases.any (fun c => c.name == nm && c.mark == .flaky) }
  let script : ServerRunner.Script :=
    { cases := (List.range n).map fun i =>
        match ansOf i with
        | some "pass" => .answer .pass true
        | some "mismatch" => .answer .mismatch true
        | some "neither" => .answer .neither true
        | some _ => .answer .error true          -- "error" / "error:<message key>"
        | none => if i < read then .answer .noresult true else .refuse
      isRef := bool (field inp "isRef"), useTLS := false, startErr := false, writeErr := false, closeErr := false
      resp := .ok, dies := none, names := (List.range n).map (fun i => (name i).toList)
      -- everything the server printed until it ENDED, in the order of its life: early lines first
      stderr := (((srvFb.filter (fun e => e.1 == "early")) ++ (srvFb.filter (fun e => e.1 != "early"))).map fun e =>
        FeedbackLine.prefixLine (name e.2).toList "late or early, feedback is feedback".toList).flatten }
  let world : List RunLoop.Client := [{ startErr := false, batches := [{ s := script, noticed := false }], waitErr := !clean }]
  let mOk := RunLoop.Run mk world
  let mTot : Totals := match RunLoop.runReport mk world with
    | some r => { passed := r.succeeded, failed := r.failed, expected := r.expectedFailures, notRun := r.couldNotRun }
    | none => { passed := 0, failed := 0, expected := 0, notRun := 0 }
  -- a request that was not read may be refused or accepted and failed, whichever the race gives:
  -- "failed" and "could not be run" are compared by their sum
  let agree := iOk == mOk && iTot.passed == mTot.passed && iTot.expected == mTot.expected
    && iTot.failed + iTot.notRun == mTot.failed + mTot.notRun
  let why :=
    if !want && iOk then
      "verdict: the run succeeded although not every selected case ran and met its expectation ("
        ++ toString ((cases.filter (fun c => !c.meets)).map (·.name)) ++ "); the client read " ++ toString read
        ++ " request(s), answered " ++ toString (answers.map (·.1)) ++ (if clean then " and ended cleanly" else " and ended with an error")
    else if want && clean && !iOk then
      "verdict: the run failed although every selected case ran and met its expectation and the client ended cleanly"
    else if !unnamed.isEmpty then "unnamed: failing cases not named on a FAILED line: " ++ toString unnamed
    else if sum != n then
      "totals: the printed totals account for " ++ toString sum ++ " of " ++ toString n ++ " selected cases"
    else if iTot.passed != wantTot.passed || iTot.expected != wantTot.expected then
      "classes: printed passed/expected " ++ toString iTot.passed ++ "/" ++ toString iTot.expected ++
        " but the answered cases give " ++ toString wantTot.passed ++ "/" ++ toString wantTot.expected
    else if iFailed.length != iTot.failed || iInfo.length != iTot.expected then
      "names: " ++ toString iFailed.length ++ " FAILED / " ++ toString iInfo.length ++ " INFO lines for totals " ++ reprStr iTot
    else ""
  let pendingAtEnd := (List.range n).any (fun i => i < read && (ansOf i).isNone)
  { agree := agree, holds := why.isEmpty, nontrivial := true,
    model := Json.mkObj [("ok", mOk), ("passed", mTot.passed), ("expected", mTot.expected), ("failedOrNotRun", mTot.failed + mTot.notRun)],
    why := why,
    cls := (if srvFb.any (fun e => e.1 == "shutdown") then "feedback-during-shutdown:" else if !srvFb.isEmpty then "feedback-early:" else "") ++
      (if clean then "clean-end" else "unclean-end") ++ (if pendingAtEnd then ":unanswered-pending" else "") ++
      (if want then ":all-answered" else ":not-all") ++ (if iOk then ":success" else ":failure") }

/-! ### op "cliargs": the command line's own decisions; the model is `ConfModel.Cli.run`, followed by
what `run()` does next with an accepted invocation: open the TLS files, look the command names up
(client first).  Of the names used only `/bin/true` exists. -/

def handleCliArgs (inp impl : Json) : Verdict :=
  if !(isNull (field impl "panic")) then
    { agree := false, holds := false, why := "panic: " ++ str (field impl "panic") } else
  let given (k : String) : Bool := !(isNull (field inp k))
  let fileVal (k : String) : String :=
    if !(given k) then "" else let v := str (field inp k); if v = "" then "" else v
  let a : Cli.Args :=
    { version := bool (field inp "version")
      mode := if given "mode" then str (field inp "mode") else ""
      command := strList (field inp "command")
      maxServers := if given "maxServers" then nat (field inp "maxServers") else 4
      maxServersGiven := given "maxServers"
      port := if given "port" then nat (field inp "port") else 0
      portGiven := given "port"
      parallel := if given "parallel" then nat (field inp "parallel") else 64
      parallelGiven := given "parallel"
      bindGiven := given "bind"
      tlsCert := fileVal "cert", tlsCertGiven := given "cert"
      tlsKey := fileVal "key", tlsKeyGiven := given "key" }
  let exists_ (n : String) : Bool := n == "/bin/true"
  let want : String :=
    match Cli.run a with
    | .version => "version"
    | .refused r => r.name
    | .proceed p =>
      if a.tlsCert = "missing" then "open:cert"
      else if a.tlsCert ≠ "" && a.tlsKey = "missing" then "open:key"
      else
        match p.client.head?, p.server.head? with
        | some c, _ => if !(exists_ c) then "lookpath:" ++ c else
            (match p.server.head? with
             | some s => if !(exists_ s) then "lookpath:" ++ s else "runs"
             | none => "runs")
        | none, some s => if !(exists_ s) then "lookpath:" ++ s else "runs"
        | none, none => "runs"
  let got := str (field impl "class")
  let ok := got == want
  { agree := ok, holds := ok, nontrivial := !(Cli.run a matches .proceed _) || a.mode = "both",
    model := Json.mkObj [("class", want)],
    why := if ok then "" else "command line: `" ++ got ++ "` where run() as modelled decides `" ++ want ++ "`",
    cls := "cliargs:" ++ (want.splitOn ":").headD "" }

def handle : Handler := fun op inp impl =>
  match op with
  | "report" =>
    match parseMSteps (strList (field inp "cases")) with
    | none => bad "malformed case code"
    | some msteps =>
    let steps := msteps.map (·.s)
    if !(isNull (field impl "panic")) then
      { agree := false, holds := false, why := "panic: " ++ str (field impl "panic") } else
    let total := nat (field inp "total")
    let cases := steps.map (·.c)
    -- implementation's observation
    let iOk := bool (field impl "ok")
    let iTot : Totals := { passed := nat (field impl "passed"), failed := nat (field impl "failed"),
                           expected := nat (field impl "expected"), notRun := nat (field impl "notRun") }
    let iCases := int (field impl "total")
    let iFailed := sortStrings (strList (field impl "failedNames"))
    let iInfo := sortStrings (strList (field impl "infoNames"))
    let unparsed := strList (field impl "unparsed")
    -- model
    -- the model WITH the texts the peers reported (`script_report_texts`: for all texts it is the
    -- text-free `scriptReport total steps`)
    let m := ReportMsg.scriptReport total msteps
    let mTot : Totals := { passed := m.succeeded, failed := m.failed, expected := m.expectedFailures, notRun := m.couldNotRun }
    -- the API call sequence must amount to the outcome map the theorems (`assignment_report`) speak of
    let m2 := report (marksOf cases) total (finalMap cases) []
    let scriptIsMap := m.ok == m2.ok && m.totalCases == m2.totalCases && m.succeeded == m2.succeeded
      && m.failed == m2.failed && m.expectedFailures == m2.expectedFailures && m.couldNotRun == m2.couldNotRun
      && sortStrings m.failedNames == sortStrings m2.failedNames && sortStrings m.infoNames == sortStrings m2.infoNames
    let agree := scriptIsMap && unparsed.isEmpty && iOk == m.ok && iTot == mTot && iCases == (m.totalCases : Int)
      && iFailed == sortStrings m.failedNames && iInfo == sortStrings m.infoNames
    let model := Json.mkObj [("ok", m.ok), ("total", m.totalCases), ("passed", m.succeeded), ("failed", m.failed),
      ("expected", m.expectedFailures), ("notRun", m.couldNotRun),
      ("failedNames", toJson (sortStrings m.failedNames)), ("infoNames", toJson (sortStrings m.infoNames))]
    let nontrivial := cases.any (fun c => c.kind != .pass || c.mark != .unmarked || c.feedback)
    if total < cases.length then
      -- the number of selected cases was not configured: the property does not speak; clamp only
      { agree := agree, holds := true, nontrivial := false, model := model, cls := "unconfigured-total" }
    else
    let extra := total - cases.length
    -- the property's own rule, on the implementation's output
    let wantOk := specOk cases extra
    let wantTot := specTotals cases extra
    let unnamed := (specFailedNames cases).filter (fun n => !iFailed.contains n)
    let sum := iTot.passed + iTot.failed + iTot.expected + iTot.notRun
    let why :=
      if iOk != wantOk then
        "verdict: report returned " ++ toString iOk ++ " but " ++
          (if wantOk then "every selected case ran and met its expectation"
           else "not every selected case ran and met its expectation (" ++
             toString (cases.filter (fun c => !c.meets) |>.map (·.name)) ++ ", unknown " ++ toString extra ++ ")")
      else if !unnamed.isEmpty then "unnamed: failing cases not named on a FAILED line: " ++ toString unnamed
      else if sum != total then "totals: the printed totals account for " ++ toString sum ++ " of " ++ toString total ++ " selected cases"
      else if iTot != wantTot then "classes: printed totals " ++ reprStr iTot ++ " but the assignment has " ++ reprStr wantTot
      else ""
    { agree := agree, holds := why.isEmpty, nontrivial := nontrivial, model := model, why := why,
      cls := if wantOk then "success" else "failure" }
  | "batchfate" =>
    -- the server died after `dies` of `n` requests; the cases it never served are marked
    -- known-failing: they could not be run, so the run must not succeed
    if !(isNull (field impl "panic")) || bool (field impl "hang") then
      { agree := false, holds := false, why := "batch with a dying server panicked or hung" } else
    let holds := !(bool (field impl "ok"))
    { agree := holds, holds := holds, nontrivial := true, cls := if bool (field inp "exitNil") then "fate:clean-exit" else "fate:crash",
      why := if holds then "" else s!"server died after {nat (field inp "dies")} of {nat (field inp "n")} requests (clean exit: {bool (field inp "exitNil")}); the cases it never served are known-failing, yet the run succeeded: " ++ toString (strList (field impl "lines")) }
  | "feedback" =>
    -- every case of the batch passes; the reference server's stderr carries one feedback line for
    -- the target case: the run must fail and name that case (C04: peer feedback turns an
    -- otherwise matching result into a failure)
    if !(isNull (field impl "panic")) || bool (field impl "hang") then
      { agree := false, holds := false, why := "batch with reference-server feedback panicked or hung" } else
    let target := "Suite/case" ++ toString (nat (field inp "target"))
    let failed := strList (field impl "failed")
    let holds := !(bool (field impl "ok")) && failed.contains target
    { agree := holds && failed == [target], holds := holds, nontrivial := true, cls := "feedback",
      why := if holds then "" else "reference-server feedback for " ++ target ++ " (message " ++ str (field inp "msg") ++ ") did not fail the run / was not named; FAILED names: " ++ toString failed }
  | "run" =>
    if !(isNull (field impl "panic")) then
      { agree := false, holds := false, why := "panic: " ++ str (field impl "panic") } else
    let client := str (field inp "client")
    let codes := strList (field inp "cases")
    let mk (i : Nat) (code : String) : Option Case :=
      match code.toList with
      | [x, m] => do
        let m ← parseMark m
        let k ← (match client, x with
          | "reference", 'r' => some Kind.pass
          | "reference", 'w' => some Kind.assertFail
          | "exit0", _ => some Kind.couldNotRun   -- the client was gone: no case ran
          | "exit1", _ => some Kind.couldNotRun
          | _, _ => none)
        pure { name := "c" ++ toString i, kind := k, mark := m, feedback := false }
      | _ => none
    match (codes.zipIdx.map (fun (c, i) => mk i c)).mapM id with
    | none => bad "malformed run input"
    | some cases =>
    let iOk := bool (field impl "ok")
    let iFailed := (strList (field impl "failedNames")).map (fun n => (n.splitOn "/").getLast?.getD n)
    let want := specOk cases 0
    let mOk := runVerdict (report (marksOf cases) cases.length (finalMap cases) []) false
    -- with a client that really ran, every failing case must be named; when the client was gone the
    -- cases are setup errors or could-not-run, whichever the race produced: only the verdict is fixed
    let unnamed := if client == "reference" then (specFailedNames cases).filter (fun n => !iFailed.contains n) else []
    let why :=
      if iOk != want then "verdict: Run returned " ++ toString iOk ++ " with client " ++ client ++ " but " ++
        (if want then "every selected case ran and met its expectation" else "not every selected case ran and met its expectation")
      else if !unnamed.isEmpty then "unnamed: failing cases not named on a FAILED line: " ++ toString unnamed
      else ""
    { agree := iOk == mOk, holds := why.isEmpty, nontrivial := true, model := Json.mkObj [("ok", mOk)], why := why,
      cls := client ++ (if want then ":success" else ":failure") }
  | "runloop" => handleRunLoop inp impl
  -- the same scenarios through the real command (exit status = verdict)
  | "runcli" => handleRunLoop inp impl
  | "srvloop" => handleSrvLoop inp impl
  | "srvcli" => handleSrvLoop inp impl
  | "inrun" => handleInRun inp impl
  | "cliargs" => handleCliArgs inp impl
  | _ => bad ("C04: unknown op " ++ op)

end ConfModel.Driver.C04
