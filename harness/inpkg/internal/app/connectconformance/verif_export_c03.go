//go:build verif

package connectconformance

import (
	conformancev1 "connectrpc.com/conformance/internal/gen/proto/go/connectrpc/conformance/v1"
)

// VerifC03Grace is the grace period of the echoed-timeout check.
func VerifC03Grace() int64 { return timeoutCheckGracePeriodMillis }

// VerifC03Assert runs the real testResults.assert on one (definition, actual result) pair and
// returns what was recorded for the case: passed (no error) or the individual error texts, in
// the order they were appended.
func VerifC03Assert(definition *conformancev1.TestCase, actual *conformancev1.ClientResponseResult) (recorded bool, texts []string) {
	res := newResults(1, &testTrie{}, &testTrie{}, nil)
	name := definition.GetRequest().GetTestName()
	res.assert(name, definition, actual)
	res.mu.Lock()
	defer res.mu.Unlock()
	outcome, ok := res.outcomes[name]
	if !ok {
		return false, nil
	}
	texts = []string{}
	switch failure := outcome.actualFailure.(type) {
	case nil:
	case multiErrors:
		for _, e := range failure {
			texts = append(texts, e.Error())
		}
	default:
		texts = append(texts, failure.Error())
	}
	return true, texts
}

// VerifC03Canon is canonicalizeHeaderVals.
func VerifC03Canon(vals []string) []string { return canonicalizeHeaderVals(vals) }
