#!/usr/bin/env python3
"""Orchestrator for every check registered in MANIFEST.json.

    python3 check.py <Cxx> [--tier quick|thorough] [--seed N]
    python3 check.py <Cxx> --replay replays/<file>.json
    python3 check.py setup

One run of a property:
  1. rebuild the Go harness from /repo's *current working tree* (tag verif, -overlay; the
     harness sources and the in-package wrappers live in /verif/harness, nothing is stored
     in /repo), plus any repo binaries the property needs;
  2. regenerate ConfModel/Generated/*.lean from the tree (facts, finite tables);
  3. `lake build` the property's theorem module and the driver; audit `#print axioms`
     of every theorem in Props/<Cxx>.lean; grep for forbidden constructs;
  4. run the harness (real code) -> JSON lines; run the Lean driver (model + spec) on the
     same lines -> verdicts {agree, holds, nontrivial};
  5. judge (DESIGN.md section 2.2), search/shrink, write evidence/<Cxx>.json and, on a
     violation, replays/<...>.json and the VIOLATION line.
"""
import sys, os, json, subprocess, time, re, hashlib, fcntl, shutil, glob, itertools

VERIF = os.path.dirname(os.path.abspath(__file__))
REPO = os.environ.get("VERIF_REPO", "/repo")
BUILD = os.path.join(VERIF, ".build")
LEAN = os.path.join(VERIF, "lean")
DRIVER = os.path.join(LEAN, ".lake", "build", "bin", "confdriver")
HARNESS_BIN = os.path.join(BUILD, "verifharness")
BIN_DIR = os.path.join(BUILD, "bin")
GO_ENV = dict(os.environ, GOFLAGS="-mod=mod", GOPROXY="off", GOSUMDB="off", GOTOOLCHAIN="local",
              CGO_ENABLED=os.environ.get("CGO_ENABLED", "0"))
ALLOWED_AXIOMS = {"propext", "Classical.choice", "Quot.sound"}
FORBIDDEN = re.compile(r"\b(sorry|admit|native_decide|bv_decide|implemented_by|unsafe)\b|^\s*axiom\s|maxHeartbeats\s+0\b")

sys.path.insert(0, VERIF)
from checks_registry import CHECKS  # noqa: E402


class Lock:
    def __init__(self, name):
        os.makedirs(BUILD, exist_ok=True)
        self.path = os.path.join(BUILD, name + ".lock")

    def __enter__(self):
        self.f = open(self.path, "w")
        fcntl.flock(self.f, fcntl.LOCK_EX)

    def __exit__(self, *a):
        fcntl.flock(self.f, fcntl.LOCK_UN)
        self.f.close()


def sh(cmd, cwd=None, env=None, timeout=None, stdin=None, stdout=None):
    t0 = time.time()
    p = subprocess.run(cmd, cwd=cwd, env=env, timeout=timeout, stdin=stdin,
                       stdout=stdout if stdout is not None else subprocess.PIPE, stderr=subprocess.STDOUT, text=(stdout is None))
    return p.returncode, (p.stdout if stdout is None else ""), time.time() - t0


# ---------------------------------------------------------------- build steps

def build_harness(race=False):
    """go build -tags verif -overlay ... from the current working tree."""
    os.makedirs(BUILD, exist_ok=True)
    ov = os.path.join(BUILD, "overlay.json")
    sys.path.insert(0, os.path.join(VERIF, "harness"))
    import overlay
    overlay.build(REPO, os.path.join(VERIF, "harness"), ov)
    out = HARNESS_BIN + ("-race" if race else "")
    cmd = ["go", "build", "-tags", "verif", "-overlay", ov, "-o", out]
    env = dict(GO_ENV)
    if race:
        cmd.insert(2, "-race")
        env["CGO_ENABLED"] = "1"
    cmd.append("connectrpc.com/conformance/internal/verifharness/cmd/verifharness")
    rc, log, dt = sh(cmd, cwd=REPO, env=env, timeout=900)
    return rc == 0, log, out


def build_bins(names):
    os.makedirs(BIN_DIR, exist_ok=True)
    for n in names:
        rc, log, dt = sh(["go", "build", "-o", os.path.join(BIN_DIR, n), "./cmd/" + n], cwd=REPO, env=GO_ENV, timeout=900)
        if rc != 0:
            return False, log
    return True, ""


def gen_facts(cfg):
    """Regenerate the property's lean/ConfModel/Generated/<X>.lean from the tree (facts, finite
    tables): `verifharness <facts.area> --out tmp`; written only when the content changes so
    that lake does not rebuild needlessly."""
    fc = cfg["facts"]
    out = os.path.join(BUILD, os.path.basename(fc["file"]) + ".new")
    if os.path.exists(out):
        os.remove(out)
    rc, log, dt = sh([HARNESS_BIN, fc["area"], "--out", out, "--repo", REPO, "--work", BUILD, "--bin", BIN_DIR], timeout=600)
    if rc != 0 or not os.path.exists(out):
        return False, log
    dst = os.path.join(LEAN, fc["file"])
    new = open(out).read()
    old = open(dst).read() if os.path.exists(dst) else None
    if new != old:
        os.makedirs(os.path.dirname(dst), exist_ok=True)
        with open(dst, "w") as f:
            f.write(new)
    return True, ""


def lake_build(targets):
    rc, log, dt = sh(["lake", "build"] + targets, cwd=LEAN, timeout=3600)
    return rc == 0, log


def strip_comments(src):
    # remove /- ... -/ (nested) and -- line comments
    out, i, depth, n = [], 0, 0, len(src)
    while i < n:
        if src.startswith("/-", i):
            depth += 1; i += 2; continue
        if depth and src.startswith("-/", i):
            depth -= 1; i += 2; continue
        if depth:
            if src[i] == "\n":
                out.append("\n")
            i += 1; continue
        if src.startswith("--", i):
            while i < n and src[i] != "\n":
                i += 1
            continue
        out.append(src[i]); i += 1
    return "".join(out)


def forbidden_scan():
    hits = []
    for path in glob.glob(os.path.join(LEAN, "**", "*.lean"), recursive=True):
        if "/.lake/" in path:
            continue
        body = strip_comments(open(path).read())
        for ln, line in enumerate(body.split("\n"), 1):
            # string literals may legitimately contain the words (messages); drop them
            l2 = re.sub(r'"(\\.|[^"\\])*"', '""', line)
            if FORBIDDEN.search(l2):
                hits.append(f"{os.path.relpath(path, LEAN)}:{ln}: {line.strip()}")
    return hits


def theorem_names(props_file):
    src = strip_comments(open(props_file).read())
    ns = []
    names = []
    for line in src.split("\n"):
        m = re.match(r"\s*namespace\s+(\S+)", line)
        if m:
            ns.append(m.group(1)); continue
        m = re.match(r"\s*end\s+(\S+)", line)
        if m and ns and ns[-1] == m.group(1):
            ns.pop(); continue
        m = re.match(r"\s*(?:@\[[^\]]*\]\s*)?(private\s+|protected\s+)?(theorem|lemma)\s+([^\s:({\[]+)", line)
        if m and not m.group(1):
            names.append(".".join(ns + [m.group(3)]))
    return names


def audit(pid, module):
    """#print axioms for every (non-private) theorem of Props/<pid>.lean."""
    props_file = os.path.join(LEAN, *module.split(".")) + ".lean"
    names = theorem_names(props_file)
    os.makedirs(os.path.join(LEAN, "Audit"), exist_ok=True)
    af = os.path.join(LEAN, "Audit", pid + ".lean")
    body = f"import {module}\n" + "".join(f"#print axioms {n}\n" for n in names)
    if not os.path.exists(af) or open(af).read() != body:
        open(af, "w").write(body)
    rc, log, dt = sh(["lake", "env", "lean", af], cwd=LEAN, timeout=1800)
    axioms = {}
    cur = None
    for m in re.finditer(r"'([^']+)' (depends on axioms: \[([^\]]*)\]|does not depend on any axioms)", log.replace("\n", " ")):
        axioms[m.group(1)] = [a.strip() for a in (m.group(3) or "").split(",") if a.strip()]
    bad = {n: a for n, a in axioms.items() if not set(a) <= ALLOWED_AXIOMS}
    missing = [n for n in names if n not in axioms]
    return names, axioms, bad, missing, log, rc


# ---------------------------------------------------------------- run + judge

def run_harness(area, seed, tier, out, stats, replay=None, race=False, extra=None, timeout=7200):
    cmd = [HARNESS_BIN + ("-race" if race else ""), area, "--seed", str(seed), "--tier", tier, "--out", out,
           "--stats", stats, "--work", BUILD, "--bin", BIN_DIR, "--repo", REPO]
    if replay:
        cmd += ["--replay", replay]
    env = dict(os.environ)
    env.setdefault("GOMEMLIMIT", "12GiB")
    if extra:
        env.update(extra)
    rc, log, dt = sh_group(cmd, cwd=BUILD, env=env, timeout=timeout)
    return rc, log, dt


def sh_group(cmd, cwd=None, env=None, timeout=None):
    """Runs cmd in its own session with its output in a file (not a pipe: peers the harness started
    and did not reap must not keep this call waiting), and kills the whole process group afterwards
    (also on time-out: rc = -9 and the log says so)."""
    import signal, tempfile
    t0 = time.time()
    os.makedirs(BUILD, exist_ok=True)
    with tempfile.TemporaryFile(dir=BUILD) as f:
        p = subprocess.Popen(cmd, cwd=cwd, env=env, stdin=subprocess.DEVNULL, stdout=f, stderr=subprocess.STDOUT, start_new_session=True)
        timed_out = False
        try:
            rc = p.wait(timeout=timeout)
        except subprocess.TimeoutExpired:
            timed_out, rc = True, -9
        try:
            os.killpg(p.pid, signal.SIGKILL)
        except (ProcessLookupError, PermissionError):
            pass
        if timed_out:
            p.wait()
        f.seek(0)
        log = f.read().decode(errors="replace")
    if timed_out:
        log += f"\n[check.py] harness did not finish within {timeout} s and was killed"
    return rc, log, time.time() - t0


def run_driver(area, inp, outp, timeout=7200):
    with open(inp, "rb") as fi, open(outp, "wb") as fo:
        p = subprocess.run([DRIVER, area], stdin=fi, stdout=fo, stderr=subprocess.PIPE, timeout=timeout)
    return p.returncode, p.stderr.decode(errors="replace")


def read_pairs(inp, outp):
    with open(inp) as fi, open(outp) as fo:
        for li, lo in itertools.zip_longest(fi, fo):
            if li is None:
                break
            try:
                v = json.loads(lo) if lo else {"agree": False, "holds": True, "nontrivial": False, "why": "driver: no output"}
            except Exception as e:
                v = {"agree": False, "holds": True, "nontrivial": False, "why": "driver: bad output " + str(e)}
            yield li, v


def load_known():
    p = os.path.join(VERIF, "known-findings.json")
    if not os.path.exists(p):
        return []
    return json.load(open(p)).get("findings", [])


def match_known(pid, line_obj, verdict, known):
    for k in known:
        if k.get("property") != pid or k.get("status") != "known":
            continue
        m = k.get("match", {})
        if "op" in m and m["op"] != line_obj.get("op"):
            continue
        blob = json.dumps(line_obj.get("in"), sort_keys=True, separators=(",", ":"))
        if "in_regex" in m and not re.search(m["in_regex"], blob):
            continue
        if "why_regex" in m and not re.search(m["why_regex"], verdict.get("why", "")):
            continue
        if "impl_regex" in m and not re.search(m["impl_regex"], json.dumps(line_obj.get("impl"), sort_keys=True, separators=(",", ":"))):
            continue
        return k
    return None


class Judge:
    def __init__(self, pid, known):
        self.pid, self.known = pid, known
        self.n = 0
        self.nontrivial = set()
        self.ops = {}
        self.cls = {}
        self.disagree = []   # (line, verdict)  agree=false, holds=true
        self.failing = []    # holds=false, not known
        self.known_hits = {}
        self.samples = []

    def feed(self, inp, outp, keep=40):
        for li, v in read_pairs(inp, outp):
            self.n += 1
            try:
                lo = json.loads(li)
            except Exception:
                continue
            op = lo.get("op")
            self.ops[op] = self.ops.get(op, 0) + 1
            if v.get("cls"):
                key = op + ":" + v["cls"]
                self.cls[key] = self.cls.get(key, 0) + 1
            if v.get("nontrivial"):
                self.nontrivial.add(hashlib.sha1((op + json.dumps(lo.get("in"), sort_keys=True)).encode()).digest()[:10])
            if len(self.samples) < 3 and v.get("nontrivial") and v.get("agree") and v.get("holds") and len(li) < 1500:
                if not any(s["op"] == op for s in self.samples):
                    self.samples.append({"op": op, "in": lo.get("in"), "impl": lo.get("impl"), "verdict": {k: v.get(k) for k in ("agree", "holds")}})
            if not v.get("holds", True) or not v.get("agree", True):
                k = match_known(self.pid, lo, v, self.known)
                if k is not None:
                    self.known_hits.setdefault(k["id"], []).append(lo)
                    continue
                rec = {"op": op, "in": lo.get("in"), "impl": lo.get("impl"), "verdict": v}
                if not v.get("holds", True):
                    if len(self.failing) < keep:
                        self.failing.append(rec)
                    else:
                        self.failing_more = getattr(self, "failing_more", 0) + 1
                elif len(self.disagree) < keep:
                    self.disagree.append(rec)
                else:
                    self.disagree_more = getattr(self, "disagree_more", 0) + 1


def size_of(x):
    return len(json.dumps(x))


def shrink_candidates(inp, fields):
    """delta candidates of a JSON input: drop elements of the listed top-level list fields
    (also one level of nesting for lists of lists), shorten '/'-joined strings."""
    out = []
    for f in fields:
        v = inp.get(f)
        if isinstance(v, list):
            n = len(v)
            if n > 4:
                out.append({**inp, f: v[: n // 2]})
                out.append({**inp, f: v[n // 2:]})
            for i in range(min(n, 40)):
                out.append({**inp, f: v[:i] + v[i + 1:]})
            for i in range(min(n, 40)):
                e = v[i]
                if isinstance(e, str) and "/" in e:
                    parts = e.split("/")
                    for j in range(len(parts)):
                        out.append({**inp, f: v[:i] + ["/".join(parts[:j] + parts[j + 1:])] + v[i + 1:]})
                elif isinstance(e, str) and len(e) > 1 and not re.fullmatch(r"[0-9a-f]*", e):
                    out.append({**inp, f: v[:i] + [e[: len(e) // 2]] + v[i + 1:]})
                    out.append({**inp, f: v[:i] + [e[1:]] + v[i + 1:]})
                    out.append({**inp, f: v[:i] + [e[:-1]] + v[i + 1:]})
                elif isinstance(e, str) and len(e) >= 2 and re.fullmatch(r"[0-9a-f]*", e):
                    out.append({**inp, f: v[:i] + [e[:-2]] + v[i + 1:]})
                    out.append({**inp, f: v[:i] + [e[2:]] + v[i + 1:]})
                elif isinstance(e, list) and e:
                    for j in range(min(len(e), 20)):
                        out.append({**inp, f: v[:i] + [e[:j] + e[j + 1:]] + v[i + 1:]})
                elif isinstance(e, int) and not isinstance(e, bool) and e > 0:
                    out.append({**inp, f: v[:i] + [e // 2] + v[i + 1:]})
                    out.append({**inp, f: v[:i] + [e - 1] + v[i + 1:]})
        elif isinstance(v, str) and len(v) >= 2:
            if re.fullmatch(r"([0-9a-f]{2})*", v):
                out.append({**inp, f: v[:-2]}); out.append({**inp, f: v[2:]})
                out.append({**inp, f: v[: (len(v) // 4) * 2]})
            else:
                out.append({**inp, f: v[:-1]}); out.append({**inp, f: v[1:]}); out.append({**inp, f: v[: len(v) // 2]})
        elif isinstance(v, int) and not isinstance(v, bool) and v > 0:
            out.append({**inp, f: v // 2}); out.append({**inp, f: v - 1})
    return out


def evaluate_inputs(area, tag, recs):
    """run impl + driver on a list of {op,in}; returns list of (line_obj, verdict)."""
    rp = os.path.join(BUILD, f"{tag}.replay.jsonl")
    with open(rp, "w") as f:
        for r in recs:
            f.write(json.dumps({"op": r["op"], "in": r["in"]}) + "\n")
    o1, o2, st = os.path.join(BUILD, f"{tag}.r.jsonl"), os.path.join(BUILD, f"{tag}.r.out.jsonl"), os.path.join(BUILD, f"{tag}.r.stats.json")
    rc, log, dt = run_harness(area, 0, "quick", o1, st, replay=rp)
    if rc != 0:
        return None
    rc, err = run_driver(area, o1, o2)
    res = []
    for li, v in read_pairs(o1, o2):
        res.append((json.loads(li), v))
    return res


def shrink(area, pid, rec, fields_by_op, want_holds_false, max_rounds=60):
    fields = fields_by_op.get(rec["op"])
    if not fields:
        return rec
    cur = rec
    word = lambda v: (str(v.get("why", "")).split() or [""])[0]
    w0 = word(rec["verdict"])
    for _ in range(max_rounds):
        cands = [c for c in shrink_candidates(cur["in"], fields) if size_of(c) < size_of(cur["in"])]
        if not cands:
            break
        res = evaluate_inputs(area, pid.lower() + ".shrink", [{"op": cur["op"], "in": c} for c in cands[:400]])
        if res is None:
            break
        nxt = None
        for lo, v in res:
            bad = (not v.get("holds", True)) if want_holds_false else (not v.get("agree", True))
            if bad and not str(v.get("why", "")).startswith("driver:") and word(v) == w0:
                if nxt is None or size_of(lo["in"]) < size_of(nxt["in"]):
                    nxt = {"op": lo["op"], "in": lo["in"], "impl": lo.get("impl"), "verdict": v}
        if nxt is None:
            break
        cur = nxt
    return cur


# ---------------------------------------------------------------- main

def write_evidence(pid, ev):
    os.makedirs(os.path.join(VERIF, "evidence"), exist_ok=True)
    with open(os.path.join(VERIF, "evidence", pid + ".json"), "w") as f:
        json.dump(ev, f, indent=1, sort_keys=False)


def write_replay(pid, kind, what, seed, tier, lines, extra=None):
    os.makedirs(os.path.join(VERIF, "replays"), exist_ok=True)
    h = hashlib.sha1(json.dumps([kind, what, lines], sort_keys=True, default=str).encode()).hexdigest()[:10]
    path = os.path.join(VERIF, "replays", f"{pid}-{kind}-{h}.json")
    obj = {"property": pid, "kind": kind, "what": what, "seed": seed, "tier": tier,
           "replay_cmd": f"python3 check.py {pid} --replay {os.path.relpath(path, VERIF)}",
           "lines": lines}
    if extra:
        obj.update(extra)
    with open(path, "w") as f:
        json.dump(obj, f, indent=1, default=str)
    return os.path.relpath(path, VERIF)


def setup():
    t0 = time.time()
    with Lock("build"):
        ok, log, _ = build_harness()
        print("harness build:", "ok" if ok else "FAILED\n" + log)
        if not ok:
            return 1
        okb, logb = build_bins(sorted({b for c in CHECKS.values() for b in c.get("bins", [])}))
        print("bins:", "ok" if okb else "FAILED\n" + logb)
        for pid, c in sorted(CHECKS.items()):
            if c.get("facts"):
                okf, logf = gen_facts(c)
                print(f"facts {pid}:", "ok" if okf else "FAILED\n" + logf)
        ok2, log2 = lake_build(["confdriver"] + sorted({c["module"] for c in CHECKS.values() if c.get("module")}))
        print("lake build:", "ok" if ok2 else "FAILED\n" + log2[-4000:])
        if not ok2:
            return 1
    print(f"setup done in {time.time()-t0:.0f}s")
    return 0


def main():
    args = sys.argv[1:]
    if not args:
        print(__doc__); return 2
    if args[0] == "setup":
        return setup()
    pid = args[0]
    if pid not in CHECKS:
        print("unknown property", pid); return 2
    cfg = CHECKS[pid]
    tier = os.environ.get("VERIF_TIER", "quick")
    seed = int(os.environ.get("VERIF_SEED", "1") or 1)
    replay = None
    i = 1
    while i < len(args):
        if args[i] == "--tier":
            tier = args[i + 1]; i += 2
        elif args[i] == "--seed":
            seed = int(args[i + 1]); i += 2
        elif args[i] == "--replay":
            replay = os.path.join(VERIF, args[i + 1]) if not os.path.isabs(args[i + 1]) else args[i + 1]; i += 2
        else:
            print("bad arg", args[i]); return 2
    if "custom" in cfg:
        import importlib
        mod = importlib.import_module(cfg["custom"])
        return mod.run(pid, cfg, tier, seed, replay, sys.modules[__name__])
    return run_check(pid, cfg, tier, seed, replay)


def run_check(pid, cfg, tier, seed, replay):
    t0 = time.time()
    area = cfg["area"]
    module = cfg["module"]
    known = load_known()
    level = cfg.get("level", "proof")
    violations = []      # (replay_path, suffix)
    notes = []
    ev = {"property_id": pid, "tier": tier, "seed": seed, "level": level, "coverage": {}, "assumptions": cfg.get("assumptions", []), "wall_s": 0.0, "violations": 0}
    cov = ev["coverage"]
    race = bool(cfg.get("race")) and tier == "thorough"

    def finish(rc):
        ev["wall_s"] = round(time.time() - t0, 2)
        ev["violations"] = len(violations)
        if notes:
            cov["notes"] = notes
        if not replay:
            write_evidence(pid, ev)
        for path, suffix in violations:
            print(f"VIOLATION property={pid} replay={path}{(' ' + suffix) if suffix else ''}")
        return 1 if violations else rc

    # ---- 1-3: builds
    with Lock("build"):
        ok, log, _ = build_harness()
        if ok and race:
            okr, logr, _ = build_harness(race=True)
            if not okr:
                notes.append("race build failed; thorough run without -race: " + logr[-300:])
                race = False
        if not ok:
            p = write_replay(pid, "correspondence-unbuildable", "the harness (in-package wrappers + generators) no longer compiles against the tree, so the correspondence between model and code cannot be established", seed, tier, [], {"build_log": log[-6000:]})
            cov.update({"obligations": 1, "discharged": 0, "checker_cmd": "go build -tags verif -overlay", "trusted_base": [], "explanation": "harness build failed"})
            violations.append((p, "no-failing-input-found"))
            return finish(1)
        if cfg.get("bins"):
            okb, logb = build_bins(cfg["bins"])
            if not okb:
                p = write_replay(pid, "correspondence-unbuildable", "repository binaries no longer build", seed, tier, [], {"build_log": logb[-6000:]})
                violations.append((p, "no-failing-input-found"))
                return finish(1)
        facts_ok = True
        if cfg.get("facts"):
            facts_ok, flog = gen_facts(cfg)
            if not facts_ok:
                p = write_replay(pid, "facts-unextractable", "facts could not be regenerated from the tree", seed, tier, [], {"log": flog[-6000:]})
                violations.append((p, "no-failing-input-found"))
                return finish(1)
        okd, logd = lake_build(["confdriver"])
        okp, logp = lake_build([module])
        names, axioms, bad_ax, missing, alog, arc = ([], {}, {}, [], "", 0)
        if okp:
            names, axioms, bad_ax, missing, alog, arc = audit(pid, module)
        forb = forbidden_scan()
        # independent re-check of the compiled theorem module by leanchecker (every run; VERIF_LEANCHECKER=0 turns it off)
        lc = None
        import shutil
        if okp and os.environ.get("VERIF_LEANCHECKER", "1") != "0" and not replay and shutil.which("leanchecker"):
            try:
                lrc, llog, ldt = sh(["lake", "env", "leanchecker", module], cwd=LEAN, timeout=900 if tier == "quick" else 3600)
                lc = {"module": module, "exit": lrc, "wall_s": round(ldt, 1), "log_tail": (llog or "")[-500:]}
            except Exception as e:  # a re-checker that cannot be run (time-out, missing tool) is a note, not a verdict
                notes.append("leanchecker could not be run: " + str(e)[:200])
    obligations = len(names) if okp else len(theorem_names(os.path.join(LEAN, *module.split(".")) + ".lean"))
    discharged = len([n for n in names if n in axioms and n not in bad_ax]) if okp else 0
    cov.update({
        "obligations": obligations, "discharged": discharged,
        "checker_cmd": f"cd lean && lake build {module} && lake env lean Audit/{pid}.lean  (#print axioms of every theorem; forbidden-construct grep)",
        "trusted_base": ["Lean 4.33.0 kernel", "axioms: " + ", ".join(sorted({a for v in axioms.values() for a in v}) or ["none"]),
                         "Lean compiler/runtime for the driver executable", "Go harness + check.py (correspondence)"] + cfg.get("trusted", []),
        "theorems": names,
    })
    if lc is not None:
        cov["leanchecker"] = lc
        if lc["exit"] == 0:
            cov["trusted_base"].append("compiled theorem module re-checked by leanchecker (Lean 4.33.0's independent re-checker of .olean files) on this run")
    proof_broken = None
    if lc is not None and lc["exit"] != 0:
        proof_broken = "leanchecker rejects the compiled theorem module: " + lc["log_tail"]
    if not okd:
        proof_broken = "driver (model) does not build: " + logd[-3000:]
    elif not okp:
        proof_broken = "theorem module does not build: " + logp[-3000:]
    elif bad_ax or missing:
        proof_broken = f"axiom audit failed: non-standard axioms {bad_ax}, theorems without audit output {missing}"
    elif forb:
        proof_broken = "forbidden constructs: " + "; ".join(forb[:10])
    if not okd:
        p = write_replay(pid, "proof-broken", proof_broken, seed, tier, [])
        violations.append((p, "no-failing-input-found"))
        return finish(1)

    # ---- 4: run
    lo = pid.lower()
    f_in, f_out, f_st = os.path.join(BUILD, lo + ".jsonl"), os.path.join(BUILD, lo + ".out.jsonl"), os.path.join(BUILD, lo + ".stats.json")
    judge = Judge(pid, known)
    seeds = [seed]
    if tier == "thorough":
        seeds += [seed * 1000 + k for k in range(1, cfg.get("thorough_extra_seeds", 2) + 1)]
    harness_fail = None
    stats_total = {}
    for s in seeds:
        for fpath in (f_in, f_out, f_st):
            if os.path.exists(fpath):
                os.remove(fpath)
        rc, log, dt = run_harness(area, s, tier, f_in, f_st, replay=replay, race=race, timeout=cfg.get("harness_timeout_s", 1500 if tier == "quick" else 7200))
        if rc != 0:
            harness_fail = f"harness exit {rc}: {log[-3000:]}"
        rcd, errd = run_driver(area, f_in, f_out)
        if rcd != 0:
            harness_fail = (harness_fail or "") + f" driver exit {rcd}: {errd[-2000:]}"
        judge.feed(f_in, f_out)
        if os.path.exists(f_st):
            for k, v in json.load(open(f_st)).items():
                stats_total[k] = stats_total.get(k, 0) + v
        if replay:
            break
    cov.update({
        "evaluations": judge.n, "distinct_nontrivial": len(judge.nontrivial),
        "rule": cfg.get("rule", ""), "samples": judge.samples,
        "traces_validated_against_impl": judge.n, "disagreements_checked": len(judge.disagree) + len(judge.failing),
        "ops": judge.ops, "classes": judge.cls, "generator_stats": stats_total, "seeds": seeds,
    })
    if replay:
        for li, v in read_pairs(f_in, f_out):
            print(json.dumps({"line": json.loads(li), "verdict": v})[:3000])

    # ---- 5: judge
    for kid, hits in judge.known_hits.items():
        k = next(x for x in known if x["id"] == kid)
        print(f"KNOWN-FINDING: property={pid} {kid}: {k.get('what','')} ({len(hits)} input(s) this run)")
    cov["known_findings_hit"] = {k: len(v) for k, v in judge.known_hits.items()}
    shr = cfg.get("shrink", {})
    if judge.failing:
        first = judge.failing[0]
        small = shrink(area, pid, first, shr, True) if not replay else first
        p = write_replay(pid, "failing-input", "the property's predicate fails on the implementation's output for this input: " + str(small["verdict"].get("why", "")),
                         seed, tier, [small] + [x for x in judge.failing[:5] if x is not first],
                         {"total_failing_lines": len(judge.failing) + getattr(judge, "failing_more", 0)})
        violations.append((p, ""))
    elif judge.disagree or proof_broken or harness_fail:
        # the property is no longer shown: search for a failing input
        found = None
        if not replay and judge.disagree:
            cands = []
            for d in judge.disagree[:10]:
                cands += [{"op": d["op"], "in": c} for c in shrink_candidates(d["in"], shr.get(d["op"], []))[:200]]
            res = evaluate_inputs(area, lo + ".search", cands) if cands else []
            for lobj, v in (res or []):
                if not v.get("holds", True) and match_known(pid, lobj, v, known) is None:
                    found = {"op": lobj["op"], "in": lobj["in"], "impl": lobj.get("impl"), "verdict": v}; break
        if found is None and not replay and not harness_fail:
            for s in [seed * 7919 + k for k in range(1, (8 if tier == "thorough" else 3) + 1)]:
                rc, log, dt = run_harness(area, s, tier, f_in, f_st, race=False)
                run_driver(area, f_in, f_out)
                j2 = Judge(pid, known); j2.feed(f_in, f_out)
                if j2.failing:
                    found = j2.failing[0]; break
        if found is not None:
            small = shrink(area, pid, found, shr, True)
            p = write_replay(pid, "failing-input", "found by the search after a disagreement: " + str(small["verdict"].get("why", "")), seed, tier, [small],
                             {"disagreeing_lines": judge.disagree[:3], "proof_broken": proof_broken, "harness_fail": harness_fail})
            violations.append((p, ""))
        else:
            what = proof_broken or harness_fail or "the implementation left the model (agree=false) although the property's predicate still holds on every explored input"
            lines = judge.disagree[:5]
            if lines and not replay:
                lines = [shrink(area, pid, lines[0], shr, False)] + lines[1:]
            name = cfg.get("headline", module)
            p = write_replay(pid, "correspondence-broken" if not proof_broken else "proof-broken",
                             f"{what}; theorem/correspondence no longer checked: {name} against area {area}", seed, tier, lines,
                             {"total_disagreeing_lines": len(judge.disagree) + getattr(judge, "disagree_more", 0)})
            violations.append((p, "no-failing-input-found"))
    if judge.n == 0 and not violations:
        p = write_replay(pid, "no-coverage", "the harness produced no lines", seed, tier, [], {"log": harness_fail})
        violations.append((p, "no-failing-input-found"))
    return finish(0)


if __name__ == "__main__":
    sys.exit(main())
