import ConfModel.Driver.Common
import ConfModel.Model.Config
import ConfModel.Spec.Config
namespace ConfModel.Driver.C06
open Lean ConfModel.Driver ConfModel.Config

def tri (j : Json) : Option Bool :=
  match int j with
  | 0 => some false
  | 1 => some true
  | _ => none

def entryOf (j : Json) : Entry :=
  let g (k : String) := field j k
  { v := Ver.ofNum (nat (g "v")), p := Proto.ofNum (nat (g "p")), c := Codec.ofNum (nat (g "c")),
    z := Comp.ofNum (nat (g "z")), s := ST.ofNum (nat (g "s")),
    tls := tri (g "tls"), certs := tri (g "certs"), limit := tri (g "limit") }

def configOf (inp : Json) : Config :=
  let fl := (arr (field inp "flags")).map tri
  let g (i : Nat) : Option Bool := (fl[i]?).getD none
  { features :=
      { versions := (natList (field inp "versions")).map Ver.ofNum,
        protocols := (natList (field inp "protocols")).map Proto.ofNum,
        codecs := (natList (field inp "codecs")).map Codec.ofNum,
        comps := (natList (field inp "comps")).map Comp.ofNum,
        sts := (natList (field inp "sts")).map ST.ofNum,
        h2c := g 0, tls := g 1, certs := g 2, trailers := g 3, halfH1 := g 4, get := g 5, limit := g 6 },
    includes := (arr (field inp "inc")).map entryOf,
    excludes := (arr (field inp "exc")).map entryOf }

def sortedCodes (cs : List Case) : List Nat :=
  let a := (cs.map Case.code).toArray.qsort (· < ·)
  -- drop repetitions (the model's list is read as a set)
  (a.foldl (fun (acc : Array Nat) x => if acc.back? == some x then acc else acc.push x) #[]).toList

def errClass : CfgErr → String
  | .features _ => "features"
  | .includeCase i _ => s!"include#{i}"
  | .excludeCase i _ => s!"exclude#{i}"
  | .zeroCases => "zero-cases"

def handle : Handler := fun op inp impl =>
  match op with
  | "cfg" =>
    let cfg := configOf inp
    let implErr := str (field impl "err")
    let implCases := natList (field impl "cases")
    if !(isNull (field impl "panic")) then
      { agree := false, holds := false, why := "panic: " ++ str (field impl "panic") } else
    -- the model of the code
    let (mErr, mCases) : String × List Nat := match parseConfig cfg with
      | .error e => (errClass e, [])
      | .ok cs => ("", sortedCodes cs)
    let agree := implErr == mErr && implCases == mCases
    -- the property: rejected iff contradictory or empty, otherwise exactly the specified set
    let f := defaults cfg.features
    -- `Rejected cfg` (Spec), evaluated so that `specSet` is enumerated only once
    let contra := decide (Contradictory cfg.features f) ||
      (cfg.includes ++ cfg.excludes).any (fun e => decide (EntryContradictory f e))
    let spec := if contra then [] else (specSet f cfg.includes cfg.excludes).map Case.code
    let rejected := contra || spec.isEmpty
    let holds := if rejected then implErr != "" else implErr == "" && implCases == spec
    let why := if holds then "" else
      if rejected then "accepted: the configuration is contradictory or specifies no case, but a set was returned"
      else if implErr != "" then s!"rejected ({implErr}) although the configuration is consistent and specifies {spec.length} case(s)"
      else s!"wrong-set: returned {implCases.length} case(s), specified {spec.length}; missing {(spec.filter (!implCases.contains ·)).take 5}, extra {(implCases.filter (!spec.contains ·)).take 5}"
    { agree := agree, holds := holds,
      nontrivial := !rejected && (!cfg.includes.isEmpty || !cfg.excludes.isEmpty || spec.length > 1),
      model := if mErr != "" then Json.mkObj [("err", mErr)] else Json.mkObj [("cases", toJson mCases.length)],
      why := why,
      cls := if rejected then (if mErr != "" then mErr.takeWhile (· != '#') |>.toString else "rejected") else "set" }
  | _ => bad ("C06: unknown op " ++ op)

end ConfModel.Driver.C06
