package main

// C14 — bodies too large to write down, and the widths of the tracer's counters.
//
// Op "big": a direction's body is a list of segments (literal bytes, or n filler bytes — zeros —
// repeated t times, one Read/Write call each); the op pushes it through the real tracing reader,
// TracingHandler or TracingRoundTripper (tracer.VerifBigSession) without ever materialising it:
// the caller's one array is all zeros and a filler call just returns n.  Next to the calls the
// input carries the body's *structure* (the envelopes it consists of and what is left after the
// last complete one); the driver evaluates the property's specification on the structure
// (justified by Props.C14.spec_of_envelopes) and runs the model on the calls
// (DataTracer.observeS, Props.C14.seg_run_eq_bytes).

import (
	"encoding/binary"
	"fmt"
	"strings"

	"connectrpc.com/conformance/internal/tracer"
	"connectrpc.com/conformance/internal/verifharness/gen"
)

// c14BigItem is one complete enveloped message of the structure: flags, declared length, and the
// payload (hex) when the specification needs it (end-stream message on the response side).
type c14BigItem struct {
	Flags   int    `json:"flags"`
	Len     int64  `json:"len"`
	Payload string `json:"payload,omitempty"`
}

// c14BigSide: calls + structure of one direction.
type c14BigSide struct {
	tracer.VerifBigSide
	Items []c14BigItem `json:"items"`
	// Tail: ["clean"] | ["prefix", k] (k stray bytes, 1..4) | ["payload", flags, len, seen]
	Tail []any `json:"tail"`
}

type c14BigIn struct {
	Path   string     `json:"path"` // reader | handler | rt
	Side   string     `json:"side"` // reader path: req | resp
	Client bool       `json:"client"`
	Req    c14BigSide `json:"req"`
	Resp   c14BigSide `json:"resp"`
	Note   string     `json:"note,omitempty"`
}

// c14BigBuilder assembles calls and structure of one direction together.
type c14BigBuilder struct {
	side c14BigSide
}

func (b *c14BigBuilder) lit(x []byte) {
	if len(x) > 0 {
		b.side.Segs = append(b.side.Segs, tracer.VerifBigSeg{X: gen.Hex(x)})
	}
}

// fill adds total filler bytes in calls of at most chunk bytes.
func (b *c14BigBuilder) fill(total, chunk int64) {
	if total <= 0 {
		return
	}
	if full := total / chunk; full > 0 {
		b.side.Segs = append(b.side.Segs, tracer.VerifBigSeg{Z: chunk, T: int(full)})
	}
	if rest := total % chunk; rest > 0 {
		b.side.Segs = append(b.side.Segs, tracer.VerifBigSeg{Z: rest})
	}
}

func c14Prefix(flags byte, n int64) []byte {
	out := make([]byte, 5)
	out[0] = flags
	binary.BigEndian.PutUint32(out[1:], uint32(n))
	return out
}

// small complete message with a literal payload
func (b *c14BigBuilder) small(flags byte, payload []byte, needPayload bool) {
	b.lit(append(c14Prefix(flags, int64(len(payload))), payload...))
	it := c14BigItem{Flags: int(flags), Len: int64(len(payload))}
	if needPayload {
		it.Payload = gen.Hex(payload)
	}
	b.side.Items = append(b.side.Items, it)
}

// huge message: prefix, then n filler bytes in calls of chunk bytes; the call that completes the
// payload also carries `over` bytes of what follows (zeros: the beginning of a prefix)
func (b *c14BigBuilder) huge(flags byte, n, chunk int64) {
	b.lit(c14Prefix(flags, n))
	b.fill(n, chunk)
	b.side.Items = append(b.side.Items, c14BigItem{Flags: int(flags), Len: n})
}

func c14BigHeaders(side *c14BigSide, ct, enc string) {
	side.CT = ct
	if strings.HasPrefix(strings.ToLower(ct), "application/connect") {
		side.CCE = enc
	} else {
		side.GE = enc
	}
}

// c14BigCases: the generator of op "big".
func c14BigCases(c *gen.Ctx) {
	r, e := c.R, c.E
	const gib4 = int64(1) << 32
	emit := func(in c14BigIn) {
		for _, s := range []*c14BigSide{&in.Req, &in.Resp} {
			if s.Segs == nil {
				s.Segs = []tracer.VerifBigSeg{}
			}
			if s.Items == nil {
				s.Items = []c14BigItem{}
			}
			if s.Tail == nil {
				s.Tail = []any{"clean"}
			}
			if s.Ending == "" {
				s.Ending = "eof"
			}
		}
		c14Do(c, "big", in)
		e.Count("big:" + in.Path)
	}
	chunks := []int64{1 << 26, 1<<26 - 1, 1 << 24, 1<<20 + 3}
	plain := func(total int64, ct, ce string, chunk int64, strayFirst bool) c14BigSide {
		var b c14BigBuilder
		b.side.CT, b.side.CE = ct, ce
		if strayFirst {
			// a few literal bytes first (what looks like an envelope prefix must not matter)
			lead := []byte{0, 0, 0, 0, 9, 1}
			b.lit(lead)
			total -= int64(len(lead))
		}
		b.fill(total, chunk)
		return b.side
	}
	small := func(ct string) c14BigSide {
		var b c14BigBuilder
		c14BigHeaders(&b.side, ct, "identity")
		if strings.Contains(ct, "connect+") || strings.Contains(ct, "grpc") {
			b.small(0, []byte("ab"), false)
		} else {
			b.lit([]byte("{}"))
		}
		return b.side
	}
	// ---- (1) not an envelope stream: the running total of the body around and beyond 2^32
	totals := []int64{gib4 - 1, gib4, gib4 + 12345, 2*gib4 + 7, gib4 + int64(r.Intn(1<<20)) + 1}
	if c.Thorough() {
		totals = append(totals, 3*gib4, 16*gib4+5, gib4-int64(r.Intn(1000))-2, 5*gib4+int64(r.Intn(1<<30)))
	}
	plainCT := []string{"application/proto", "application/json", "", "text/plain"}
	k := 0
	for _, total := range totals {
		for _, path := range []string{"reader:req", "reader:resp", "handler:req", "handler:resp", "rt:req", "rt:resp"} {
			k++
			ct, ce := plainCT[k%len(plainCT)], ""
			if k%3 == 0 {
				// a stream content type whose body is encoded as a whole: not parsed either
				ct, ce = "application/connect+proto", "gzip"
			}
			big := plain(total, ct, ce, chunks[k%len(chunks)], k%2 == 0)
			big.Ending = []string{"eof", "eof", "err", "close"}[k%4]
			other := small([]string{"application/grpc", "application/json", "application/connect+json"}[k%3])
			in := c14BigIn{Client: k%2 == 0, Note: "plain"}
			in.Path, in.Side, _ = strings.Cut(path, ":")
			if in.Path != "reader" && (in.Side == "req" || in.Path == "handler") {
				big.Ending = "eof" // the transport / the handler reads the request to its end; a handler's response ends when it returns
			}
			if in.Side == "req" {
				in.Req, in.Resp = big, other
			} else {
				in.Req, in.Resp = other, big
			}
			emit(in)
			e.Count("big:plain-total>=4GiB:" + fmt.Sprint(total >= gib4))
		}
	}
	// both directions of one exchange large at once
	{
		in := c14BigIn{Path: "handler", Side: "req", Note: "plain-both"}
		in.Req = plain(gib4+99, "application/proto", "", 1<<26, false)
		in.Resp = plain(2*gib4+1, "application/json", "", 1<<26-1, true)
		emit(in)
		in.Path = "rt"
		emit(in)
	}
	// ---- (2) envelope streams with huge declared lengths: complete, cut inside, followed by more
	type hugeCase struct {
		n    int64 // declared length
		seen int64 // payload bytes that arrive (== n: complete)
		over int   // stray zero bytes after a complete message (0..4: a partial prefix)
	}
	maxU32 := gib4 - 1
	cases := []hugeCase{{maxU32, maxU32, 0}, {maxU32, maxU32, 3}, {maxU32, maxU32 - 1, 0}, {1 << 31, 1 << 31, 1}, {1<<31 + 5, 1 << 31, 0},
		{maxU32 - int64(r.Intn(1<<16)), 3<<30 + int64(r.Intn(1<<20)), 0}}
	if c.Thorough() {
		cases = append(cases, hugeCase{1 << 31, 1<<31 - 1, 0}, hugeCase{3 << 30, 3 << 30, 4}, hugeCase{maxU32, 1, 0}, hugeCase{1<<24 + 1, 1<<24 + 1, 2})
	}
	streamCT := []string{"application/connect+proto", "application/grpc", "application/grpc-web+proto", "application/connect+json"}
	for ci, hc := range cases {
		for _, path := range []string{"reader:req", "reader:resp", "handler:resp", "rt:req", "rt:resp", "handler:req"} {
			k++
			if !c.Thorough() && (ci+k)%2 == 0 && ci > 1 {
				continue
			}
			var b c14BigBuilder
			in := c14BigIn{Client: k%2 == 1, Note: "huge-envelope"}
			in.Path, in.Side, _ = strings.Cut(path, ":")
			isReq := in.Side == "req"
			c14BigHeaders(&b.side, streamCT[k%len(streamCT)], []string{"identity", "gzip", ""}[k%3])
			// flags: on the response side an end-stream flag would make the tracer buffer the payload
			flags := []byte{0, 1, 0, 1}[k%4]
			if isReq {
				flags = []byte{0, 1, 2, 0x80, 0x81, 3}[k%6]
			}
			if k%2 == 0 {
				b.small(byte(k%2), []byte("first"), false)
			}
			chunk := chunks[k%len(chunks)]
			if hc.seen == hc.n {
				b.huge(flags, hc.n, chunk)
				if k%3 != 0 {
					// a message behind it shows that the state was reset; an end-stream one on the response side
					if isReq {
						b.small(0, []byte("next"), false)
					} else {
						b.small(2, []byte(`{"a":1}`), true)
					}
				}
				if hc.over > 0 {
					b.lit(make([]byte, hc.over))
					b.side.Tail = []any{"prefix", hc.over}
				}
			} else {
				b.lit(c14Prefix(flags, hc.n))
				b.fill(hc.seen, chunk)
				b.side.Tail = []any{"payload", int(flags), hc.n, hc.seen}
			}
			b.side.Ending = []string{"eof", "err", "close", "eof"}[k%4]
			if in.Path != "reader" && (isReq || in.Path == "handler") {
				b.side.Ending = "eof"
			}
			other := small([]string{"application/grpc", "application/proto", "application/connect+json"}[k%3])
			if isReq {
				in.Req, in.Resp = b.side, other
			} else {
				in.Req, in.Resp = other, b.side
			}
			emit(in)
			e.Count("big:huge-envelope")
		}
	}
}

// ---------------------------------------------------------------- facts

func runC14Facts(c *gen.Ctx) error {
	w := tracer.VerifC14Widths()
	bits := map[string][2]string{
		"uint8": {"8", "false"}, "uint16": {"16", "false"}, "uint32": {"32", "false"}, "uint64": {"64", "false"}, "uint": {"64", "false"}, "uintptr": {"64", "false"},
		"int8": {"8", "true"}, "int16": {"16", "true"}, "int32": {"32", "true"}, "int64": {"64", "true"}, "int": {"64", "true"},
	}
	var b strings.Builder
	b.WriteString("/- Generated from the working tree by `verifharness c14facts` (reflection over internal/tracer: the\n   counters of dataTracer and the length fields of Envelope / RequestBodyData / ResponseBodyData).\n   Do not edit. -/\n")
	b.WriteString("namespace ConfModel.Generated.C14Facts\n\n")
	for _, f := range []string{"expecting", "actual", "envLen", "reqDataLen", "respDataLen"} {
		kind := w[f]
		bs, ok := bits[kind]
		if !ok {
			bs = [2]string{"0", "false"} // missing field / not an integer: contradicts the theorem
		}
		fmt.Fprintf(&b, "/-- Go kind: %s -/\ndef %sBits : Nat := %s\ndef %sSigned : Bool := %s\n\n", kind, f, bs[0], f, bs[1])
	}
	b.WriteString("end ConfModel.Generated.C14Facts\n")
	return c15WriteFacts(c, b.String())
}
