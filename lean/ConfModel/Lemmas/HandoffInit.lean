/-
Helper lemmas for the runner's glue (Model/HandoffInit.lean).
-/
import ConfModel.Lemmas.Handoff
import ConfModel.Model.HandoffInit
namespace ConfModel.HandoffInit
open ConfModel.TracerSlots ConfModel.Handoff

theorem idle_of_unused (w : Nat) (ops : List Op) (h : ∀ o ∈ ops, usesWaiter w o = false) :
    (exec init ops).1.waiters w = none := by
  rw [exec_waiter w ops init h]; rfl

theorem exec_snoc_clear (ops : List Op) (n : Name) :
    (exec init (ops ++ [.clear n])).1.traces n = none := by
  rw [exec_append]
  simp [exec, step, upd]

theorem exec_snoc_init (ops : List Op) (n : Name) :
    ((exec init (ops ++ [.init n])).1.traces n).isSome = true := by
  rw [exec_append]
  simp [exec, step, upd]

end ConfModel.HandoffInit
