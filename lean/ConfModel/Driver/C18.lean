import ConfModel.Driver.Common
namespace ConfModel.Driver.C18
open Lean ConfModel.Driver

def handle : Handler := fun op _inp _impl => bad ("C18: unknown op " ++ op)

end ConfModel.Driver.C18
