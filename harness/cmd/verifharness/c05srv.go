package main

import (
	"encoding/json"

	cc "connectrpc.com/conformance/internal/app/connectconformance"
	"connectrpc.com/conformance/internal/verifharness/gen"
)

// C05, op "handshake": a batch of the real runTestCasesForServer against a server that starts
// properly and reads its ServerCompatRequest in one of the legitimate ways — not before it has
// answered (blind), exactly the one length-prefixed message (msg), everything up to the END of its
// input (eof) — as a real OS process (/bin/sh script through the repository's runCommand) and
// in-process (the repository's runInProcess).  Whichever way it reads: every permutation of the
// batch must be handed to the client exactly once, with the server's host and port, and the server
// must be gone when the batch returns.  (The peers of op "run" read exactly one message.)

func init() {
	gen.RegisterOp("c05", "handshake", func(_ *gen.Ctx, raw json.RawMessage) any {
		return cc.VerifC05Handshake(gen.Into[cc.VerifC05HandshakeSpec](raw))
	})
}

func c05HandshakeScenarios(c *gen.Ctx) []any {
	var ins []any
	for _, kind := range []string{"sh", "inproc"} {
		for _, read := range []string{"eof", "msg", "blind"} {
			for _, tls := range []bool{false, true} {
				delay := 0
				if c.R.Chance(1, 3) {
					delay = gen.Pick(c.R, []int{50, 300})
				}
				ins = append(ins, cc.VerifC05HandshakeSpec{Kind: kind, Read: read, N: c.R.Range(1, 4), UseTLS: tls, DelayMs: delay, TimeoutS: 30})
				c.E.Count("handshake:" + kind + ":" + read)
			}
		}
	}
	if c.Thorough() {
		for i := 0; i < 24; i++ {
			ins = append(ins, cc.VerifC05HandshakeSpec{Kind: gen.Pick(c.R, []string{"sh", "inproc"}), Read: gen.Pick(c.R, []string{"eof", "eof", "msg", "blind"}),
				N: c.R.Range(0, 8), UseTLS: c.R.Bool(), DelayMs: gen.Pick(c.R, []int{0, 0, 20, 300, 1200}), TimeoutS: 30})
		}
	}
	return ins
}

// C05, op "shared": 2-3 batches of the real runTestCasesForServer side by side on ONE real client
// runner (the way run() lets --max-servers batches share the client under test), with a client that
// holds back its reading until every batch has a sender inside sendRequest and whose output then
// ends in one of the ways a client's output can end — while it goes on taking its input or not.
// See verif_export_c05shared.go.

func init() {
	gen.RegisterOp("c05", "shared", func(_ *gen.Ctx, raw json.RawMessage) any {
		return cc.VerifC05Shared(gen.Into[cc.VerifC05SharedSpec](raw))
	})
}

func c05SharedScenarios(c *gen.Ctx) []any {
	r := c.R
	var ins []any
	add := func(s cc.VerifC05SharedSpec) {
		s.TimeoutS = 8
		ins = append(ins, s)
		c.E.Count("shared:" + s.Fail + ":" + s.Then)
	}
	splits := [][]int{{2, 2}, {1, 3}, {2, 1, 2}, {3, 3}, {1, 1, 1}}
	// the output ends (not by an exit) while one sender is in the pipe write and the others wait for
	// sendMu, and the client goes on reading for a while: every way the output can end x the client
	// having served 0..2 requests before
	for _, fail := range []string{"unknown", "dup", "over", "garbage"} {
		for _, after := range []int{0, 1, 2} {
			if fail == "dup" && after == 0 {
				continue
			}
			if !c.Thorough() && after == 2 && fail != "dup" {
				continue
			}
			add(cc.VerifC05SharedSpec{Batches: gen.Pick(r, splits), After: after, Stall: true, Fail: fail, Then: "drain", DrainDelayMs: gen.Pick(r, []int{5, 20, 50})})
		}
	}
	// the same ends with a client that returns once it is aborted, and clients that just exit
	for _, fail := range []string{"unknown", "garbage", "exit0", "exit1"} {
		add(cc.VerifC05SharedSpec{Batches: gen.Pick(r, splits), After: r.Range(0, 1), Stall: true, Fail: fail, Then: "return"})
	}
	// no failure at all: the client holds back, then serves everything (every permutation handed out
	// exactly once, answered, all batches pass)
	add(cc.VerifC05SharedSpec{Batches: []int{2, 3}, After: 1, Stall: true, Fail: "none", Then: "drain"})
	add(cc.VerifC05SharedSpec{Batches: gen.Pick(r, splits), After: 0, Stall: false, Fail: "none", Then: "drain"})
	n := 6
	if c.Thorough() {
		n = 120
	}
	for i := 0; i < n; i++ {
		b := gen.Pick(r, splits)
		total := 0
		for _, x := range b {
			total += x
		}
		s := cc.VerifC05SharedSpec{Batches: b, After: r.Range(0, total-1), Stall: r.Chance(3, 4),
			Fail: gen.Pick(r, []string{"unknown", "dup", "over", "garbage", "exit0", "exit1", "none"}), Then: gen.Pick(r, []string{"drain", "drain", "return"}),
			DrainDelayMs: gen.Pick(r, []int{0, 0, 5, 30})}
		if s.Fail == "dup" && s.After == 0 {
			s.After = 1
		}
		add(s)
	}
	return ins
}
