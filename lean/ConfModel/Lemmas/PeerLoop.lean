/- helper lemmas for the read-ahead request loop (C09, Model/PeerLoop.lean) -/
import ConfModel.Model.PeerLoop
import ConfModel.Lemmas.Delimited
namespace ConfModel.PeerLoop
open ConfModel.Delimited ConfModel.Framing

theorem split_nil (max : Nat) : split max [] = none := by
  simp [split, frames_nil]

theorem split_encode (max : Nat) (m rest : Bytes) (hm : m.length ≤ max) (h32 : m.length < 4294967296) :
    split max (encode m ++ rest) = some (m, rest) := by
  have hdrop : (encode m ++ rest).drop (4 + m.length) = rest := List.drop_left' (encode_length m)
  unfold split
  rw [frames_encode max 0 m rest hm h32]
  simp only [hdrop]

theorem next_split_some (max : Nat) (buf : Bytes) (reads : List Bytes) (m rest : Bytes)
    (h : split max buf = some (m, rest)) : next max buf reads = (.msg m, rest, reads) := by
  cases reads <;> simp [next, h]

theorem next_nil_nil (max : Nat) : next max [] [] = (.eof, [], []) := by
  simp [next, split_nil]

theorem next_nil_cons (max : Nat) (c : Bytes) (cs : List Bytes) : next max [] (c :: cs) = next max c cs := by
  simp [next, split_nil]

theorem loopOne_msg (max k : Nat) (buf : Bytes) (reads : List Bytes) (m buf' : Bytes) (reads' : List Bytes)
    (h : next max buf reads = (.msg m, buf', reads')) :
    loopOne max (k+1) buf reads = .msg m :: loopOne max k buf' reads' := by
  simp only [loopOne, h]

theorem loopFresh_msg (max k : Nat) (reads : List Bytes) (m buf' : Bytes) (reads' : List Bytes)
    (h : next max [] reads = (.msg m, buf', reads')) :
    loopFresh max (k+1) reads = .msg m :: loopFresh max k reads' := by
  simp only [loopFresh, h]

theorem loopFresh_end (max k : Nat) : loopFresh max (k+1) [] = [.eof] := by
  simp only [loopFresh, next_nil_nil]

theorem loopOne_nil_cons (max k : Nat) (c : Bytes) (cs : List Bytes) :
    loopOne max (k+1) [] (c :: cs) = loopOne max (k+1) c cs := by
  simp only [loopOne, next_nil_cons]

/-- all the messages already in the buffer, the stream at its end -/
theorem loopOne_buffered (max : Nat) : ∀ (msgs : List Bytes), Fits max msgs →
    loopOne max (msgs.length + 1) (msgs.flatMap encode) [] = msgs.map Res.msg ++ [.eof]
  | [], _ => by simp [loopOne, next_nil_nil]
  | m :: ms, hf => by
    have hm := hf m (by simp)
    have hms : Fits max ms := fun x hx => hf x (by simp [hx])
    have hn : next max (encode m ++ ms.flatMap encode) [] = (.msg m, ms.flatMap encode, []) :=
      next_split_some max _ [] m _ (split_encode max m _ hm.1 hm.2)
    have ih := loopOne_buffered max ms hms
    rw [List.flatMap_cons, List.length_cons, loopOne_msg max _ _ _ m _ _ hn, ih]
    simp

end ConfModel.PeerLoop
