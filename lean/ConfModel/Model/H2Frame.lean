/-
C15 layer 1 — frame reassembly: model of `http2FrameTracer.trace`, `traceHeaderLocked`,
`traceFrameLocked`, `emitFrame` (internal/tracer/http2.go), one instance per direction.

Frame *parsing* (x/net/http2 `Framer.ReadFrame` with `ReadMetaHeaders`, HPACK) is the
parameter `dec : Bytes → σ → Option (Frame × σ)` (σ = decoder state); `none` = the framer
returned an error.  The model is of the repaired code (finding F18b): a HEADERS or
CONTINUATION frame without END_HEADERS is kept in the buffer and handed to the framer
together with the CONTINUATION frames that complete its header block.
-/
import ConfModel.Model.H2Block
namespace ConfModel.H2

/-- `clientPreface` ("PRI * HTTP/2.0\r\n\r\nSM\r\n\r\n"); tied to the Go constant by
`Generated.C15Facts` + `Props.C15.preface_fact`. -/
def clientPreface : Bytes :=
  [0x50, 0x52, 0x49, 0x20, 0x2a, 0x20, 0x48, 0x54, 0x54, 0x50, 0x2f, 0x32, 0x2e, 0x30,
   0x0d, 0x0a, 0x0d, 0x0a, 0x53, 0x4d, 0x0d, 0x0a, 0x0d, 0x0a]

def prefaceLen : Nat := 24
def frameHeaderLen : Nat := 9

/-- what `handleFrame` distinguishes in a decoded frame -/
inductive Frame
  | headers (id : Nat) (fields : List (String × String)) (endStream : Bool)
  | data (id : Nat) (payload : Bytes) (endStream : Bool)
  | rst (id : Nat) (code : Nat)
  | goaway (last : Nat) (code : Nat)
  | other
deriving DecidableEq, Repr, Inhabited

/-- state of one `http2FrameTracer` -/
structure FSt (σ : Type) where
  isReq : Bool
  preface : Bytes      -- prefaceBytes
  broken : Bool
  pfx : Bytes          -- prefix (partial 9-byte frame header)
  typ : Nat            -- header.Type of the frame being read
  flags : Nat          -- header.Flags
  buf : Bytes          -- frame (bytes.Buffer)
  expecting : Nat
  actual : Nat
  hp : σ               -- HPACK decoder state
deriving Repr

def FSt.init {σ : Type} (isReq : Bool) (hp : σ) : FSt σ :=
  { isReq := isReq, preface := [], broken := false, pfx := [], typ := 0, flags := 0, buf := [],
    expecting := 0, actual := 0, hp := hp }

def hdrLen : Bytes → Nat
  | a :: b :: c :: _ => a.toNat * 65536 + b.toNat * 256 + c.toNat
  | _ => 0
def hdrTyp : Bytes → Nat
  | _ :: _ :: _ :: t :: _ => t.toNat
  | _ => 0
def hdrFlags : Bytes → Nat
  | _ :: _ :: _ :: _ :: f :: _ => f.toNat
  | _ => 0

/-- HEADERS (1) / CONTINUATION (9) without END_HEADERS (0x4): the header block continues -/
def holdBlock (typ flags : Nat) : Bool := (typ == 1 || typ == 9) && flags / 4 % 2 == 0

/-- `emitFrame` -/
def emit {σ : Type} (dec : Bytes → σ → Option (Frame × σ)) (s : FSt σ) : FSt σ × List Frame :=
  if holdBlock s.typ s.flags then (s, [])
  else match dec s.buf s.hp with
    | none => ({ s with broken := true, buf := [] }, [])
    | some (f, hp') => ({ s with buf := [], hp := hp' }, [f])

abbrev InPreface {σ : Type} (s : FSt σ) : Prop := s.isReq = true ∧ s.preface.length < prefaceLen

def fNeed {σ : Type} (s : FSt σ) : Nat :=
  if InPreface s then prefaceLen - s.preface.length
  else if s.expecting = 0 then frameHeaderLen - s.pfx.length
  else s.expecting - s.actual

def fAbsorb {σ : Type} (s : FSt σ) (d : Bytes) : FSt σ :=
  if InPreface s then { s with preface := s.preface ++ d }
  else if s.expecting = 0 then { s with pfx := s.pfx ++ d }
  else { s with actual := s.actual + d.length, buf := s.buf ++ d }

def fComplete {σ : Type} (dec : Bytes → σ → Option (Frame × σ)) (s : FSt σ) (d : Bytes) : FSt σ × List Frame :=
  if InPreface s then
    -- prefaceIsValid
    if s.preface ++ d = clientPreface then ({ s with preface := s.preface ++ d }, [])
    else ({ s with preface := s.preface ++ d, broken := true }, [])
  else if s.expecting = 0 then
    -- traceHeaderLocked, header complete (ReadFrameHeader cannot fail on 9 bytes)
    let h := s.pfx ++ d
    let s1 : FSt σ := { s with pfx := [], typ := hdrTyp h, flags := hdrFlags h, buf := s.buf ++ h, expecting := hdrLen h }
    if hdrLen h = 0 then emit dec s1 else (s1, [])
  else
    -- traceFrameLocked, payload complete
    emit dec { s with buf := s.buf ++ d, expecting := 0, actual := 0 }

def frameMachine {σ : Type} (dec : Bytes → σ → Option (Frame × σ)) : Machine (FSt σ) Frame :=
  { stopped := fun s => s.broken, need := fNeed, absorb := fAbsorb, complete := fComplete dec }

/-- one `trace(data)` call -/
def frameTrace {σ : Type} (dec : Bytes → σ → Option (Frame × σ)) (s : FSt σ) (data : Bytes) : FSt σ × List Frame :=
  (frameMachine dec).run s data

end ConfModel.H2
