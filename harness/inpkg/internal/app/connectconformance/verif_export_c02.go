//go:build verif

package connectconformance

import (
	"sort"

	conformancev1 "connectrpc.com/conformance/internal/gen/proto/go/connectrpc/conformance/v1"
)

// VerifC02PopulateExpected runs the real populateExpectedResponse on a copy-free test case.
func VerifC02PopulateExpected(tc *conformancev1.TestCase) (*conformancev1.ClientResponseResult, error) {
	if err := populateExpectedResponse(tc); err != nil {
		return nil, err
	}
	return tc.ExpectedResponse, nil
}

// VerifC02Load runs parseTestSuites + parseConfig + newTestCaseLibrary and returns the
// permutation names (sorted), as Run would compute them for the given mode.
func VerifC02Load(files map[string][]byte, cfgYAML string, mode conformancev1.TestSuite_TestMode, clientIsGRPC, serverIsGRPC bool) ([]string, error) {
	suites, err := parseTestSuites(files)
	if err != nil {
		return nil, err
	}
	cases, err := parseConfig("cfg.yaml", []byte(cfgYAML))
	if err != nil {
		return nil, err
	}
	lib, err := newTestCaseLibrary(suites, cases, mode)
	if err != nil {
		return nil, err
	}
	var names []string
	for _, tc := range lib.allPermutations(clientIsGRPC, serverIsGRPC) {
		names = append(names, tc.Request.TestName)
	}
	sort.Strings(names)
	return names, nil
}

// VerifC02Perm is one permutation of the library as Run would compute it: its name, the axes the
// expectation generator reads, and the populated expected response.
type VerifC02Perm struct {
	Name     string
	Codec    conformancev1.Codec
	Protocol conformancev1.Protocol
	UseGet   bool
	Service  string
	Method   string
	Expected *conformancev1.ClientResponseResult
	// OtherCodes: the permutation's other_allowed_error_codes
	OtherCodes []conformancev1.Code
}

// VerifC02LoadPerms is VerifC02Load returning, for every permutation, what populateExpectedResponses
// left in it (parseTestSuites + parseConfig + newTestCaseLibrary + allPermutations, sorted by name).
func VerifC02LoadPerms(files map[string][]byte, cfgYAML string, mode conformancev1.TestSuite_TestMode, clientIsGRPC, serverIsGRPC bool) ([]VerifC02Perm, error) {
	suites, err := parseTestSuites(files)
	if err != nil {
		return nil, err
	}
	cases, err := parseConfig("cfg.yaml", []byte(cfgYAML))
	if err != nil {
		return nil, err
	}
	lib, err := newTestCaseLibrary(suites, cases, mode)
	if err != nil {
		return nil, err
	}
	var out []VerifC02Perm
	for _, tc := range lib.allPermutations(clientIsGRPC, serverIsGRPC) {
		out = append(out, VerifC02Perm{
			Name: tc.Request.TestName, Codec: tc.Request.Codec, Protocol: tc.Request.Protocol, UseGet: tc.Request.UseGetHttpMethod,
			Service: tc.Request.GetService(), Method: tc.Request.GetMethod(), Expected: tc.ExpectedResponse, OtherCodes: tc.OtherAllowedErrorCodes,
		})
	}
	sort.Slice(out, func(i, j int) bool { return out[i].Name < out[j].Name })
	return out, nil
}

// VerifC02Assert runs the real testResults.assert on one (definition, client result) pair and reports
// whether the case was recorded as passed, and the number of discrepancies otherwise.
func VerifC02Assert(definition *conformancev1.TestCase, actual *conformancev1.ClientResponseResult) (recorded, pass bool, n int) {
	res := newResults(1, &testTrie{}, &testTrie{}, nil)
	name := definition.GetRequest().GetTestName()
	res.assert(name, definition, actual)
	res.mu.Lock()
	defer res.mu.Unlock()
	outcome, ok := res.outcomes[name]
	if !ok {
		return false, false, 0
	}
	switch failure := outcome.actualFailure.(type) {
	case nil:
		return true, true, 0
	case multiErrors:
		return true, false, len(failure)
	default:
		return true, false, 1
	}
}
