/-
Helper lemmas about `ConfModel.Model.Report` (association lists as maps, class counts).
-/
import ConfModel.Model.ReportScript
namespace ConfModel.Report

/-- an outcome is good when `report` counts it as succeeded or as an expected failure -/
def goodClass : Class → Bool
  | .info | .succeeded => true
  | _ => false

theorem count_partition (os : Outcomes) :
    count .succeeded os + (count .failed os + count .unexpectedPass os) + count .info os + count .couldNotRun os
      = os.length := by
  induction os with
  | nil => simp [count]
  | cons e t ih =>
    simp only [count, List.countP_cons, List.length_cons] at ih ⊢
    cases h : classify e.2 <;> simp <;> omega

theorem count_eq_zero_iff (c : Class) (os : Outcomes) :
    count c os = 0 ↔ ∀ e ∈ os, classify e.2 ≠ c := by
  simp [count, List.countP_eq_zero]

theorem namesOf_length (p : Class → Bool) (os : Outcomes) :
    (namesOf p os).length = os.countP (fun e => p (classify e.2)) := by
  simp [namesOf, List.countP_eq_length_filter]

theorem namesOf_length_failed (os : Outcomes) :
    (namesOf isFailedClass os).length = count .failed os + count .unexpectedPass os := by
  rw [namesOf_length]
  induction os with
  | nil => simp [count]
  | cons e t ih =>
    simp only [count, List.countP_cons] at ih ⊢
    rw [ih]
    cases h : classify e.2 <;> simp [isFailedClass] <;> omega

theorem namesOf_length_info (os : Outcomes) :
    (namesOf isInfoClass os).length = count .info os := by
  rw [namesOf_length]
  induction os with
  | nil => simp [count]
  | cons e t ih =>
    simp only [count, List.countP_cons] at ih ⊢
    rw [ih]
    cases h : classify e.2 <;> simp [isInfoClass]

theorem mem_namesOf (p : Class → Bool) (os : Outcomes) (n : String) :
    n ∈ namesOf p os ↔ ∃ o, (n, o) ∈ os ∧ p (classify o) = true := by
  simp only [namesOf, List.mem_map, List.mem_filter]
  constructor
  · rintro ⟨⟨m, o⟩, ⟨hm, hp⟩, rfl⟩; exact ⟨o, hm, hp⟩
  · rintro ⟨o, hm, hp⟩; exact ⟨(n, o), ⟨hm, hp⟩, rfl⟩

/-! ### `put` / `get?` as a map -/

theorem mem_put_self {β} (l : List (String × β)) (n : String) (v : β) : (n, v) ∈ put l n v := by
  induction l with
  | nil => simp [put]
  | cons e t ih =>
    obtain ⟨m, w⟩ := e
    by_cases h : m = n <;> simp [put, h, ih]

theorem mem_put_of_ne {β} (l : List (String × β)) (n m : String) (v w : β) (h : m ≠ n)
    (hm : (m, w) ∈ l) : (m, w) ∈ put l n v := by
  induction l with
  | nil => cases hm
  | cons e t ih =>
    obtain ⟨k, u⟩ := e
    by_cases hk : k = n
    · simp only [put, hk, if_true, List.mem_cons] at hm ⊢
      rcases hm with hm | hm
      · exact absurd (by cases hm; rfl) h
      · exact Or.inr hm
    · simp only [put, hk, if_false, List.mem_cons] at hm ⊢
      rcases hm with hm | hm
      · exact Or.inl hm
      · exact Or.inr (ih hm)

theorem mem_of_mem_put {β} (l : List (String × β)) (n m : String) (v w : β)
    (hm : (m, w) ∈ put l n v) : (m = n ∧ w = v) ∨ (m, w) ∈ l := by
  induction l with
  | nil => simp [put] at hm; exact Or.inl hm
  | cons e t ih =>
    obtain ⟨k, u⟩ := e
    by_cases hk : k = n
    · simp only [put, hk, if_true, List.mem_cons] at hm ⊢
      rcases hm with hm | hm
      · left; cases hm; exact ⟨rfl, rfl⟩
      · right; right; exact hm
    · simp only [put, hk, if_false, List.mem_cons] at hm ⊢
      rcases hm with hm | hm
      · right; left; exact hm
      · rcases ih hm with h | h
        · left; exact h
        · right; right; exact h

theorem get?_some_mem {β} (l : List (String × β)) (n : String) (v : β) (h : get? l n = some v) :
    (n, v) ∈ l := by
  induction l with
  | nil => simp [get?] at h
  | cons e t ih =>
    obtain ⟨k, u⟩ := e
    by_cases hk : k = n
    · simp [get?, hk] at h; subst hk; subst h; simp
    · simp [get?, hk] at h; exact List.mem_cons_of_mem _ (ih h)

theorem get?_none_not_mem {β} (l : List (String × β)) (n : String) (h : get? l n = none) (v : β) :
    (n, v) ∉ l := by
  induction l with
  | nil => simp
  | cons e t ih =>
    obtain ⟨k, u⟩ := e
    by_cases hk : k = n
    · simp [get?, hk] at h
    · simp only [get?, hk, if_false] at h
      simp only [List.mem_cons, not_or]
      exact ⟨fun he => hk (by cases he; rfl), ih h⟩

end ConfModel.Report

namespace ConfModel.Report
open ConfModel.RunVerdict

/-! ### per-case facts: the declarative reading of a case = the class `report` gives its outcome
(complete case analysis over kind × mark × feedback) -/

def classOf (c : Case) : Option Class := (finalOutcome c).map classify

/-- a predicate on classes read on a case (`d` when the case has no outcome) -/
def onClass (p : Class → Bool) (d : Bool) (c : Case) : Bool :=
  match classOf c with
  | some k => p k
  | none => d

theorem meets_eq (c : Case) : c.meets = onClass goodClass false c := by
  obtain ⟨n, k, m, fb⟩ := c
  cases k <;> cases m <;> cases fb <;> rfl

theorem countsFailed_eq (c : Case) :
    c.countsFailed = onClass isFailedClass false c := by
  obtain ⟨n, k, m, fb⟩ := c
  cases k <;> cases m <;> cases fb <;> rfl

theorem countsExpected_eq (c : Case) :
    c.countsExpected = onClass isInfoClass false c := by
  obtain ⟨n, k, m, fb⟩ := c
  cases k <;> cases m <;> cases fb <;> rfl

theorem countsPassed_eq (c : Case) :
    c.countsPassed = onClass (fun k => decide (k = .succeeded)) false c := by
  obtain ⟨n, k, m, fb⟩ := c
  cases k <;> cases m <;> cases fb <;> rfl

theorem notRun_eq (c : Case) :
    c.notRun = onClass (fun k => decide (k = .couldNotRun)) true c := by
  obtain ⟨n, k, m, fb⟩ := c
  cases k <;> cases m <;> cases fb <;> rfl

theorem finalOutcome_wf (c : Case) (o : Outcome) (h : finalOutcome c = some o) :
    o.setupError = true → o.failure ≠ .none := by
  obtain ⟨n, k, m, fb⟩ := c
  cases k <;> cases fb <;> simp [finalOutcome, baseOutcome] at h <;> subst h <;> simp

end ConfModel.Report

namespace ConfModel.Report
open ConfModel.RunVerdict

/-! ### the outcome map of an assignment -/

theorem processSideband_nil (mk : Marks) (os : Outcomes) : processSideband mk os [] = os := rfl

theorem classOf_eq (c : Case) : classOf c = (finalOutcome c).map classify := rfl

theorem onClass_some (p : Class → Bool) (d : Bool) (c : Case) (o : Outcome) (h : finalOutcome c = some o) :
    onClass p d c = p (classify o) := by simp [onClass, classOf, h]

theorem onClass_none (p : Class → Bool) (d : Bool) (c : Case) (h : finalOutcome c = none) :
    onClass p d c = d := by simp [onClass, classOf, h]

theorem finalMap_cons_some (c : Case) (t : List Case) (o : Outcome) (h : finalOutcome c = some o) :
    finalMap (c :: t) = (c.name, o) :: finalMap t := by simp [finalMap, h]

theorem finalMap_cons_none (c : Case) (t : List Case) (h : finalOutcome c = none) :
    finalMap (c :: t) = finalMap t := by simp [finalMap, h]

theorem length_finalMap (cases : List Case) :
    (finalMap cases).length = cases.countP (fun c => (classOf c).isSome) := by
  induction cases with
  | nil => rfl
  | cons c t ih =>
    cases h : finalOutcome c with
    | none => rw [finalMap_cons_none c t h, ih, List.countP_cons]; simp [classOf, h]
    | some o => rw [finalMap_cons_some c t o h, List.length_cons, ih, List.countP_cons]; simp [classOf, h]

theorem countP_finalMap (p : Class → Bool) (cases : List Case) :
    (finalMap cases).countP (fun e => p (classify e.2)) = cases.countP (onClass p false) := by
  induction cases with
  | nil => rfl
  | cons c t ih =>
    cases h : finalOutcome c with
    | none => rw [finalMap_cons_none c t h, ih, List.countP_cons, onClass_none p false c h]; simp
    | some o => rw [finalMap_cons_some c t o h, List.countP_cons, ih, List.countP_cons, onClass_some p false c o h]

theorem namesOf_cons (p : Class → Bool) (n : String) (o : Outcome) (os : Outcomes) :
    namesOf p ((n, o) :: os) = if p (classify o) then n :: namesOf p os else namesOf p os := by
  simp only [namesOf, List.filter_cons]
  split <;> simp

theorem namesOf_finalMap (p : Class → Bool) (cases : List Case) :
    namesOf p (finalMap cases) = (cases.filter (onClass p false)).map (·.name) := by
  induction cases with
  | nil => rfl
  | cons c t ih =>
    cases h : finalOutcome c with
    | none => rw [finalMap_cons_none c t h, ih, List.filter_cons, onClass_none p false c h]; simp
    | some o =>
      rw [finalMap_cons_some c t o h, namesOf_cons, ih, List.filter_cons, onClass_some p false c o h]
      split <;> simp

theorem mem_finalMap (cases : List Case) (n : String) (o : Outcome) :
    (n, o) ∈ finalMap cases ↔ ∃ c ∈ cases, c.name = n ∧ finalOutcome c = some o := by
  simp only [finalMap, List.mem_filterMap]
  constructor
  · rintro ⟨c, hc, h⟩
    cases hf : finalOutcome c with
    | none => simp [hf] at h
    | some o' =>
      simp only [hf, Option.map_some, Option.some.injEq, Prod.mk.injEq] at h
      exact ⟨c, hc, h.1, by rw [← h.2, hf]⟩
  · rintro ⟨c, hc, hn, hf⟩
    exact ⟨c, hc, by simp [hf, hn]⟩

end ConfModel.Report

namespace ConfModel.Report
open ConfModel.RunVerdict

theorem count_failed_add (os : Outcomes) :
    count .failed os + count .unexpectedPass os = os.countP (fun e => isFailedClass (classify e.2)) := by
  rw [← namesOf_length_failed, namesOf_length]

theorem meets_notRun (c : Case) (h : c.meets = true) : c.notRun = false := by
  obtain ⟨n, k, m, fb⟩ := c
  cases k <;> cases m <;> cases fb <;> first | rfl | cases h

theorem countP_notRun (cases : List Case) :
    cases.countP Case.notRun =
      (cases.length - cases.countP (fun c => (classOf c).isSome)) +
        cases.countP (onClass (fun k => decide (k = .couldNotRun)) false) := by
  induction cases with
  | nil => rfl
  | cons c t ih =>
    have hle : t.countP (fun c => (classOf c).isSome) ≤ t.length := List.countP_le_length
    simp only [List.countP_cons, List.length_cons, notRun_eq c]
    rw [ih]
    cases h : finalOutcome c with
    | none =>
      have hs : (classOf c).isSome = false := by simp [classOf, h]
      rw [onClass_none _ true c h, onClass_none _ false c h, hs]
      simp; omega
    | some o =>
      have hs : (classOf c).isSome = true := by simp [classOf, h]
      rw [onClass_some _ true c o h, onClass_some _ false c o h, hs]
      simp; omega

theorem all_meets_iff (cases : List Case) :
    cases.all Case.meets = true ↔ cases.countP Case.countsFailed = 0 ∧ cases.countP Case.notRun = 0 := by
  simp only [List.all_eq_true, List.countP_eq_zero]
  constructor
  · intro h
    refine ⟨fun c hc => ?_, fun c hc => ?_⟩
    · simp [Case.countsFailed, h c hc]
    · simp [meets_notRun c (h c hc)]
  · rintro ⟨h1, h2⟩ c hc
    have a := h1 c hc; have b := h2 c hc
    simp only [Case.countsFailed, Bool.and_eq_true, Bool.not_eq_true', not_and, Bool.not_eq_false] at a
    cases hm : c.meets
    · exact absurd (a hm) b
    · rfl

end ConfModel.Report
