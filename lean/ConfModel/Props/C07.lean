/-
C07 — Suite expansion selects, names and populates permutations per suite directives.
Property theorems only; helper lemmas live in `ConfModel.Lemmas.Library`.
All statements hold for every list of suites (any directives, any number of tests), every set of
config cases (given as a list `cases`; the code only asks membership) and every run mode.
`join` stands for Go's `path.Join`; the only thing the expansion theorems assume of it is that it
ignores an empty element (`hj`), which `pathJoin_ignores_empty` proves of the model of `path.Join`
the driver runs.  The theorems about what names identify (`full_name_segments`, `names_injective`,
`names_distinct_of_clean`, `duplicate_error_genuine`) are about that model, `pathJoin`, itself
(split at '/', the component loop of `path.Clean`, join — compared with the real `path.Join` by the
`join` operation of the correspondence run).
-/
import ConfModel.Lemmas.Library
import ConfModel.Lemmas.LibraryAccept
import ConfModel.Lemmas.LibraryNames
import ConfModel.Generated.C07Facts
import ConfModel.Lemmas.EchoLoad
namespace ConfModel.Props.C07
open ConfModel.Config ConfModel.Library

/-- the membership test `newTestCaseLibrary` builds from the slice of config cases -/
def inSet (cases : List Case) : Case → Bool := fun c => decide (c ∈ cases)

/-- `path.Join` ignores empty elements (`generateTestCasePrefix` starts with one) -/
theorem pathJoin_ignores_empty (l : List String) : pathJoin ("" :: l) = pathJoin l :=
  pathJoin_cons_empty l

/-- The library is, as a set, the comprehension `specList`: suites × given cases × tests filtered
by `Admits` and equal stream type, each populated as `specPerm` says. (This is the set the
correspondence check compares the implementation's dump with.) -/
theorem library_eq_spec (join : List String → String) (hj : ∀ l, join ("" :: l) = join l)
    (suites : List Suite) (cases : List Case) (mode : Mode) (lib : List Perm)
    (h : newLibrary join suites (inSet cases) mode = .ok lib) (q : Perm) :
    q ∈ lib ↔ q ∈ specList join suites cases mode :=
  library_mem_iff join hj suites cases mode lib h q

/-- A permutation of test `t` of suite `s` exists for config case `c` exactly when the suite's
mode admits the run mode, the relevant lists admit the case, TLS / client certificates / GET /
receive limit / connect-version mode are as relied on, the case is in the set and the test's
stream type equals the case's. -/
theorem perm_exists_iff (join : List String → String) (hj : ∀ l, join ("" :: l) = join l)
    (suites : List Suite) (cases : List Case) (mode : Mode) (lib : List Perm)
    (h : newLibrary join suites (inSet cases) mode = .ok lib)
    (s : Suite) (hs : s ∈ suites) (t : Test) (ht : t ∈ s.tests) (c : Case) :
    (∃ q ∈ lib, q.suite = s.name ∧ q.test = t ∧ q.case = c) ↔
      (Admits s mode c ∧ c ∈ cases ∧ t.st = c.s) := by
  obtain ⟨_, _, _, _, hnd, _⟩ := newLibrary_ok join suites _ mode lib h
  constructor
  · rintro ⟨q, hq, h1, h2, h3⟩
    rw [library_eq_spec join hj suites cases mode lib h q, mem_specList] at hq
    obtain ⟨s', hs', c', hc', ha, t', _, hst, rfl⟩ := hq
    simp only [specPerm] at h1 h2 h3
    subst h2; subst h3
    have : s' = s := nodup_map_inj (fun x : Suite => x.name) suites hnd s' hs' s hs h1
    subst this
    exact ⟨ha, hc', hst⟩
  · rintro ⟨ha, hc, hst⟩
    refine ⟨specPerm join s c t, ?_, rfl, rfl, rfl⟩
    rw [library_eq_spec join hj suites cases mode lib h, mem_specList]
    exact ⟨s, hs, c, hc, ha, t, ht, hst, rfl⟩

/-- `parseConfig` only produces cases with an unspecified connect-version mode, so on the
production path only suites with `connect_version_mode` unspecified have permutations. -/
theorem perm_exists_cvm (join : List String → String) (hj : ∀ l, join ("" :: l) = join l)
    (suites : List Suite) (cases : List Case) (mode : Mode) (lib : List Perm)
    (h : newLibrary join suites (inSet cases) mode = .ok lib)
    (hc : ∀ c ∈ cases, c.cvm = .unspec) (q : Perm) (hq : q ∈ lib) :
    ∃ s ∈ suites, s.name = q.suite ∧ s.cvm = .unspec := by
  rw [library_eq_spec join hj suites cases mode lib h q, mem_specList] at hq
  obtain ⟨s, hs, c, hcm, ha, t, _, _, rfl⟩ := hq
  exact ⟨s, hs, rfl, by rw [← ha.2.2.2.2.2.2.2.2.2.1]; exact hc c hcm⟩

/-- The full name is  suite / [HTTPVersion:v] / [Protocol:p] / [Codec:c] / [Compression:z] /
[TLS:b] / test, a component being present exactly when the suite leaves that axis open. -/
theorem name_spells_open_axes (join : List String → String) (hj : ∀ l, join ("" :: l) = join l)
    (suites : List Suite) (cases : List Case) (mode : Mode) (lib : List Perm)
    (h : newLibrary join suites (inSet cases) mode = .ok lib) (q : Perm) (hq : q ∈ lib) :
    ∃ s ∈ suites, s.name = q.suite ∧ q.test ∈ s.tests ∧
      q.fullName = join ([s.name] ++ openAxes s q.case ++ [q.test.name]) ∧
      q.simpleName = q.test.name := by
  rw [library_eq_spec join hj suites cases mode lib h q, mem_specList] at hq
  obtain ⟨s, hs, c, _, _, t, ht, _, rfl⟩ := hq
  exact ⟨s, hs, rfl, ht, rfl, rfl⟩

/-- which components `openAxes` contains -/
theorem openAxes_spec (s : Suite) (c : Case) :
    openAxes s c =
      (if s.versions.length ≠ 1 then ["HTTPVersion:" ++ toString c.v.num] else []) ++
      (if s.protocols.length ≠ 1 then ["Protocol:" ++ c.p.str] else []) ++
      (if s.codecs.length ≠ 1 then ["Codec:" ++ c.c.str] else []) ++
      (if s.comps.length ≠ 1 then ["Compression:" ++ c.z.str] else []) ++
      (if s.reliesOnTls = false then ["TLS:" ++ boolStr c.tls] else []) :=
  openAxes_eq s c

/-- Full names are unique (for any `join`: insertion rejects a name that is already present). -/
theorem names_unique (join : List String → String)
    (suites : List Suite) (inCases : Case → Bool) (mode : Mode) (lib : List Perm)
    (h : newLibrary join suites inCases mode = .ok lib) : (lib.map (·.fullName)).Nodup :=
  (newLibrary_ok join suites inCases mode lib h).2.1

/-- With the modelled `path.Join`, the '/'-separated segments of a full name are: the segments of
the suite name, one segment per open axis, the segments of the test name (names being clean:
no empty, `.` or `..` segment). -/
theorem full_name_segments (s : Suite) (c : Case) (t : Test) (hs : CleanName s.name) (ht : CleanName t.name) :
    segments (specName pathJoin s c t) =
      segments s.name ++ (openAxes s c).map String.toList ++ segments t.name :=
  segments_specName s c t hs ht

/-- **Full names identify definitions.** Under `NamesClean` (every suite and test name clean; no
suite name a segment-wise proper prefix of another) and distinctly named suites, two full names
are equal only for the same suite, the same open-axes projection of the config case and the same
test name. -/
theorem names_injective (suites : List Suite) (hn : NamesClean suites) (hd : (suites.map (·.name)).Nodup)
    (s₁ : Suite) (hs₁ : s₁ ∈ suites) (s₂ : Suite) (hs₂ : s₂ ∈ suites) (c₁ c₂ : Case)
    (t₁ : Test) (ht₁ : t₁ ∈ s₁.tests) (t₂ : Test) (ht₂ : t₂ ∈ s₂.tests)
    (h : specName pathJoin s₁ c₁ t₁ = specName pathJoin s₂ c₂ t₂) :
    s₁ = s₂ ∧ openAxes s₁ c₁ = openAxes s₂ c₂ ∧ t₁.name = t₂.name :=
  specName_inj suites hn hd s₁ hs₁ s₂ hs₂ c₁ c₂ t₁ ht₁ t₂ ht₂ h

/-- … and the open-axes projection fixes the config case among those the suite admits with the
same stream type (the pinned axes have one admitted value, the flags are the suite's). -/
theorem names_injective_case (s : Suite) (mode : Mode) (c₁ c₂ : Case)
    (h1 : Admits s mode c₁) (h2 : Admits s mode c₂) (hst : c₁.s = c₂.s)
    (h : openAxes s c₁ = openAxes s c₂) : c₁ = c₂ :=
  case_eq_of_axes s c₁ c₂ ((admits_iff _ _ _).1 h1).2 ((admits_iff _ _ _).1 h2).2 hst h

/-- Hence with clean names and no duplicated definition (suites named distinctly, tests named
distinctly inside a suite) the name clause of `WellFormed` needs no separate check: no two
specified permutations spell the same name. -/
theorem names_distinct_of_clean (suites : List Suite) (cases : List Case) (mode : Mode)
    (hn : NamesClean suites) (hd : DefinitionsDistinct suites) (hc : cases.Nodup) :
    ((specList pathJoin suites cases mode).map (·.fullName)).Nodup :=
  names_specList_nodup suites cases mode hn hd hc

/-- So for clean, distinctly named definitions (config cases listed once) being well-formed is a
matter of the definitions alone — named non-empty suites, no misconfiguration, valid tests where a
case is met, no relevant list repeating a value in use — and, by `newLibrary_accepts_iff`, exactly
these inputs are expanded. -/
theorem wellformed_iff_of_clean (suites : List Suite) (cases : List Case) (mode : Mode)
    (hn : NamesClean suites) (hd : DefinitionsDistinct suites) (hc : cases.Nodup) :
    WellFormed pathJoin suites cases mode ↔
      ((∀ s ∈ suites, s.name ≠ "" ∧ s.tests ≠ []) ∧
       (∀ s ∈ suites, ModeAdmits s mode → ¬ Misconfigured s) ∧
       (∀ s ∈ suites, ∀ c ∈ cases, Admits s mode c →
         (∀ t ∈ s.tests, t.name ≠ "" ∧ t.st ≠ .unspec ∧ (t.st = c.s → ServiceMethodOk t)) ∧
         ((∃ t ∈ s.tests, t.st = c.s) → NoRepeat s c))) := by
  constructor
  · rintro ⟨w1, _, w3, w4, _⟩; exact ⟨w1, w3, w4⟩
  · rintro ⟨w1, w3, w4⟩; exact ⟨w1, hd.1, w3, w4, names_distinct_of_clean suites cases mode hn hd hc⟩

/-- **The "duplicate definition" error only fires on genuinely duplicated definitions**: with
clean names, if `newTestCaseLibrary` fails with `duplicate definition for <name>` then two suites
or two tests of one suite have the same name, or a relevant list names twice the value of a config
case that carries a permutation (which defines each of its permutations twice). -/
theorem duplicate_error_genuine (suites : List Suite) (cases : List Case) (mode : Mode) (n : String)
    (hn : NamesClean suites)
    (h : newLibrary pathJoin suites (inSet cases) mode = .error (.duplicateName n)) :
    ¬ DefinitionsDistinct suites ∨
      ∃ s ∈ suites, ∃ c ∈ cases, Admits s mode c ∧ (∃ t ∈ s.tests, t.st = c.s) ∧ ¬ NoRepeat s c := by
  by_cases hd : DefinitionsDistinct suites
  · right
    apply Classical.byContradiction
    intro hex
    apply newLibrary_dup pathJoin suites _ mode n h
    apply names_allPerms_nodup suites _ mode hn hd
    intro s hs hadm c hc1 hc2 hext
    apply Classical.byContradiction
    intro hnr
    exact hex ⟨s, hs, c, by simpa [inSet] using hc2, (admits_iff s mode c).2 ⟨hadm, hc1⟩, hext, hnr⟩
  · exact Or.inl hd

/-- the receive limit of the model is the constant `clientReceiveLimit` of the working tree
(`Generated/C07Facts.lean` is regenerated from the tree on every run) -/
theorem receive_limit_fact : Generated.C07Facts.clientReceiveLimit = clientReceiveLimit := by decide

/-- The request carries the case's version, protocol, codec and compression; the server
certificate placeholder iff the case uses TLS, client credentials iff it uses client certificates
(with TLS), both as the literal placeholder texts and nothing else; the given service and method,
or the default service and the stream type's default method when both are omitted; the receive
limit the runner always sets; and the case is one of the given config cases. -/
theorem request_populated (join : List String → String) (hj : ∀ l, join ("" :: l) = join l)
    (suites : List Suite) (cases : List Case) (mode : Mode) (lib : List Perm)
    (h : newLibrary join suites (inSet cases) mode = .ok lib) (q : Perm) (hq : q ∈ lib) :
    q.case ∈ cases ∧ q.v = q.case.v ∧ q.p = q.case.p ∧ q.c = q.case.c ∧ q.z = q.case.z ∧
    q.st = q.test.st ∧ q.st = q.case.s ∧
    q.serverCert = q.case.tls ∧ q.clientCreds = (q.case.tls && q.case.certs) ∧
    q.certText = (if q.case.tls then placeholder else "") ∧
    q.credsText = (if q.case.tls ∧ q.case.certs then placeholder ++ "|" ++ placeholder else "") ∧
    (q.serverCert = true ↔ q.certText ≠ "") ∧ (q.clientCreds = true ↔ q.credsText ≠ "") ∧
    q.recvLimit = clientReceiveLimit ∧
    (q.test.service = "" ∧ q.test.method = "" →
      q.service = serviceName ∧ q.method = defaultMethod q.case.s) ∧
    (q.test.service ≠ "" → q.service = q.test.service ∧ q.method = q.test.method ∧ q.test.method ≠ "") := by
  obtain ⟨a, _, _, _, _, e⟩ := newLibrary_ok join suites _ mode lib h
  have hq0 := hq
  rw [library_eq_spec join hj suites cases mode lib h q, mem_specList] at hq
  obtain ⟨s, hs, c, hc, ha, t, ht, hst, rfl⟩ := hq
  obtain ⟨hm, hc1⟩ := (admits_iff s mode c).1 ha
  have hok := ((e s hs hm).2 c hc1 (by simpa [inSet] using hc) t ht).2.2 hst
  refine ⟨hc, rfl, rfl, rfl, rfl, rfl, hst, rfl, rfl, rfl, rfl, ?_, ?_, rfl, ?_, ?_⟩
  · simp only [specPerm]
    cases c.tls <;> simp [placeholder]
  · simp only [specPerm]
    cases c.tls <;> cases c.certs <;> simp [placeholder]
  · intro hx; simp only [specPerm] at hx ⊢; simp [hx, hst]
  · intro hx
    simp only [specPerm] at hx ⊢
    have hm' : t.method ≠ "" := fun y => hx (hok.2 y)
    simp [hx, hm']

/-- Every permutation is grouped under exactly one server instance, whose key is the
permutation's (protocol, HTTP version, TLS, client certificates) projection; buckets contain
nothing else and nothing twice. -/
theorem grouped_once (join : List String → String)
    (suites : List Suite) (inCases : Case → Bool) (mode : Mode) (lib : List Perm)
    (h : newLibrary join suites inCases mode = .ok lib) :
    GroupedOnce (lib.map fun q => (q.fullName, keyOf q))
      ((group lib).map fun b => (b.1, b.2.map (·.fullName))) :=
  grouped_once_model lib (names_unique join suites inCases mode lib h)

/-- a bucket of `casesByServer` is exactly the permutations with that key, in library order -/
theorem bucket_eq_filter (lib : List Perm) (b : ServerKey × List Perm) (hb : b ∈ group lib) :
    b.2 = lib.filter (fun q => keyOf q = b.1) :=
  (group_props lib).2.2 b hb



/-- **Sufficiency of `WellFormed`.** Well-formed suite definitions that specify at least one
permutation are ACCEPTED, and the returned library is, as a set, the comprehension `specList`
(with pairwise different names, so it has exactly as many entries). The proof relates the two
traversal orders — the nested loops of `expandSuite` over the suite's relevant lists against the
comprehension over the given cases — by counting how often a case is looked up
(`count_suiteCases`). -/
theorem wellformed_accepted (join : List String → String) (hj : ∀ l, join ("" :: l) = join l)
    (suites : List Suite) (cases : List Case) (mode : Mode)
    (hwf : WellFormed join suites cases mode) (hne : specList join suites cases mode ≠ []) :
    ∃ lib, newLibrary join suites (inSet cases) mode = .ok lib ∧
      (∀ q, q ∈ lib ↔ q ∈ specList join suites cases mode) ∧
      (lib.map (·.fullName)).Nodup ∧ lib.length = (specList join suites cases mode).length := by
  have h := wellFormed_accepts join hj suites cases mode hwf hne
  refine ⟨_, h, fun q => library_mem_iff join hj suites cases mode _ h q,
    (newLibrary_ok join suites _ mode _ h).2.1, ?_⟩
  have h1 := nodup_of_nodup_map _ _ (newLibrary_ok join suites _ mode _ h).2.1
  have h2 := nodup_of_nodup_map _ _ hwf.2.2.2.2
  exact Nat.le_antisymm
    (List.Nodup.length_le_of_subset h1 fun q hq => (library_mem_iff join hj suites cases mode _ h q).1 hq)
    (List.Nodup.length_le_of_subset h2 fun q hq => (library_mem_iff join hj suites cases mode _ h q).2 hq)

/-- **Necessity of `WellFormed`.** An accepted input is well-formed (the config cases being listed
without repetition in `cases`; the code only uses membership) and specifies a permutation. -/
theorem accepted_wellformed (join : List String → String) (hj : ∀ l, join ("" :: l) = join l)
    (suites : List Suite) (cases : List Case) (mode : Mode) (hc : cases.Nodup) (lib : List Perm)
    (h : newLibrary join suites (inSet cases) mode = .ok lib) :
    WellFormed join suites cases mode ∧ specList join suites cases mode ≠ [] :=
  accepted_wellFormed join hj suites cases mode hc lib h

/-- **`WellFormed` is exactly what `newTestCaseLibrary` accepts**: for a slice of config cases
(repetitions allowed — the code builds a set) whose distinct members are `cases`, the expansion
returns a library iff the suites are well-formed for `cases` and specify at least one permutation.
Together with `library_eq_spec` the result is then exactly the specification. -/
theorem newLibrary_accepts_iff (join : List String → String) (hj : ∀ l, join ("" :: l) = join l)
    (suites : List Suite) (slice cases : List Case) (mode : Mode)
    (hset : ∀ c, c ∈ slice ↔ c ∈ cases) (hnd : cases.Nodup) :
    (∃ lib, newLibrary join suites (inSet slice) mode = .ok lib) ↔
      (WellFormed join suites cases mode ∧ specList join suites cases mode ≠ []) := by
  have e : inSet slice = inSet cases := by funext c; unfold inSet; simp [hset c]
  rw [e]
  constructor
  · rintro ⟨lib, h⟩; exact accepted_wellformed join hj suites cases mode hnd lib h
  · rintro ⟨hwf, hne⟩
    obtain ⟨lib, h, _⟩ := wellformed_accepted join hj suites cases mode hwf hne
    exact ⟨lib, h⟩

/-- `allPermutations(client, server)` returns the library plus, for each gRPC reference peer in
use, the applicable permutations under a name with the peer marker inserted before the test's
own name. -/
theorem all_permutations_spec (client server : Bool) (lib : List Perm) :
    (allPermutations client server lib).map (·.fullName) = specAllNames client server lib :=
  allPermutations_names client server lib

/-- which permutations run against the gRPC peers -/
theorem grpc_peer_applicable (client server : Bool) (q : Perm) :
    grpcApplicable client server q = true ↔ GrpcPeerApplicable client server q :=
  grpcApplicable_iff client server q

/-- The expansion depends on the slice of config cases only through membership: two slices with
the same members (any order, any repetitions) give the same library. -/
theorem expansion_deterministic (join : List String → String) (suites : List Suite)
    (cases cases' : List Case) (mode : Mode) (hm : ∀ c, c ∈ cases ↔ c ∈ cases') :
    newLibrary join suites (inSet cases) mode = newLibrary join suites (inSet cases') mode := by
  have : inSet cases = inSet cases' := by
    funext c; unfold inSet; simp [hm c]
  rw [this]

/-- `parseTestSuites` accepts exactly the suites that use a raw request only in server mode and a
raw response only in client mode and with an explicit expected response. -/
theorem raw_payload_mode (suites : List Suite) : parseSuites suites = none ↔ RawPayloadsOk suites :=
  parseSuites_none suites

/-! ### the same restriction on the model of the whole load (`EchoLoad`, shared with C02), whose
test cases carry their request messages: `hasRaw` is `hasRawResponse` (first message only, and only
messages that define a response).  The three checks are independent of each other: a test case with
a raw request is examined for a raw response all the same. -/

/-- **Mode-specific payload restrictions of whatever loads.**  If `parseTestSuites` +
`newTestCaseLibrary` accept the suites (any configuration, any run mode), then every test case of
every suite — of the run's mode or not — has a raw request only if its suite's mode is server, and a
raw response only if its suite's mode is client and then with an explicit expected response. -/
theorem loaded_raw_payload_mode (applies : EchoLoad.Suite → Bool) (mode : Nat) (ss : List EchoLoad.Suite)
    (h : EchoLoad.load applies mode ss = .ok ()) :
    ∀ s ∈ ss, ∀ c ∈ s.cases,
      (c.rawRequest = true → s.mode = 2) ∧
      (EchoLoad.hasRaw c = true → s.mode = 1 ∧ c.explicit = true) := by
  intro s hs c hc
  have hp := EchoLoad.load_ok_parse applies mode ss h s hs c hc
  exact ⟨hp.1, hp.2.1⟩

/-- … in particular a test case with BOTH a raw request and a raw response never loads, whatever
its suite's mode, the run mode and its expected response -/
theorem raw_request_and_response_never_load (applies : EchoLoad.Suite → Bool) (mode : Nat) (ss : List EchoLoad.Suite)
    (s : EchoLoad.Suite) (c : EchoLoad.Case) (hs : s ∈ ss) (hc : c ∈ s.cases)
    (hrq : c.rawRequest = true) (hrs : EchoLoad.hasRaw c = true) :
    EchoLoad.load applies mode ss ≠ .ok () := by
  intro h
  have := loaded_raw_payload_mode applies mode ss h s hs c hc
  have h2 := this.1 hrq
  have h1 := (this.2 hrs).1
  omega

/-- the complete table of the parser's verdict on one test case over {raw request} × {raw response}
× {explicit expected response} × suite mode {unspecified, client, server} (no expand directives):
accepted exactly when each payload marker that is present sits in its mode, the raw response with
its expected response — 7 of the 24 combinations, none of them with both markers -/
theorem raw_payload_matrix :
    ∀ (rq rs ex : Bool) (m : Fin 3),
      EchoLoad.parseCase ⟨"R", m.val, [], [], false, false, false, 0, []⟩ ⟨"m", 1, false, false, [.unary], rq, rs, ex, []⟩ = none ↔
        ((rq = true → m.val = 2) ∧ (rs = true → m.val = 1 ∧ ex = true)) := by decide

/-! non-vacuity: a server-mode suite with a raw request loads in a server-mode run; a client-mode
suite with a raw response and its expected response loads in a client-mode run; both markers on one
case are rejected in every suite mode -/
private def rawCase (rq rs ex : Bool) : EchoLoad.Case := ⟨"m", 1, false, false, [.unary], rq, rs, ex, []⟩
private def rawSuite (m : Nat) (c : EchoLoad.Case) : EchoLoad.Suite := ⟨"R", m, [], [], false, false, false, 0, [c]⟩
example : EchoLoad.loadErr EchoLoad.cfgApplies 2 [rawSuite 2 (rawCase true false false)] = none ∧
    EchoLoad.loadErr EchoLoad.cfgApplies 1 [rawSuite 1 (rawCase false true true)] = none ∧
    EchoLoad.hasRaw (rawCase true true true) = true := by decide
example : ∀ m : Fin 3, ∀ run : Fin 3, (EchoLoad.loadErr EchoLoad.cfgApplies run.val [rawSuite m.val (rawCase true true true)]).isSome = true := by decide

/-! non-vacuity: a suite leaving versions and TLS open, relying on nothing, one unary test -/

def exampleSuite : Suite :=
  { name := "Basic", mode := .unspec, protocols := [.connect], versions := [], codecs := [.proto],
    comps := [.identity], cvm := .unspec, reliesOnTls := false, reliesOnCerts := false,
    reliesOnGet := false, reliesOnLimit := false,
    tests := [{ name := "unary/ok", st := .unary, service := "", method := "", rawRequest := false,
                rawResponse := false, hasExpected := false }] }

def exampleCases : List Case :=
  [⟨.v1, .connect, .proto, .identity, .unary, false, false, false, false, .unspec⟩,
   ⟨.v2, .connect, .proto, .identity, .unary, true, false, false, false, .unspec⟩,
   ⟨.v2, .grpc, .proto, .identity, .unary, true, false, false, false, .unspec⟩]

/-- `path.Join` on components that need no cleaning -/
def simpleJoin (l : List String) : String := "/".intercalate (l.filter (· ≠ ""))

example : ∀ l, simpleJoin ("" :: l) = simpleJoin l := fun l => by simp [simpleJoin]

example : ((newLibrary simpleJoin [exampleSuite] (inSet exampleCases) .client).toOption.map
    fun l => l.map (·.fullName)) =
    some ["Basic/HTTPVersion:2/TLS:true/unary/ok", "Basic/HTTPVersion:1/TLS:false/unary/ok"] := by
  decide

example : WellFormed simpleJoin [exampleSuite] exampleCases .client ∧
    specList simpleJoin [exampleSuite] exampleCases .client ≠ [] ∧ exampleCases.Nodup := by decide

/-! why `WellFormed` has the `NoRepeat` clause: a relevant list that names the value of a case
carrying a permutation twice makes the code look the case up twice, and the second insertion is
rejected as a duplicate definition; a repeated value that no such case has is harmless -/

def repeatSuite : Suite := { exampleSuite with protocols := [.connect, .grpc, .grpc] }

/-- the error of a rejected expansion -/
def errOf {α} : Except LibErr α → Option LibErr | .error e => some e | .ok _ => none

example : errOf (newLibrary simpleJoin [repeatSuite] (inSet exampleCases) .client) =
    some (.duplicateName "Basic/HTTPVersion:2/Protocol:PROTOCOL_GRPC/TLS:true/unary/ok") ∧
    ¬ WellFormed simpleJoin [repeatSuite] exampleCases .client := by decide

example : (newLibrary simpleJoin [repeatSuite] (inSet (exampleCases.take 2)) .client).toOption.isSome = true ∧
    WellFormed simpleJoin [repeatSuite] (exampleCases.take 2) .client := by decide

/-! non-vacuity of `names_injective` / `duplicate_error_genuine`, and why `NamesClean` is needed -/

example : NamesClean [exampleSuite] ∧ DefinitionsDistinct [exampleSuite] := by decide

/-- the example is well-formed and expanded with the modelled `path.Join` too -/
example : WellFormed pathJoin [exampleSuite] exampleCases .client ∧
    ((newLibrary pathJoin [exampleSuite] (inSet exampleCases) .client).toOption.map fun l => l.map (·.fullName)) =
      some ["Basic/HTTPVersion:2/TLS:true/unary/ok", "Basic/HTTPVersion:1/TLS:false/unary/ok"] := by decide

/-- two admitted cases with different open-axes projections (`names_injective_case` is not vacuous) -/
example : Admits exampleSuite .client (exampleCases.getD 0 default) ∧ Admits exampleSuite .client (exampleCases.getD 1 default) ∧
    openAxes exampleSuite (exampleCases.getD 0 default) ≠ openAxes exampleSuite (exampleCases.getD 1 default) := by decide

/-- the config case all of whose axes the suites below pin -/
def pinnedCase : Case := ⟨.v1, .connect, .proto, .identity, .unary, true, false, false, false, .unspec⟩

def pinnedSuite (name : String) (tests : List String) : Suite :=
  { name := name, mode := .unspec, protocols := [.connect], versions := [.v1], codecs := [.proto],
    comps := [.identity], cvm := .unspec, reliesOnTls := true, reliesOnCerts := false,
    reliesOnGet := false, reliesOnLimit := false,
    tests := tests.map fun n => { name := n, st := .unary, service := "", method := "", rawRequest := false,
                                  rawResponse := false, hasExpected := false } }

/-- a genuinely duplicated definition (two tests named `x`): the error fires, `NamesClean` holds -/
example : NamesClean [pinnedSuite "S" ["x", "x"]] ∧ ¬ DefinitionsDistinct [pinnedSuite "S" ["x", "x"]] ∧
    errOf (newLibrary pathJoin [pinnedSuite "S" ["x", "x"]] (inSet [pinnedCase]) .client) =
      some (.duplicateName "S/x") := by decide

/-- names `path.Clean` rewrites collide although no definition is duplicated: `a/../b` and `b` -/
example : DefinitionsDistinct [pinnedSuite "S" ["a/../b", "b"]] ∧ ¬ NamesClean [pinnedSuite "S" ["a/../b", "b"]] ∧
    NoRepeat (pinnedSuite "S" ["a/../b", "b"]) pinnedCase ∧
    errOf (newLibrary pathJoin [pinnedSuite "S" ["a/../b", "b"]] (inSet [pinnedCase]) .client) =
      some (.duplicateName "S/b") := by decide

/-- a suite name that is a segment-wise prefix of another: test `b/c` of suite `a` and test `c` of
suite `a/b` are both `a/b/c`, although every name is clean and no definition is duplicated -/
example :
    let suites := [pinnedSuite "a" ["b/c"], pinnedSuite "a/b" ["c"]]
    DefinitionsDistinct suites ∧ (∀ s ∈ suites, CleanName s.name ∧ ∀ t ∈ s.tests, CleanName t.name) ∧
    ¬ NamesClean suites ∧
    errOf (newLibrary pathJoin suites (inSet [pinnedCase]) .client) = some (.duplicateName "a/b/c") := by decide

/-! ### the run mode (glue of `run()`): which suites a command combination admits -/

/-- a client-only suite is admitted exactly when only a client command was given, a server-only
suite exactly when only a server command was given, a suite without mode always: for every
combination of commands. -/
theorem runMode_admits (s : Suite) (clientCmd serverCmd : Bool) :
    ModeAdmits s (runMode clientCmd serverCmd) ↔
      (s.mode = .unspec ∨ (s.mode = .client ∧ clientCmd = true ∧ serverCmd = false) ∨
        (s.mode = .server ∧ clientCmd = false ∧ serverCmd = true)) := by
  unfold ModeAdmits runMode
  cases clientCmd <;> cases serverCmd <;> cases hm : s.mode <;> simp

/-- with both commands (or neither) given, suites restricted to one mode contribute nothing -/
theorem runMode_both_excludes (s : Suite) (b : Bool) (h : s.mode ≠ .unspec) :
    ¬ ModeAdmits s (runMode b b) := by
  unfold ModeAdmits runMode
  cases b <;> simp [h]

example : ModeAdmits (pinnedSuite "S" ["x"]) (runMode true true) ∧
    ¬ ModeAdmits { pinnedSuite "S" ["x"] with mode := .client } (runMode true true) ∧
    ModeAdmits { pinnedSuite "S" ["x"] with mode := .client } (runMode true false) := by decide

end ConfModel.Props.C07
