/-
Model of the server-side tracing middleware around one handler call
(`internal/tracer/middleware.go`: `TracingHandler`, `tracingResponseWriter.WriteHeader / Write /
tryFinish / setTrailers`, with `builder.add` / `build` of builder.go and the request-body reader
of reader.go), at the level that matters for the hand-off: *when* the trace is taken from the
builder and given to the collector, and *what the response object it points to contains at that
moment and later*.

`t.resp` (an `*http.Response` built by `WriteHeader`) is shared: the `ResponseStart` event stores
the pointer in the trace (`b.trace.Response = event.Response`), so whatever is written to
`t.resp.Trailer` afterwards is visible through every copy of the trace — in particular through
the copy that was handed to the collector.  A delivery therefore records a deep copy of the
response at that moment (`Snap`) and whether the delivered trace points to `t.resp` (`att`).
Body-data events are not modelled here (C14); the events of a delivery are summarised by the
event that completed it.
-/
namespace ConfModel.HandlerTrace

/-- header-map keys: an ordinary (canonical) name, or a name behind `http.TrailerPrefix` -/
inductive Key
  | plain (n : String)
  | pre (n : String)
deriving DecidableEq, Repr

abbrev Hdr := List (Key × List String)
/-- `http.Response.Trailer`: name ↦ values (`nil` = `[]`) -/
abbrev Tr := List (String × List String)

def hget (h : Hdr) (k : Key) : List String := (h.lookup k).getD []
def hset (h : Hdr) (k : Key) (v : List String) : Hdr := (k, v) :: h.filter (fun p => p.1 != k)
def tget (t : Tr) (n : String) : List String := (t.lookup n).getD []
def tset (t : Tr) (n : String) (v : List String) : Tr := (n, v) :: t.filter (fun p => p.1 != n)

def Key.isPlain : Key → Bool
  | .plain _ => true
  | .pre _ => false

inductive Act
  | set (k : Key) (v : String)          -- w.Header().Set
  | add (k : Key) (v : String)          -- w.Header().Add
  | declare (names : List String)       -- w.Header().Set("Trailer", names joined by ", ")
  | declareAdd (names : List String)    -- w.Header().Add("Trailer", …)
  | writeHeader (status : Nat)
  | write (ok : Bool)                   -- Write; `false`: the underlying writer fails
  | flush
  | readEof                             -- request body read to its end
  | readErr                             -- request body read fails
  | closeReq                            -- request body closed
  | cancel                              -- the request's context is cancelled; the middleware's goroutine adds RequestCanceled
  | panic                               -- the handler panics (nothing after it runs)
deriving DecidableEq, Repr

/-- the event that took the trace from the builder -/
inductive Closer
  | respEnd | respEndErr | respEndPanic   -- ResponseBodyEnd added by tryFinish (nil / write error / panic)
  | reqEndErr                             -- RequestBodyEnd with an error
  | cancel                                -- RequestCanceled
  | build                                 -- the deferred build()
deriving DecidableEq, Repr

def Closer.isRespEnd : Closer → Bool
  | .respEnd | .respEndErr | .respEndPanic => true
  | _ => false

structure Resp where
  status : Nat
  header : Hdr
  trailer : Tr
deriving DecidableEq, Repr

/-- what a consumer sees of a delivered trace at one moment -/
structure Snap where
  closer : Closer
  resp : Option Resp
deriving DecidableEq, Repr

structure Delivery where
  /-- deep copy taken at the moment of `Collector.Complete` -/
  snap : Snap
  /-- the delivered trace's `Response` is the middleware's `t.resp` -/
  att : Bool
deriving DecidableEq, Repr

structure St where
  hdr : Hdr                 -- the ResponseWriter's header map
  trailerHdr : List String  -- values of its "Trailer" entry
  decl : List String        -- the names those values announce
  started : Bool
  finished : Bool
  reqDone : Bool            -- the request-body reader has reported its end
  resp : Resp               -- `t.resp`
  live : Bool               -- the builder still holds the trace
  attached : Bool           -- `b.trace.Response == t.resp`
  delivered : List Delivery
deriving Repr

def init : St :=
  { hdr := [], trailerHdr := [], decl := [], started := false, finished := false, reqDone := false,
    resp := ⟨0, [], []⟩, live := true, attached := false, delivered := [] }

/-- `builder.add` of a finishing event / `build`: the trace is taken once -/
def close (c : Closer) (s : St) : St :=
  if s.live then
    { s with live := false,
             delivered := s.delivered ++ [⟨⟨c, if s.attached then some s.resp else none⟩, s.attached⟩] }
  else s

/-- the header snapshot of `WriteHeader`: everything but `Trailer:`-prefixed keys (the "Trailer"
entry itself included) -/
def headerSnapshot (s : St) : Hdr :=
  (if s.trailerHdr.isEmpty then [] else [(Key.plain "Trailer", s.trailerHdr)]) ++ s.hdr.filter (fun p => p.1.isPlain)

/-- `WriteHeader`: builds `t.resp` (trailer keys seeded with nil) and adds `ResponseStart` -/
def writeHeader (status : Nat) (s : St) : St :=
  if s.started then s
  else
    let resp : Resp := ⟨status, headerSnapshot s, s.decl.foldl (fun t n => tset t n []) []⟩
    { s with started := true, resp := resp, attached := s.live || s.attached }

/-- `setTrailers`: announced names take the header map's current values, then every
`Trailer:`-prefixed key is appended -/
def addPre (t : Tr) (p : Key × List String) : Tr :=
  match p.1 with
  | .pre n => tset t n (tget t n ++ p.2)
  | .plain _ => t

def setTrailers (t : Tr) (h : Hdr) : Tr :=
  h.foldl addPre (t.map (fun p => (p.1, hget h (.plain p.1))))

/-- `builder.whileBuilding(t.setTrailers)` (repair of finding F28, repository commit cdc69f7):
the trailers are copied into `t.resp` under the builder's lock and only while the builder still
holds the trace — once the trace was handed over nothing it refers to is written any more.
(Before the repair `tryFinish` called `setTrailers` unconditionally: an operation that was ended
early — request-body error, cancellation — after its response had started was written to when
the handler returned; `[declare ["X-T"], writeHeader 200, closeReq, set X-T "1"]` was the
witness.) -/
def whileBuilding (s : St) : St :=
  if s.live then { s with resp := { s.resp with trailer := setTrailers s.resp.trailer s.hdr } } else s

def markFinished (s : St) : St := { s with finished := true }

def tryFinish (c : Closer) (s : St) : St :=
  if s.finished then s
  else close c (markFinished (whileBuilding (writeHeader 200 s)))

def step (s : St) : Act → St
  | .set k v => { s with hdr := hset s.hdr k [v] }
  | .add k v => { s with hdr := hset s.hdr k (hget s.hdr k ++ [v]) }
  | .declare names => { s with trailerHdr := [", ".intercalate names], decl := names }
  | .declareAdd names => { s with trailerHdr := s.trailerHdr ++ [", ".intercalate names], decl := s.decl ++ names }
  | .writeHeader st => writeHeader st s
  | .write ok =>
    let s := writeHeader 200 s
    if ok then s else tryFinish .respEndErr s
  | .flush => s
  | .readEof => { s with reqDone := true }
  | .readErr | .closeReq => if s.reqDone then s else close .reqEndErr { s with reqDone := true }
  | .cancel => close .cancel s
  | .panic => s

/-- the handler's actions up to its return or panic (`true`) -/
def runActs : St → List Act → St × Bool
  | s, [] => (s, false)
  | s, .panic :: _ => (s, true)
  | s, a :: as => runActs (step s a) as

/-- the deferred calls of `TracingHandler`: `tryFinish`, `cancel()` (whose goroutine adds
`RequestCanceled`), `builder.build()` -/
def finish (r : St × Bool) : St :=
  close .build (close .cancel (tryFinish (if r.2 then .respEndPanic else .respEnd) r.1))

def run (acts : List Act) : St := finish (runActs init acts)

/-- one delivered trace as a consumer sees it when everything is over: its `Response` pointer
is followed again -/
def viewAtEnd (s : St) (d : Delivery) : Snap :=
  if d.att then { d.snap with resp := some s.resp } else d.snap

/-- the delivered traces as a consumer sees them when everything is over -/
def finalView (s : St) : List Snap := s.delivered.map (viewAtEnd s)

def atCompletion (s : St) : List Snap := s.delivered.map (·.snap)

end ConfModel.HandlerTrace
