// Package gen holds the seeded PRNG, the JSON-lines emitter and small helpers shared by
// all correspondence harnesses. Every random choice of a run derives from one SplitMix64
// state seeded by VERIF_SEED, so a disagreement replays exactly.
package gen

import (
	"bufio"
	"encoding/hex"
	"encoding/json"
	"fmt"
	"io"
	"os"
	"sort"
	"sync"
)

// Rand is a SplitMix64 generator.
type Rand struct{ s uint64 }

// NewRand mixes the seed before use, so that neighbouring seeds give unrelated streams (a
// plain SplitMix64 state of seed*gamma would make seed+1 the same stream shifted by one draw).
func NewRand(seed uint64) *Rand {
	z := seed + 0x1234567
	z = (z ^ (z >> 30)) * 0xBF58476D1CE4E5B9
	z = (z ^ (z >> 27)) * 0x94D049BB133111EB
	z ^= z >> 31
	return &Rand{s: z * 0x9E3779B97F4A7C15}
}

func (r *Rand) Uint64() uint64 {
	r.s += 0x9E3779B97F4A7C15
	z := r.s
	z = (z ^ (z >> 30)) * 0xBF58476D1CE4E5B9
	z = (z ^ (z >> 27)) * 0x94D049BB133111EB
	return z ^ (z >> 31)
}

// Intn returns a value in [0,n).
func (r *Rand) Intn(n int) int {
	if n <= 0 {
		return 0
	}
	return int(r.Uint64() % uint64(n))
}

// Range returns a value in [lo,hi].
func (r *Rand) Range(lo, hi int) int { return lo + r.Intn(hi-lo+1) }

func (r *Rand) Bool() bool { return r.Uint64()&1 == 1 }

// Chance is true with probability num/den.
func (r *Rand) Chance(num, den int) bool { return r.Intn(den) < num }

func (r *Rand) Bytes(n int) []byte {
	b := make([]byte, n)
	for i := range b {
		b[i] = byte(r.Uint64())
	}
	return b
}

// Fork derives an independent generator (for parallel workers).
func (r *Rand) Fork() *Rand { return NewRand(r.Uint64()) }

func Pick[T any](r *Rand, xs []T) T { return xs[r.Intn(len(xs))] }

// Hex encodes bytes for the line protocol.
func Hex(b []byte) string { return hex.EncodeToString(b) }

// Line is one record of the line protocol.
type Line struct {
	Op   string `json:"op"`
	In   any    `json:"in"`
	Impl any    `json:"impl"`
}

// Emitter writes JSON lines and keeps generator statistics for the evidence file.
type Emitter struct {
	mu    sync.Mutex
	w     *bufio.Writer
	n     int
	Stats map[string]int
}

func NewEmitter(w io.Writer) *Emitter {
	return &Emitter{w: bufio.NewWriterSize(w, 1<<20), Stats: map[string]int{}}
}

func (e *Emitter) Emit(op string, in, impl any) {
	b, err := json.Marshal(Line{Op: op, In: in, Impl: impl})
	if err != nil {
		panic(fmt.Sprintf("emit %s: %v", op, err))
	}
	e.mu.Lock()
	defer e.mu.Unlock()
	e.w.Write(b)
	e.w.WriteByte('\n')
	e.n++
	e.Stats["op:"+op]++
}

func (e *Emitter) Count(key string) {
	e.mu.Lock()
	e.Stats[key]++
	e.mu.Unlock()
}

func (e *Emitter) Add(key string, n int) {
	e.mu.Lock()
	e.Stats[key] += n
	e.mu.Unlock()
}

func (e *Emitter) Flush() { e.mu.Lock(); e.w.Flush(); e.mu.Unlock() }

func (e *Emitter) N() int { return e.n }

// WriteStats writes the statistics as JSON to path.
func (e *Emitter) WriteStats(path string) error {
	keys := make([]string, 0, len(e.Stats))
	for k := range e.Stats {
		keys = append(keys, k)
	}
	sort.Strings(keys)
	m := map[string]int{}
	for _, k := range keys {
		m[k] = e.Stats[k]
	}
	b, _ := json.MarshalIndent(m, "", " ")
	return os.WriteFile(path, b, 0o644)
}

// OpFunc runs the real code on one input of the line protocol and returns the canonical
// observation ("impl").  Generators and replay both go through it.
type OpFunc func(c *Ctx, in json.RawMessage) any

var ops = map[string]OpFunc{}

// RegisterOp registers the implementation side of op for area (e.g. "c08", "trie").
func RegisterOp(area, op string, f OpFunc) { ops[area+"."+op] = f }

// Do marshals in, runs the registered op on it (recovering panics) and emits the line.
func (c *Ctx) Do(op string, in any) any {
	raw, err := json.Marshal(in)
	if err != nil {
		panic(err)
	}
	return c.DoRaw(op, raw)
}

func (c *Ctx) DoRaw(op string, raw json.RawMessage) any {
	f := ops[c.Area+"."+op]
	if f == nil {
		panic("no op " + c.Area + "." + op)
	}
	var impl any
	if p := Recover(func() { impl = f(c, raw) }); p != "" {
		impl = map[string]string{"panic": p}
		c.E.Count("panic")
	}
	c.E.Emit(op, raw, impl)
	return impl
}

// DoParallel runs op on every input with the given number of workers and emits the lines
// in input order.
func (c *Ctx) DoParallel(op string, ins []any, workers int) {
	opsOf := make([]string, len(ins))
	for i := range opsOf {
		opsOf[i] = op
	}
	c.DoParallelOps(opsOf, ins, workers)
}

// DoParallelOps is DoParallel with an operation per input.
func (c *Ctx) DoParallelOps(opsOf []string, ins []any, workers int) {
	for _, op := range opsOf {
		if ops[c.Area+"."+op] == nil {
			panic("no op " + c.Area + "." + op)
		}
	}
	raws := make([]json.RawMessage, len(ins))
	impls := make([]any, len(ins))
	for i, in := range ins {
		raw, err := json.Marshal(in)
		if err != nil {
			panic(err)
		}
		raws[i] = raw
	}
	var wg sync.WaitGroup
	sem := make(chan struct{}, workers)
	for i := range ins {
		wg.Add(1)
		sem <- struct{}{}
		go func(i int) {
			defer wg.Done()
			defer func() { <-sem }()
			f := ops[c.Area+"."+opsOf[i]]
			if p := Recover(func() { impls[i] = f(c, raws[i]) }); p != "" {
				impls[i] = map[string]string{"panic": p}
				c.E.Count("panic")
			}
		}(i)
	}
	wg.Wait()
	for i := range ins {
		c.E.Emit(opsOf[i], raws[i], impls[i])
	}
}

// ReplayFile re-runs every line of a replay / jsonl file through the registered ops.
func (c *Ctx) ReplayFile(path string) error {
	f, err := os.Open(path)
	if err != nil {
		return err
	}
	defer f.Close()
	type rl struct {
		Op string          `json:"op"`
		In json.RawMessage `json:"in"`
	}
	dec := json.NewDecoder(f)
	for {
		var raw map[string]json.RawMessage
		if err := dec.Decode(&raw); err != nil {
			if err == io.EOF {
				return nil
			}
			return err
		}
		var lines []rl
		if ls, ok := raw["lines"]; ok {
			if err := json.Unmarshal(ls, &lines); err != nil {
				return err
			}
		} else if _, ok := raw["op"]; ok {
			var l rl
			json.Unmarshal(raw["op"], &l.Op)
			l.In = raw["in"]
			lines = append(lines, l)
		}
		for _, l := range lines {
			c.DoRaw(l.Op, l.In)
		}
	}
}

// Into unmarshals raw into a new T (panics on error: inputs come from our own generator).
func Into[T any](raw json.RawMessage) T {
	var v T
	if err := json.Unmarshal(raw, &v); err != nil {
		panic(fmt.Sprintf("bad input %s: %v", string(raw), err))
	}
	return v
}

// Ctx is what an area's generator receives.
type Ctx struct {
	Area    string
	Seed    uint64
	Tier    string // quick | thorough
	R       *Rand
	E       *Emitter
	WorkDir string // scratch directory under /verif/.build
	RepoDir string
	Replay  string // path of a replay file (inputs to re-run) or ""
	BinDir  string // directory with binaries built from the tree (connectconformance, ...)
}

func (c *Ctx) Thorough() bool { return c.Tier == "thorough" }

// Recover runs f and maps a panic to a string.
func Recover(f func()) (panicked string) {
	defer func() {
		if r := recover(); r != nil {
			panicked = fmt.Sprint(r)
		}
	}()
	f()
	return ""
}

// Compositions enumerates all ways to cut n into ordered positive parts.
func Compositions(n int) [][]int {
	if n == 0 {
		return [][]int{{}}
	}
	var out [][]int
	for first := 1; first <= n; first++ {
		for _, rest := range Compositions(n - first) {
			out = append(out, append([]int{first}, rest...))
		}
	}
	return out
}
