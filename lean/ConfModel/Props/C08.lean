/-
C08 — Test-name patterns follow glob semantics; every given pattern is honoured.
Property theorems only; helper lemmas live in `ConfModel.Lemmas.Trie`.
All statements are for every pattern list and every name (no bound on lengths).
-/
import ConfModel.Lemmas.Trie
import ConfModel.Lemmas.Marked
namespace ConfModel.Props.C08
open ConfModel.Trie ConfModel.Glob

/-- The trie answers exactly "some inserted pattern glob-matches the name". -/
theorem trie_eq_glob (ps : Node) (name : List String) :
    trieMatch ps name = ps.any (fun p => globMatch p name) :=
  matchF_eq_glob (fuel ps) ps name (length_lt_fuel ps)

/-- The pattern whose `matched` counter is incremented is an inserted pattern that
glob-matches the name. -/
theorem which_sound (ps : Node) (name : List String) (p : Pat)
    (h : trieWhich ps name = some p) : p ∈ ps ∧ globMatch p name = true :=
  matchW_sound (fuel ps) ps name p h

/-- `match` returns true exactly when it incremented some counter. -/
theorem which_isSome (ps : Node) (name : List String) :
    (trieWhich ps name).isSome = trieMatch ps name :=
  matchW_isSome (fuel ps) ps name

/-- A pattern that glob-matches none of the names is reported as unmatched.  (Only this
direction is the property; a pattern shadowed by an earlier one may be reported too.) -/
theorem unmatched_complete (ps : Node) (names : List (List String)) (p : Pat)
    (hp : p ∈ ps) (hn : ∀ n ∈ names, globMatch p n = false) : p ∈ unmatched ps names := by
  simp only [unmatched, List.mem_filter, List.all_eq_true]
  refine ⟨hp, fun n hnm => ?_⟩
  cases hw : trieWhich ps n with
  | none => simp
  | some q =>
    by_cases hq : q = p
    · subst hq
      have := (which_sound ps n q hw).2
      rw [hn n hnm] at this; cases this
    · simpa using hq

/-- A case is run iff it matches some run pattern (or none were given) and no skip pattern. -/
theorem accept_iff (run skip : Node) (name : List String) :
    accept run skip name = true ↔
      (run = [] ∨ ∃ p ∈ run, globMatch p name = true) ∧ ¬ ∃ p ∈ skip, globMatch p name = true := by
  simp only [accept, trie_eq_glob, Bool.and_eq_true, Bool.or_eq_true, Bool.not_eq_true',
    Bool.and_eq_false_iff, Bool.not_eq_false', List.isEmpty_iff, List.any_eq_true, List.any_eq_false]
  constructor
  · rintro ⟨h1, h2⟩
    refine ⟨h1, ?_⟩
    rintro ⟨p, hp, hg⟩
    rcases h2 with h2 | h2
    · subst h2; simp at hp
    · exact absurd hg (by simpa using h2 p hp)
  · rintro ⟨h1, h2⟩
    refine ⟨h1, Or.inr fun p hp hg => h2 ⟨p, hp, hg⟩⟩

private theorem chkUnmatched_ne_ok (w : String) (ps : Node) (ns : List (List String)) :
    chkUnmatched w ps ns ≠ some .ok := by
  unfold chkUnmatched; split
  · simp
  · split <;> simp

private theorem chkAmbiguous_ne_ok (a b : Node) (ns : List (List String)) :
    chkAmbiguous a b ns ≠ some .ok := by
  unfold chkAmbiguous; split
  · simp
  · split <;> simp

private theorem validate_ok_all_none (failing flaky run skip : Node) (names : List (List String))
    (h : validate failing flaky run skip names = .ok) :
    chkUnmatched "known failing" failing names = none ∧ chkUnmatched "known flaky" flaky names = none ∧
    chkUnmatched "run patterns" run names = none ∧ chkUnmatched "no-run patterns" skip names = none ∧
    chkAmbiguous failing flaky names = none := by
  have n1 := chkUnmatched_ne_ok "known failing" failing names
  have n2 := chkUnmatched_ne_ok "known flaky" flaky names
  have n3 := chkUnmatched_ne_ok "run patterns" run names
  have n4 := chkUnmatched_ne_ok "no-run patterns" skip names
  have n5 := chkAmbiguous_ne_ok failing flaky names
  unfold validate at h
  cases h1 : chkUnmatched "known failing" failing names <;>
  cases h2 : chkUnmatched "known flaky" flaky names <;>
  cases h3 : chkUnmatched "run patterns" run names <;>
  cases h4 : chkUnmatched "no-run patterns" skip names <;>
  cases h5 : chkAmbiguous failing flaky names <;>
  simp_all [List.findSome?]

private theorem chkUnmatched_none (w : String) (ps : Node) (names : List (List String)) (p : Pat)
    (hp : p ∈ ps) (hn : ∀ n ∈ names, globMatch p n = false) : chkUnmatched w ps names ≠ none := by
  have he : ps.isEmpty = false := by cases ps <;> simp_all
  have hu := unmatched_complete ps names p hp hn
  unfold chkUnmatched
  simp only [he, Bool.false_eq_true, if_false]
  split
  · rename_i h; rw [h] at hu; simp at hu
  · simp

/-- Validation never passes while some supplied pattern (of any of the four lists)
glob-matches no permutation name. -/
theorem validate_unmatched (failing flaky run skip : Node) (names : List (List String)) (p : Pat)
    (hp : p ∈ failing ∨ p ∈ flaky ∨ p ∈ run ∨ p ∈ skip)
    (hn : ∀ n ∈ names, globMatch p n = false) :
    validate failing flaky run skip names ≠ .ok := by
  intro hv
  obtain ⟨h1, h2, h3, h4, _⟩ := validate_ok_all_none _ _ _ _ _ hv
  rcases hp with hp | hp | hp | hp
  · exact chkUnmatched_none _ _ _ p hp hn h1
  · exact chkUnmatched_none _ _ _ p hp hn h2
  · exact chkUnmatched_none _ _ _ p hp hn h3
  · exact chkUnmatched_none _ _ _ p hp hn h4

/-- A permutation matched as both known-failing and known-flaky is rejected. -/
theorem validate_ambiguous (failing flaky run skip : Node) (names : List (List String))
    (n : List String) (hn : n ∈ names)
    (h1 : ∃ p ∈ failing, globMatch p n = true) (h2 : ∃ p ∈ flaky, globMatch p n = true) :
    validate failing flaky run skip names ≠ .ok := by
  have e1 : failing.isEmpty = false := by obtain ⟨p, hp, _⟩ := h1; cases failing <;> simp_all
  have e2 : flaky.isEmpty = false := by obtain ⟨p, hp, _⟩ := h2; cases flaky <;> simp_all
  have hm : n ∈ names.filter (fun n => trieMatch failing n && trieMatch flaky n) := by
    simp only [List.mem_filter, trie_eq_glob, Bool.and_eq_true, List.any_eq_true]
    exact ⟨hn, h1, h2⟩
  intro hv
  have h5 := (validate_ok_all_none _ _ _ _ _ hv).2.2.2.2
  unfold chkAmbiguous at h5
  simp only [e1, e2, Bool.or_self, Bool.false_eq_true, if_false] at h5
  split at h5
  · rename_i h; rw [h] at hm; simp at hm
  · simp at h5

/-- What one command-line argument contributes: itself, or the lines of the `@file`. -/
def expand (rd : String → Option (List String)) (a : String) : Option (List String) :=
  if a.front == '@' && !a.isEmpty then
    let f := (a.drop 1).toString
    (if f.isEmpty then some [] else rd f).map parseLines
  else some [a]

/-- Every argument — repeated flags, `@files`, or both, in any order — takes part:
the pattern list is the concatenation of what each argument contributes. -/
theorem args_all_take_part (rd : String → Option (List String)) (args : List String) :
    argsToPatterns rd args = (args.mapM (expand rd)).map List.flatten := by
  induction args with
  | nil => simp [argsToPatterns]
  | cons a as ih =>
    simp only [argsToPatterns, ih, List.mapM_cons, expand]
    by_cases h : (a.front == '@' && !a.isEmpty) = true
    · simp only [h, if_true]
      cases (if (a.drop 1).toString.isEmpty = true then some [] else rd (a.drop 1).toString) <;>
        cases List.mapM (expand rd) as <;> simp
    · simp only [h]
      cases List.mapM (expand rd) as <;> simp

/-- The defect F01 of the unrepaired matcher, as a theorem about its model: `a/**/**`
glob-matches `a`, the old matcher said no. -/
theorem old_matcher_witness :
    globMatch ["a", "**", "**"] ["a"] = true ∧ matchOld 4 [["a", "**", "**"]] ["a"] = false := by
  decide


/-! ### The marks at work: what `testResults` stores and `report` prints

`trie_eq_glob` is about the matcher.  The property also says *a case is known-failing or known-flaky
iff it matches such a pattern*: the flags `testResults` keeps per outcome — and from which `report`
decides between `FAILED` and `INFO … failed (as expected)` — must be the glob verdicts of the
outcome's own name, whichever API call stored the outcome (`setOutcome`, `assert`, `failed`,
`failedToStart`, `failRemaining`, peer feedback for a name without an outcome) and whatever happened
to it afterwards (overwritten, peer feedback merged into it when the report is produced).  The
statements are for every pattern list and every sequence of API calls (`Marked.Op`), names repeated
at will. -/

open ConfModel.Marked ConfModel.Report in
/-- **marks_follow_glob.**  After any sequence of calls, every outcome `report` classifies is
flagged known-failing iff some `--known-failing` pattern glob-matches its name, and known-flaky iff
some `--known-flaky` pattern does. -/
theorem marks_follow_glob (failing flaky : Node) (ops : List Op) (n : String) (o : Outcome)
    (h : (n, o) ∈ finalOutcomes failing flaky ops) :
    o.knownFailing = failing.any (fun p => globMatch p (splitName n)) ∧
    o.knownFlaky = flaky.any (fun p => globMatch p (splitName n)) := by
  have hf := faithful_final failing flaky ops n o h
  simp only [marks, trie_eq_glob] at hf
  exact hf

open ConfModel.Marked ConfModel.Report in
/-- **info_iff_marked.**  A name is printed `INFO: … failed (as expected)` exactly when its case
ran and failed (not a set-up error, not a could-not-run) and its name glob-matches a known-failing
or a known-flaky pattern. -/
theorem info_iff_marked (failing flaky : Node) (total : Nat) (ops : List Op) (n : String) :
    n ∈ (markedReport failing flaky total ops).infoNames ↔
      ∃ o, (n, o) ∈ finalOutcomes failing flaky ops ∧
        o.setupError = false ∧ o.failure ≠ .none ∧ o.failure ≠ .couldNotRun ∧
        ((∃ p ∈ failing, globMatch p (splitName n) = true) ∨ (∃ p ∈ flaky, globMatch p (splitName n) = true)) := by
  have hn : (markedReport failing flaky total ops).infoNames = namesOf isInfoClass (finalOutcomes failing flaky ops) := rfl
  rw [hn, mem_namesOf]
  constructor
  · rintro ⟨o, hm, hc⟩
    obtain ⟨h1, h2⟩ := marks_follow_glob failing flaky ops n o hm
    obtain ⟨hs, hf, hr, hk⟩ := (classify_info_iff o).1 hc
    refine ⟨o, hm, hs, hf, hr, ?_⟩
    rw [h1, h2] at hk
    simpa [List.any_eq_true] using hk
  · rintro ⟨o, hm, hs, hf, hr, hk⟩
    obtain ⟨h1, h2⟩ := marks_follow_glob failing flaky ops n o hm
    refine ⟨o, hm, (classify_info_iff o).2 ⟨hs, hf, hr, ?_⟩⟩
    rw [h1, h2]
    simpa [List.any_eq_true] using hk

open ConfModel.Marked ConfModel.Report in
/-- **failed_iff_unmarked.**  A name is printed `FAILED` exactly when (a) it has a failure that is
not a could-not-run and either it is a set-up error or its name glob-matches no known-failing and
no known-flaky pattern, or (b) it passed although its name glob-matches a known-failing pattern. -/
theorem failed_iff_unmarked (failing flaky : Node) (total : Nat) (ops : List Op) (n : String) :
    n ∈ (markedReport failing flaky total ops).failedNames ↔
      ∃ o, (n, o) ∈ finalOutcomes failing flaky ops ∧ o.failure ≠ .couldNotRun ∧
        ((o.failure ≠ .none ∧ (o.setupError = true ∨
            ((∀ p ∈ failing, globMatch p (splitName n) = false) ∧ (∀ p ∈ flaky, globMatch p (splitName n) = false)))) ∨
         (o.failure = .none ∧ o.setupError = false ∧ ∃ p ∈ failing, globMatch p (splitName n) = true)) := by
  have hn : (markedReport failing flaky total ops).failedNames = namesOf isFailedClass (finalOutcomes failing flaky ops) := rfl
  rw [hn, mem_namesOf]
  constructor
  · rintro ⟨o, hm, hc⟩
    obtain ⟨h1, h2⟩ := marks_follow_glob failing flaky ops n o hm
    obtain ⟨hr, hk⟩ := (classify_failed_iff o).1 hc
    refine ⟨o, hm, hr, ?_⟩
    rw [h1, h2] at hk
    simpa [List.any_eq_true, List.any_eq_false] using hk
  · rintro ⟨o, hm, hr, hk⟩
    obtain ⟨h1, h2⟩ := marks_follow_glob failing flaky ops n o hm
    refine ⟨o, hm, (classify_failed_iff o).2 ⟨hr, ?_⟩⟩
    rw [h1, h2]
    simpa [List.any_eq_true, List.any_eq_false] using hk

/-- The slip this guards against, as a fact about the model: an outcome rebuilt without its
known-flaky flag when peer feedback is merged in is printed `FAILED`, the faithful one `INFO`. -/
theorem dropped_flag_witness :
    ConfModel.Report.classify ⟨.assertion, false, false, true⟩ = .info ∧
    ConfModel.Report.classify ⟨.assertion, false, false, false⟩ = .failed := by decide

/-! Non-vacuity: concrete instances of the hypotheses above. -/
example : trieMatch [["a", "**", "**"], ["b", "*"]] ["a"] = true := by decide
example : trieWhich [["x"], ["a", "**"]] ["a", "b"] = some ["a", "**"] := by decide
example : unmatched [["a", "*"], ["zz"]] [["a", "b"], ["c"]] = [["zz"]] := by decide
example : validate [["a"]] [["*"]] [] [] [["a"]] = .ambiguous [["a"]] := by decide
example : validate [["zz"]] [] [] [] [["a"]] = .unmatchedPatterns "known failing" [["zz"]] := by decide
example : accept [["a", "**"]] [["**", "c"]] ["a", "b"] = true ∧
    accept [["a", "**"]] [["**", "c"]] ["a", "c"] = false := by decide

open ConfModel.Marked ConfModel.Report in
/-- `marks_follow_glob` / `info_iff_marked` / `failed_iff_unmarked`: outcome, then peer feedback for
the same name, then the report — `S/x/t` globs the known-flaky pattern `S/*/t`, `S/y/u` globs
nothing, `Q/z` globs the known-failing `Q/**` and passed. -/
example :
    let ops := [Op.outcome "S/x/t" false .assertion, .sideband "S/x/t" "odd wire format",
                .outcome "S/y/u" false .none, .sideband "S/y/u" "odd wire format", .outcome "Q/z" false .none]
    let r := markedReport [["Q", "**"]] [["S", "*", "t"]] 3 ops
    (r.infoNames, r.failedNames, r.ok) = (["S/x/t"], ["S/y/u", "Q/z"], false) ∧
    ("S/x/t", (⟨.assertion, false, false, true⟩ : Outcome)) ∈ finalOutcomes [["Q", "**"]] [["S", "*", "t"]] ops := by
  decide

end ConfModel.Props.C08
