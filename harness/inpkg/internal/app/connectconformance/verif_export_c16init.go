//go:build verif

package connectconformance

import (
	"context"
	"errors"
	"strconv"
	"strings"
	"sync"
	"time"

	conformancev1 "connectrpc.com/conformance/internal/gen/proto/go/connectrpc/conformance/v1"
	"connectrpc.com/conformance/internal/tracer"
)

// VerifC16GlueCase is one test case of a batch and what the scripted client (and the
// producer of its trace) does with it.  Steps, in this order of phases:
//
//	(announce)  tokens before "s": run while the runner announces the request
//	            ("Sending request for ..." on the log printer, logEach = true)
//	s           the runner has entered client.sendRequest for the case
//	(sending)   tokens up to "ret" / "err": run inside sendRequest, on the runner's goroutine
//	ret | err   sendRequest returns nil | an error (err ends the script of the case)
//	(pending)   tokens after "ret": run on a goroutine of the client
//	h           the rest of the script runs only after the last request was handed over
//
// Tokens:
//
//	c:<name>:<id>        the producer completes a trace now (Tracer.Complete)
//	d:<name>:<id>:<ms>   ... ms milliseconds later, from another goroutine
//	r                    the response arrives: the runner's callback runs (on its own goroutine,
//	                     as the client's reader does) and has returned when the step ends
//	rc:<name>:<id>       the same, and the trace is completed INSIDE the callback before the
//	                     outcome is recorded ("Received response for ..." on the log printer)
//	p                    pause (lets waiters start)
type VerifC16GlueCase struct {
	Name  string   `json:"name"`
	Kind  string   `json:"kind"` // failed | assert | empty | pass | cberr
	Steps []string `json:"steps"`
}

// VerifC16GlueObs is what the results hold for one case at the end.
type VerifC16GlueObs struct {
	Name    string `json:"name"`
	Sent    bool   `json:"sent"`    // sendRequest was called for the case
	Outcome bool   `json:"outcome"` // the results have an outcome for it
	Stored  int    `json:"stored"`  // id of the trace kept for the case, -1 none, -2 a foreign one
	Owner   string `json:"owner"`   // TestName of the kept trace
	Slot    string `json:"slot"`    // state of the Tracer's slot at the end: none | pending | done
}

type VerifC16GlueOut struct {
	Cases []VerifC16GlueObs `json:"cases"`
	Extra string            `json:"extra"` // slot state of the name "z" (never part of a batch)
	Wait  string            `json:"wait"`  // prompt | timeout | late: until every waiter had finished
	Hang  bool              `json:"hang"`
}

type verifC16GlueLog struct{ cl *verifC16GlueClient }

func (l verifC16GlueLog) Printf(msg string, args ...any) {
	if len(args) != 1 {
		return
	}
	name, ok := args[0].(string)
	if !ok {
		return
	}
	switch {
	case strings.HasPrefix(msg, "Sending request for"):
		l.cl.announce(name)
	case strings.HasPrefix(msg, "Received response for"):
		l.cl.received(name)
	}
}
func (l verifC16GlueLog) PrefixPrintf(string, string, ...any) {}

type verifC16GlueClient struct {
	tr      *tracer.Tracer
	cases   []VerifC16GlueCase
	idx     map[string]int
	mu      sync.Mutex
	sent    []bool
	cbs     []func(string, *conformancev1.ClientCompatResponse, error)
	inCb    map[string][]string
	held    [][]string
	done    []chan struct{} // case k has run its script up to "h" or its end
	bg      sync.WaitGroup
	delayed sync.WaitGroup
	coord   sync.Once
}

func verifC16Num(s string) int {
	n, err := strconv.Atoi(s)
	if err != nil {
		panic("c16 glue: bad number " + s)
	}
	return n
}

// simple runs one token that is neither a phase marker nor a hold.
func (c *verifC16GlueClient) simple(k int, tok string) {
	f := strings.Split(tok, ":")
	switch {
	case f[0] == "c" && len(f) == 3:
		c.tr.Complete(verifC16Trace(f[1], verifC16Num(f[2])))
	case f[0] == "d" && len(f) == 4:
		trace, d := verifC16Trace(f[1], verifC16Num(f[2])), time.Duration(verifC16Num(f[3]))*time.Millisecond
		c.delayed.Add(1)
		go func() {
			defer c.delayed.Done()
			time.Sleep(d)
			c.tr.Complete(trace)
		}()
	case f[0] == "p" && len(f) == 1:
		time.Sleep(20 * time.Millisecond)
	case (f[0] == "r" && len(f) == 1) || (f[0] == "rc" && len(f) == 3):
		name := c.cases[k].Name
		c.mu.Lock()
		cb := c.cbs[k]
		c.cbs[k] = nil
		if f[0] == "rc" {
			c.inCb[name] = []string{"c:" + f[1] + ":" + f[2]}
		}
		c.mu.Unlock()
		if cb == nil {
			panic("c16 glue: response for a case that is not awaiting one: " + name)
		}
		var resp *conformancev1.ClientCompatResponse
		var err error
		switch c.cases[k].Kind {
		case "failed":
			resp = &conformancev1.ClientCompatResponse{TestName: name, Result: &conformancev1.ClientCompatResponse_Error{
				Error: &conformancev1.ClientErrorResult{Message: "client could not do it"}}}
		case "assert":
			resp = &conformancev1.ClientCompatResponse{TestName: name, Result: &conformancev1.ClientCompatResponse_Response{
				Response: &conformancev1.ClientResponseResult{Payloads: []*conformancev1.ConformancePayload{{Data: []byte("other")}}}}}
		case "pass":
			resp = &conformancev1.ClientCompatResponse{TestName: name, Result: &conformancev1.ClientCompatResponse_Response{
				Response: &conformancev1.ClientResponseResult{Payloads: []*conformancev1.ConformancePayload{{Data: []byte("data")}}}}}
		case "empty":
			resp = &conformancev1.ClientCompatResponse{TestName: name}
		case "cberr":
			err = errors.New("verif: the client could not be asked")
		default:
			panic("c16 glue: unknown kind " + c.cases[k].Kind)
		}
		fin := make(chan struct{})
		go func() {
			defer close(fin)
			cb(name, resp, err)
		}()
		<-fin
	default:
		panic("c16 glue: unknown token " + tok)
	}
}

func (c *verifC16GlueClient) split(k int) (pre, sending, pending []string, fails bool) {
	steps := c.cases[k].Steps
	i := 0
	for ; i < len(steps) && steps[i] != "s"; i++ {
		pre = append(pre, steps[i])
	}
	if i == len(steps) {
		panic("c16 glue: script without s")
	}
	i++
	for ; i < len(steps) && steps[i] != "ret" && steps[i] != "err"; i++ {
		sending = append(sending, steps[i])
	}
	if i == len(steps) {
		panic("c16 glue: script without ret/err")
	}
	fails = steps[i] == "err"
	pending = steps[i+1:]
	return
}

func (c *verifC16GlueClient) announce(name string) {
	k, ok := c.idx[name]
	if !ok {
		return
	}
	if k > 0 {
		<-c.done[k-1] // one case after the other: the script is one timeline
	}
	pre, _, _, _ := c.split(k)
	for _, tok := range pre {
		c.simple(k, tok)
	}
}

func (c *verifC16GlueClient) received(name string) {
	c.mu.Lock()
	toks := c.inCb[name]
	delete(c.inCb, name)
	c.mu.Unlock()
	for _, tok := range toks {
		c.simple(c.idx[name], tok)
	}
}

func (c *verifC16GlueClient) startHeld() {
	c.coord.Do(func() {
		c.bg.Add(1)
		go func() {
			defer c.bg.Done()
			// first every case that was handed over runs its script up to its hold (or end) ...
			for k := range c.cases {
				c.mu.Lock()
				sent := c.sent[k]
				c.mu.Unlock()
				if sent {
					<-c.done[k]
				}
			}
			// ... then the held parts, in the order of the cases
			for k := range c.cases {
				c.mu.Lock()
				sent := c.sent[k]
				c.mu.Unlock()
				if !sent {
					continue
				}
				c.mu.Lock()
				rest := c.held[k]
				c.mu.Unlock()
				for _, tok := range rest {
					c.simple(k, tok)
				}
			}
		}()
	})
}

func (c *verifC16GlueClient) sendRequest(req *conformancev1.ClientCompatRequest, whenDone func(string, *conformancev1.ClientCompatResponse, error)) error {
	k, ok := c.idx[req.TestName]
	if !ok {
		panic("c16 glue: unknown request " + req.TestName)
	}
	c.mu.Lock()
	c.sent[k] = true
	c.cbs[k] = whenDone
	c.mu.Unlock()
	_, sending, pending, fails := c.split(k)
	for _, tok := range sending {
		c.simple(k, tok)
	}
	last := k == len(c.cases)-1
	if fails {
		c.mu.Lock()
		c.cbs[k] = nil
		c.mu.Unlock()
		close(c.done[k])
		c.startHeld()
		return errors.New("verif: client pipe broken")
	}
	c.bg.Add(1)
	go func() {
		defer c.bg.Done()
		for i, tok := range pending {
			if tok == "h" {
				c.mu.Lock()
				c.held[k] = pending[i+1:]
				c.mu.Unlock()
				break
			}
			c.simple(k, tok)
		}
		close(c.done[k])
		if last {
			c.startHeld()
		}
	}()
	return nil
}

func (c *verifC16GlueClient) closeSend()              {}
func (c *verifC16GlueClient) waitForResponses() error { return nil }
func (c *verifC16GlueClient) isRunning() bool         { return true }
func (c *verifC16GlueClient) stop()                   {}

var _ clientRunner = (*verifC16GlueClient)(nil)

// VerifC16Glue runs one batch through the REAL runTestCasesForServer with a real
// *tracer.Tracer, real testResults, a scripted server process (answers its handshake, lives
// until aborted) and the scripted client above.
func VerifC16Glue(cases []VerifC16GlueCase) VerifC16GlueOut {
	tr := &tracer.Tracer{}
	n := len(cases)
	tcs := make([]*conformancev1.TestCase, n)
	cl := &verifC16GlueClient{tr: tr, cases: cases, idx: map[string]int{}, sent: make([]bool, n),
		cbs: make([]func(string, *conformancev1.ClientCompatResponse, error), n), inCb: map[string][]string{},
		held: make([][]string, n), done: make([]chan struct{}, n)}
	for i, c := range cases {
		if _, dup := cl.idx[c.Name]; dup {
			panic("c16 glue: duplicate case name " + c.Name)
		}
		cl.idx[c.Name] = i
		cl.done[i] = make(chan struct{})
		tcs[i] = &conformancev1.TestCase{
			Request: &conformancev1.ClientCompatRequest{TestName: c.Name, StreamType: conformancev1.StreamType_STREAM_TYPE_UNARY},
			ExpectedResponse: &conformancev1.ClientResponseResult{
				Payloads: []*conformancev1.ConformancePayload{{Data: []byte("data")}},
			},
		}
	}
	results := newResults(n, &testTrie{}, &testTrie{}, tr)
	spec := &VerifC11Spec{}
	var procMu sync.Mutex
	var proc *verifC11Proc
	starter := func(_ context.Context, _ bool) (*process, error) {
		p := &verifC11Proc{doneCh: make(chan struct{})}
		procMu.Lock()
		proc = p
		procMu.Unlock()
		return &process{processController: p, stdin: &verifC11Stdin{spec: spec},
			stdout: &verifC11Stdout{data: verifC11RespBytes(false), proc: p},
			stderr: &verifC11Stderr{eof: make(chan struct{})}}, nil
	}
	meta := serverInstance{protocol: conformancev1.Protocol_PROTOCOL_CONNECT, httpVersion: conformancev1.HTTPVersion_HTTP_VERSION_1}
	t0 := time.Now()
	fin := make(chan struct{})
	go func() {
		defer close(fin)
		runTestCasesForServer(context.Background(), true, false, meta, tcs, nil, nil, starter,
			verifC16GlueLog{cl}, verifNopPrinter{}, results, cl, tr, true)
		cl.startHeld() // (an empty batch, or a batch whose last request was never reached)
		cl.bg.Wait()
		cl.delayed.Wait()
		results.traceWaitGroup.Wait()
	}()
	var out VerifC16GlueOut
	select {
	case <-fin:
	case <-time.After(4 * tracer.TraceTimeout):
		out.Hang = true
		procMu.Lock()
		if proc != nil {
			proc.stop()
		}
		procMu.Unlock()
		return out
	}
	took := time.Since(t0)
	switch {
	case took < tracer.TraceTimeout/2:
		out.Wait = "prompt"
	case took < tracer.TraceTimeout+tracer.TraceTimeout/2:
		out.Wait = "timeout"
	default:
		out.Wait = "late"
	}
	results.mu.Lock()
	for i, c := range cases {
		o := VerifC16GlueObs{Name: c.Name, Sent: cl.sent[i], Stored: -1, Slot: tracer.VerifC16SlotState(tr, c.Name)}
		_, o.Outcome = results.outcomes[c.Name]
		if t := results.traces[c.Name]; t != nil {
			o.Stored, o.Owner = -2, t.TestName
			if t.Response != nil {
				o.Stored = t.Response.StatusCode
			}
		}
		out.Cases = append(out.Cases, o)
	}
	results.mu.Unlock()
	out.Extra = tracer.VerifC16SlotState(tr, "z")
	return out
}
