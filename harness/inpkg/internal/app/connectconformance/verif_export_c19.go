//go:build verif

package connectconformance

import (
	conformancev1 "connectrpc.com/conformance/internal/gen/proto/go/connectrpc/conformance/v1"
)

// VerifC19ExpandRequestData is expandRequestData.
func VerifC19ExpandRequestData(tc *conformancev1.TestCase) error {
	return expandRequestData(tc)
}

// VerifC19ServerReceiveLimit is the constant the padding is relative to.
func VerifC19ServerReceiveLimit() int64 { return serverReceiveLimit }

// VerifC19ClientReceiveLimit is the limit handed to clients under test.
func VerifC19ClientReceiveLimit() int64 { return clientReceiveLimit }
