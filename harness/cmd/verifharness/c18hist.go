package main

// C18 — strict codecs over the HISTORY of one message object. "The strict message codecs decode
// what they encode" is a statement about the VALUE a message has when it is encoded: connect-go
// (and the reference server, which reuses a response object between the sends of a stream) hands
// the codec objects that were encoded or sized before and changed since. The `codechist`
// operation takes one object through a list of steps
//
//	marshal | stable | append (dst with a prefix / spare capacity) | size (proto.Size)
//	mutn (change inside a NESTED message: grow, shrink, same total size, clear, add)
//	mutt (change a top-level field) | clone (continue with proto.Clone)
//
// and after every encode step decodes the bytes (the codec's own Unmarshal and the plain library
// decoder) and compares with the value the object has now; the same entry point is also run on a
// fresh copy of the object (never sized, never encoded), which is what the model says the result is.

import (
	"bytes"
	"encoding/hex"
	"encoding/json"
	"strings"
	"unicode/utf8"

	"connectrpc.com/conformance/internal"
	"connectrpc.com/conformance/internal/verifharness/gen"
	"connectrpc.com/connect"
	"google.golang.org/protobuf/encoding/protojson"
	"google.golang.org/protobuf/proto"
	"google.golang.org/protobuf/reflect/protoreflect"
)

func init() {
	gen.RegisterOp("c18", "codechist", func(_ *gen.Ctx, raw json.RawMessage) any { return c18CodecHist(gen.Into[c18HistIn](raw)) })
}

type c18HistStep struct {
	K    string `json:"k"`              // marshal | stable | append | size | mutn | mutt | clone
	Pfx  int    `json:"pfx,omitempty"`  // append: length of the prefix already in dst
	Room int    `json:"room,omitempty"` // append: spare capacity of dst
	Nil  bool   `json:"nil,omitempty"`  // append: dst is nil
	How  string `json:"how,omitempty"`  // mutn / mutt: grow | shrink | same | clear | add
	Sel  int    `json:"sel,omitempty"`  // which spot
}
type c18HistIn struct {
	Codec string        `json:"codec"` // proto | json
	Type  string        `json:"type"`
	Msg   string        `json:"msg"` // hex, binary encoding of the initial value
	Steps []c18HistStep `json:"steps"`
}
type c18HistStepOut struct {
	Val string `json:"val"` // canonical encoding of the object's value after the step
	// encode steps
	OK        bool   `json:"ok"`
	Out       string `json:"out"`
	PfxKept   bool   `json:"pfxKept"`
	EqOwn     bool   `json:"eqOwn"` // the codec's Unmarshal of the bytes is proto.Equal to the object
	BackOwn   string `json:"backOwn"`
	EqPlain   bool   `json:"eqPlain"` // the plain library decoder likewise
	BackPlain string `json:"backPlain"`
	FreshOK   bool   `json:"freshOk"` // the same entry point on a fresh copy of the object
	Fresh     string `json:"fresh"`
	Err       string `json:"err,omitempty"`
	// mutation steps: the value changed
	Changed bool `json:"changed"`
}
type c18HistOut struct {
	Steps []c18HistStepOut `json:"steps"`
}

type c18Spot struct {
	m   protoreflect.Message
	fd  protoreflect.FieldDescriptor
	idx int // element of a repeated field, -1: singular
}

func (s c18Spot) get() []byte {
	var v protoreflect.Value
	if s.idx >= 0 {
		v = s.m.Get(s.fd).List().Get(s.idx)
	} else {
		v = s.m.Get(s.fd)
	}
	if s.fd.Kind() == protoreflect.StringKind {
		return []byte(v.String())
	}
	return append([]byte{}, v.Bytes()...)
}

func (s c18Spot) set(b []byte) {
	var v protoreflect.Value
	if s.fd.Kind() == protoreflect.StringKind {
		v = protoreflect.ValueOfString(string(b))
	} else {
		v = protoreflect.ValueOfBytes(b)
	}
	if s.idx >= 0 {
		s.m.Mutable(s.fd).List().Set(s.idx, v)
	} else {
		s.m.Set(s.fd, v)
	}
}

type c18MsgField struct {
	m  protoreflect.Message
	fd protoreflect.FieldDescriptor
}

// c18HistSpots lists, in field order, the string / bytes places of the object: those of the
// top-level message (depth 0) or those of every nested message (depth >= 1; messages of
// google.protobuf.* are left alone: an Any's value must stay an encoding of its type), and the
// singular message-typed fields found on the way (set or not).
func c18HistSpots(m protoreflect.Message, depth int, nested bool, spots *[]c18Spot, msgs *[]c18MsgField) {
	if strings.HasPrefix(string(m.Descriptor().FullName()), "google.protobuf.") {
		return
	}
	fds := m.Descriptor().Fields()
	for i := 0; i < fds.Len(); i++ {
		fd := fds.Get(i)
		here := nested == (depth > 0)
		switch {
		case fd.IsMap():
			// map values are reached through sorted keys only when they are messages
			if fd.MapValue().Message() == nil || !m.Has(fd) {
				continue
			}
			var keys []protoreflect.MapKey
			m.Get(fd).Map().Range(func(k protoreflect.MapKey, _ protoreflect.Value) bool { keys = append(keys, k); return true })
			for a := range keys {
				for b := a + 1; b < len(keys); b++ {
					if keys[b].String() < keys[a].String() {
						keys[a], keys[b] = keys[b], keys[a]
					}
				}
			}
			for _, k := range keys {
				c18HistSpots(m.Get(fd).Map().Get(k).Message(), depth+1, nested, spots, msgs)
			}
		case fd.Message() != nil && fd.IsList():
			if !m.Has(fd) {
				continue
			}
			l := m.Get(fd).List()
			for k := 0; k < l.Len(); k++ {
				c18HistSpots(l.Get(k).Message(), depth+1, nested, spots, msgs)
			}
		case fd.Message() != nil:
			if fd.ContainingOneof() == nil && !strings.HasPrefix(string(fd.Message().FullName()), "google.protobuf.") {
				*msgs = append(*msgs, c18MsgField{m, fd})
			}
			if m.Has(fd) {
				c18HistSpots(m.Get(fd).Message(), depth+1, nested, spots, msgs)
			}
		case fd.Kind() == protoreflect.StringKind || fd.Kind() == protoreflect.BytesKind:
			if !here {
				continue
			}
			if fd.IsList() {
				if m.Has(fd) {
					for k := 0; k < m.Get(fd).List().Len(); k++ {
						*spots = append(*spots, c18Spot{m, fd, k})
					}
				}
			} else if fd.ContainingOneof() == nil {
				*spots = append(*spots, c18Spot{m, fd, -1})
			}
		}
	}
}

// c18CutRune removes the last rune of a string value (the last byte of a bytes value)
func c18CutRune(s c18Spot, b []byte) ([]byte, int) {
	if len(b) == 0 {
		return b, 0
	}
	n := 1
	if s.fd.Kind() == protoreflect.StringKind {
		_, n = utf8.DecodeLastRune(b)
	}
	return b[:len(b)-n], n
}

func c18HistMutate(obj proto.Message, st c18HistStep) {
	var spots []c18Spot
	var msgs []c18MsgField
	c18HistSpots(obj.ProtoReflect(), 0, st.K == "mutn", &spots, &msgs)
	sel := st.Sel
	if sel < 0 {
		sel = -sel
	}
	switch st.How {
	case "clear", "add":
		// a singular message-typed field: of a nested message for mutn, of the object for mutt
		var cand []c18MsgField
		for _, mf := range msgs {
			top := mf.m == obj.ProtoReflect()
			if top != (st.K == "mutn") && mf.m.Has(mf.fd) == (st.How == "clear") {
				cand = append(cand, mf)
			}
		}
		if len(cand) == 0 {
			return
		}
		mf := cand[sel%len(cand)]
		if st.How == "clear" {
			mf.m.Clear(mf.fd)
			return
		}
		sub := mf.m.Mutable(mf.fd).Message()
		var ss []c18Spot
		var ms []c18MsgField
		c18HistSpots(sub, 0, false, &ss, &ms)
		if len(ss) > 0 {
			ss[sel%len(ss)].set([]byte("added"))
		}
		return
	}
	if len(spots) == 0 {
		return
	}
	a := spots[sel%len(spots)]
	cur := a.get()
	switch st.How {
	case "grow":
		a.set(append(cur, bytes.Repeat([]byte{'g'}, 1+sel%37)...))
	case "big":
		a.set(append(cur, bytes.Repeat([]byte{'G'}, 120+sel%37)...))
	case "shrink":
		for k := 0; k <= len(cur)/2 && len(cur) > 0; k++ {
			cur, _ = c18CutRune(a, cur)
		}
		a.set(cur)
	case "empty":
		a.set(nil)
	case "same":
		// one place gets shorter, another one (of another message where there is one) as much longer
		if len(spots) < 2 {
			return
		}
		var b *c18Spot
		for k := 1; k < len(spots); k++ {
			c := spots[(sel+k)%len(spots)]
			if b == nil {
				b = &c
			}
			if c.m != a.m {
				b = &c
				break
			}
		}
		cut, n := c18CutRune(a, cur)
		if n == 0 {
			return
		}
		a.set(cut)
		b.set(append(b.get(), bytes.Repeat([]byte{'s'}, n)...))
	}
}

func c18Canon(m proto.Message) string {
	b, err := proto.MarshalOptions{Deterministic: true}.Marshal(proto.Clone(m))
	if err != nil {
		return "!" + err.Error()
	}
	return gen.Hex(b)
}

func c18CodecHist(in c18HistIn) c18HistOut {
	var codec interface {
		connect.Codec
		MarshalAppend([]byte, any) ([]byte, error)
		MarshalStable(any) ([]byte, error)
	}
	if in.Codec == "json" {
		codec = internal.StrictJSONCodec{}
	} else {
		codec = internal.StrictProtoCodec{}
	}
	obj := c18NewMsg(in.Type)
	raw, _ := hex.DecodeString(in.Msg)
	if err := proto.Unmarshal(raw, obj); err != nil {
		panic("generator produced an undecodable message: " + err.Error())
	}
	encode := func(st c18HistStep, m proto.Message) (b []byte, pfx []byte, err error) {
		switch st.K {
		case "marshal":
			b, err = codec.Marshal(m)
		case "stable":
			b, err = codec.MarshalStable(m)
		default:
			var dst []byte
			if !st.Nil {
				dst = make([]byte, st.Pfx, st.Pfx+st.Room)
				for k := range dst {
					dst[k] = byte('a' + k%26)
				}
				pfx = append([]byte{}, dst...)
			}
			b, err = codec.MarshalAppend(dst, m)
			if err == nil && len(b) < len(pfx) {
				err = errShort
			}
		}
		return b, pfx, err
	}
	out := c18HistOut{Steps: make([]c18HistStepOut, len(in.Steps))}
	for i, st := range in.Steps {
		so := &out.Steps[i]
		switch st.K {
		case "marshal", "stable", "append":
			// what the model says: the encoding of the current value (an object without a past)
			fb, fp, ferr := encode(st, proto.Clone(obj))
			if ferr == nil {
				so.FreshOK, so.Fresh = true, gen.Hex(fb[len(fp):])
			}
			b, pfx, err := encode(st, obj)
			so.OK = err == nil
			if err != nil {
				so.Err = c18HistErrClass(err)
				break
			}
			so.PfxKept = bytes.Equal(b[:len(pfx)], pfx)
			enc := append([]byte{}, b[len(pfx):]...)
			so.Out = gen.Hex(enc)
			own := obj.ProtoReflect().New().Interface()
			if codec.Unmarshal(append([]byte{}, enc...), own) == nil {
				so.EqOwn, so.BackOwn = proto.Equal(obj, own), c18Canon(own)
			}
			plain := obj.ProtoReflect().New().Interface()
			var perr error
			if in.Codec == "json" {
				perr = protojson.Unmarshal(enc, plain)
			} else {
				perr = proto.Unmarshal(enc, plain)
			}
			if perr == nil {
				so.EqPlain, so.BackPlain = proto.Equal(obj, plain), c18Canon(plain)
			}
		case "size":
			_ = proto.Size(obj)
		case "mutn", "mutt":
			before := c18Canon(obj)
			c18HistMutate(obj, st)
			so.Changed = c18Canon(obj) != before
		case "clone":
			obj = proto.Clone(obj)
		}
		so.Val = c18Canon(obj)
	}
	return out
}

func c18HistErrClass(err error) string {
	switch {
	case strings.Contains(err.Error(), "size mismatch"):
		return "size-mismatch"
	case err == errShort:
		return "short"
	}
	return "error"
}

var c18HistEncodes = []c18HistStep{
	{K: "marshal"}, {K: "stable"},
	{K: "append", Nil: true}, {K: "append", Pfx: 0, Room: 0}, {K: "append", Pfx: 3, Room: 0}, {K: "append", Pfx: 0, Room: 4096}, {K: "append", Pfx: 5, Room: 4096},
}

// c18HistGen: (1) for deeply populated messages of the conformance types that carry nested
// messages: every history  first ; change ; [size|marshal|clone|change] ; second  over the entry
// points (first: marshal / size / append / stable; second: all seven) and the kinds of change (quick: three of the five types); (2) random
// histories of 2..6 steps on random messages of every conformance type.
func c18HistGen(c *gen.Ctx) error {
	r := c.R
	th := c.Thorough()
	enc := func(m proto.Message) string {
		b, err := proto.MarshalOptions{Deterministic: true}.Marshal(m)
		if err != nil {
			panic(err)
		}
		return gen.Hex(b)
	}
	bases := []string{
		"connectrpc.conformance.v1.ServerStreamResponse", "connectrpc.conformance.v1.UnaryRequest",
		"connectrpc.conformance.v1.UnaryResponse", "connectrpc.conformance.v1.BidiStreamRequest",
		"connectrpc.conformance.v1.ClientCompatRequest",
	}
	if !th {
		bases = bases[:3]
	}
	firsts := []c18HistStep{{K: "marshal"}, {K: "size"}, {K: "append", Pfx: 2, Room: 4096}, {K: "stable"}}
	changes := []c18HistStep{
		{K: "mutn", How: "grow"}, {K: "mutn", How: "big"}, {K: "mutn", How: "shrink"}, {K: "mutn", How: "empty"},
		{K: "mutn", How: "same"}, {K: "mutn", How: "clear"}, {K: "mutn", How: "add"}, {K: "mutt", How: "grow"}, {K: "mutt", How: "clear"},
	}
	mids := []*c18HistStep{nil, {K: "size"}, {K: "clone"}, {K: "marshal"}}
	count := 0
	for _, codec := range []string{"proto", "json"} {
		for _, tn := range bases {
			m := c18NewMsg(tn).ProtoReflect()
			c18FillDeep(r, m, 2)
			msg := enc(m.Interface())
			for fi, first := range firsts {
				for ci, ch := range changes {
					for mi, mid := range mids {
						for si, second := range c18HistEncodes {
							if !th && (fi+ci+mi+si)%2 == 1 && mid != nil && second.K != "append" {
								continue
							}
							ch.Sel = r.Intn(1000)
							steps := []c18HistStep{first, ch}
							if mid != nil {
								steps = append(steps, *mid)
							}
							steps = append(steps, second)
							c.Do("codechist", c18HistIn{Codec: codec, Type: tn, Msg: msg, Steps: steps})
							count++
						}
					}
				}
			}
		}
	}
	c.E.Add("codec-histories-exhaustive", count)

	types := c18MessageTypes()
	nRand := 500
	if th {
		nRand = 20000
	}
	kinds := []string{"marshal", "stable", "append", "append", "size", "mutn", "mutn", "mutn", "mutt", "clone"}
	hows := []string{"grow", "big", "shrink", "empty", "same", "same", "clear", "add"}
	for i := 0; i < nRand; i++ {
		tn := gen.Pick(r, types)
		m := c18NewMsg(tn).ProtoReflect()
		if r.Bool() {
			c18FillDeep(r, m, 2)
		} else {
			c18RandMsg(r, m, 3)
		}
		in := c18HistIn{Codec: gen.Pick(r, []string{"json", "proto", "proto"}), Type: tn, Msg: enc(m.Interface())}
		n := r.Range(2, 6)
		for k := 0; k < n; k++ {
			st := c18HistStep{K: gen.Pick(r, kinds)}
			if k == n-1 {
				st = gen.Pick(r, c18HistEncodes)
			}
			switch st.K {
			case "append":
				if k != n-1 {
					st = gen.Pick(r, c18HistEncodes[2:])
				}
			case "mutn", "mutt":
				st.How, st.Sel = gen.Pick(r, hows), r.Intn(1000)
			}
			in.Steps = append(in.Steps, st)
		}
		c.Do("codechist", in)
	}
	c.E.Add("codec-histories-random", nRand)
	return nil
}
