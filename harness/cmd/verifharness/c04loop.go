package main

import (
	"bytes"
	"encoding/base64"
	"encoding/binary"
	"encoding/json"
	"fmt"
	"io"
	"os"
	"os/exec"
	"path/filepath"
	"regexp"
	"sort"
	"strconv"
	"strings"
	"time"

	"connectrpc.com/conformance/internal"
	cc "connectrpc.com/conformance/internal/app/connectconformance"
	conformancev1 "connectrpc.com/conformance/internal/gen/proto/go/connectrpc/conformance/v1"
	"connectrpc.com/conformance/internal/verifharness/gen"
)

// C04, op "runloop": the real Run end to end with a scripted client process.
//
// The client command is this binary itself (`verifharness c04peer …`): a proxy in front of the
// real reference client built from the tree.  It relays the first k requests (and their
// responses, which are the reference client's real results against the in-process reference
// servers) and then stops as scripted:
//   serve     k = all: serves until its stdin is closed, exits with status 0
//   serve3    the same, exits with status 3
//   exit0     exits with status 0 right after the k-th answer (k = 0: before reading anything)
//   exit3     exits with status 3 right after the k-th answer
//   closeout  closes its stdout after the k-th answer and keeps reading (and ignoring) requests
//   blind0    after the k-th answer it reads only the beginning of request k+1 (enough for the test
//             name; the runner is still blocked writing the rest), answers it with a client error,
//             waits until the runner has processed that answer and exits with status 0: the
//             runner's write fails for a request that is already answered (sendRequest returns
//             nil, no error is latched), the reader sees a clean end of stream, and every later
//             send is refused on `closedSend` with `c.err == nil` — the path on which F03 + F04
//             let Run succeed
// Every answered test name is appended to a log file in the scenario's directory; the op reports
// it, so that the judge knows which selected cases received a real answer whatever the
// interleaving of concurrently running batches was.
//
// in  = {layout, maxServers, cases, k, stop, quiet}; quiet = without -v (Flags.Verbose false); layout = number of server batches (1: Connect over
//       HTTP/1.1; 2: + HTTP/2; 3: Connect and gRPC-Web over HTTP/1.1, the latter also against the
//       gRPC reference server); cases[i] as in op "run" (r|w expectation, u|f|k marking)
// impl = {ok, batches (selected permutations per batch, as the library computes them), answered,
//       total/passed/failed/notRun/expected (the printed totals), failedNames, infoNames}

// test names of gRPC-peer permutations contain blanks ("(grpc server impl)")
var (
	c04LoopReFailed   = regexp.MustCompile(`^FAILED: ([^\n]+):\n`)
	c04LoopReFailedUP = regexp.MustCompile(`^FAILED: ([^\n]+) was expected to fail but did not\n$`)
	c04LoopReInfo     = regexp.MustCompile(`^INFO: ([^\n]+) failed \(as expected\):\n`)
)

func init() {
	rawCommands["c04peer"] = c04Peer
	gen.RegisterOp("c04", "runloop", func(c *gen.Ctx, raw json.RawMessage) any {
		return c04RunLoop(c, gen.Into[c04LoopIn](raw))
	})
}

func c04Peer(args []string) int {
	if len(args) < 4 {
		return 2
	}
	dir, bin, stop := args[0], args[1], args[3]
	k, err := strconv.Atoi(args[2])
	if err != nil {
		return 2
	}
	if k == 0 && (stop == "exit0" || stop == "exit3") {
		if stop == "exit3" {
			return 3
		}
		return 0
	}
	child := exec.Command(bin)
	cin, err := child.StdinPipe()
	if err != nil {
		return 4
	}
	cout, err := child.StdoutPipe()
	if err != nil {
		return 4
	}
	child.Stderr = os.Stderr
	if err := child.Start(); err != nil {
		return 4
	}
	logPath := filepath.Join(dir, fmt.Sprintf("cli-%d.log", os.Getpid()))
	in := os.Stdin // unbuffered: never read ahead of the request being served
	out := cout
	answered := 0
	for k < 0 || answered < k {
		var req conformancev1.ClientCompatRequest
		if err := internal.ReadDelimitedMessage(in, &req, "runner", time.Hour, 16<<20); err != nil {
			// stdin closed: let the reference client finish, then end as scripted
			cin.Close()
			child.Wait()
			if stop == "serve3" {
				return 3
			}
			return 0
		}
		if err := internal.WriteDelimitedMessage(cin, &req); err != nil {
			return 4
		}
		var resp conformancev1.ClientCompatResponse
		if err := internal.ReadDelimitedMessage(out, &resp, "reference client", time.Minute, 16<<20); err != nil {
			return 4
		}
		if err := internal.WriteDelimitedMessage(os.Stdout, &resp); err != nil {
			return 4
		}
		if f, err := os.OpenFile(logPath, os.O_APPEND|os.O_CREATE|os.O_WRONLY, 0o644); err == nil {
			f.WriteString(resp.TestName + "\n")
			f.Close()
		}
		answered++
	}
	child.Process.Kill()
	child.Wait()
	if stop == "blind0" {
		head := make([]byte, 4+512)
		if _, err := io.ReadFull(in, head); err != nil {
			return 4
		}
		body := head[4:]
		// ClientCompatRequest.test_name is field 1 and is marshalled first: 0x0A, length, bytes
		if body[0] != 0x0A {
			return 4
		}
		n, w := binary.Uvarint(body[1:])
		if w <= 0 || 1+w+int(n) > len(body) {
			return 4
		}
		name := string(body[1+w : 1+w+int(n)])
		resp := &conformancev1.ClientCompatResponse{TestName: name, Result: &conformancev1.ClientCompatResponse_Error{
			Error: &conformancev1.ClientErrorResult{Message: "answered before the request was complete"}}}
		if err := internal.WriteDelimitedMessage(os.Stdout, resp); err != nil {
			return 4
		}
		if f, err := os.OpenFile(logPath, os.O_APPEND|os.O_CREATE|os.O_WRONLY, 0o644); err == nil {
			f.WriteString("!" + name + "\n")
			f.Close()
		}
		time.Sleep(700 * time.Millisecond)
		return 0
	}
	switch stop {
	case "exit3":
		return 3
	case "closeout":
		os.Stdout.Close()
		io.Copy(io.Discard, in)
		return 0
	}
	return 0
}

type c04LoopIn struct {
	Layout     int      `json:"layout"`
	MaxServers int      `json:"maxServers"`
	Cases      []string `json:"cases"`
	K          int      `json:"k"`
	Stop       string   `json:"stop"`
	// Quiet: run without -v (Flags.Verbose = false, the command line's default): no log lines before
	// the report, server instances visited in map order.  What is reported must not depend on it.
	Quiet bool `json:"quiet,omitempty"`
}

type c04LoopOut struct {
	OK          bool       `json:"ok"`
	Err         string     `json:"err"`
	Batches     [][]string `json:"batches"`
	Invalid     bool       `json:"invalid,omitempty"`
	Answered    []string   `json:"answered"`
	Blind       []string   `json:"blind"`
	Total       int        `json:"total"`
	Passed      int        `json:"passed"`
	Failed      int        `json:"failed"`
	NotRun      int        `json:"notRun"`
	Expected    int        `json:"expected"`
	FailedNames []string   `json:"failedNames"`
	InfoNames   []string   `json:"infoNames"`
}

func c04LoopCfg(layout int) string {
	versions, protocols := "[HTTP_VERSION_1]", "[PROTOCOL_CONNECT]"
	switch layout {
	case 2:
		versions = "[HTTP_VERSION_1, HTTP_VERSION_2]"
	case 3:
		protocols = "[PROTOCOL_CONNECT, PROTOCOL_GRPC_WEB]"
	}
	return "features:\n  versions: " + versions + "\n  protocols: " + protocols + `
  codecs: [CODEC_PROTO]
  compressions: [COMPRESSION_IDENTITY]
  streamTypes: [STREAM_TYPE_UNARY]
  supportsTls: false
  supportsConnectGet: false
  supportsMessageReceiveLimit: false
`
}

// Every request carries 120 KiB of request data, more than an OS pipe holds (64 KiB): the
// runner's write of request j+1 only completes once the client has read it, so that "the client
// exits after its k-th answer" really is "before request k+1 was sent" — otherwise the whole
// batch is queued in the pipe at once, nothing ever fails in a write, and the runner only finds
// out when its 20 s response time-out expires.
var c04LoopPayload = base64.StdEncoding.EncodeToString(bytes.Repeat([]byte("x"), 120*1024))

func c04LoopSuite(cases []string) (string, []string, []string) {
	var sb strings.Builder
	sb.WriteString("name: V\ntestCases:\n")
	var failing, flaky []string
	for i, code := range cases {
		if len(code) != 2 || (code[0] != 'r' && code[0] != 'w') || (code[1] != 'u' && code[1] != 'f' && code[1] != 'k') {
			panic("c04: bad run case code " + code)
		}
		name := fmt.Sprintf("c%d", i)
		fmt.Fprintf(&sb, "- request:\n    testName: %s\n    streamType: STREAM_TYPE_UNARY\n    requestMessages:\n    - \"@type\": type.googleapis.com/connectrpc.conformance.v1.UnaryRequest\n      requestData: \"%s\"\n      responseDefinition:\n        responseData: \"dGVzdA==\"\n", name, c04LoopPayload)
		if code[0] == 'w' {
			sb.WriteString("  expectedResponse:\n    payloads:\n    - data: \"b3RoZXI=\"\n")
		}
		switch code[1] {
		case 'f':
			failing = append(failing, "V/**/"+name)
		case 'k':
			flaky = append(flaky, "V/**/"+name)
		}
	}
	return sb.String(), failing, flaky
}

func c04RunLoop(c *gen.Ctx, in c04LoopIn) c04LoopOut {
	// inputs mutated by the shrinker / the neighbourhood search may be malformed: not a scenario
	valid := in.Layout >= 1 && in.Layout <= 3 && in.MaxServers >= 1 && len(in.Cases) > 0
	switch in.Stop {
	case "serve", "serve3", "exit0", "exit3", "closeout", "blind0":
	default:
		valid = false
	}
	for _, code := range in.Cases {
		if len(code) != 2 || (code[0] != 'r' && code[0] != 'w') || (code[1] != 'u' && code[1] != 'f' && code[1] != 'k') {
			valid = false
		}
	}
	if !valid {
		return c04LoopOut{Invalid: true}
	}
	suite, failing, flaky := c04LoopSuite(in.Cases)
	cfg := c04LoopCfg(in.Layout)
	dir := filepath.Join(c.WorkDir, fmt.Sprintf("c04loop-%d-%d", os.Getpid(), c04RunSeq.Add(1)))
	if err := os.MkdirAll(dir, 0o755); err != nil {
		panic(err)
	}
	defer os.RemoveAll(dir)
	out := c04LoopOut{Total: -1, Answered: []string{}, Blind: []string{}, FailedNames: []string{}, InfoNames: []string{}}
	batches, err := cc.VerifC04Batches(filepath.Join(dir, "suite.yaml"), suite, cfg)
	if err != nil {
		out.Err = "load: " + err.Error()
		return out
	}
	out.Batches = batches
	self, _ := os.Executable()
	cmd := []string{self, "c04peer", dir, filepath.Join(c.BinDir, "referenceclient"), strconv.Itoa(in.K), in.Stop}
	t0 := time.Now()
	ok, errText, lines, _ := cc.VerifC04RunLoopFlags(dir, cmd, suite, cfg, failing, flaky, uint(in.MaxServers), !in.Quiet)
	if os.Getenv("VERIF_C04_TIMING") != "" {
		fmt.Fprintf(os.Stderr, "c04 runloop %+v: %.1fs ok=%v\n", in, time.Since(t0).Seconds(), ok)
	}
	out.OK, out.Err = ok, errText
	atoi := func(s string) int { v, _ := strconv.Atoi(s); return v }
	for _, m := range lines {
		if !strings.HasSuffix(m, "\n") {
			m += "\n"
		}
		switch {
		case c04LoopReFailedUP.MatchString(m):
			out.FailedNames = append(out.FailedNames, c04LoopReFailedUP.FindStringSubmatch(m)[1])
		case c04LoopReFailed.MatchString(m):
			out.FailedNames = append(out.FailedNames, c04LoopReFailed.FindStringSubmatch(m)[1])
		case c04LoopReInfo.MatchString(m):
			out.InfoNames = append(out.InfoNames, c04LoopReInfo.FindStringSubmatch(m)[1])
		case c04ReTotal.MatchString(m) && out.Total < 0:
			g := c04ReTotal.FindStringSubmatch(m)
			out.Total, out.Passed, out.Failed = atoi(g[1]), atoi(g[2]), atoi(g[3])
		case c04ReNotRun.MatchString(m) && out.NotRun == 0:
			out.NotRun = atoi(c04ReNotRun.FindStringSubmatch(m)[1])
		case c04ReExpected.MatchString(m) && out.Expected == 0:
			out.Expected = atoi(c04ReExpected.FindStringSubmatch(m)[1])
		}
	}
	logs, _ := filepath.Glob(filepath.Join(dir, "cli-*.log"))
	for _, l := range logs {
		data, _ := os.ReadFile(l)
		for _, n := range strings.Split(string(data), "\n") {
			if strings.HasPrefix(n, "!") {
				n = n[1:]
				out.Blind = append(out.Blind, n)
			}
			if n != "" {
				out.Answered = append(out.Answered, n)
			}
		}
	}
	sort.Strings(out.Answered)
	sort.Strings(out.Blind)
	sort.Strings(out.FailedNames)
	sort.Strings(out.InfoNames)
	return out
}

// c04LoopGen: the scripted-client scenarios.  Every stop mode, at every kind of position (before
// any request, inside the first batch, exactly between two batches, inside a later batch, after
// the last answer), 1-3 server batches, --max-servers 1 and 4.  At most one scenario of the quick
// tier waits for the 20 s response time-out ("closeout"); everything runs in parallel.
func c04LoopGen(c *gen.Ctx) {
	if c.BinDir == "" {
		return
	}
	r := c.R
	var ins []any
	add := func(layout, ms int, cases []string, k int, stop string) {
		ins = append(ins, c04LoopIn{Layout: layout, MaxServers: ms, Cases: cases, K: k, Stop: stop})
		c.E.Count("runloop:" + stop)
	}
	// the same without -v (the command line's default)
	addQuiet := func(layout, ms int, cases []string, k int, stop string) {
		ins = append(ins, c04LoopIn{Layout: layout, MaxServers: ms, Cases: cases, K: k, Stop: stop, Quiet: true})
		c.E.Count("runloop:quiet:" + stop)
	}
	good := []string{"ru", "wf", "rk"} // every case meets its expectation when it is answered
	// the 20 s scenario first, so that it overlaps with all the others
	add(2, 1, good, 4, "closeout")
	if c.Thorough() {
		add(1, 1, good, 0, "closeout")
		add(3, 4, good, 5, "closeout")
		add(2, 4, []string{"ru", "wu"}, 2, "closeout")
		add(2, 1, good, 6, "closeout")
	}
	for _, layout := range []int{1, 2, 3} {
		for _, ms := range []int{1, 4} {
			n := len(good) * layout
			add(layout, ms, good, -1, "serve")
			add(layout, ms, good, n, "exit0") // exits by itself after the last answer
			if !c.Thorough() && (layout+ms)%2 == int(c.Seed%2) {
				// quick: half of the early-stop grid per seed, the fixed points below always
				add(layout, ms, good, r.Range(0, n-1), "exit0")
				continue
			}
			add(layout, ms, good, 0, "exit0")
			add(layout, ms, good, 1, "exit0")
			add(layout, ms, good, n-1, "exit0")
			if layout > 1 {
				add(layout, ms, good, len(good), "exit0") // exactly between the first two batches
				add(layout, ms, good, len(good)+1, "exit0")
			}
			add(layout, ms, good, r.Range(0, n-1), "exit3")
		}
	}
	// fixed points of the statement: exit 0 before any request / between batches / inside a batch
	add(1, 1, []string{"ru"}, 0, "exit0")
	add(2, 1, good, 3, "exit0")
	add(2, 4, good, 2, "exit0")
	add(3, 1, []string{"ru", "rf"}, 3, "exit3")
	add(1, 1, good, -1, "serve3") // every case answered, the client then exits with status 3
	add(2, 4, []string{"ru", "wu", "rf"}, -1, "serve") // answered but not meeting the expectation
	add(1, 1, []string{"wk", "rk", "wf"}, 3, "exit0")
	// the path without a latched error (see blind0): the blind answer is the last request of the
	// first batch (--max-servers 1), every case is marked so that a client error is an expected failure
	add(2, 1, []string{"rk", "rk", "rk"}, 2, "blind0")
	add(3, 1, []string{"rk", "wf"}, 1, "blind0")
	// without -v: the verdict, the names and the totals are the same function of what happened; the
	// early stops with fewer permits than batches leave whole batches undispatched, whose cases are
	// known to the report only through the number of selected permutations
	for _, layout := range []int{2, 3} {
		n := len(good) * layout
		addQuiet(layout, 1, good, -1, "serve")
		addQuiet(layout, 1, good, 0, "exit0")
		addQuiet(layout, 1, good, 1, "exit0")
		addQuiet(layout, 1, good, len(good), "exit0") // exactly between the first two batches
		addQuiet(layout, 1, good, r.Range(0, len(good)), "exit3")
		addQuiet(layout, gen.Pick(r, []int{1, 2, 4}), good, r.Range(0, n), "exit0")
	}
	addQuiet(1, 1, []string{"ru"}, 0, "exit0")
	addQuiet(3, 2, []string{"ru", "wu", "rf"}, 2, "exit3")
	nRand := 6
	if c.Thorough() {
		nRand = 120
	}
	codes := []string{"ru", "rf", "rk", "wu", "wf", "wk"}
	for i := 0; i < nRand; i++ {
		layout := r.Range(1, 3)
		cs := make([]string, r.Range(1, 4))
		for j := range cs {
			if r.Chance(3, 4) {
				cs[j] = gen.Pick(r, good)
			} else {
				cs[j] = gen.Pick(r, codes)
			}
		}
		n := len(cs) * layout
		stop := gen.Pick(r, []string{"exit0", "exit0", "exit0", "exit3", "serve", "serve3"})
		k := r.Range(0, n)
		if stop == "serve" || stop == "serve3" {
			k = -1
		}
		if r.Bool() {
			addQuiet(layout, gen.Pick(r, []int{1, 2, 4}), cs, k, stop)
		} else {
			add(layout, gen.Pick(r, []int{1, 4}), cs, k, stop)
		}
	}
	c.DoParallel("runloop", ins, 8)
}
