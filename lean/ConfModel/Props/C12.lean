/-
C12 — Reference server flags exactly the requests that deviate from the test setup; a
timeout header is accepted exactly when it follows the protocol's grammar and converted to
the exact duration (saturating).  Property theorems only.
-/
import ConfModel.Lemmas.ServerTimeout
import ConfModel.Lemmas.ServerChecks
import ConfModel.Generated.C12Facts
import ConfModel.Lemmas.FeedbackLine
import ConfModel.Lemmas.FeedbackStream
import ConfModel.Lemmas.ServerOverlap
namespace ConfModel.Props.C12
open ConfModel.ServerTimeout ConfModel.ServerChecksSpec

/-! ## The finite tables of `extractTimeout`, regenerated from the code on every run -/

set_option maxRecDepth 100000 in
/-- the bytes accepted as unit are exactly the model's `H M S m u n` -/
theorem unit_table :
    Generated.C12.unitTable = (List.range 256).map (fun n => (unitOf (UInt8.ofNat n)).isSome) := by decide

/-- the accepted digit counts are exactly 1..10 (Connect) and 1..8 (gRPC, gRPC-Web) -/
theorem digit_limits :
    Generated.C12.connectLengths = (List.range 25).map (fun n => decide (1 ≤ n ∧ n ≤ 10)) ∧
    Generated.C12.grpcLengths = (List.range 25).map (fun n => decide (1 ≤ n ∧ n ≤ 8)) ∧
    Generated.C12.grpcWebLengths = (List.range 25).map (fun n => decide (1 ≤ n ∧ n ≤ 8)) := by decide

/-- the duration of one unit is the model's -/
theorem unit_nanos :
    Generated.C12.unitNanos = [(72, Unit.nanos .H), (77, Unit.nanos .M), (83, Unit.nanos .S),
      (109, Unit.nanos .m), (110, Unit.nanos .n), (117, Unit.nanos .u)] ∧
    Generated.C12.connectUnitNanos = 1000000 := by decide

/-! ## Timeout header: grammar and value (all byte strings, no length bound) -/

theorem digitsUpToB_iff (k : Nat) (s : Bytes) : digitsUpToB k s = true ↔ digitsUpTo k s := by
  simp [digitsUpToB, digitsUpTo, List.all_eq_true, and_assoc]

/-- Connect: the header value is accepted exactly when it is 1–10 ASCII digits, whatever
further values of the header follow. -/
theorem timeout_accept_iff_grammar_connect (val : Bytes) (rest : List Bytes) :
    (connectTimeout (val :: rest)).timeout.isSome = true ↔ connectGrammar val := by
  constructor
  · intro h
    simp only [connectTimeout] at h
    cases hp : parseInt 64 val with
    | none => simp [hp] at h
    | some n =>
      simp only [hp] at h
      by_cases h1 : (n < 0 || !isASCIIDigits val) = true
      · simp [h1] at h
      · by_cases h2 : val.length > 10
        · simp [h1, h2] at h
        · refine ⟨?_, by omega, ?_⟩
          · cases val with
            | nil => simp [parseInt] at hp
            | cons => simp
          · have := h1; simp [isASCIIDigits] at this; exact this.2
  · rintro ⟨h1, h2, h3⟩
    have hp := parseInt_digits val h3 h1 (by omega)
    have hd : isASCIIDigits val = true := by simpa [isASCIIDigits, List.all_eq_true] using h3
    have hl : ¬ val.length > 10 := by omega
    have hn : ¬ ((decValue val : Int) < 0) := by omega
    simp [connectTimeout, hp, hd, hl, hn]

/-- gRPC and gRPC-Web: accepted exactly when the value is 1–8 ASCII digits followed by one
of `H M S m u n`. -/
theorem timeout_accept_iff_grammar_grpc (val : Bytes) (rest : List Bytes) :
    (grpcTimeout (val :: rest)).timeout.isSome = true ↔ grpcGrammar val := by
  constructor
  · intro h
    simp only [grpcTimeout] at h
    cases hl : val.getLast? with
    | none => simp [hl] at h
    | some ub =>
      obtain ⟨ds, rfl⟩ := List.getLast?_eq_some_iff.1 hl
      simp only [hl, List.dropLast_concat] at h
      cases hu : unitOf ub with
      | none => simp [hu] at h
      | some unit =>
        simp only [hu] at h
        cases hp : parseInt 64 ds with
        | none => simp [hp] at h
        | some n =>
          simp only [hp] at h
          by_cases h1 : (n < 0 || !isASCIIDigits ds) = true
          · simp [h1] at h
          · by_cases h2 : ds.length > 8
            · simp [h1, h2] at h
            · refine ⟨ds, ub, unit, rfl, ⟨?_, by omega, ?_⟩, hu⟩
              · cases ds with
                | nil => simp [parseInt] at hp
                | cons => simp
              · have := h1; simp [isASCIIDigits] at this; exact this.2
  · rintro ⟨ds, u, unit, rfl, ⟨h1, h2, h3⟩, hu⟩
    have hp := parseInt_digits ds h3 h1 (by omega)
    have hd : isASCIIDigits ds = true := by simpa [isASCIIDigits, List.all_eq_true] using h3
    have hl : ¬ ds.length > 8 := by omega
    have hn : ¬ ((decValue ds : Int) < 0) := by omega
    simp [grpcTimeout, hu, hp, hd, hl, hn]

private theorem scale_aux (x K w q : Int)
    (hw : w = (x * K + 9223372036854775808) % 18446744073709551616 - 9223372036854775808)
    (hq : q = if w ≥ 0 then w / K else -((-w) / K)) :
    scale x K = if q != x then 9223372036854775807 else w := by
  subst hq hw; rfl

private theorem sat_core (n : Nat) (K w q : Int) (hn : n < 10000000000)
    (hK : K = 3600000000000 ∨ K = 60000000000 ∨ K = 1000000000 ∨ K = 1000000 ∨ K = 1000 ∨ K = 1)
    (hw : w = ((n : Int) * K + 9223372036854775808) % 18446744073709551616 - 9223372036854775808)
    (hq : q = if w ≥ 0 then w / K else -((-w) / K)) :
    (if q != (n : Int) then 9223372036854775807 else w) = min ((n : Int) * K) 9223372036854775807 := by
  rw [Int.min_def]
  rcases hK with rfl | rfl | rfl | rfl | rfl | rfl <;>
  ( by_cases hqn : q = (n : Int)
    · simp only [hqn, bne_self_eq_false, Bool.false_eq_true, if_false]
      split at hq <;> split <;> omega
    · have hb : (q != (n : Int)) = true := by simpa using hqn
      simp only [hb, if_true]
      split at hq <;> split <;> omega )

private theorem scale_exact (n : Nat) (un : ServerTimeout.Unit) (hn : n < 10000000000) :
    scale n un.nanos = exactNanos n un.nanos := by
  simp only [exactNanos, maxInt64]
  exact (scale_aux n un.nanos _ _ rfl rfl).trans
    (sat_core n un.nanos _ _ hn (by cases un <;> simp [Unit.nanos]) rfl rfl)

private theorem decValue_lt (s : Bytes) (k : Nat) (h : digitsUpTo k s) : decValue s < 10 ^ k := by
  have hb := valFrom_bound s 0 h.2.2
  have hle : 10 ^ s.length ≤ 10 ^ k := Nat.pow_le_pow_right (by omega) h.2.1
  rw [decValue_eq]; omega

/-- Connect: an accepted value is converted to exactly `n` milliseconds (no saturation is
reachable with 10 digits), whatever further header values follow. -/
theorem timeout_value_connect (val : Bytes) (rest : List Bytes) (h : connectGrammar val) :
    (connectTimeout (val :: rest)).timeout = some (exactNanos (decValue val) 1000000) ∧
    exactNanos (decValue val) 1000000 = (decValue val : Int) * 1000000 := by
  obtain ⟨h1, h2, h3⟩ := h
  have hp := parseInt_digits val h3 h1 (by omega)
  have hd : isASCIIDigits val = true := by simpa [isASCIIDigits, List.all_eq_true] using h3
  have hl : ¬ val.length > 10 := by omega
  have hn : ¬ ((decValue val : Int) < 0) := by omega
  have hlt := decValue_lt val 10 ⟨h1, h2, h3⟩
  have hs := scale_exact (decValue val) .m (by omega)
  simp only [Unit.nanos] at hs
  refine ⟨by simp [connectTimeout, hp, hd, hl, hn, hs], ?_⟩
  simp only [exactNanos, maxInt64]; omega

example : connectGrammar [57,57,57,57,57,57,57,57,57,57] := by
  simp [connectGrammar, digitsUpTo, isDigit]

/-- gRPC / gRPC-Web: an accepted value `n` with unit `u` is converted to exactly
`min(n · u, maxInt64)` nanoseconds. -/
theorem timeout_value_grpc (ds : Bytes) (ub : UInt8) (unit : ServerTimeout.Unit) (rest : List Bytes)
    (h : digitsUpTo 8 ds) (hu : unitOf ub = some unit) :
    (grpcTimeout ((ds ++ [ub]) :: rest)).timeout = some (exactNanos (decValue ds) unit.nanos) := by
  obtain ⟨h1, h2, h3⟩ := h
  have hp := parseInt_digits ds h3 h1 (by omega)
  have hd : isASCIIDigits ds = true := by simpa [isASCIIDigits, List.all_eq_true] using h3
  have hl : ¬ ds.length > 8 := by omega
  have hn : ¬ ((decValue ds : Int) < 0) := by omega
  have hlt := decValue_lt ds 8 ⟨h1, h2, h3⟩
  have hs := scale_exact (decValue ds) unit (by omega)
  simp [grpcTimeout, hu, hp, hd, hl, hn, hs]

example : digitsUpTo 8 [57,57,57,57,57,57,57,57] ∧ unitOf 72 = some .H := by
  simp [digitsUpTo, isDigit, unitOf]

/-- Saturation happens exactly for hours with `n > 2,562,047`; an 8-digit value in any
other unit is represented exactly. -/
theorem timeout_saturation (n : Nat) (hn : n < 100000000) (un : ServerTimeout.Unit) :
    (exactNanos n un.nanos = maxInt64 ↔ (un = .H ∧ n > 2562047)) ∧
    (¬ (un = .H ∧ n > 2562047) → exactNanos n un.nanos = (n : Int) * un.nanos) := by
  cases un <;> simp only [exactNanos, maxInt64, Unit.nanos] <;> constructor <;> (try simp) <;> omega

/-! ## Timeout header: removal, echo, feedback, dispatch -/

/-- Whenever the Connect timeout header is present it is removed from the request (accepted
or not), and a rejected value always yields feedback. -/
theorem timeout_removed_and_reported_connect (val : Bytes) (rest : List Bytes) :
    (connectTimeout (val :: rest)).removed = true ∧
    ((connectTimeout (val :: rest)).timeout = none → (connectTimeout (val :: rest)).feedback ≠ []) := by
  simp only [connectTimeout]
  cases parseInt 64 val with
  | none => simp
  | some n =>
    by_cases h1 : (n < 0 || !isASCIIDigits val) = true
    · simp [h1]
    · by_cases h2 : val.length > 10
      · simp [h1, h2]
      · simp [h1, h2]

/-- The same for `Grpc-Timeout`. -/
theorem timeout_removed_and_reported_grpc (val : Bytes) (rest : List Bytes) :
    (grpcTimeout (val :: rest)).removed = true ∧
    ((grpcTimeout (val :: rest)).timeout = none → (grpcTimeout (val :: rest)).feedback ≠ []) := by
  simp only [grpcTimeout]
  cases hl : val.getLast? with
  | none => simp
  | some ub =>
    simp only []
    cases hu : unitOf ub with
    | none => simp
    | some un =>
      simp only []
      cases hp : parseInt 64 val.dropLast with
      | none => simp
      | some n =>
        simp only []
        by_cases h1 : (n < 0 || !isASCIIDigits val.dropLast) = true
        · simp [h1]
        · by_cases h2 : val.dropLast.length > 8
          · simp only [h1, h2]; simp
          · simp only [h1, h2]; simp

/-- Without the protocol's timeout header nothing happens; other protocols' headers are not
touched (`Connect-Timeout-Ms` under gRPC and vice versa, anything under an unknown protocol). -/
theorem timeout_absent (cv gv : List Bytes) :
    extractTimeout .connect [] gv = {} ∧ extractTimeout .grpc cv [] = {} ∧
    extractTimeout .grpcWeb cv [] = {} ∧ extractTimeout .other cv gv = {} := by
  simp [extractTimeout, connectTimeout, grpcTimeout]

/-- An accepted single header value yields no feedback at all. -/
theorem timeout_accept_clean_connect (val : Bytes) (h : connectGrammar val) :
    (connectTimeout [val]).feedback = [] := by
  obtain ⟨h1, h2, h3⟩ := h
  have hp := parseInt_digits val h3 h1 (by omega)
  have hd : isASCIIDigits val = true := by simpa [isASCIIDigits, List.all_eq_true] using h3
  have hl : ¬ val.length > 10 := by omega
  have hn : ¬ ((decValue val : Int) < 0) := by omega
  simp [connectTimeout, hp, hd, hl, hn, dupFb]

/-- The echoed `timeout_ms` of an accepted Connect value is the header's number itself;
for gRPC it is the millisecond floor of `min(n·unit, maxInt64)` (definitionally `timeoutMs`). -/
theorem timeout_ms_connect (val : Bytes) (h : connectGrammar val) :
    timeoutMs (exactNanos (decValue val) 1000000) = (decValue val : Int) := by
  have hlt := decValue_lt val 10 h
  have he : exactNanos (decValue val) 1000000 = (decValue val : Int) * 1000000 := by
    simp only [exactNanos, maxInt64]; omega
  rw [he]
  simp only [timeoutMs, quotT]
  split <;> omega

theorem timeout_ms_floor (d : Int) (hd : 0 ≤ d) :
    timeoutMs d * 1000000 ≤ d ∧ d < (timeoutMs d + 1) * 1000000 := by
  simp only [timeoutMs, quotT]
  split <;> omega

/-- The code before the repair accepted a sign and more than ten digits (F08). -/
theorem old_code_witness :
    (connectTimeoutOld [[43, 53]]).timeout = some 5000000 ∧ ¬ connectGrammar [43, 53] ∧
    (connectTimeoutOld [[48,48,48,48,48,48,48,48,48,48,53]]).timeout = some 5000000 ∧
    ¬ connectGrammar [48,48,48,48,48,48,48,48,48,48,53] ∧
    (connectTimeout [[43, 53]]).timeout = none ∧
    (connectTimeout [[48,48,48,48,48,48,48,48,48,48,53]]).timeout = none := by
  refine ⟨by decide, ?_, by decide, ?_, by decide, by decide⟩
  · rw [connectGrammar, ← digitsUpToB_iff]; decide
  · rw [connectGrammar, ← digitsUpToB_iff]; decide

theorem grpcGrammarB_iff (s : Bytes) : grpcGrammarB s = true ↔ grpcGrammar s := by
  unfold grpcGrammarB grpcGrammar
  constructor
  · intro h
    cases hl : s.getLast? with
    | none => simp [hl] at h
    | some u =>
      obtain ⟨ds, rfl⟩ := List.getLast?_eq_some_iff.1 hl
      simp only [hl, List.dropLast_concat, Bool.and_eq_true, digitsUpToB_iff] at h
      obtain ⟨unit, hu⟩ := Option.isSome_iff_exists.1 h.1
      exact ⟨ds, u, unit, rfl, h.2, hu⟩
  · rintro ⟨ds, u, unit, rfl, hd, hu⟩
    simp [hu, (digitsUpToB_iff 8 ds).2 hd]

/-- The model's verdict and value coincide with the specification function the
correspondence check evaluates on the implementation's output (`expectedTimeout`):
accepted iff grammatical, with the exact saturating value. -/
theorem timeout_eq_expected_connect (val : Bytes) (rest : List Bytes) :
    (connectTimeout (val :: rest)).timeout = expectedTimeout .connect val := by
  by_cases h : connectGrammar val
  · have hb : connectGrammarB val = true := (digitsUpToB_iff 10 val).2 h
    simp [expectedTimeout, hb, (timeout_value_connect val rest h).1]
  · have hb : connectGrammarB val = false := by
      cases hc : connectGrammarB val with
      | false => rfl
      | true => exact absurd ((digitsUpToB_iff 10 val).1 hc) h
    cases ht : (connectTimeout (val :: rest)).timeout with
    | none => simp [expectedTimeout, hb]
    | some d => exact absurd ((timeout_accept_iff_grammar_connect val rest).1 (by simp [ht])) h

theorem timeout_eq_expected_grpc (val : Bytes) (rest : List Bytes) :
    (grpcTimeout (val :: rest)).timeout = expectedTimeout .grpc val ∧
    expectedTimeout .grpcWeb val = expectedTimeout .grpc val := by
  refine ⟨?_, rfl⟩
  by_cases h : grpcGrammar val
  · have hb := (grpcGrammarB_iff val).2 h
    obtain ⟨ds, u, unit, rfl, hd, hu⟩ := h
    simp [expectedTimeout, hb, timeout_value_grpc ds u unit rest hd hu, hu]
  · have hb : grpcGrammarB val = false := by
      cases hc : grpcGrammarB val with
      | false => rfl
      | true => exact absurd ((grpcGrammarB_iff val).1 hc) h
    cases ht : (grpcTimeout (val :: rest)).timeout with
    | none => simp [expectedTimeout, hb]
    | some d => exact absurd ((timeout_accept_iff_grammar_grpc val rest).1 (by simp [ht])) h

/-! ## Expectation headers: the full expected × actual matrix, lifted through `render` -/
open ConfModel.ServerChecks

/-- The exact feedback for the request of a conformant client: one message per deviating
aspect, in program order, nothing else.  For every expected tuple (864), every realisable
actual tuple (432), every presentation variant (8) and every non-empty test name. -/
theorem feedback_render (e : Aspects) (n : String) (a : Aspects) (v : Variant)
    (hn : n ≠ "") (hr : a.realisable = true) :
    checks 0 (render e n a v) =
      { rejected := false
        feedback := (if e.version = a.version then [] else [Fb.version]) ++
          (if e.protocol = a.protocol then [] else [Fb.protocol]) ++
          (if e.codec = a.codec then [] else [Fb.codec]) ++
          (if e.compression = a.compression then [] else [Fb.compression]) ++
          (if tlsMatch e a = true then [] else [tlsFbOne e.tls a.tls]) ++
          (if e.method = a.method then [] else [Fb.method])
        timeout := none
        seen := (render e n a v).headers } := by
  have hr' : a.method = .post ∨ a.protocol = .connect := by
    simp only [Aspects.realisable, Bool.and_eq_true, Bool.or_eq_true, beq_iff_eq] at hr
    exact hr.1
  have hne : (testName (render e n a v) == "") = false := by
    rw [testName_render]; simpa using hn
  simp only [checks, hne, Bool.false_eq_true, if_false, afterTimeout_render e n a v hr',
    protocolBlock_render e n a v hr', fbVersion_render, fbCodec_render e n a v hr',
    fbCompression_render, fbTLS_render, fbMethod_render]
  simp [fbRepeat, fbTrailers, render, tlsFbOf_eq, tlsMatch]

/-- No feedback exactly when every aspect matches. -/
theorem no_feedback_iff_match (e : Aspects) (n : String) (a : Aspects) (v : Variant)
    (hn : n ≠ "") (hr : a.realisable = true) :
    (checks 0 (render e n a v)).feedback = [] ↔ aspectsMatch e a = true := by
  rw [feedback_render e n a v hn hr]
  simp only [aspectsMatch, mismatches, List.isEmpty_iff, List.append_eq_nil_iff]
  by_cases h1 : e.version = a.version <;> by_cases h2 : e.protocol = a.protocol <;>
  by_cases h3 : e.codec = a.codec <;> by_cases h4 : e.compression = a.compression <;>
  by_cases h5 : e.method = a.method <;> by_cases h6 : tlsMatch e a = true <;>
  simp [h1, h2, h3, h4, h5, h6]

/-- For realisable expectations (a client certificate only with TLS) "everything matches" is
plain equality of the tuples. -/
theorem aspectsMatch_iff_eq (e a : Aspects) (he : e.realisable = true) (hr : a.realisable = true) :
    aspectsMatch e a = true ↔ e = a := by
  obtain ⟨ev, em, ep, ec, ez, et, ek⟩ := e
  obtain ⟨av, am, ap, ac, az, at', ak⟩ := a
  simp only [Aspects.realisable, Bool.and_eq_true, Bool.or_eq_true, beq_iff_eq] at he hr
  simp only [aspectsMatch, mismatches, tlsMatch, List.isEmpty_iff, List.append_eq_nil_iff, Aspects.mk.injEq]
  by_cases h1 : ev = av <;> by_cases h2 : ep = ap <;> by_cases h3 : ec = ac <;>
  by_cases h4 : ez = az <;> by_cases h5 : em = am <;>
  cases et <;> cases ek <;> cases at' <;> cases ak <;> simp_all

/-- Each deviating aspect is named by a feedback message about that aspect, and every
message is about a deviating aspect: the feedback flags exactly the deviations. -/
theorem each_mismatch_named (e : Aspects) (n : String) (a : Aspects) (v : Variant)
    (hn : n ≠ "") (hr : a.realisable = true) :
    flagsExactly e a (checks 0 (render e n a v)).feedback = true := by
  rw [feedback_render e n a v hn hr]
  simp only [flagsExactly, mismatches]
  have hf := aspect_tlsFbOne e.tls a.tls
  generalize tlsFbOne e.tls a.tls = f at hf
  have a1 : aspectOf .version = some .version := rfl
  have a2 : aspectOf .protocol = some .protocol := rfl
  have a3 : aspectOf .codec = some .codec := rfl
  have a4 : aspectOf .compression = some .compression := rfl
  have a5 : aspectOf .method = some .method := rfl
  by_cases h1 : e.version = a.version <;> by_cases h2 : e.protocol = a.protocol <;>
  by_cases h3 : e.codec = a.codec <;> by_cases h4 : e.compression = a.compression <;>
  by_cases h5 : e.method = a.method <;> by_cases h6 : tlsMatch e a = true <;>
  simp [h1, h2, h3, h4, h5, h6, hf, a1, a2, a3, a4, a5]

example : (Aspects.mk .h2 .post .grpc .proto .gzip true true).realisable = true := by decide

/-- A further request for the same test case is flagged. -/
theorem repeat_flagged (calls : List String) (r : Req) (hn : testName r ≠ "")
    (hc : testName r ∈ calls) :
    Fb.repeated ∈ (checks (countOf calls (testName r)) r).feedback := by
  have hne : (testName r == "") = false := by simpa using hn
  have hpos : countOf calls (testName r) > 0 := by
    simp only [countOf]
    apply List.length_pos_of_mem (a := testName r)
    simp [List.mem_filter, hc]
  simp [checks, hne, fbRepeat, hpos]

/-- …and `serve` counts every served request: the second of two requests with the same name
carries the repeat feedback. -/
theorem repeat_flagged_serve (r1 r2 : Req) (h1 : testName r1 ≠ "") (h : testName r2 = testName r1) :
    ∃ o1 o2, serve [] [r1, r2] = [o1, o2] ∧ Fb.repeated ∈ o2.feedback := by
  have hne : (testName r1 == "") = false := by simpa using h1
  refine ⟨_, _, rfl, ?_⟩
  have : (checks (countOf [] (testName r1)) r1).rejected = false := by simp [checks, hne]
  simp only [this, Bool.false_eq_true, if_false]
  exact repeat_flagged _ r2 (h ▸ h1) (by simp [h])

private theorem afterTimeout_trailers (r : Req) : (afterTimeout r).trailers = r.trailers := by
  unfold afterTimeout; split <;> rfl

/-- Request trailers are flagged. -/
theorem trailers_flagged (count : Nat) (r : Req) (hn : testName r ≠ "") (ht : r.trailers > 0) :
    Fb.trailers ∈ (checks count r).feedback := by
  have hne : (testName r == "") = false := by simpa using hn
  simp [checks, hne, fbTrailers, afterTimeout_trailers, ht]

/-- A request without a test name is rejected outright: no inner handler call, no feedback,
nothing recorded. -/
theorem missing_name_rejected (count : Nat) (r : Req) (hn : testName r = "") :
    checks count r = { rejected := true } ∧
    (∀ calls rs, serve calls (r :: rs) = { rejected := true } :: serve calls rs) := by
  have : checks count r = { rejected := true } := by simp [checks, hn]
  refine ⟨this, fun calls rs => ?_⟩
  have h2 : checks (countOf calls (testName r)) r = { rejected := true } := by simp [checks, hn]
  simp [serve, h2]

private theorem values_del_self (h : Hdrs) (k : String) : values (del h k) k = [] := by
  induction h with
  | nil => rfl
  | cons p t ih =>
    simp only [del, List.filter_cons]
    by_cases hk : (p.1 == k) = true
    · simp only [hk, Bool.not_true, Bool.false_eq_true, if_false]; exact ih
    · have hk' : (p.1 == k) = false := by simpa using hk
      simp only [hk', Bool.not_false, if_true]
      rw [show (p :: List.filter (fun kv => !(kv.1 == k)) t) = ((p.1, p.2) :: del t k) from rfl,
        values_cons, hk']
      simpa using ih

/-- Inside the handler: with the runner's `X-Expect-Protocol: 1` the recorded timeout is the
grammar's verdict on the first `Connect-Timeout-Ms` value and the inner handler no longer
sees that header. -/
theorem handler_timeout_connect (count : Nat) (r : Req) (hn : testName r ≠ "")
    (hp : values r.headers "X-Expect-Protocol" = ["1"]) (val : String) (rest : List String)
    (hv : values r.headers "Connect-Timeout-Ms" = val :: rest) :
    (checks count r).timeout = expectedTimeout .connect (bytesOf val) ∧
    values (checks count r).seen "Connect-Timeout-Ms" = [] := by
  have hne : (testName r == "") = false := by simpa using hn
  have he : enumValue "X-Expect-Protocol" ["1"] (inRange 3) = ([], some 1) := by decide
  have hpo : protoOf 1 = .connect := by decide
  have hrm := (timeout_removed_and_reported_connect (bytesOf val) (rest.map bytesOf)).1
  have hb : protocolBlock r = ((checkProtocol 1 (first (values r.headers "Content-Type")) r.method
        (first (values r.headers "Te"))) ++
        (connectTimeout (bytesOf val :: rest.map bytesOf)).feedback.map (liftT "Connect-Timeout-Ms"),
      (connectTimeout (bytesOf val :: rest.map bytesOf)).timeout, some "Connect-Timeout-Ms") := by
    simp only [protocolBlock, protocolCore, hp, he, hpo, hv, List.map_cons, hrm, if_true, List.nil_append]
  have ha : afterTimeout r = { r with headers := del r.headers "Connect-Timeout-Ms" } := by
    simp only [afterTimeout, hb]
  refine ⟨?_, ?_⟩
  · simp only [checks, hne, Bool.false_eq_true, if_false, hb]
    exact timeout_eq_expected_connect _ _
  · simp only [checks, hne, Bool.false_eq_true, if_false, ha]
    exact values_del_self _ _

/-- The same for gRPC (`X-Expect-Protocol: 2`) and gRPC-Web (`3`) with `Grpc-Timeout`. -/
theorem handler_timeout_grpc (count : Nat) (r : Req) (hn : testName r ≠ "") (pv : String)
    (hpv : pv = "2" ∨ pv = "3")
    (hp : values r.headers "X-Expect-Protocol" = [pv]) (val : String) (rest : List String)
    (hv : values r.headers "Grpc-Timeout" = val :: rest) :
    (checks count r).timeout = expectedTimeout .grpc (bytesOf val) ∧
    values (checks count r).seen "Grpc-Timeout" = [] := by
  have hne : (testName r == "") = false := by simpa using hn
  have hrm := (timeout_removed_and_reported_grpc (bytesOf val) (rest.map bytesOf)).1
  have hb : (protocolBlock r).2 =
      ((grpcTimeout (bytesOf val :: rest.map bytesOf)).timeout, some "Grpc-Timeout") := by
    rcases hpv with rfl | rfl
    · have he : enumValue "X-Expect-Protocol" ["2"] (inRange 3) = ([], some 2) := by decide
      have hpo : protoOf 2 = .grpc := by decide
      simp only [protocolBlock, protocolCore, hp, he, hpo, hv, List.map_cons, hrm, if_true]
    · have he : enumValue "X-Expect-Protocol" ["3"] (inRange 3) = ([], some 3) := by decide
      have hpo : protoOf 3 = .grpcWeb := by decide
      simp only [protocolBlock, protocolCore, hp, he, hpo, hv, List.map_cons, hrm, if_true]
  have hb2 : (protocolBlock r).2.2 = some "Grpc-Timeout" := by rw [hb]
  have hb1 : (protocolBlock r).2.1 = (grpcTimeout (bytesOf val :: rest.map bytesOf)).timeout := by rw [hb]
  have ha : afterTimeout r = { r with headers := del r.headers "Grpc-Timeout" } := by
    simp only [afterTimeout, hb2]
  refine ⟨?_, ?_⟩
  · simp only [checks, hne, Bool.false_eq_true, if_false, hb1]
    exact (timeout_eq_expected_grpc _ _).1
  · simp only [checks, hne, Bool.false_eq_true, if_false, ha]
    exact values_del_self _ _

/-! ### non-vacuity: concrete instances of the hypotheses above -/

private def exA : Aspects := ⟨.h2, .post, .grpc, .proto, .gzip, true, true⟩
private def exV : Variant := ⟨false, false, true⟩

example : exA.realisable = true ∧ (checks 0 (render exA "Suite/case" exA exV)).feedback = [] := by decide
example : (checks 0 (render { exA with codec := .json, tls := false, cert := false } "Suite/case" exA exV)).feedback
    = [.codec, .plainExpected] := by decide
example : (checks 1 (render exA "Suite/case" exA exV)).feedback = [.repeated] := by decide

private def exR : Req :=
  { major := 2, method := "POST",
    headers := [("X-Test-Case-Name", "t"), ("X-Expect-Protocol", "1"), ("Connect-Timeout-Ms", "5")] }

example : testName exR ≠ "" ∧ values exR.headers "X-Expect-Protocol" = ["1"] ∧
    values exR.headers "Connect-Timeout-Ms" = ["5"] ∧ (checks 0 exR).timeout = some 5000000 := by decide
example : testName { exR with trailers := 2 } ≠ "" ∧
    Fb.trailers ∈ (checks 0 { exR with trailers := 2 }).feedback := by decide
example : testName { exR with headers := [] } = "" := by decide

/-! ## The handler chain of `createServer` (reference mode)

The checks see the request as it arrived; the "HTTP/1.1 bidi stream pretends to be HTTP/2"
wrapper sits *inside* them, directly around the mux.  So the matrix theorems hold for every
procedure, in particular for a half-duplex BidiStream over HTTP/1.1, while connect-go still
receives such a request as HTTP/2. -/

/-- The feedback (and the recorded timeout) of a request through the chain is that of
`referenceServerChecks` on the request as it arrived, whatever the procedure. -/
theorem chain_outcome (count : Nat) (path : String) (r : Req) :
    (serverChain count path r).outcome = checks count r := rfl

/-- No feedback iff everything matches, for every procedure (URL path). -/
theorem chain_no_feedback_iff_match (path : String) (e : Aspects) (n : String) (a : Aspects) (v : Variant)
    (hn : n ≠ "") (hr : a.realisable = true) :
    (serverChain 0 path (render e n a v)).outcome.feedback = [] ↔ aspectsMatch e a = true := by
  rw [chain_outcome]; exact no_feedback_iff_match e n a v hn hr

/-- Each deviating aspect is named, for every procedure. -/
theorem chain_each_mismatch_named (path : String) (e : Aspects) (n : String) (a : Aspects) (v : Variant)
    (hn : n ≠ "") (hr : a.realisable = true) :
    flagsExactly e a (serverChain 0 path (render e n a v)).outcome.feedback = true := by
  rw [chain_outcome]; exact each_mismatch_named e n a v hn hr

/-- What the mux receives: the request after the timeout header was removed, its HTTP version
untouched except that an HTTP/1 request for the BidiStream procedure is presented as HTTP/2. -/
theorem chain_inner (count : Nat) (path : String) (r : Req) (hn : testName r ≠ "") :
    (serverChain count path r).inner = some
      (if hasSuffix path bidiStreamProcedure = true ∧ r.major = 1
       then { afterTimeout r with major := 2 } else afterTimeout r) := by
  have hne : (testName r == "") = false := by simpa using hn
  have hm : (afterTimeout r).major = r.major := by
    unfold afterTimeout; split <;> rfl
  simp only [serverChain, checks, hne, Bool.false_eq_true, if_false, pretendHTTP2, hm,
    Bool.and_eq_true, beq_iff_eq]

/-- A request without test name does not reach the mux. -/
theorem chain_rejected (count : Nat) (path : String) (r : Req) (hn : testName r = "") :
    (serverChain count path r).inner = none ∧ (serverChain count path r).outcome.feedback = [] := by
  simp [serverChain, checks, hn]

private def exBidi : Aspects := ⟨.h1, .post, .connect, .proto, .identity, false, false⟩
private def exBidiV : Variant := ⟨true, false, false⟩

/-- Non-vacuity, and why the order of the wrappers matters: a half-duplex BidiStream request
over HTTP/1.1 that matches its test in every aspect gets no feedback and reaches the mux as
HTTP/2; were the checks run *after* the rewrite they would report the HTTP version of that same
request (and miss a real deviation from an HTTP/2 expectation). -/
theorem chain_bidi_http1_witness :
    exBidi.realisable = true ∧
    (serverChain 0 bidiStreamProcedure (render exBidi "S/t" exBidi exBidiV)).outcome.feedback = [] ∧
    ((serverChain 0 bidiStreamProcedure (render exBidi "S/t" exBidi exBidiV)).inner.map (·.major)) = some 2 ∧
    ((serverChain 0 "/connectrpc.conformance.v1.ConformanceService/ClientStream"
        (render exBidi "S/t" exBidi exBidiV)).inner.map (·.major)) = some 1 ∧
    (checks 0 (pretendHTTP2 bidiStreamProcedure (render exBidi "S/t" exBidi exBidiV))).feedback = [.version] ∧
    (checks 0 (pretendHTTP2 bidiStreamProcedure
        (render { exBidi with version := .h2 } "S/t" exBidi exBidiV))).feedback = [] := by decide

/-! ## The chain with and without a tracer: the body the checks probe

With a tracer, `createServer` installs `tracer.TracingHandler` *around* the checks, so the body
`checkCodec` probes with a zero-length read is the tracer's wrapper.  The statements about the
chain above are therefore statements over the body as the checks see it; they carry over to every
configuration whose wrapper forwards reads verbatim - which is the tracer's own property
(C14/C15: tracing is transparent) - and are instantiated for both configurations. -/

/-- **chain_wrapper_transparent.**  A wrapper that forwards reads verbatim leaves every verdict
of the chain unchanged: feedback, rejection, timeout, the headers and the request the server
implementation sees - for every request, body, procedure and repeat count. -/
theorem chain_wrapper_transparent (w : BodyWrapper) (hw : w.transparent) (count : Nat) (path : String)
    (r : Req) (p : Probe) :
    serverChainW w count path r p = serverChainW noWrapper count path r p := by
  simp only [serverChainW, noWrapper, hw p]

/-- the tracer's reader is such a wrapper -/
theorem tracingRead_transparent : tracingRead.transparent := fun _ => rfl

/-- **chain_traced_eq_untraced.**  Sequences of requests get the same verdicts with and without
a tracer. -/
theorem chain_traced_eq_untraced (path : String) (calls : List String) (rs : List (Req × Probe)) :
    serveChainW tracingRead path calls rs = serveChainW noWrapper path calls rs := rfl

/-- **chain_no_feedback_iff_match_body.**  No feedback iff everything matches - for the chain as
installed behind any transparent wrapper, for every procedure, and for every body a conformant
client sends (none with GET; anything with POST). -/
theorem chain_no_feedback_iff_match_body (w : BodyWrapper) (hw : w.transparent) (path : String)
    (e : Aspects) (n : String) (a : Aspects) (v : Variant) (p : Probe)
    (hn : n ≠ "") (hr : a.realisable = true) (hp : conformantProbe a p = true) :
    (serverChainW w 0 path (render e n a v) p).outcome.feedback = [] ↔ aspectsMatch e a = true := by
  rw [chain_wrapper_transparent w hw]
  simp only [serverChainW, noWrapper, chain_outcome]
  rw [checks_render_withBody 0 e n a v p hp]
  exact no_feedback_iff_match e n a v hn hr

/-- **chain_each_mismatch_named_body.**  Each deviating aspect is named, likewise. -/
theorem chain_each_mismatch_named_body (w : BodyWrapper) (hw : w.transparent) (path : String)
    (e : Aspects) (n : String) (a : Aspects) (v : Variant) (p : Probe)
    (hn : n ≠ "") (hr : a.realisable = true) (hp : conformantProbe a p = true) :
    flagsExactly e a (serverChainW w 0 path (render e n a v) p).outcome.feedback = true := by
  rw [chain_wrapper_transparent w hw]
  simp only [serverChainW, noWrapper, chain_outcome]
  rw [checks_render_withBody 0 e n a v p hp]
  exact each_mismatch_named e n a v hn hr

/-- the two configurations `createServer` can build -/
theorem chain_no_feedback_iff_match_traced (path : String) (e : Aspects) (n : String) (a : Aspects)
    (v : Variant) (p : Probe) (hn : n ≠ "") (hr : a.realisable = true) (hp : conformantProbe a p = true) :
    ((serverChainW tracingRead 0 path (render e n a v) p).outcome.feedback = [] ↔ aspectsMatch e a = true) ∧
    ((serverChainW noWrapper 0 path (render e n a v) p).outcome.feedback = [] ↔ aspectsMatch e a = true) :=
  ⟨chain_no_feedback_iff_match_body _ tracingRead_transparent path e n a v p hn hr hp,
   chain_no_feedback_iff_match_body _ (fun _ => rfl) path e n a v p hn hr hp⟩

private def exGet : Aspects := ⟨.h1, .get, .connect, .proto, .identity, false, false⟩
private def exGetV : Variant := ⟨false, false, false⟩

/-- Non-vacuity, and why "verbatim" includes the zero-length read: a Connect GET that matches in
every aspect gets no feedback with and without the tracer; a GET that does carry a body is flagged
in both; a wrapper that answers a zero-length read itself with `(0, nil)` ("nothing to read into
an empty buffer") makes the checks flag every conformant GET - and is not transparent. -/
theorem chain_body_probe_witness :
    exGet.realisable = true ∧ conformantProbe exGet .eof = true ∧ aspectsMatch exGet exGet = true ∧
    (serverChainW tracingRead 0 "/p" (render exGet "S/get" exGet exGetV) .eof).outcome.feedback = [] ∧
    (serverChainW noWrapper 0 "/p" (render exGet "S/get" exGet exGetV) .eof).outcome.feedback = [] ∧
    (serverChainW tracingRead 0 "/p" (render exGet "S/get" exGet exGetV) .nothing).outcome.feedback = [.getBody] ∧
    (serverChainW (fun _ => .nothing) 0 "/p" (render exGet "S/get" exGet exGetV) .eof).outcome.feedback = [.getBody] ∧
    ¬ BodyWrapper.transparent (fun _ => .nothing) := by
  refine ⟨by decide, by decide, by decide, by decide, by decide, by decide, by decide, ?_⟩
  intro h
  exact absurd (h .eof) (by decide)

/-! ## "reports feedback naming the test case": from the printer to the runner

The feedback of the checks is only worth something if the runner can tell which test case it
is about.  The printer writes `name`, `": "`, the formatted message and a line break
(`prefixLine`, the name is data and never part of a format string); the runner's reader
(`readStream`: the model of the stderr goroutine of `runTestCasesForServer`, C11) must record
exactly that message for exactly that test case - for **every** test case name, whatever
characters it is made of, as long as the reader's own framing can carry it (no `": "` and no line
break inside, no white space in front) - and for every message that is a line of its own. -/

open ConfModel.FeedbackLine ConfModel.ServerRunner in
/-- **feedback_line_attributed.**  A feedback message printed for test case `nm` of the batch is
recorded by the runner for `nm`, with exactly the message text, and nothing is forwarded as
noise. -/
theorem feedback_line_attributed (names : List (List Char)) (nm text : List Char)
    (hm : nm ∈ names) (hsep : Spec.noSep nm = true) (hn : startsClean nm = true) (hnl : oneLine nm = true)
    (ht : endsClean text = true) (htl : oneLine text = true) :
    readStream names (prefixLine nm text) = ([], [(nm, text)]) := by
  obtain ⟨t, d, rfl, hd⟩ := endsClean_concat text ht
  have hlast : (nm ++ ':' :: ' ' :: (t ++ [d])).getLast? = some d := by
    have : nm ++ ':' :: ' ' :: (t ++ [d]) = (nm ++ ':' :: ' ' :: t) ++ [d] := by simp
    rw [this, List.getLast?_concat]
  have hdn : (some d == some '\n') = false := by
    have : d ≠ '\n' := by intro e; subst e; revert hd; decide
    simpa using this
  have hone : oneLine (nm ++ ':' :: ' ' :: (t ++ [d])) = true := by
    simp only [oneLine, List.contains_eq_mem, List.mem_append, List.mem_cons, Bool.not_eq_true',
      decide_eq_false_iff_not] at hnl htl ⊢
    intro h
    rcases h with h | h | h | h
    · exact hnl h
    · exact absurd h (by decide)
    · exact absurd h (by decide)
    · exact htl (by simpa using h)
  unfold readStream prefixLine
  simp only [hlast, hdn, Bool.false_eq_true, if_false]
  have hs := splitLines_oneLine (nm ++ ':' :: ' ' :: (t ++ [d])) [] hone
  simp only [List.reverse_nil, List.nil_append] at hs
  rw [hs]
  have htrim : trim (nm ++ ':' :: ' ' :: (t ++ [d]) ++ ['\n']) = nm ++ ':' :: ' ' :: (t ++ [d]) := by
    cases nm with
    | nil =>
      have := trim_clean ':' (' ' :: t) d (by decide) hd
      simpa using this
    | cons c nm' =>
      have hc : isSpace c = false := by simpa [startsClean] using hn
      have := trim_clean c (nm' ++ ':' :: ' ' :: t) d hc hd
      simpa using this
  have hr := lineAct_recorded names nm (t ++ [d]) hm (by simpa [Spec.noSep] using hsep) _ htrim
  simp only [processLines, hr]

open ConfModel.FeedbackLine in
/-- Non-vacuity: a name full of formatting verbs is attributed like any other; and what it looks
like when the name is *not* kept out of the format string - `fmt` turns `"110%-of-timeout: expected
compression %s; instead got %s"` with arguments `gzip`, `identity` into the line below, which the
runner cannot attribute (it is forwarded as noise and the deviating request goes unreported). -/
theorem feedback_line_witness :
    readStream ["S/110%-of-timeout".toList, "S/other".toList]
      (prefixLine "S/110%-of-timeout".toList "expected compression gzip; instead got identity".toList)
      = ([], [("S/110%-of-timeout".toList, "expected compression gzip; instead got identity".toList)]) ∧
    attributedTo ["S/110%-of-timeout".toList, "S/other".toList] "S/110%-of-timeout".toList
      (prefixLine "S/110%-of-timeout".toList "expected compression gzip; instead got identity".toList) = true ∧
    attributedTo ["S/110%-of-timeout".toList, "S/other".toList] "S/110%-of-timeout".toList
      "S/110%!-(string=gzip)of-timeout: expected compression identity; instead got %!s(MISSING)\n".toList = false := by
  decide

/-! ## Overlapping requests on one reference server

One handler closure serves all requests of a server; a stream can sit inside the wrapped handler
for as long as its client likes while other test cases come and go.  `ServerOverlap.run` lets
any number of requests arrive and move one feedback line at a time in any order (a *schedule*;
every interleaving is one).  The feedback of a request must carry that request's test name and
be what the checks say about that request - whatever the others do in between. -/

open ConfModel.ServerOverlap in
/-- **overlap_feedback_named.**  In every interleaving, every line is printed under the test
name of the request that printed it. -/
theorem overlap_feedback_named (reqs : List Req) (sched : List Ev) :
    ∀ l ∈ (run reqs {} sched).2, ∃ r, reqs[l.id]? = some r ∧ l.name = testName r :=
  run_ok reqs {} sched (by intro f hf; simp at hf)

open ConfModel.ServerOverlap in
/-- **overlap_feedback_exact.**  Request `i` arrives after the events `a`; afterwards the
schedule `b` lets it take `stepsOf i b` actions, interleaved in any way with anything the other
requests do.  What it has printed is exactly the corresponding part of its own program - the
feedback of `checks` for this request, with the repeat counter as it stood at its arrival - every
line under its own test name, nothing from or to another request. -/
theorem overlap_feedback_exact (reqs : List Req) (a b : List Ev) (i : Nat) (r : Req)
    (hr : reqs[i]? = some r) (hn : testName r ≠ "") (ha : Ev.arrive i ∉ a) :
    linesOf i (run reqs {} (a ++ .arrive i :: b)).2 =
      (prints ((program (countOf (run reqs {} a).1.calls (testName r)) r).take (stepsOf i b))).map
        (fun fb => { id := i, name := testName r, fb := fb }) := by
  obtain ⟨h1, h2, _⟩ := run_noframe reqs i a {} (by simp) ha
  rw [run_append]
  simp only [linesOf, List.filter_append] at h1 ⊢
  rw [h1, List.nil_append]
  have hno : hasFrame (run reqs {} a).1 i = false := by rw [hasFrame_iff, h2]; rfl
  have hne : (testName r == "") = false := by simpa using hn
  simp only [run, stepSrv, hr, hno, hne, Bool.false_eq_true, if_false, List.nil_append]
  refine (run_frame reqs i b _ { id := i, name := testName r, todo := program (countOf (run reqs {} a).1.calls (testName r)) r } ?_).1
  simp

open ConfModel.ServerOverlap in
/-- **overlap_feedback_complete.**  A request that arrives once and is scheduled often enough to
run to its end has printed exactly the feedback `checks` computes for it - flagged as a repetition
iff a request of the same test case arrived before it - under its own test name, however many
other requests overlapped with it. -/
theorem overlap_feedback_complete (reqs : List Req) (a b : List Ev) (i : Nat) (r : Req)
    (hr : reqs[i]? = some r) (hn : testName r ≠ "") (ha : Ev.arrive i ∉ a) (hon : arrivesOnce a = true)
    (hk : (program (countOf (arrivalNames reqs a) (testName r)) r).length ≤ stepsOf i b) :
    linesOf i (run reqs {} (a ++ .arrive i :: b)).2 =
      (checks (countOf (arrivalNames reqs a) (testName r)) r).feedback.map
        (fun fb => { id := i, name := testName r, fb := fb }) := by
  have hc : (run reqs {} a).1.calls = (arrivalNames reqs a).reverse := by
    have := run_calls reqs a {} (by intro f hf; simp at hf) hon
    simpa using this
  rw [overlap_feedback_exact reqs a b i r hr hn ha, hc, countOf_reverse, List.take_of_length_le hk,
    prints_program, checks_feedback_split _ _ hn]

private def exStream : Req :=
  { render exA "S/stream" exA exV with trailers := 1 }
private def exUnary : Req := render exA "S/unary" exA exV

open ConfModel.ServerOverlap in
/-- Non-vacuity of the hypotheses of `overlap_feedback_exact` / `overlap_feedback_complete`: the
stream arrives while a unary call of another test case is in flight, and is scheduled to its end
interleaved with it. -/
example : [exUnary, exStream][1]? = some exStream ∧ testName exStream ≠ "" ∧
    Ev.arrive 1 ∉ [Ev.arrive 0] ∧ arrivesOnce [Ev.arrive 0] = true ∧
    (program (countOf (arrivalNames [exUnary, exStream] [.arrive 0]) (testName exStream)) exStream).length
      ≤ stepsOf 1 [.step 1, .step 0, .step 1] ∧
    linesOf 1 (run [exUnary, exStream] {} ([.arrive 0] ++ .arrive 1 :: [.step 1, .step 0, .step 1])).2
      = [{ id := 1, name := "S/stream", fb := .trailers }] := by decide

open ConfModel.ServerOverlap in
/-- Non-vacuity, and what goes wrong with one printer for all calls: a stream with a request
trailer is inside the handler while a conformant unary call of another test case passes through.
Each request's feedback is its own (`run`): the trailer is reported for `S/stream`, nothing for
`S/unary`.  With a shared printer whose name is overwritten on arrival (`runShared`) the same
schedule reports the trailer under `S/unary`: a conformant test case is flagged and the deviating
one is not. -/
theorem overlap_shared_printer_witness :
    testName exStream ≠ "" ∧ arrivesOnce [.arrive 0, .step 0] = true ∧
    (run [exStream, exUnary] {} [.arrive 0, .step 0, .arrive 1, .step 1, .step 0, .step 0]).2
      = [{ id := 0, name := "S/stream", fb := .trailers }] ∧
    linesOf 1 (run [exStream, exUnary] {} [.arrive 0, .step 0, .arrive 1, .step 1, .step 0, .step 0]).2 = [] ∧
    runShared [exStream, exUnary] {} [.arrive 0, .step 0, .arrive 1, .step 1, .step 0, .step 0]
      = [{ id := 0, name := "S/unary", fb := .trailers }] ∧
    runShared [exStream, exUnary] {} [.arrive 0, .step 0, .step 0, .arrive 1, .step 1]
      = [{ id := 0, name := "S/stream", fb := .trailers }] := by decide

/-! ## The whole stderr stream: any number of lines, of any length, in reads of any size

`feedback_line_attributed` is about one line.  The runner reads the stream of a server that
serves a whole batch; messages echo values the client chooses (content type, encodings, header
values) and are as long as the client makes them.  No line may cost the lines behind it. -/

open ConfModel.FeedbackLine ConfModel.FeedbackStream ConfModel.ServerRunner in
/-- **reader_chunking_irrelevant.**  The lines the reader hands out are those of the stream,
however the stream is cut into reads - and there is no bound on the length of a line. -/
theorem reader_chunking_irrelevant (chunks : List (List Char)) :
    readChunks chunks [] = splitLines chunks.flatten [] := readChunks_eq chunks []

open ConfModel.FeedbackLine ConfModel.FeedbackStream ConfModel.ServerRunner in
/-- **feedback_stream_attributed.**  Any sequence of feedback messages printed for test cases of
the batch - any number, each of any length - is recorded by the runner message by message, each
for its own test case, in order, and nothing is forwarded as noise. -/
theorem feedback_stream_attributed (names : List (List Char)) (msgs : List (List Char × List Char))
    (h : ∀ m ∈ msgs, wellFormed names m = true) :
    readStream names (printed msgs) = ([], msgs) := by
  induction msgs with
  | nil => simp [printed, readStream, splitLines, processLines]
  | cons m ms ih =>
    have hm := (wellFormed_iff names m).mp (h m List.mem_cons_self)
    obtain ⟨hmem, hsep, hst, hnl, hte, htl⟩ := hm
    obtain ⟨w, hw, hone, hact⟩ := prefixLine_shape m.1 m.2 hnl hte htl
    have ih' := ih (fun x hx => h x (List.mem_cons_of_mem _ hx))
    unfold readStream at ih' ⊢
    simp only [printed, hw]
    rw [splitLines_append, feed_oneLine w [] hone]
    simp only [List.reverse_nil, List.nil_append, List.singleton_append, processLines, hact names hmem hsep hst, ih']

open ConfModel.FeedbackLine ConfModel.FeedbackStream ConfModel.ServerRunner in
/-- **feedback_stream_chunked.**  The same when the stream reaches the runner in reads of any
sizes. -/
theorem feedback_stream_chunked (names : List (List Char)) (msgs : List (List Char × List Char))
    (chunks : List (List Char)) (hc : chunks.flatten = printed msgs)
    (h : ∀ m ∈ msgs, wellFormed names m = true) :
    readStreamChunked names chunks = ([], msgs) := by
  unfold readStreamChunked
  rw [reader_chunking_irrelevant, hc]
  exact feedback_stream_attributed names msgs h

open ConfModel.FeedbackLine ConfModel.FeedbackStream ConfModel.ServerRunner in
/-- **feedback_stream_flags_each.**  After the stream has been read, the runner holds feedback
for every test case that got any, and it is the last message printed for that test case -
whatever was printed before, between and after for other test cases. -/
theorem feedback_stream_flags_each (names : List (List Char)) (before after : List (List Char × List Char))
    (nm text : List Char) (chunks : List (List Char))
    (hc : chunks.flatten = printed (before ++ (nm, text) :: after))
    (h : ∀ m ∈ before ++ (nm, text) :: after, wellFormed names m = true)
    (hlast : ∀ m ∈ after, m.1 ≠ nm) :
    sideband (readStreamChunked names chunks).2 nm = some text := by
  rw [feedback_stream_chunked names _ chunks hc h]
  exact sideband_append_last before after nm text hlast

open ConfModel.FeedbackLine ConfModel.FeedbackStream ConfModel.ServerRunner in
/-- Non-vacuity (a stream of three messages delivered in odd pieces), and what a line reader with
a bounded line length does to it: the reader of the runner records all three; one that cannot
hold more than 16 characters of a line loses the long line *and every line behind it*, although
it reads any stream of short lines exactly like the unbounded one. -/
theorem feedback_stream_witness :
    let names := ["A".toList, "B".toList]
    let msgs := [("A".toList, "expected codec proto; instead got xxxxxxxxxxxxxxxxxxxxxxxx".toList),
                 ("B".toList, "x".toList), ("A".toList, "y".toList)]
    (∀ m ∈ msgs, wellFormed names m = true) ∧
    [(printed msgs).take 5, ((printed msgs).drop 5).take 60, (printed msgs).drop 65].flatten = printed msgs ∧
    (∀ m ∈ msgs.drop 2, m.1 ≠ "B".toList) ∧
    readStreamChunked names [(printed msgs).take 5, ((printed msgs).drop 5).take 60, (printed msgs).drop 65] = ([], msgs) ∧
    sideband msgs "A".toList = some "y".toList ∧ sideband msgs "B".toList = some "x".toList ∧
    processLines names (limitedLines 16 (printed msgs)) = ([], []) ∧
    processLines names (limitedLines 16 (printed (msgs.drop 1))) = ([], msgs.drop 1) := by
  decide

/-! ## The reference client's feedback (mode server)

The other source of `recordSideband`: the reference client reports what it found wrong with a
response in `ClientResponseResult.feedback`; the runner records every message for the test case
the response names.  No text is parsed on this path: whatever the message and the test name are
made of, the feedback of a case is attributed to that case and to no other. -/

open ConfModel.FeedbackStream in
/-- **client_feedback_attributed.**  After the responses of a batch (one per test case), the
runner holds for each test case exactly the last feedback message of its own response - nothing
if the response had none - whatever the responses of the other cases say, for all texts. -/
theorem client_feedback_attributed (before after : List (List Char × List (List Char)))
    (nm : List Char) (msgs : List (List Char))
    (hb : ∀ r ∈ before, r.1 ≠ nm) (ha : ∀ r ∈ after, r.1 ≠ nm) :
    sideband (clientRecords (before ++ (nm, msgs) :: after)) nm = msgs.getLast? := by
  have h1 : sideband (clientRecords after) nm = none :=
    sideband_none _ nm (clientRecords_names after nm ha)
  have h2 : sideband (clientRecords before) nm = none :=
    sideband_none _ nm (clientRecords_names before nm hb)
  rw [clientRecords_append, sideband_append]
  simp only [clientRecords]
  rw [sideband_append, h1]
  simp only
  rw [sideband_own]
  cases hm : msgs.getLast? with
  | some m => rfl
  | none => simpa using h2

open ConfModel.FeedbackStream in
/-- Non-vacuity: a message that looks like a sideband line of another case stays with its own case. -/
example : (∀ r ∈ [("A".toList, ["x".toList])], r.1 ≠ "B".toList) ∧
    sideband (clientRecords [("A".toList, ["x".toList]), ("B".toList, ["A: not yours".toList, "100%".toList]), ("C".toList, [])])
      "B".toList = some "100%".toList ∧
    sideband (clientRecords [("A".toList, ["x".toList]), ("B".toList, ["A: not yours".toList]), ("C".toList, [])])
      "A".toList = some "x".toList ∧
    sideband (clientRecords [("A".toList, ["x".toList]), ("B".toList, ["A: not yours".toList]), ("C".toList, [])])
      "C".toList = none := by decide

end ConfModel.Props.C12
