/-
Layer 3 (retry collector): the collector, observed at one test name, is the automaton
`stepFor`; nothing is delivered more often than it was completed.
-/
import ConfModel.Model.H2Retry
import ConfModel.Spec.H2
set_option linter.unusedSimpArgs false
set_option linter.unusedVariables false
namespace ConfModel.H2

/-- well-formed `waiting` map: keys are the traces' names, at most one entry per name -/
def WOK : List (String × Trace) → Prop
  | [] => True
  | p :: w => p.1 = p.2.name ∧ findName p.1 w = none ∧ WOK w

theorem findName_dropName_self (n : String) (w : List (String × Trace)) : findName n (dropName n w) = none := by
  induction w with
  | nil => rfl
  | cons p w ih =>
    by_cases h : p.1 = n
    · simp [dropName, List.filter, h] at ih ⊢; exact ih
    · have : (p.1 != n) = true := by simp [h]
      simp only [dropName, List.filter, this] at ih ⊢
      simp [findName, h, ih]

theorem findName_dropName_ne (m n : String) (h : m ≠ n) (w : List (String × Trace)) :
    findName n (dropName m w) = findName n w := by
  induction w with
  | nil => rfl
  | cons p w ih =>
    by_cases hm : p.1 = m
    · have hn : ¬ p.1 = n := by rw [hm]; exact h
      simp only [dropName, List.filter, hm, bne_self_eq_false] at ih ⊢
      simp [findName, hm, h, ih]
    · have : (p.1 != m) = true := by simp [hm]
      simp only [dropName, List.filter, this] at ih ⊢
      by_cases hn : p.1 = n
      · simp [findName, hn]
      · simp [findName, hn, ih]

theorem findName_dropName_none (m n : String) (w : List (String × Trace)) (h : findName n w = none) :
    findName n (dropName m w) = none := by
  by_cases hmn : m = n
  · subst hmn; exact findName_dropName_self m w
  · rw [findName_dropName_ne m n hmn]; exact h

theorem WOK_dropName (m : String) : ∀ (w : List (String × Trace)), WOK w → WOK (dropName m w)
  | [], _ => trivial
  | p :: w, ⟨h1, h2, h3⟩ => by
    by_cases hm : p.1 = m
    · simp only [dropName, List.filter, hm, bne_self_eq_false]
      exact WOK_dropName m w h3
    · have : (p.1 != m) = true := by simp [hm]
      simp only [dropName, List.filter, this]
      exact ⟨h1, findName_dropName_none m p.1 w h2, WOK_dropName m w h3⟩

/-- the values of a well-formed `waiting` map that carry name `n`: the entry for `n`, if any -/
theorem values_filter_name (n : String) : ∀ (w : List (String × Trace)), WOK w →
    (w.map (·.2)).filter (fun t => t.name == n) = (findName n w).toList
  | [], _ => rfl
  | p :: w, ⟨h1, h2, h3⟩ => by
    have ih := values_filter_name n w h3
    by_cases hn : p.1 = n
    · have hn' : p.2.name = n := by rw [← h1]; exact hn
      have : findName n w = none := by rw [← hn]; exact h2
      simp [List.filter, findName, hn, hn', ih, this]
    · have hn' : ¬ p.2.name = n := by rw [← h1]; exact hn
      simp [List.filter, findName, hn, hn', ih]

theorem WOK_step (c : Coll) (h : WOK c.waiting) (op : COp) : WOK (c.step op).waiting := by
  cases op with
  | complete t =>
    simp only [Coll.step, Coll.complete]
    split
    · exact ⟨rfl, findName_dropName_self _ _, WOK_dropName _ _ h⟩
    · split <;> exact h
  | newAttempt n => exact WOK_dropName _ _ h
  | timesUp n =>
    simp only [Coll.step, Coll.timesUp]
    split
    · exact WOK_dropName _ _ h
    · exact h
  | cancel => trivial

theorem outFor_append (c : Coll) (n : String) (l : List Trace) :
    ({ c with out := c.out ++ l } : Coll).outFor n = c.outFor n ++ l.filter (fun t => t.name == n) := by
  simp [Coll.outFor, List.filter_append]

/-- one operation, observed at name `n` -/
theorem step_for (c : Coll) (h : WOK c.waiting) (n : String) (op : COp) :
    (c.step op).outFor n = c.outFor n ++ (stepFor n (findName n c.waiting) op).2 ∧
    findName n (c.step op).waiting = (stepFor n (findName n c.waiting) op).1 := by
  cases op with
  | complete t =>
    simp only [Coll.step, Coll.complete, stepFor]
    by_cases hr : t.err.retryable = true
    · simp only [hr, if_true]
      by_cases hn : t.name = n
      · simp [hn, Coll.outFor, findName]
      · have hbn : (t.name == n) = false := by simp [hn]
        simp only [hbn, Bool.false_eq_true, if_false]
        refine ⟨by simp [Coll.outFor], ?_⟩
        simp only [findName, hbn, Bool.false_eq_true, if_false]
        exact findName_dropName_ne _ _ hn _
    · simp only [hr, Bool.false_eq_true, if_false]
      by_cases hn : t.name = n
      · subst hn
        cases hw : findName t.name c.waiting with
        | none => simp [hw, Coll.outFor, List.filter_append]
        | some t' => simp [hw, Coll.outFor]
      · have hbn : (t.name == n) = false := by simp [hn]
        simp only [hbn, Bool.false_eq_true, if_false]
        split
        · simp
        · simp [Coll.outFor, List.filter_append, hbn]
  | newAttempt m =>
    simp only [Coll.step, Coll.newAttempt, stepFor]
    by_cases hn : m = n
    · subst hn; simp [Coll.outFor, findName_dropName_self]
    · have hbn : (m == n) = false := by simp [hn]
      simp [hbn, Coll.outFor, findName_dropName_ne m n hn]
  | timesUp m =>
    simp only [Coll.step, Coll.timesUp, stepFor]
    by_cases hn : m = n
    · subst hn
      cases hw : findName m c.waiting with
      | none => simp [hw]
      | some t =>
        have hname : t.name = m := by
          have := values_filter_name m c.waiting h
          rw [hw] at this
          have hm : t ∈ (c.waiting.map (·.2)).filter (fun t => t.name == m) := by rw [this]; simp
          simpa using (List.mem_filter.mp hm).2
        simp [hw, Coll.outFor, List.filter_append, hname, findName_dropName_self]
    · have hbn : (m == n) = false := by simp [hn]
      simp only [hbn, Bool.false_eq_true, if_false]
      cases hw : findName m c.waiting with
      | none => simp [hw]
      | some t =>
        have hname : t.name = m := by
          have := values_filter_name m c.waiting h
          rw [hw] at this
          have hm : t ∈ (c.waiting.map (·.2)).filter (fun t => t.name == m) := by rw [this]; simp
          simpa using (List.mem_filter.mp hm).2
        have : (t.name == n) = false := by rw [hname]; exact hbn
        simp [hw, Coll.outFor, List.filter_append, this, findName_dropName_ne m n hn]
  | cancel =>
    simp only [Coll.step, Coll.cancel, stepFor]
    refine ⟨?_, rfl⟩
    simp only [Coll.outFor, List.filter_append]
    rw [values_filter_name n c.waiting h]

theorem WOK_run : ∀ (ops : List COp) (c : Coll), WOK c.waiting → WOK (c.run ops).waiting
  | [], _, h => h
  | op :: ops, c, h => by
    simp only [Coll.run, List.foldl]
    exact WOK_run ops (c.step op) (WOK_step c h op)

/-- the collector observed at name `n` is the automaton `deliveriesFor` -/
theorem run_for : ∀ (ops : List COp) (c : Coll), WOK c.waiting → ∀ n,
    (c.run ops).outFor n = c.outFor n ++ deliveriesFor n (findName n c.waiting) ops
  | [], c, _, n => by simp [Coll.run, deliveriesFor]
  | op :: ops, c, h, n => by
    have hs := step_for c h n op
    have ih := run_for ops (c.step op) (WOK_step c h op) n
    simp only [Coll.run, List.foldl] at ih ⊢
    rw [ih, hs.1, hs.2]
    simp [deliveriesFor, List.append_assoc]

/-- operations that do not concern `n` are invisible at `n` -/
theorem stepFor_unconcerned (n : String) (w : Option Trace) (op : COp) (h : concerns n op = false) :
    stepFor n w op = (w, []) := by
  cases op <;> simp_all [concerns, stepFor]

theorem deliveriesFor_filter (n : String) : ∀ (ops : List COp) (w : Option Trace),
    deliveriesFor n w ops = deliveriesFor n w (ops.filter (concerns n))
  | [], _ => rfl
  | op :: ops, w => by
    by_cases hc : concerns n op = true
    · simp only [List.filter, hc, deliveriesFor]
      rw [deliveriesFor_filter n ops]
    · have hc' : concerns n op = false := by simpa using hc
      simp only [List.filter, hc', deliveriesFor, stepFor_unconcerned n w op hc', List.nil_append]
      exact deliveriesFor_filter n ops w

theorem deliveriesFor_append (n : String) : ∀ (a b : List COp) (w : Option Trace),
    deliveriesFor n w (a ++ b) = deliveriesFor n w a ++ deliveriesFor n (a.foldl (fun w op => (stepFor n w op).1) w) b
  | [], _, _ => by simp [deliveriesFor]
  | op :: a, b, w => by
    simp only [List.cons_append, deliveriesFor, List.foldl, List.append_assoc]
    rw [deliveriesFor_append n a b]

theorem held_unconcerned (n : String) : ∀ (a : List COp) (w : Option Trace), (∀ op ∈ a, concerns n op = false) →
    a.foldl (fun w op => (stepFor n w op).1) w = w ∧ deliveriesFor n w a = []
  | [], _, _ => ⟨rfl, rfl⟩
  | op :: a, w, h => by
    have h1 := stepFor_unconcerned n w op (h op (by simp))
    have ih := held_unconcerned n a w (fun o ho => h o (by simp [ho]))
    simp only [List.foldl, deliveriesFor, h1, List.nil_append]
    exact ih

/-! ### nothing is delivered more often than it was completed -/

def valuesCount (t : Trace) (w : List (String × Trace)) : Nat := (w.map (·.2)).count t

theorem valuesCount_dropName_le (t : Trace) (m : String) (w : List (String × Trace)) :
    valuesCount t (dropName m w) ≤ valuesCount t w := by
  induction w with
  | nil => simp [valuesCount, dropName]
  | cons p w ih =>
    simp only [valuesCount, dropName, List.filter] at ih ⊢
    split
    · simp only [List.map_cons, List.count_cons]; omega
    · simp only [List.map_cons, List.count_cons]; omega

theorem valuesCount_dropName_found (t : Trace) (m : String) (w : List (String × Trace)) (h : findName m w = some t) :
    valuesCount t (dropName m w) + 1 ≤ valuesCount t w := by
  induction w with
  | nil => simp [findName] at h
  | cons p w ih =>
    by_cases hm : p.1 = m
    · have hp : p.2 = t := by simpa [findName, hm] using h
      have := valuesCount_dropName_le t m w
      simp only [valuesCount, dropName, List.filter, hm, bne_self_eq_false, List.map_cons, List.count_cons, hp,
        beq_self_eq_true, if_true] at this ⊢
      omega
    · have hb : (p.1 != m) = true := by simp [hm]
      have h' : findName m w = some t := by simpa [findName, hm] using h
      have := ih h'
      simp only [valuesCount, dropName, List.filter, hb, List.map_cons, List.count_cons] at this ⊢
      omega

def completions (t : Trace) (ops : List COp) : Nat := ops.count (COp.complete t)

theorem count_step (c : Coll) (t : Trace) (op : COp) :
    (c.step op).out.count t + valuesCount t (c.step op).waiting ≤
      c.out.count t + valuesCount t c.waiting + (if op = COp.complete t then 1 else 0) := by
  cases op with
  | complete t' =>
    simp only [Coll.step, Coll.complete]
    by_cases hr : t'.err.retryable = true
    · simp only [hr, if_true]
      have := valuesCount_dropName_le t t'.name c.waiting
      by_cases ht : t' = t
      · subst ht; simp only [valuesCount, List.map_cons, List.count_cons, beq_self_eq_true, if_true] at this ⊢; omega
      · have : ¬ (COp.complete t' = COp.complete t) := by intro h; injection h with h; exact ht h
        have hb : (t' == t) = false := by simp [ht]
        simp only [valuesCount, List.map_cons, List.count_cons, hb, Bool.false_eq_true, if_false, this] at *
        omega
    · simp only [hr, Bool.false_eq_true, if_false]
      split
      · split <;> omega
      · by_cases ht : t' = t
        · subst ht; simp only [List.count_append, List.count_cons, List.count_nil, beq_self_eq_true, if_true]; omega
        · have : ¬ (COp.complete t' = COp.complete t) := by intro h; injection h with h; exact ht h
          have hb : (t' == t) = false := by simp [ht]
          simp only [List.count_append, List.count_cons, List.count_nil, hb, Bool.false_eq_true, if_false, this]
          omega
  | newAttempt n =>
    have := valuesCount_dropName_le t n c.waiting
    simp only [Coll.step, Coll.newAttempt, reduceCtorEq, if_false]; omega
  | timesUp n =>
    simp only [Coll.step, Coll.timesUp, reduceCtorEq, if_false]
    cases hw : findName n c.waiting with
    | none => simp
    | some t' =>
      simp only [List.count_append, List.count_cons, List.count_nil]
      by_cases ht : t' = t
      · subst ht
        have := valuesCount_dropName_found t' n c.waiting hw
        simp only [beq_self_eq_true, if_true]; omega
      · have hb : (t' == t) = false := by simp [ht]
        have := valuesCount_dropName_le t n c.waiting
        simp only [hb, Bool.false_eq_true, if_false]; omega
  | cancel =>
    simp only [Coll.step, Coll.cancel, reduceCtorEq, if_false, valuesCount, List.count_append, List.map_nil, List.count_nil]
    omega

theorem count_run : ∀ (ops : List COp) (c : Coll) (t : Trace),
    (c.run ops).out.count t + valuesCount t (c.run ops).waiting ≤
      c.out.count t + valuesCount t c.waiting + completions t ops
  | [], c, t => by simp [Coll.run, completions]
  | op :: ops, c, t => by
    have h1 := count_step c t op
    have ih := count_run ops (c.step op) t
    simp only [Coll.run, List.foldl, completions, List.count_cons] at ih ⊢
    by_cases ho : op = COp.complete t
    · subst ho
      simp only [if_true, beq_self_eq_true] at h1 ⊢; omega
    · have hb : (op == COp.complete t) = false := by simp [ho]
      simp only [ho, if_false, hb, Bool.false_eq_true] at h1 ⊢; omega

/-- what is held back for `n` after a run -/
theorem held_run : ∀ (ops : List COp) (c : Coll), WOK c.waiting → ∀ n,
    findName n (c.run ops).waiting = ops.foldl (fun w op => (stepFor n w op).1) (findName n c.waiting)
  | [], _, _, _ => rfl
  | op :: ops, c, h, n => by
    have hs := step_for c h n op
    have ih := held_run ops (c.step op) (WOK_step c h op) n
    simp only [Coll.run, List.foldl] at ih ⊢
    rw [ih, hs.2]

theorem run_append (c : Coll) (a b : List COp) : c.run (a ++ b) = (c.run a).run b := by
  simp [Coll.run, List.foldl_append]

theorem valuesCount_zero_of_not_held (t : Trace) : ∀ (w : List (String × Trace)), WOK w →
    findName t.name w = none → valuesCount t w = 0
  | [], _, _ => by simp [valuesCount]
  | p :: w, ⟨h1, h2, h3⟩, hf => by
    by_cases hn : p.1 = t.name
    · simp [findName, hn] at hf
    · have hf' : findName t.name w = none := by simpa [findName, hn] using hf
      have ih := valuesCount_zero_of_not_held t w h3 hf'
      have hne : ¬ p.2 = t := by intro h; apply hn; rw [h1, h]
      have hb : (p.2 == t) = false := by simp [hne]
      simp only [valuesCount, List.map_cons, List.count_cons, hb, Bool.false_eq_true, if_false] at ih ⊢
      omega

theorem not_mem_out_of_outFor (c : Coll) (t : Trace) (h : t ∉ c.outFor t.name) : c.out.count t = 0 := by
  apply List.count_eq_zero.mpr
  intro hm
  apply h
  simp [Coll.outFor, List.mem_filter, hm]

theorem deliveriesFor_cons (n : String) (w : Option Trace) (op : COp) (ops : List COp) :
    deliveriesFor n w (op :: ops) = (stepFor n w op).2 ++ deliveriesFor n (stepFor n w op).1 ops := rfl

theorem deliveriesFor_skip (n : String) (w : Option Trace) (mid rest : List COp)
    (hm : ∀ op ∈ mid, concerns n op = false) : deliveriesFor n w (mid ++ rest) = deliveriesFor n w rest := by
  have e := held_unconcerned n mid w hm
  rw [deliveriesFor_append, e.1, e.2, List.nil_append]

theorem held_skip (n : String) (w : Option Trace) (mid rest : List COp)
    (hm : ∀ op ∈ mid, concerns n op = false) :
    (mid ++ rest).foldl (fun w op => (stepFor n w op).1) w = rest.foldl (fun w op => (stepFor n w op).1) w := by
  rw [List.foldl_append, (held_unconcerned n mid w hm).1]

theorem stepFor_refused (n : String) (w : Option Trace) (t : Trace) (h : t.name = n) (hr : t.err.retryable = true) :
    stepFor n w (.complete t) = (some t, []) := by simp [stepFor, h, hr]

theorem stepFor_final (n : String) (t : Trace) (h : t.name = n) (hr : t.err.retryable = false) :
    stepFor n none (.complete t) = (none, [t]) := by simp [stepFor, h, hr]

theorem stepFor_newAttempt (n : String) (w : Option Trace) : stepFor n w (.newAttempt n) = (none, []) := by
  simp [stepFor]

theorem stepFor_timesUp (n : String) (w : Option Trace) : stepFor n w (.timesUp n) = (none, w.toList) := by
  simp [stepFor]

theorem stepFor_cancel (n : String) (w : Option Trace) : stepFor n w .cancel = (none, w.toList) := rfl

end ConfModel.H2
