/-
C04 — `results.go` once more, this time WITH the texts.

`Model/Report.lean` abstracts `actualFailure` to an enum.  What a peer reports is text: the message of
a client-reported error (`failed(name, err)`: `errors.New(err.Message)`), the feedback of a reference
peer (`recordSideband(name, msg)`; merged as `errors.New(msg)` or `fmt.Errorf("%s; %w", msg, old)`).
Texts are arbitrary strings — empty, blank, many lines, format verbs, very long.  This model keeps
them: `actualFailure` is `Option Err`, an error VALUE built the way the Go code builds it; `report`
looks at it the way the Go code does (`!= nil`, `errors.As(…, *couldNotRunError)`), never at a text.
`Props/C04.lean` shows that this model's report is the report of `Model/Report.lean` on the same
calls with the texts erased — for all texts (`report_message_irrelevant`).

Core Lean only.
-/
import ConfModel.Model.ReportScript
namespace ConfModel.ReportMsg
open ConfModel.Report ConfModel.RunVerdict

/-- where an error value without an inner error was made -/
inductive Origin where
  | assertion     -- `multiErrors.Result()` of a non-empty list in `assert`
  | clientError   -- `errors.New(err.Message)` in `failed`
  | other         -- any other `errors.New` / `fmt.Errorf` of the runner
  | feedback      -- `errors.New(msg)` in `processSidebandInfoLocked`
  deriving DecidableEq, Repr, Inhabited

/-- an error value: `errors.New(text)` is a value for EVERY text (also the empty one) -/
inductive Err where
  | leaf (o : Origin) (text : String)
  | couldNotRun (inner : Err)            -- `&couldNotRunError{inner}`
  | wrap (text : String) (inner : Err)   -- `fmt.Errorf("%s; %w", text, inner)`
  deriving Repr, Inhabited

/-- `errors.As(e, *couldNotRunError)`: walks the `Unwrap` chain -/
def Err.isCouldNotRun : Err → Bool
  | .leaf _ _ => false
  | .couldNotRun _ => true
  | .wrap _ inner => inner.isCouldNotRun

def originFail : Origin → Fail
  | .assertion => .assertion
  | .clientError => .clientError
  | .other => .other
  | .feedback => .feedback

/-- the text-free view of an error value (`Model/Report.lean`'s `Fail`): a wrapped error keeps the
class of what it wraps -/
def Err.erase : Err → Fail
  | .leaf o _ => originFail o
  | .couldNotRun _ => .couldNotRun
  | .wrap _ inner => inner.erase

/-- `testOutcome` with the error value -/
structure MOutcome where
  failure : Option Err
  setupError : Bool
  knownFailing : Bool
  knownFlaky : Bool
  deriving Repr, Inhabited

def eraseFailure : Option Err → Fail
  | none => .none
  | some e => e.erase

def MOutcome.erase (o : MOutcome) : Outcome :=
  { failure := eraseFailure o.failure, setupError := o.setupError, knownFailing := o.knownFailing, knownFlaky := o.knownFlaky }

abbrev MOutcomes := List (String × MOutcome)

/-- the same map with every value replaced by `f value` (keys and order untouched) -/
def mapVals {α β : Type} (f : α → β) (l : List (String × α)) : List (String × β) := l.map (fun e => (e.1, f e.2))

def eraseAll (os : MOutcomes) : Outcomes := mapVals MOutcome.erase os

/-- the sideband map with every text replaced by the one text `Model/ReportScript.lean` uses -/
def eraseSb (sb : Sideband) : Sideband := mapVals (fun _ => feedbackMsg) sb

/-- `setOutcomeLocked` -/
def setOutcome (mk : Marks) (os : MOutcomes) (n : String) (setup : Bool) (e : Option Err) : MOutcomes :=
  put os n { failure := e, setupError := setup, knownFailing := mk.failing n, knownFlaky := mk.flaky n }

def failedToStart (mk : Marks) (os : MOutcomes) (names : List String) (e : Err) : MOutcomes :=
  names.foldl (fun os n => setOutcome mk os n true (some e)) os

def failRemaining (mk : Marks) (os : MOutcomes) (names : List String) (e : Err) : MOutcomes :=
  names.foldl (fun os n => match get? os n with
    | some _ => os
    | none => setOutcome mk os n true (some e)) os

/-- one iteration of `processSidebandInfoLocked`, with the message -/
def mergeOne (mk : Marks) (os : MOutcomes) (n msg : String) : MOutcomes :=
  match get? os n with
  | some o => put os n { o with failure := match o.failure with
      | none => some (.leaf .feedback msg)
      | some e => some (.wrap msg e) }
  | none => setOutcome mk os n false (some (.leaf .feedback msg))

def processSideband (mk : Marks) (os : MOutcomes) (sb : Sideband) : MOutcomes :=
  sb.foldl (fun os e => mergeOne mk os e.1 e.2) os

/-- the `switch` of `report`, on the error value: `errors.As`, `!= nil`, the flags — no text -/
def classify (o : MOutcome) : Class :=
  let expectError := if o.setupError then false else o.knownFailing || (o.knownFlaky && o.failure.isSome)
  match o.failure with
  | some e =>
    if e.isCouldNotRun then .couldNotRun
    else if !expectError then .failed else .info
  | none => if expectError then .unexpectedPass else .succeeded

def count (c : Class) (os : MOutcomes) : Nat := os.countP (fun e => classify e.2 = c)

def namesOf (p : Class → Bool) (os : MOutcomes) : List String :=
  (os.filter (fun e => p (classify e.2))).map (·.1)

/-- `report` (the repaired one: `failed == 0 && couldNotRun == 0`) -/
def report (mk : Marks) (total : Nat) (os : MOutcomes) (sb : Sideband) : Report :=
  let os := processSideband mk os sb
  let failed := count .failed os + count .unexpectedPass os
  let couldNotRun := (total - os.length) + count .couldNotRun os
  { ok := failed == 0 && couldNotRun == 0
    totalCases := os.length
    succeeded := count .succeeded os
    failed := failed
    expectedFailures := count .info os
    couldNotRun := couldNotRun
    failedNames := namesOf isFailedClass os
    infoNames := namesOf isInfoClass os }

/-! ### the call script of `VerifC04Report`, with the texts the peers reported -/

structure MStep where
  s : Step
  /-- the message of the client-reported error (kind `clientErr`) -/
  errMsg : String
  /-- the feedback text of the reference peer -/
  fbMsg : String
  deriving Repr, Inhabited

def applyKind (mk : Marks) (os : MOutcomes) (c : Case) (errMsg : String) : MOutcomes :=
  match c.kind with
  | .pass => setOutcome mk os c.name false none
  | .assertFail => setOutcome mk os c.name false (some (.leaf .assertion "response #1: expecting data …"))
  | .clientErr => setOutcome mk os c.name false (some (.leaf .clientError errMsg))      -- `failed`
  | .setupErr => failedToStart mk os [c.name] (.leaf .other "error starting server: boom")
  | .couldNotRun => setOutcome mk os c.name true (some (.couldNotRun (.leaf .other "could not send request: client stdin is closed")))
  | .noResult => os
  | .missing => os

def stepOne (mk : Marks) (st : MOutcomes × Sideband) (m : MStep) : MOutcomes × Sideband :=
  let sb1 := if m.s.c.feedback && m.s.sbFirst then recordSideband st.2 m.s.c.name m.fbMsg else st.2
  let os1 := applyKind mk st.1 m.s.c m.errMsg
  let sb2 := if m.s.c.feedback && !m.s.sbFirst then recordSideband sb1 m.s.c.name m.fbMsg else sb1
  (os1, sb2)

def runSteps (mk : Marks) (steps : List MStep) : MOutcomes × Sideband :=
  let st := steps.foldl (stepOne mk) ([], [])
  let batch := ((steps.map (·.s)).filter (fun s => s.c.kind != .missing)).map (·.c.name)
  (failRemaining mk st.1 batch (.leaf .other "failed to get result from client: no outcome ever received"), st.2)

def scriptReport (total : Nat) (steps : List MStep) : Report :=
  let mk := marksOf (steps.map (·.s.c))
  let st := runSteps mk steps
  report mk total st.1 st.2

end ConfModel.ReportMsg
