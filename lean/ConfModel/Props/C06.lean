/-
C06 — Config expansion equals the declarative feature/include/exclude specification.
Property theorems only; helper lemmas live in `ConfModel.Lemmas.Config`.
All statements hold for every `Config`: every list of versions, protocols, codecs, compressions
and stream types (including duplicates and the proto zero values), every tri-state of the seven
support flags and any number of include/exclude entries with any fields omitted.
-/
import ConfModel.Lemmas.Config
namespace ConfModel.Props.C06
open ConfModel.Config

/-- Headline: the computed set is exactly  features ∪ includes ∖ excludes. -/
theorem parseConfig_mem_iff (cfg : Config) (f : Sup) (cs : List Case)
    (hf : resolveFeatures cfg.features = .ok f) (h : parseConfig cfg = .ok cs) (k : Case) :
    k ∈ cs ↔ ((InFeatures f k ∨ ∃ e ∈ cfg.includes, Matches f e k) ∧
              ¬ ∃ e ∈ cfg.excludes, Matches f e k) := by
  unfold parseConfig at h
  rw [hf] at h
  simp only at h
  split at h
  · exact absurd h (by simp)
  rename_i withInc hinc
  split at h
  · exact absurd h (by simp)
  rename_i cs' hexc
  split at h
  · exact absurd h (by simp)
  injection h with h; subst h
  rw [mem_removeExcludes f _ _ _ _ hexc k, mem_addIncludes f _ _ _ _ hinc k, mem_features]

/-- non-vacuity: a configuration with one include and one exclude entry -/
def exampleCfg : Config :=
  { features := { versions := [.v1], protocols := [.connect], codecs := [.proto], comps := [.identity],
                  sts := [.unary], h2c := none, tls := some false, certs := none, trailers := none,
                  halfH1 := none, get := some false, limit := some false },
    includes := [⟨.v2, .grpc, .unspec, .unspec, .unspec, none, none, none⟩],
    excludes := [⟨.v1, .unspec, .unspec, .unspec, .unspec, none, none, none⟩] }

example : (parseConfig exampleCfg).toOption.map List.length = some 1 := by decide
example : resolveFeatures exampleCfg.features = .ok (resolved exampleCfg.features) := by rfl
example : Specified (resolved exampleCfg.features) exampleCfg.includes exampleCfg.excludes
    ⟨.v2, .grpc, .proto, .identity, .unary, false, false, false, false, .unspec⟩ := by decide

/-- Every returned case is internally possible. -/
theorem parseConfig_possible (cfg : Config) (f : Sup) (cs : List Case)
    (hf : resolveFeatures cfg.features = .ok f) (h : parseConfig cfg = .ok cs) (k : Case)
    (hk : k ∈ cs) : Possible f k := by
  rcases ((parseConfig_mem_iff cfg f cs hf h k).1 hk).1 with h1 | ⟨e, _, h2⟩
  · exact h1.2.2.2.2.2.2.2.2.2
  · exact h2.2.2.2.2.2.2.2.2.2

section corollaries
variable (cfg : Config) (f : Sup) (cs : List Case)
  (hf : resolveFeatures cfg.features = .ok f) (h : parseConfig cfg = .ok cs) (k : Case) (hk : k ∈ cs)
include hf h hk

/-- gRPC only over HTTP/2 -/
theorem grpc_only_http2 : k.p = .grpc → k.v = .v2 := (parseConfig_possible cfg f cs hf h k hk).1
/-- HTTP/3 only with TLS -/
theorem http3_only_tls : k.v = .v3 → k.tls = true := (parseConfig_possible cfg f cs hf h k hk).2.1
/-- cleartext HTTP/2 only with H2C support -/
theorem cleartext_http2_only_h2c : k.v = .v2 → k.tls = false → f.h2c = true :=
  (parseConfig_possible cfg f cs hf h k hk).2.2.1
/-- client certificates only with TLS -/
theorem certs_only_tls : k.certs = true → k.tls = true := (parseConfig_possible cfg f cs hf h k hk).2.2.2.1
/-- no full-duplex over HTTP/1.1 -/
theorem no_full_duplex_http1 : k.s = .full → k.v ≠ .v1 := (parseConfig_possible cfg f cs hf h k hk).2.2.2.2.1
/-- half-duplex over HTTP/1.1 only if declared -/
theorem half_duplex_http1_declared : k.s = .half → k.v = .v1 → f.halfH1 = true :=
  (parseConfig_possible cfg f cs hf h k hk).2.2.2.2.2.1
/-- GET only with Connect (and only when supported) -/
theorem get_only_connect : k.get = true → k.p = .connect ∧ f.get = true :=
  (parseConfig_possible cfg f cs hf h k hk).2.2.2.2.2.2.1
/-- the connect-version mode of a parsed case is always unspecified -/
theorem cvm_unspecified : k.cvm = .unspec := by
  rcases ((parseConfig_mem_iff cfg f cs hf h k).1 hk).1 with h1 | ⟨e, _, h2⟩
  · exact h1.2.2.2.2.2.2.2.2.1
  · exact h2.2.2.2.2.2.2.2.2.1
end corollaries

end ConfModel.Props.C06
