package main

import (
	"encoding/json"
	"fmt"
	"os"
	"strings"

	cc "connectrpc.com/conformance/internal/app/connectconformance"
	"connectrpc.com/conformance/internal/verifharness/gen"
)

// Area c01: for each (config file, mode) of a C01 run, hands the Lean models of config expansion
// (C06) and suite expansion (C07) the embedded corpus and the config, and reports what the real
// library computes; the driver answers with the number of permutations the model predicts for
// that run, which c01.py compares with what the real runner computed and executed.
func init() {
	areas["c01"] = runC01
	gen.RegisterOp("c01", "count", func(_ *gen.Ctx, raw json.RawMessage) any {
		in := gen.Into[c01In](raw)
		lib := cc.VerifC07CorpusLibrary(in.Cases, in.Mode)
		return map[string]any{"err": lib.Err, "perms": len(lib.Perms), "allFT": len(lib.AllFT), "allTF": len(lib.AllTF)}
	})
}

type c01In struct {
	Config string             `json:"config"`
	Suites []cc.VerifC07Suite `json:"suites"`
	Cases  []int              `json:"cases"`
	Mode   int                `json:"mode"`
}

// runC01 reads the runs from C01_RUNS = "path:mode,path:mode,..." (mode 1 client, 2 server).
func runC01(c *gen.Ctx) error {
	suites, err := cc.VerifC07Corpus()
	if err != nil {
		return err
	}
	for _, item := range strings.Split(os.Getenv("C01_RUNS"), ",") {
		if item == "" {
			continue
		}
		i := strings.LastIndex(item, ":")
		path, mode := item[:i], 1
		fmt.Sscan(item[i+1:], &mode)
		data, err := os.ReadFile(path)
		if err != nil {
			return err
		}
		codes, class, raw := cc.VerifC06ParseConfig(data)
		if class != "" {
			return fmt.Errorf("c01: %s: %s %s", path, class, raw)
		}
		c.Do("count", c01In{Config: path, Suites: suites, Cases: codes, Mode: mode})
	}
	return nil
}
