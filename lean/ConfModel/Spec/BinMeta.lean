/-
Declarative side of the binary-metadata check of C13: which values are well-formed, and what
must be reported.
-/
import ConfModel.Model.BinMeta
namespace ConfModel.BinMetaSpec
open ConfModel.BinMeta
open ConfModel.ServerTimeout (Bytes)

/-- a character of the standard base64 alphabet -/
def inAlphabet (c : UInt8) : Bool := (Base64.decChar c).isSome

/-- the accepted language of a `-bin` value: standard alphabet only (CR / LF ignored), no padding,
and not a single left-over character -/
def unpaddedB64 (v : Bytes) : Bool :=
  let w := v.filter (fun c => !isCRLF c)
  w.all inAlphabet && w.length % 4 != 1

/-- … with the padding that `StdEncoding` writes: the same after `=` / `==` completes the last quantum -/
def paddedB64 (v : Bytes) : Bool :=
  let w := v.filter (fun c => !isCRLF c)
  w.length % 4 == 0 &&
  (match padBody w with
   | some body => body.all inAlphabet
   | none => false)

/-- all values of the examined entries -/
def examinedValues (md : List (Bytes × List Bytes)) : List Bytes :=
  (md.filter (fun e => examined e.1)).flatMap (·.2)

/-- the property on the output of `checkBinaryMetadata`: silent exactly when every examined value
is unpadded base64; a value that is neither unpadded nor padded base64 is reported as incorrectly
encoded; when there is none of those, every padded value draws a padding complaint -/
def binHolds (md : List (Bytes × List Bytes)) (fb : List BinFb) : Bool :=
  let vs := examinedValues md
  (fb.isEmpty == vs.all unpaddedB64) &&
  (!vs.any (fun v => !unpaddedB64 v && !paddedB64 v) || fb.contains .invalid) &&
  (vs.any (fun v => !unpaddedB64 v && !paddedB64 v) ||
    (fb.filter (· == .padded)).length == (vs.filter (fun v => !unpaddedB64 v)).length)

end ConfModel.BinMetaSpec
