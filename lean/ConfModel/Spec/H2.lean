/-
C15 — declarative side.

1. Frame level: what a direction's byte string *is* as a sequence of raw frames
   (`RawFrame.enc`, `specFrames`), for `reassembly_eq_frames`.
2. Retry collector: the per-test-name automaton `deliveriesFor`.
3. Stream level: the property's own reading of a frame sequence.  `wellFormed` says when
   traffic is well-formed; `expectFor` computes, from the *whole* sequence of wire events (no
   incremental state, no stream table), which trace the property promises for a test name:
   request line and headers, request/response messages = envelope parse of the concatenated
   DATA payloads, response status/headers/trailers, and the end or reset; `traceOK` compares
   an observed trace with it.  The driver evaluates these on the implementation's output.
-/
import ConfModel.Model.H2Conn
namespace ConfModel.H2

/-! ### 1. raw frames -/

structure RawFrame where
  typ : UInt8
  flags : UInt8
  sid : Bytes          -- 4 bytes
  payload : Bytes
deriving DecidableEq, Repr, Inhabited

def RawFrame.ok (f : RawFrame) : Prop := f.sid.length = 4 ∧ f.payload.length < 16777216

instance (f : RawFrame) : Decidable f.ok := by unfold RawFrame.ok; infer_instance

def RawFrame.header (f : RawFrame) : Bytes :=
  [UInt8.ofNat (f.payload.length / 65536), UInt8.ofNat (f.payload.length / 256 % 256), UInt8.ofNat (f.payload.length % 256),
   f.typ, f.flags] ++ f.sid

def RawFrame.enc (f : RawFrame) : Bytes := f.header ++ f.payload

/-- The frames a direction's traffic consists of, as handed to the frame decoder: header
blocks (HEADERS/CONTINUATION… up to END_HEADERS) are joined; decoding stops for good at the
first unit the decoder rejects (second component: did that happen). -/
def specFrames {σ : Type} (dec : Bytes → σ → Option (Frame × σ)) : Bytes → σ → List RawFrame → List Frame × Bool
  | _, _, [] => ([], false)
  | acc, hp, f :: fs =>
    if holdBlock f.typ.toNat f.flags.toNat then specFrames dec (acc ++ f.enc) hp fs
    else match dec (acc ++ f.enc) hp with
      | none => ([], true)
      | some (fr, hp') => (fr :: (specFrames dec [] hp' fs).1, (specFrames dec [] hp' fs).2)

/-! ### 2. retry collector, one test name at a time -/

/-- One operation of the collector as seen by test name `n`: `w` is the trace currently held
back for `n`; result: what is held back afterwards, what is delivered now. -/
def stepFor (n : String) (w : Option Trace) : COp → Option Trace × List Trace
  | .complete t =>
    if t.name == n then
      if t.err.retryable then (some t, [])           -- refused: hold it back, wait for a retry
      else match w with
        | some _ => (w, [])
        | none => (none, [t])
    else (w, [])
  | .newAttempt m => if m == n then (none, []) else (w, [])   -- the retry started: forget the refused attempt
  | .timesUp m => if m == n then (none, w.toList) else (w, [])
  | .cancel => (none, w.toList)

/-- Deliveries for test name `n`, given what is currently held back for `n`. -/
def deliveriesFor (n : String) (w : Option Trace) : List COp → List Trace
  | [] => []
  | op :: ops => (stepFor n w op).2 ++ deliveriesFor n (stepFor n w op).1 ops

/-- does the operation concern test name `n` at all -/
def concerns (n : String) : COp → Bool
  | .complete t => t.name == n
  | .newAttempt m => m == n
  | .timesUp m => m == n
  | .cancel => true

/-! ### 3. streams -/

/- `WEv` (what happens on the wire / to the connection, in the order the tracer gets to see it)
is defined with the model (`Model/H2Conn.lean`). -/

/-- a body as a sequence of enveloped messages (whole-string parse; the last one may be cut) -/
inductive Msg
  | data (env : Option Env) (len : Nat)
  | eos (content : Bytes)
deriving DecidableEq, Repr, Inhabited

def specMsgsAux (isReq : Bool) (dec : DecKind) : Nat → Bytes → List Msg
  | 0, _ => []
  | fuel+1, b =>
    if b.isEmpty then []
    else if b.length < 5 then [Msg.data none b.length]
    else
      let e : Env := { flags := (b.headD 0).toNat, len := be32 ((b.drop 1).take 4) }
      let rest := b.drop 5
      if rest.length < e.len then (if rest.isEmpty then [] else [Msg.data (some e) rest.length])
      else
        let body := rest.take e.len
        let eos := if !isReq && isEndFlag e.flags && e.len != 0 && !(dec.contentF e.flags body).isEmpty then [Msg.eos (dec.contentF e.flags body)] else []
        Msg.data (some e) e.len :: eos ++ specMsgsAux isReq dec fuel (rest.drop e.len)

/-- the complete messages only (a cut last message / a body of a non-enveloped protocol that
was never finished is not a message) -/
def completeMsgsAux (isReq : Bool) (dec : DecKind) : Nat → Bytes → List Msg
  | 0, _ => []
  | fuel+1, b =>
    if b.length < 5 then []
    else
      let e : Env := { flags := (b.headD 0).toNat, len := be32 ((b.drop 1).take 4) }
      let rest := b.drop 5
      if rest.length < e.len then []
      else
        let body := rest.take e.len
        let eos := if !isReq && isEndFlag e.flags && e.len != 0 && !(dec.contentF e.flags body).isEmpty then [Msg.eos (dec.contentF e.flags body)] else []
        Msg.data (some e) e.len :: eos ++ completeMsgsAux isReq dec fuel (rest.drop e.len)

def completeMsgs (c : DCfg) (body : Bytes) : List Msg :=
  if c.isStream then completeMsgsAux c.isReq c.dec (body.length + 1) body else []

/-- messages of a complete body with the given properties -/
def specMsgs (c : DCfg) (body : Bytes) : List Msg :=
  if c.isStream then specMsgsAux c.isReq c.dec (body.length + 1) body
  else if body.isEmpty then [] else [Msg.data none body.length]

/-- the message events of a trace, per direction, in order, without the index -/
def reqMsgsOf (evs : List OEv) : List Msg :=
  evs.filterMap (fun | .reqData e l _ => some (Msg.data e l) | _ => none)
def respMsgsOf (evs : List OEv) : List Msg :=
  evs.filterMap (fun | .respData e l _ => some (Msg.data e l) | .respEos c => some (Msg.eos c) | _ => none)
def reqIdxOf (evs : List OEv) : List Nat := evs.filterMap (fun | .reqData _ _ i => some i | _ => none)
def respIdxOf (evs : List OEv) : List Nat := evs.filterMap (fun | .respData _ _ i => some i | _ => none)

def OEv.isRespStart : OEv → Bool
  | .respStart _ => true
  | _ => false

/-- how a stream's life ended -/
inductive Ending
  | open                         -- not (yet) ended
  | done                         -- END_STREAM on the response
  | resetReq (code : Nat)        -- RST_STREAM sent by the client
  | resetResp (code : Nat)       -- RST_STREAM sent by the server
  | goaway (code : Nat)          -- GOAWAY with a last-stream-id below this stream
  | lost (err : Err)             -- connection lost / closed
deriving DecidableEq, Repr, Inhabited

/-- the property's view of one stream -/
structure Expect where
  id : Nat
  fields : Fields
  reqBody : Bytes := []
  reqEnded : Bool := false
  resp : Option Fields := none
  respBody : Bytes := []
  respTrailers : Option Fields := none
  ending : Ending := .open
  /-- a flush (timers / connection end) was seen after the stream ended -/
  flushedAfter : Bool := false
  /-- a retry (new stream with the same test name) started while this stream's trace was held back -/
  superseded : Bool := false
  /-- a malformed use of this stream was seen before it ended -/
  odd : Bool := false
deriving DecidableEq, Repr, Inhabited

def Expect.name (e : Expect) : String := getHeader e.fields testNameHeader

def Expect.isOpen (e : Expect) : Bool := e.ending == .open

def Ending.err (id : Nat) : Ending → Err
  | .open => .none
  | .done => .none
  | .resetReq c => .stream id c
  | .resetResp c => .stream id c
  | .goaway c => .conn c
  | .lost e => e

/-- the stream's trace is being held back for a possible retry -/
def Expect.held (e : Expect) : Bool :=
  !e.isOpen && (e.ending.err e.id).retryable && !e.flushedAfter && !e.superseded

/-- account for one wire event in the view of stream `e` -/
def Expect.see (e : Expect) : WEv → Expect
  | .frame isReq f =>
    if !e.isOpen then e else
    match f with
    | .headers id fields es =>
      if id != e.id then e else
      if isReq then
        let e1 := { e with odd := e.odd || e.reqEnded }
        if es then { e1 with reqEnded := true } else e1
      else
        let e1 := if e.resp.isNone then { e with resp := some fields } else { e with respTrailers := some fields }
        if es then { e1 with ending := .done } else e1
    | .data id payload es =>
      if id != e.id then e else
      if isReq then
        let e1 := { e with reqBody := e.reqBody ++ payload, odd := e.odd || e.reqEnded }
        if es then { e1 with reqEnded := true } else e1
      else
        let e1 := { e with respBody := e.respBody ++ payload, odd := e.odd || e.resp.isNone }
        if es then { e1 with ending := .done } else e1
    | .rst id code =>
      if id != e.id then e else
      if isReq then { e with ending := .resetReq code } else { e with ending := .resetResp code }
    | .goaway last code => if e.id > last then { e with ending := .goaway code } else e
    | .other => e
  | .lost err => if e.isOpen then { e with ending := .lost err } else { e with flushedAfter := true }
  | .timers => if e.isOpen then e else { e with flushedAfter := true }

/-- a new stream with test name `n` opens: earlier streams of that name must be held back
(then they are superseded) or already superseded; otherwise the name is used twice -/
def supersede (n : String) (acc : List Expect) : List Expect × Bool :=
  if n == "" then (acc, false) else
  (acc.map (fun x => if x.name == n && x.held then { x with superseded := true } else x),
   acc.any (fun x => x.name == n && !x.held && !x.superseded))

/-- the streams of a run, in the order they were opened: every request HEADERS for an id
that is not currently open starts one -/
def expects : List Expect → List WEv → List Expect
  | acc, [] => acc
  | acc, w :: ws =>
    let acc1 := acc.map (fun e => e.see w)
    match w with
    | .frame true (.headers id fields es) =>
      if acc.any (fun e => e.id == id && e.isOpen) then expects acc1 ws
      else
        let n := getHeader fields testNameHeader
        let r := supersede n acc1
        expects (r.1 ++ [{ id := id, fields := fields, reqEnded := es, odd := r.2 }]) ws
    | _ => expects acc1 ws

/-- the last event the property promises -/
def Expect.lastEv (isServer : Bool) (e : Expect) : OEv :=
  match e.ending with
  | .resetReq c => .reqEnd (.stream e.id c)
  | .lost err => if isServer then .respEnd err else .reqEnd err
  | en => .respEnd (en.err e.id)

def Expect.reqCfg (e : Expect) : DCfg := { isReq := true, isStream := (propsOf e.fields).1, dec := (propsOf e.fields).2 }
def Expect.respCfg (e : Expect) : DCfg :=
  match e.resp with
  | some f => { isReq := false, isStream := (propsOf f).1, dec := (propsOf f).2 }
  | none => { isReq := false, isStream := false, dec := .broken }

/-- The messages of a direction: the envelope parse of everything that was sent, including
the report of a cut last message; when the stream did not end regularly (reset, GOAWAY,
connection lost) the cut remainder need not be reported. -/
def msgsOK (en : Ending) (c : DCfg) (body : Bytes) (observed : List Msg) : Bool :=
  observed == specMsgs c body ||
  (match en with
   | .done => false
   | _ => observed == completeMsgs c body)

/-- **the property's predicate on one completed trace** -/
def traceOK (isServer : Bool) (e : Expect) (t : Obs) : Bool :=
  t.name == e.name
  -- request line and headers
  && t.method == getPseudo e.fields ":method" && t.scheme == getPseudo e.fields ":scheme"
  && t.authority == getPseudo e.fields ":authority"
  && (if t.query.isEmpty && !t.forceQuery then t.path else t.path ++ "?" ++ t.query) == getPseudo e.fields ":path"
  && t.headers == groupHeaders e.fields
  -- response status, headers, trailers
  && t.hasResp == e.resp.isSome
  && (match e.resp with
      | some f => t.status == statusOf f && t.respHeaders == groupHeaders f
                  && t.respTrailers == (match e.respTrailers with | some tr => groupHeaders tr | none => [])
      | none => true)
  && t.events.head? == some OEv.reqStart
  -- request and response messages, in order
  && msgsOK e.ending e.reqCfg e.reqBody (reqMsgsOf t.events)
  && reqIdxOf t.events == List.range (reqIdxOf t.events).length
  && msgsOK e.ending e.respCfg e.respBody (respMsgsOf t.events)
  && respIdxOf t.events == List.range (respIdxOf t.events).length
  -- its end or reset
  && t.events.getLast? == some (e.lastEv isServer)
  && t.err == e.ending.err e.id
  && (t.events.contains (OEv.reqEnd .none) == e.reqEnded)
  && (t.events.any OEv.isRespStart == e.resp.isSome)

/-- Is the stream's trace due to have been delivered?  (Not while the stream is open, not
while it is held back for a retry, never once superseded by a retry.) -/
def Expect.due (e : Expect) : Bool := !e.isOpen && !e.held && !e.superseded

def nodupNat : List Nat → Bool
  | [] => true
  | x :: xs => !xs.contains x && nodupNat xs

/-- a request HEADERS frame -/
def WEv.isReqHeaders : WEv → Bool
  | .frame true (.headers _ _ _) => true
  | _ => false

def noOpenAfterGoaway : List WEv → Bool
  | [] => true
  | .frame _ (.goaway _ _) :: ws => ws.all (fun w => !w.isReqHeaders)
  | _ :: ws => noOpenAfterGoaway ws

/-- Well-formed traffic, as far as the property needs it: per-stream order respected (no
request frames after the request's END_STREAM, no response DATA before response HEADERS;
frames for streams that are not open are ignorable), no stream id opened twice and no stream
opened after a GOAWAY, test names unique except for retry chains (the earlier attempt ended
with a retryable error and no flush came before the retry). -/
def wellFormed (ws : List WEv) : Bool :=
  let es := expects [] ws
  es.all (fun e => !e.odd) && nodupNat (es.map (·.id)) && noOpenAfterGoaway ws

/-- the connection ends with an error of the inner connection or with `Close` (never with a
stream / connection error of HTTP/2, which only frames produce) -/
def Err.isLoss : Err → Bool
  | .io _ => true
  | .closed _ => true
  | _ => false

def WEv.lossOK : WEv → Bool
  | .lost err => err.isLoss
  | _ => true

def lossesOK (ws : List WEv) : Bool := ws.all WEv.lossOK

/-- the bytes of one direction, over all calls -/
def readBytes : List Call → Bytes
  | [] => []
  | .read d _ :: cs => d ++ readBytes cs
  | _ :: cs => readBytes cs
def writeBytes : List Call → Bytes
  | [] => []
  | .write d _ _ :: cs => d ++ writeBytes cs
  | _ :: cs => writeBytes cs

/-- the frames of one direction among the wire events, in order -/
def dirFrames (isReq : Bool) : List WEv → List Frame
  | [] => []
  | .frame r f :: ws => if r = isReq then f :: dirFrames isReq ws else dirFrames isReq ws
  | _ :: ws => dirFrames isReq ws

/-- **The property's predicate on everything that was delivered**, for well-formed traffic
whose streams are `es` (= `expects [] ws`): every delivered trace carries the test name of
some stream, and for every test name the delivered traces are, one for one, the traces
promised (`traceOK`) for the streams of that name that are due (ended, not held back for a
retry, not superseded by a retry). -/
def deliveredOK (isServer : Bool) (es : List Expect) (delivered : List Obs) : Bool :=
  delivered.all (fun o => o.name != "" && es.any (fun e => e.name == o.name))
  && es.all (fun e => e.name == "" ||
      (let due := es.filter (fun x => x.name == e.name && x.due)
       let got := delivered.filter (fun o => o.name == e.name)
       got.length == due.length && (due.zip got).all (fun p => traceOK isServer p.1 p.2)))

end ConfModel.H2
