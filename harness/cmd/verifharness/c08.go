package main

import (
	"bytes"
	"encoding/json"
	"fmt"
	"os"
	"os/exec"
	"path/filepath"
	"sort"
	"strings"
	"sync/atomic"

	cc "connectrpc.com/conformance/internal/app/connectconformance"
	"connectrpc.com/conformance/internal/verifharness/gen"
)

func init() {
	areas["c08"] = runC08
	gen.RegisterOp("c08", "trie", func(_ *gen.Ctx, raw json.RawMessage) any {
		in := gen.Into[c08TrieIn](raw)
		return c08Trie(in.Pats, in.Names)
	})
	gen.RegisterOp("c08", "accept", func(_ *gen.Ctx, raw json.RawMessage) any {
		in := gen.Into[c08AcceptIn](raw)
		return cc.VerifAccept(in.Run, in.Skip, in.Names)
	})
	gen.RegisterOp("c08", "validate", func(c *gen.Ctx, raw json.RawMessage) any {
		in := gen.Into[c08ValidateIn](raw)
		var class string
		var list []string
		if in.Via == "Run" {
			// through the exported Run: the four lists travel in Flags, config and suites are files
			dir := filepath.Join(c.WorkDir, fmt.Sprintf("c08-%d-%d", os.Getpid(), c08Seq.Add(1)))
			os.MkdirAll(dir, 0o755)
			defer os.RemoveAll(dir)
			class, list, _ = cc.VerifValidateRun(dir, cc.VerifSimpleSuites(c08SuiteDef), c08Cfg, in.Failing, in.Flaky, in.Run, in.Skip)
		} else {
			_, class, list, _ = cc.VerifValidate(cc.VerifSimpleSuites(c08SuiteDef), c08Cfg, in.Failing, in.Flaky, in.Run, in.Skip)
		}
		c.E.Count("validate-class:" + strings.SplitN(class, ":", 2)[0])
		return c08ValidateOut{class, nn(list)}
	})
	// dispatch: the real Run with a recording client (the machinery of C05): which permutations are
	// actually handed out under --run/--skip patterns, including the gRPC-peer ones whose names
	// carry a marker
	gen.RegisterOp("c08", "dispatch", func(c *gen.Ctx, raw json.RawMessage) any {
		return c05Run(c, gen.Into[c05In](raw))
	})
	gen.RegisterOp("c08", "cli", func(c *gen.Ctx, raw json.RawMessage) any {
		return c08RunCLI(c, gen.Into[c08CliIn](raw))
	})
}

var c08SuiteDef = map[string][]string{"S": {"a/x", "a/y", "b/x"}, "T": {"a/x", "c"}}

type c08TrieIn struct {
	Pats  []string `json:"pats"`
	Names []string `json:"names"`
}
type c08TrieOut struct {
	Match     []bool   `json:"match"`
	Unmatched []string `json:"unmatched"`
	Len       int      `json:"len"`
	Panic     string   `json:"panic,omitempty"`
}

func c08Trie(pats, names []string) c08TrieOut {
	var out c08TrieOut
	out.Panic = gen.Recover(func() {
		t := cc.VerifNewTrie(pats)
		out.Match = make([]bool, len(names))
		for i, n := range names {
			out.Match[i] = t.Match(n)
		}
		out.Unmatched = t.Unmatched()
		out.Len = t.Len()
	})
	if out.Unmatched == nil {
		out.Unmatched = []string{}
	}
	return out
}

// all sequences over alphabet of length 1..maxLen joined with "/"
func c08Words(alphabet []string, maxLen int) []string {
	var out []string
	var rec func(prefix []string)
	rec = func(prefix []string) {
		if len(prefix) > 0 {
			out = append(out, strings.Join(prefix, "/"))
		}
		if len(prefix) == maxLen {
			return
		}
		for _, a := range alphabet {
			rec(append(append([]string{}, prefix...), a))
		}
	}
	rec(nil)
	return out
}

type c08AcceptIn struct {
	Run   []string `json:"run"`
	Skip  []string `json:"skip"`
	Names []string `json:"names"`
}

type c08ValidateIn struct {
	Failing []string `json:"failing"`
	Flaky   []string `json:"flaky"`
	Run     []string `json:"run"`
	Skip    []string `json:"skip"`
	Names   []string `json:"names"`
	Via     string   `json:"via,omitempty"` // "" = run() with tries built as Run builds them; "Run" = the exported Run with the lists in Flags
}

var c08Seq atomic.Int64

type c08ValidateOut struct {
	Class string   `json:"class"`
	List  []string `json:"list"`
}

type c08CliIn struct {
	Flag  string     `json:"flag"`
	Args  []string   `json:"args"`
	Files [][]string `json:"files"` // raw lines of file i (joined with \n)
}
type c08CliOut struct {
	Patterns []string `json:"patterns"`
	Err      string   `json:"err,omitempty"`
}

const c08Cfg = `features:
  versions: [HTTP_VERSION_1]
  protocols: [PROTOCOL_CONNECT]
  codecs: [CODEC_PROTO, CODEC_JSON]
  compressions: [COMPRESSION_IDENTITY]
  streamTypes: [STREAM_TYPE_UNARY]
  supportsTls: false
  supportsConnectGet: false
  supportsMessageReceiveLimit: false
`

func runC08(c *gen.Ctx) error {
	r := c.R
	e := c.E
	full := []string{"a", "b", "*", "**"}
	maxLen := 4
	if c.Thorough() {
		maxLen = 5
	}
	// (i.a) every single pattern up to maxLen against every name up to maxLen
	names := c08Words(full, maxLen)
	pats := c08Words(full, maxLen)
	for _, p := range pats {
		c.Do("trie", c08TrieIn{[]string{p}, names})
	}
	e.Add("trie-evaluations", len(pats)*len(names))
	// (i.b) every pair of patterns up to length 3 against names up to length 3 (4 in thorough),
	// once with all names (match verdicts) and once with a random subset (unmatched reporting)
	p3 := c08Words(full, 3)
	n3 := c08Words(full, 3)
	if c.Thorough() {
		n3 = c08Words(full, 4)
	}
	for i, p := range p3 {
		for j, q := range p3 {
			if j < i {
				continue
			}
			c.Do("trie", c08TrieIn{[]string{p, q}, n3})
			sub := subset(r, n3, r.Intn(4))
			c.Do("trie", c08TrieIn{[]string{p, q}, sub})
			e.Add("trie-evaluations", len(n3)+len(sub))
		}
	}
	// (i.c) random sets, longer names, empty components, literal components that look odd
	alpha := []string{"a", "b", "c", "*", "**", "", "x*", "***"}
	nRand := 3000
	if c.Thorough() {
		nRand = 60000
	}
	word := func(maxL int) string {
		n := r.Range(0, maxL)
		cs := make([]string, n)
		for i := range cs {
			if r.Chance(3, 4) {
				cs[i] = alpha[r.Intn(5)]
			} else {
				cs[i] = gen.Pick(r, alpha)
			}
		}
		return strings.Join(cs, "/")
	}
	for i := 0; i < nRand; i++ {
		ps := make([]string, r.Range(1, 6))
		for k := range ps {
			ps[k] = word(6)
		}
		ns := make([]string, r.Range(0, 8))
		for k := range ns {
			if r.Chance(1, 3) {
				// derive a name from a pattern so that matches are frequent
				ns[k] = instantiate(r, gen.Pick(r, ps))
			} else {
				ns[k] = word(8)
			}
		}
		c.Do("trie", c08TrieIn{ps, nn(ns)})
		e.Add("trie-evaluations", len(ns))
		if i%3 == 0 {
			run := ps[:r.Intn(len(ps)+1)]
			skip := ps[len(run):]
			if r.Chance(1, 4) {
				skip = nil
			}
			c.Do("accept", c08AcceptIn{nn(run), nn(skip), nn(ns)})
		}
	}
	// (ii) validation block of run()
	suiteDef := c08SuiteDef
	nVal := 150
	if c.Thorough() {
		nVal = 3000
	}
	var allNames []string
	{
		ns, class, _, raw := cc.VerifValidate(cc.VerifSimpleSuites(suiteDef), c08Cfg, nil, nil, nil, nil)
		if class != "ok" {
			return fmt.Errorf("c08 validate baseline: class %s: %s", class, raw)
		}
		allNames = ns
	}
	comps := map[string]bool{}
	for _, n := range allNames {
		for _, cpt := range strings.Split(n, "/") {
			comps[cpt] = true
		}
	}
	var compList []string
	for k := range comps {
		compList = append(compList, k)
	}
	sort.Strings(compList)
	patFrom := func() string {
		switch r.Intn(6) {
		case 0:
			return "zz/" + word(2) // almost surely unmatched
		case 1:
			return gen.Pick(r, allNames)
		default:
			// generalise a real name
			cs := strings.Split(gen.Pick(r, allNames), "/")
			var out []string
			for i := 0; i < len(cs); i++ {
				switch r.Intn(6) {
				case 0:
					out = append(out, "*")
				case 1:
					out = append(out, "**")
					i += r.Intn(3)
				case 2:
					out = append(out, "**", cs[i])
				default:
					out = append(out, cs[i])
				}
			}
			return strings.Join(out, "/")
		}
	}
	plist := func(max int) []string {
		n := r.Intn(max + 1)
		out := make([]string, n)
		for i := range out {
			out[i] = patFrom()
		}
		return out
	}
	for i := 0; i < nVal; i++ {
		c.Do("validate", c08ValidateIn{Failing: plist(2), Flaky: plist(2), Run: plist(2), Skip: plist(1), Names: allNames})
	}
	// (ii.a') the same block reached through the exported Run (lists in Flags): every way of giving ONE
	// pattern to a non-empty subset of the four kinds (the same spelling for several kinds, 15 x 4
	// patterns), every ordered pair of kinds with two spellings of one selection, then random lists in
	// which patterns are shared between kinds and repeated within a kind
	{
		var ins []any
		shared := []string{allNames[0], "**", "S/**", "**/a/x"}
		for _, p := range shared {
			for mask := 1; mask < 16; mask++ {
				in := c08ValidateIn{Names: allNames, Via: "Run"}
				if mask&1 != 0 {
					in.Failing = []string{p}
				}
				if mask&2 != 0 {
					in.Flaky = []string{p}
				}
				if mask&4 != 0 {
					in.Run = []string{p}
				}
				if mask&8 != 0 {
					in.Skip = []string{p}
				}
				ins = append(ins, in)
			}
		}
		nShared := 60
		if c.Thorough() {
			nShared = 1500
		}
		for i := 0; i < nShared; i++ {
			in := c08ValidateIn{Failing: plist(2), Flaky: plist(2), Run: plist(2), Skip: plist(1), Names: allNames, Via: "Run"}
			lists := []*[]string{&in.Failing, &in.Flaky, &in.Run, &in.Skip}
			for k := r.Intn(3); k >= 0; k-- {
				from, to := lists[r.Intn(4)], lists[r.Intn(4)]
				if len(*from) > 0 {
					*to = append(*to, gen.Pick(r, *from))
				} else {
					p := patFrom()
					*from = append(*from, p)
					*to = append(*to, p)
				}
			}
			ins = append(ins, in)
		}
		for _, in := range ins {
			e.Count("validate-via-Run")
			c.Do("validate", in)
		}
	}
	// (ii.b) patterns at work in the real dispatch loop
	{
		suites := []c05Suite{
			{Name: "P", Tests: []c05Test{{Name: "a/t0", St: 1}, {Name: "b/t1", St: 3}}},
			{Name: "Q", Tests: []c05Test{{Name: "a/t0", St: 2}}},
		}
		pats := [][2][]string{
			{{"**/(grpc server impl)/**"}, {}},
			{{}, {"**/(grpc server impl)/**"}},
			{{"P/**"}, {"**/(grpc server impl)/b/*"}},
			{{"**/TLS:false/a/t0"}, {}},
			{{"P/HTTPVersion:2/Protocol:PROTOCOL_GRPC/Codec:CODEC_PROTO/Compression:COMPRESSION_IDENTITY/TLS:false/a/t0"}, {}},
			{{"**/a/*", "Q/**"}, {"**/Protocol:PROTOCOL_CONNECT/**"}},
		}
		var ins []any
		for i, p := range pats {
			if !c.Thorough() && i >= 2 && i%2 == int(c.Seed%2) {
				continue
			}
			ins = append(ins, c05In{Mode: "client", MaxServers: 2, Versions: []int{1, 2}, Protos: []int{1, 2, 3}, Behaviour: "ok", Run: p[0], Skip: p[1], Suites: suites})
		}
		// the same spelling given to --run and to --skip: the skip pattern wins for what both select
		for _, p := range [][2][]string{{{"**/a/*", "Q/**"}, {"Q/**"}}, {{"P/**", "**/b/t1"}, {"**/b/t1"}}} {
			ins = append(ins, c05In{Mode: "client", MaxServers: 2, Versions: []int{1}, Protos: []int{1, 2}, Behaviour: "ok", Run: p[0], Skip: p[1], Suites: suites})
		}
		c.DoParallel("dispatch", ins, 3)
	}
	// (ii.c) the marks at work in testResults: any sequence of API calls, report()'s FAILED / INFO lines
	c08MarkedGen(c)
	// (iii) the real CLI, black box
	if c.BinDir != "" {
		if err := c08CLI(c); err != nil {
			return err
		}
	}
	return nil
}

func nn(s []string) []string {
	if s == nil {
		return []string{}
	}
	return s
}

func subset(r *gen.Rand, xs []string, n int) []string {
	out := make([]string, 0, n)
	for i := 0; i < n; i++ {
		out = append(out, gen.Pick(r, xs))
	}
	return out
}

// instantiate turns a pattern into a name it should match
func instantiate(r *gen.Rand, p string) string {
	var out []string
	for _, cpt := range strings.Split(p, "/") {
		switch cpt {
		case "*":
			out = append(out, gen.Pick(r, []string{"a", "b", "q"}))
		case "**":
			for k := r.Intn(3); k > 0; k-- {
				out = append(out, gen.Pick(r, []string{"a", "b", "q"}))
			}
		default:
			out = append(out, cpt)
		}
	}
	return strings.Join(out, "/")
}

var c08CliSeq atomic.Int64

// c08RunCLI runs the real connectconformance binary once, with the given arguments spread
// over repeated occurrences of one flag; "@k" stands for a file holding in.Files[k].
func c08RunCLI(c *gen.Ctx, in c08CliIn) c08CliOut {
	bin := filepath.Join(c.BinDir, "connectconformance")
	dir := filepath.Join(c.WorkDir, fmt.Sprintf("c08cli-%d-%d", os.Getpid(), c08CliSeq.Add(1)))
	if err := os.MkdirAll(dir, 0o755); err != nil {
		return c08CliOut{Patterns: []string{}, Err: err.Error()}
	}
	defer os.RemoveAll(dir)
	suite := `name: S
testCases:
- request:
    testName: a/x
    streamType: STREAM_TYPE_UNARY
`
	suitePath := filepath.Join(dir, "suite.yaml")
	cfgPath := filepath.Join(dir, "cfg.yaml")
	os.WriteFile(suitePath, []byte(suite), 0o644)
	os.WriteFile(cfgPath, []byte(c08Cfg), 0o644)
	args := []string{"--mode", "client", "--conf", cfgPath, "--test-file", suitePath}
	for _, a := range in.Args {
		v := a
		if strings.HasPrefix(a, "@") && a != "@" {
			var k int
			fmt.Sscanf(a, "@%d", &k)
			path := filepath.Join(dir, fmt.Sprintf("f%d.txt", k))
			if k < len(in.Files) {
				os.WriteFile(path, []byte(strings.Join(in.Files[k], "\n")), 0o644)
			}
			v = "@" + path
		}
		args = append(args, "--"+in.Flag, v)
	}
	args = append(args, "--", "/bin/true")
	cmd := exec.Command(bin, args...)
	var stderr bytes.Buffer
	cmd.Stderr = &stderr
	cmd.Stdout = &stderr
	cmd.Run()
	msg := stderr.String()
	const marker = "unmatched and possibly invalid patterns:\n"
	k := strings.Index(msg, marker)
	if k < 0 {
		return c08CliOut{Patterns: []string{}, Err: firstLine(msg)}
	}
	var ps []string
	for _, l := range strings.Split(msg[k+len(marker):], "\n") {
		if l != "" {
			ps = append(ps, l)
		}
	}
	return c08CliOut{Patterns: nn(ps)}
}

func c08CLI(c *gen.Ctx) error {
	r := c.R
	flags := []string{"known-failing", "known-flaky", "run", "skip"}
	var jobs []any
	// a pattern is an arbitrary string: whatever characters it holds (separators of other
	// syntaxes, quotes, format verbs, shell metacharacters), it is the pattern, whole and unsplit,
	// whether it came from the command line or from a file
	decos := []string{",x", ",zz/y/**", ", w", "\"q\"", "\"", "'s'", " sp ace", "=v", "\\b", "%d%s", ";z", "[1,2]", "$HOME", "{a,b}", "|c", "&d", "\tt", "<e>", "`f`", "(g)", "!h", "~i", "é/ü", ",", ",,"}
	deco := func(p string) string {
		if r.Chance(1, 2) {
			return p
		}
		p += gen.Pick(r, decos)
		if r.Chance(1, 4) {
			p += "/" + gen.Pick(r, []string{"*", "**", "t"}) + gen.Pick(r, decos)
		}
		return p
	}
	mk := func(flag string, shape []int, id int) c08CliIn {
		// shape[i] = 0: plain pattern, k>0: a file with k entries (plus noise lines)
		var in c08CliIn
		in.Flag = flag
		cnt := 0
		for _, s := range shape {
			if s == 0 {
				in.Args = append(in.Args, deco(fmt.Sprintf("zz%d/p%d", id, cnt)))
				cnt++
				continue
			}
			var lines []string
			for k := 0; k < s; k++ {
				p := deco(fmt.Sprintf("zz%d/p%d", id, cnt))
				cnt++
				switch r.Intn(4) {
				case 0:
					p = "  " + p + " \t"
				case 1:
					p = p + "\r"
				}
				lines = append(lines, p)
				if r.Chance(1, 3) {
					lines = append(lines, gen.Pick(r, []string{"", "# comment", "   ", "#zz/commented", " \t# indented comment"}))
				}
			}
			if r.Chance(1, 2) {
				lines = append(lines, "") // trailing newline
			}
			in.Args = append(in.Args, fmt.Sprintf("@%d", len(in.Files)))
			in.Files = append(in.Files, lines)
		}
		if in.Files == nil {
			in.Files = [][]string{}
		}
		return in
	}
	id := 0
	// all shapes of up to 3 arguments over {plain, file(1), file(2)}, flags in rotation
	var shapes [][]int
	var rec func(cur []int)
	rec = func(cur []int) {
		if len(cur) > 0 {
			shapes = append(shapes, append([]int{}, cur...))
		}
		if len(cur) == 3 {
			return
		}
		for _, s := range []int{0, 1, 2} {
			rec(append(cur, s))
		}
	}
	rec(nil)
	for _, sh := range shapes {
		flag := flags[id%len(flags)]
		if !c.Thorough() && id%2 == 1 && len(sh) == 3 {
			id++
			continue
		}
		jobs = append(jobs, mk(flag, sh, id))
		id++
	}
	if c.Thorough() {
		for i := 0; i < 300; i++ {
			sh := make([]int, r.Range(1, 5))
			for k := range sh {
				sh[k] = r.Intn(4)
			}
			jobs = append(jobs, mk(gen.Pick(r, flags), sh, id))
			id++
		}
	}
	// a file line may be of any length (64 KiB, the default token limit of line scanners, is no
	// limit of the format): a long comment or a long pattern followed by further patterns
	for _, n := range []int{65535, 65536, 70000, 200000} {
		for _, comment := range []bool{true, false} {
			j := mk(flags[id%len(flags)], []int{2, 0}, id)
			long := strings.Repeat("y", n)
			if comment {
				long = "#" + long[1:]
			} else {
				long = fmt.Sprintf("zz%d/long/", id) + long
			}
			lines := append([]string{j.Files[0][0], long}, j.Files[0][1:]...)
			j.Files[0] = lines
			jobs = append(jobs, j)
			id++
			if !c.Thorough() && n == 65535 {
				break
			}
		}
	}
	// also: empty files around a plain pattern
	{
		j := mk("known-failing", []int{0}, id)
		j.Args = append([]string{"@0"}, append(j.Args, "@1")...)
		j.Files = [][]string{{}, {}}
		jobs = append(jobs, j)
	}
	// a pattern file that does not exist ("@k" beyond the files given), alone, before, between and
	// after other arguments: the command must refuse to run
	for i, flag := range flags {
		jobs = append(jobs,
			c08CliIn{Flag: flag, Args: []string{"@5"}, Files: [][]string{}},
			c08CliIn{Flag: flag, Args: []string{fmt.Sprintf("zz9%d/p0", i), "@5"}, Files: [][]string{}},
			c08CliIn{Flag: flag, Args: []string{"@0", "@5", fmt.Sprintf("zz9%d/p1", i)}, Files: [][]string{{fmt.Sprintf("zz9%d/f0", i)}}})
		c.E.Count("cli:missing-file")
	}
	c.DoParallel("cli", jobs, 8)
	return nil
}

func firstLine(s string) string {
	if i := strings.IndexByte(s, '\n'); i >= 0 {
		return s[:i]
	}
	return s
}
