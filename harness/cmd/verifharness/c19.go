package main

// C19 — size-limit requests padded to exactly limit+delta. The real expandRequestData is run
// on real request messages of all five request types.

import (
	"encoding/json"
	"strings"

	cc "connectrpc.com/conformance/internal/app/connectconformance"
	conformancev1 "connectrpc.com/conformance/internal/gen/proto/go/connectrpc/conformance/v1"
	"connectrpc.com/conformance/internal/verifharness/gen"
	"google.golang.org/protobuf/proto"
	"google.golang.org/protobuf/reflect/protoreflect"
	"google.golang.org/protobuf/types/known/anypb"
)

func init() {
	areas["c19"] = runC19
	gen.RegisterOp("c19", "expand", func(c *gen.Ctx, raw json.RawMessage) any {
		in := gen.Into[c19In](raw)
		out := c19Expand(in)
		c.E.Count("expand:" + out.Class)
		return out
	})
}

type c19Msg struct {
	Type    int    `json:"type"`    // 0 unary, 1 idempotent unary, 2 server stream, 3 client stream, 4 bidi
	DefSeed uint64 `json:"defSeed"` // seed of the response definition
	DefSize int    `json:"defSize"` // rough size of the response definition (0: none)
	L0      int    `json:"l0"`      // length of request_data before
	Off     *int64 `json:"off"`     // size_relative_to_limit; null: directive without a size
}

type c19In struct {
	Msgs []c19Msg `json:"msgs"`
	// number of directives: len(msgs) + Extra (Extra < 0: fewer directives than messages,
	// the trailing messages have none; Extra > 0: more directives than messages)
	Extra int `json:"extra"`
}

type c19MsgOut struct {
	R         int  `json:"r"`         // proto.Size of the message without request_data, before
	L0        int  `json:"l0"`        // len(request_data) before
	Size      int  `json:"size"`      // proto.Size after
	L         int  `json:"l"`         // len(request_data) after
	Others    bool `json:"others"`    // every other field equal to before (and the Any's type)
	Unchanged bool `json:"unchanged"` // the Any is byte-for-byte what it was
	ZeroPad   bool `json:"zeroPad"`   // data = a prefix of the old data + zero bytes
}

type c19Out struct {
	Limit int64 `json:"limit"`
	// ok | range | cantPad | count | other | panic
	Class     string      `json:"class"`
	Msgs      []c19MsgOut `json:"msgs"`
	RestEqual bool        `json:"restEqual"` // the test case apart from the request messages is unchanged
}

var c19Types = []func() proto.Message{
	func() proto.Message { return &conformancev1.UnaryRequest{} },
	func() proto.Message { return &conformancev1.IdempotentUnaryRequest{} },
	func() proto.Message { return &conformancev1.ServerStreamRequest{} },
	func() proto.Message { return &conformancev1.ClientStreamRequest{} },
	func() proto.Message { return &conformancev1.BidiStreamRequest{} },
}

func c19Headers(r *gen.Rand, budget int) []*conformancev1.Header {
	var hs []*conformancev1.Header
	for budget > 0 {
		n := r.Range(1, 40)
		hs = append(hs, &conformancev1.Header{Name: "x-" + c09Word(r, r.Range(1, 8)), Value: []string{c09Word(r, n)}})
		budget -= n + 12
	}
	return hs
}

func c19UnaryDef(r *gen.Rand, size int) *conformancev1.UnaryResponseDefinition {
	if size == 0 {
		return nil
	}
	d := &conformancev1.UnaryResponseDefinition{}
	switch r.Intn(3) {
	case 0:
		d.Response = &conformancev1.UnaryResponseDefinition_ResponseData{ResponseData: r.Bytes(size)}
	case 1:
		d.Response = &conformancev1.UnaryResponseDefinition_Error{Error: &conformancev1.Error{Code: conformancev1.Code(r.Range(1, 16)), Message: proto.String(c09Word(r, size))}}
	default:
		d.ResponseHeaders = c19Headers(r, size/2)
		d.ResponseTrailers = c19Headers(r, size/2)
		d.Response = &conformancev1.UnaryResponseDefinition_ResponseData{ResponseData: r.Bytes(r.Intn(20))}
	}
	if r.Chance(1, 3) {
		d.ResponseDelayMs = uint32(r.Intn(100000))
	}
	return d
}

func c19StreamDef(r *gen.Rand, size int) *conformancev1.StreamResponseDefinition {
	if size == 0 {
		return nil
	}
	d := &conformancev1.StreamResponseDefinition{}
	for left := size; left > 0; {
		n := r.Range(1, size)
		d.ResponseData = append(d.ResponseData, r.Bytes(n))
		left -= n
	}
	if r.Chance(1, 3) {
		d.ResponseHeaders = c19Headers(r, 40)
	}
	if r.Chance(1, 3) {
		d.Error = &conformancev1.Error{Code: conformancev1.Code(r.Range(1, 16))}
	}
	if r.Chance(1, 3) {
		d.ResponseDelayMs = uint32(r.Intn(5000))
	}
	return d
}

func c19Build(m c19Msg) proto.Message {
	r := gen.NewRand(m.DefSeed)
	var data []byte
	if m.L0 > 0 {
		data = r.Bytes(m.L0)
		// keep the tail non-zero so that "old data + zero padding" is observable
		data[len(data)-1] |= 1
	}
	switch m.Type {
	case 0:
		return &conformancev1.UnaryRequest{ResponseDefinition: c19UnaryDef(r, m.DefSize), RequestData: data}
	case 1:
		return &conformancev1.IdempotentUnaryRequest{ResponseDefinition: c19UnaryDef(r, m.DefSize), RequestData: data}
	case 2:
		return &conformancev1.ServerStreamRequest{ResponseDefinition: c19StreamDef(r, m.DefSize), RequestData: data}
	case 3:
		return &conformancev1.ClientStreamRequest{ResponseDefinition: c19UnaryDef(r, m.DefSize), RequestData: data}
	default:
		return &conformancev1.BidiStreamRequest{ResponseDefinition: c19StreamDef(r, m.DefSize), FullDuplex: r.Bool(), RequestData: data}
	}
}

func c19Data(m proto.Message) []byte {
	f := m.ProtoReflect().Descriptor().Fields().ByName("request_data")
	return m.ProtoReflect().Get(f).Bytes()
}

func c19WithoutData(m proto.Message) proto.Message {
	c := proto.Clone(m)
	f := c.ProtoReflect().Descriptor().Fields().ByName("request_data")
	c.ProtoReflect().Clear(f)
	return c
}

func c19Expand(in c19In) c19Out {
	out := c19Out{Limit: cc.VerifC19ServerReceiveLimit(), Msgs: []c19MsgOut{}}
	tc := &conformancev1.TestCase{Request: &conformancev1.ClientCompatRequest{TestName: "verif/c19", StreamType: conformancev1.StreamType_STREAM_TYPE_CLIENT_STREAM}}
	before := make([]proto.Message, len(in.Msgs))
	for i, m := range in.Msgs {
		before[i] = c19Build(m)
		a, err := anypb.New(before[i])
		if err != nil {
			panic(err)
		}
		tc.Request.RequestMessages = append(tc.Request.RequestMessages, a)
	}
	nDir := len(in.Msgs) + in.Extra
	for i := 0; i < nDir; i++ {
		d := &conformancev1.TestCase_ExpandedSize{}
		if i < len(in.Msgs) {
			if in.Msgs[i].Off != nil {
				d.SizeRelativeToLimit = proto.Int32(int32(*in.Msgs[i].Off))
			}
		} else {
			d.SizeRelativeToLimit = proto.Int32(0)
		}
		tc.ExpandRequests = append(tc.ExpandRequests, d)
	}
	orig := proto.Clone(tc).(*conformancev1.TestCase)
	var err error
	if p := gen.Recover(func() { err = cc.VerifC19ExpandRequestData(tc) }); p != "" {
		out.Class = "panic"
		return out
	}
	switch {
	case err == nil:
		out.Class = "ok"
	case strings.Contains(err.Error(), "results in an invalid request size"):
		out.Class = "range"
	case strings.Contains(err.Error(), "can't pad to exactly"):
		out.Class = "cantPad"
	case strings.Contains(err.Error(), "expand directives indicate"):
		out.Class = "count"
	default:
		out.Class = "other"
	}
	for i, a := range tc.Request.RequestMessages {
		after, uerr := a.UnmarshalNew()
		if uerr != nil {
			panic(uerr)
		}
		o := c19MsgOut{
			R:         proto.Size(c19WithoutData(before[i])),
			L0:        len(c19Data(before[i])),
			Size:      proto.Size(after),
			L:         len(c19Data(after)),
			Others:    a.TypeUrl == orig.Request.RequestMessages[i].TypeUrl && proto.Equal(c19WithoutData(before[i]), c19WithoutData(after)),
			Unchanged: proto.Equal(a, orig.Request.RequestMessages[i]) && string(a.Value) == string(orig.Request.RequestMessages[i].Value),
		}
		od, nd := c19Data(before[i]), c19Data(after)
		// a common prefix with the old data, then only zero bytes
		k := 0
		for k < len(nd) && k < len(od) && nd[k] == od[k] {
			k++
		}
		o.ZeroPad = true
		for _, x := range nd[k:] {
			o.ZeroPad = o.ZeroPad && x == 0
		}
		out.Msgs = append(out.Msgs, o)
	}
	// the rest of the test case
	tc.Request.RequestMessages, orig.Request.RequestMessages = nil, nil
	out.RestEqual = proto.Equal(tc, orig)
	return out
}

var _ protoreflect.Message

func runC19(c *gen.Ctx) error {
	r := c.R
	c19SrvGen(c)
	c19SharpGen(c)
	c19SuiteGen(c)
	limit := cc.VerifC19ServerReceiveLimit()
	one := func(m c19Msg, off int64) {
		m.Off = &off
		c.Do("expand", c19In{Msgs: []c19Msg{m}})
	}
	probeR := func(m c19Msg) int64 { return int64(proto.Size(c19WithoutData(c19Build(m)))) }
	l0s := []int{0, 0, 1, 127, 128, 16383, 16384}
	mk := func(typ int) c19Msg {
		m := c19Msg{Type: typ, DefSeed: r.Uint64() >> 16, L0: gen.Pick(r, l0s)}
		switch r.Intn(5) {
		case 0:
			m.DefSize = 0
		case 1:
			m.DefSize = r.Range(1, 30)
		case 2:
			m.DefSize = r.Range(100, 300)
		case 3:
			m.DefSize = r.Range(10000, 70000)
		default:
			m.DefSize = 20
		}
		if r.Chance(1, 4) {
			m.L0 = r.Range(0, 70000)
		}
		return m
	}
	// (A) the window [-400, 400] around the limit, all five types
	reps := 2
	if c.Thorough() {
		reps = 6
	}
	for rep := 0; rep < reps; rep++ {
		for typ := 0; typ < 5; typ++ {
			m := mk(typ)
			step := int64(1)
			if !c.Thorough() && typ%2 == 1 {
				step = 3
			}
			for off := int64(-400); off <= 400; off += step {
				one(m, off)
			}
			c.E.Count("window")
		}
	}
	// (B) around -limit: targets from below zero up to a little above the unpadded size
	nB := 6
	if c.Thorough() {
		nB = 40
	}
	for i := 0; i < nB; i++ {
		m := mk(i % 5)
		if i%2 == 0 {
			m.DefSize = r.Range(0, 60)
			m.L0 = gen.Pick(r, []int{0, 0, 1, 5, 127, 128, 300})
		}
		R := probeR(m)
		for t := int64(-6); t <= 12; t++ {
			one(m, t-limit)
		}
		for t := R - 8; t <= R+int64(m.L0)+12; t++ {
			if t-R > 40 && t < R+int64(m.L0)-12 && !c.Thorough() && (t-R)%97 != 0 {
				continue
			}
			one(m, t-limit)
		}
		c.E.Count("around-minus-limit")
	}
	// (C) around each varint boundary of the padding length: 2^7, 2^14, 2^21 (and 2^28 once in thorough)
	bounds := []int64{1 << 7, 1 << 14, 1 << 21}
	nC := 2
	if c.Thorough() {
		nC = 8
	}
	for i := 0; i < nC; i++ {
		for _, b := range bounds {
			m := mk(r.Intn(5))
			if m.DefSize > 1000 {
				m.DefSize = 25
			}
			if b == 1<<21 && m.L0 > 20000 {
				m.L0 = 0
			}
			R := probeR(m)
			w := int64(9)
			if b == 1<<21 && !c.Thorough() {
				w = 5
			}
			for d := -w; d <= w; d++ {
				one(m, R+b+d-limit)
			}
			c.E.Count("varint-boundary")
		}
	}
	if c.Thorough() {
		m := c19Msg{Type: 0, DefSeed: 7, DefSize: 10, L0: 0}
		R := probeR(m)
		for d := int64(0); d <= 6; d++ {
			one(m, R+(1<<28)+d-limit)
		}
	}
	// (D) edges of the int32 offset and of the range check
	{
		m := mk(0)
		for _, off := range []int64{-1 << 31, -1<<31 + 1, -limit - 1, -limit, -limit + 1, -1 << 20} {
			one(m, off)
		}
		// the empty request (R = 0, no data): target 0 is reachable, 1 and 2 are not
		empty := c19Msg{Type: 3, DefSeed: 1, DefSize: 0, L0: 0}
		for t := int64(-2); t <= 6; t++ {
			one(empty, t-limit)
		}
		c.E.Count("edges")
	}
	// (E) several messages, absent sizes, fewer and more directives than messages
	nE := 600
	if c.Thorough() {
		nE = 6000
	}
	for i := 0; i < nE; i++ {
		n := r.Range(1, 3)
		in := c19In{}
		for k := 0; k < n; k++ {
			m := mk(r.Intn(5))
			if m.DefSize > 1000 {
				m.DefSize = 30
			}
			switch r.Intn(6) {
			case 0:
				m.Off = nil
			case 1:
				off := probeR(m) - limit + int64(r.Range(-3, 3)) // tiny target: error or no padding
				m.Off = &off
			default:
				off := int64(r.Range(-300, 300))
				m.Off = &off
			}
			in.Msgs = append(in.Msgs, m)
		}
		switch r.Intn(8) {
		case 0:
			in.Extra = 1
		case 1:
			in.Extra = -r.Range(1, n)
		}
		c.Do("expand", in)
	}
	// (F) random offsets in a wide range, random contents
	nF := 4000
	if c.Thorough() {
		nF = 60000
	}
	for i := 0; i < nF; i++ {
		m := mk(r.Intn(5))
		var off int64
		switch r.Intn(4) {
		case 0:
			off = int64(r.Range(-int(limit)-100, 1000))
		case 1:
			off = int64(r.Range(-2000, 70000))
		default:
			off = probeR(m) + int64(m.L0) + int64(r.Range(-200, 200)) - limit
		}
		one(m, off)
	}
	return nil
}
