package main

import (
	"bytes"
	"encoding/json"
	"io"
	"strings"

	"connectrpc.com/conformance/internal"
	conformancev1 "connectrpc.com/conformance/internal/gen/proto/go/connectrpc/conformance/v1"
	"connectrpc.com/conformance/internal/verifharness/gen"
	"google.golang.org/protobuf/proto"
)

// C09 op "session": a LONG session through ONE stream decoder, the way the peers read their stdin
// (one decoder for everything): tens of MiB built from a few large messages repeated, generated on
// the fly through an io.Pipe by the real encoder of the same variant (binary or JSON), with message
// boundaries placed exactly at and around 16 MiB and 32 MiB. Every message must come back, then a
// clean end of input.
type c09SessionSeg struct {
	N   int `json:"n"`   // copies
	Len int `json:"len"` // length of the value of the header {"k", "aaa…"}
}
type c09SessionIn struct {
	JSON bool            `json:"json"`
	Plan []c09SessionSeg `json:"plan"`
}
type c09SessionOut struct {
	Sent     int     `json:"sent"`
	Got      int     `json:"got"`      // messages that came back equal to what was written, in order
	FirstBad int     `json:"firstBad"` // index of the first message that came back different (-1: none)
	Last     string  `json:"last"`     // how the reading ended: eof | unexpectedEOF | other | more (another message)
	Bytes    int64   `json:"bytes"`    // length of the stream
	Marks    []int64 `json:"marks"`    // offset of the message boundary after each segment
}

func init() {
	gen.RegisterOp("c09", "session", func(_ *gen.Ctx, raw json.RawMessage) any {
		return c09Session(gen.Into[c09SessionIn](raw))
	})
}

func c09SessionMsg(l int) *conformancev1.Header {
	return &conformancev1.Header{Name: "k", Value: []string{strings.Repeat("a", l)}}
}

func c09SessionFrame(isJSON bool, l int) []byte {
	var buf bytes.Buffer
	if err := internal.NewCodec(isJSON).NewEncoder(&buf).Encode(c09SessionMsg(l)); err != nil {
		panic(err)
	}
	return buf.Bytes()
}

func c09Session(in c09SessionIn) c09SessionOut {
	out := c09SessionOut{FirstBad: -1, Marks: []int64{}}
	pr, pw := io.Pipe()
	frames := make([][]byte, len(in.Plan))
	for i, seg := range in.Plan {
		frames[i] = c09SessionFrame(in.JSON, seg.Len)
		out.Sent += seg.N
		out.Bytes += int64(seg.N) * int64(len(frames[i]))
		out.Marks = append(out.Marks, out.Bytes)
	}
	go func() {
		for i, seg := range in.Plan {
			for k := 0; k < seg.N; k++ {
				if _, err := pw.Write(frames[i]); err != nil {
					return
				}
			}
		}
		_ = pw.Close()
	}()
	dec := internal.NewCodec(in.JSON).NewDecoder(pr)
	idx := 0
	for _, seg := range in.Plan {
		want := c09SessionMsg(seg.Len)
		for k := 0; k < seg.N; k++ {
			var h conformancev1.Header
			if err := dec.DecodeNext(&h); err != nil {
				out.Last = c09Classify(err).Err
				_ = pr.Close()
				return out
			}
			if out.FirstBad < 0 && !proto.Equal(&h, want) {
				out.FirstBad = idx
			}
			if out.FirstBad < 0 {
				out.Got++
			}
			idx++
		}
	}
	var h conformancev1.Header
	if err := dec.DecodeNext(&h); err != nil {
		out.Last = c09Classify(err).Err
	} else {
		out.Last = "more"
	}
	_ = pr.Close()
	return out
}

// c09SessionFill finds a value length whose frame has exactly want bytes (0 if there is none).
func c09SessionFill(isJSON bool, want int) int {
	base := len(c09SessionFrame(isJSON, 0))
	for l := want - base - 8; l <= want-base+8; l++ {
		if l >= 0 && len(c09SessionFrame(isJSON, l)) == want {
			return l
		}
	}
	return -1
}

func c09SessionGen(c *gen.Ctx) {
	const MiB = 1 << 20
	var ins []any
	add := func(kind string, in c09SessionIn) {
		c.E.Count("session:" + kind)
		ins = append(ins, in)
	}
	volumes := []int{17, 33}
	if c.Thorough() {
		volumes = []int{15, 17, 33, 70}
	}
	for _, isJSON := range []bool{true, false} {
		for _, v := range volumes {
			add("volume", c09SessionIn{JSON: isJSON, Plan: []c09SessionSeg{{N: v, Len: MiB - 64}, {N: 3, Len: 5}, {N: 1, Len: 0}}})
		}
		// a message boundary exactly at, one byte before and one byte after 16 MiB and 32 MiB,
		// followed by more messages
		targets := []int{16 * MiB}
		deltas := []int{-1, 0, 1}
		if c.Thorough() || isJSON {
			targets = append(targets, 32*MiB)
		}
		for _, t := range targets {
			for _, d := range deltas {
				if t == 32*MiB && d != 0 && !c.Thorough() {
					continue
				}
				big := 3*MiB + 17
				bigFrame := len(c09SessionFrame(isJSON, big))
				n := (t+d)/bigFrame - 1
				rem := t + d - n*bigFrame
				fill := c09SessionFill(isJSON, rem)
				if fill < 0 {
					panic("c09 session: cannot place the boundary")
				}
				add("boundary", c09SessionIn{JSON: isJSON, Plan: []c09SessionSeg{{N: n, Len: big}, {N: 1, Len: fill}, {N: 2, Len: 10}, {N: 1, Len: big}, {N: 1, Len: 3}}})
			}
		}
	}
	c.DoParallel("session", ins, 4)
}
