//go:build verif

package connectconformance

import (
	"context"
	"encoding/hex"
	"errors"
	"io"
	"regexp"
	"strconv"
	"sync"
	"time"

	conformancev1 "connectrpc.com/conformance/internal/gen/proto/go/connectrpc/conformance/v1"
)

// C09 op "clientstall": the time-out period of the place where the runner reads the client's
// responses (consumeOutput), through the real client runner. The schedule that matters: the reader
// is ALREADY waiting — its read has begun while nothing was outstanding (the first read after
// runClient, or the read begun after every outstanding request was answered) — THEN a request is
// sent and the client stalls on it: it writes nothing, a part of the length prefix, or a part of the
// message. The time-out error must reach the request's callback within the configured period
// (clientResponseTimeout) counted from the beginning of that read, and say how much was received.

func verifC11Unhex(s string) []byte {
	b, err := hex.DecodeString(s)
	if err != nil {
		panic(err)
	}
	return b
}

func VerifC09SiteTimeouts() (server, client time.Duration) {
	return serverResponseTimeout, clientResponseTimeout
}

type VerifC09StallSpec struct {
	// Lead: requests that are sent and properly answered first (0 or 1); after the answer the reader
	// is idle again
	Lead int `json:"lead"`
	// Partial (hex): what the client writes for the last request before it falls silent
	Partial string `json:"partial"`
	// MarginS: how long after the end of the period the op still waits for the error
	MarginS int `json:"marginS"`
}

type VerifC09StallObs struct {
	// IdleFirst: the reader's Read was pending (nothing outstanding) when the request was sent
	IdleFirst bool   `json:"idleFirst"`
	LeadOK    bool   `json:"leadOK"` // the lead requests were answered
	Err       string `json:"err"`    // timeout | other | none (nothing within period + margin)
	What      string `json:"what"`   // nothing | length prefix | message
	Read      int    `json:"read"`
	Of        int    `json:"of"`
	// ElapsedMs: from the beginning of the read that had to time out (the moment its first Read
	// call arrived at the client's stdout) to the callback with the error
	ElapsedMs int64 `json:"elapsedMs"`
	PeriodMs  int64 `json:"periodMs"` // clientResponseTimeout as compiled
	FrozenMs  int64 `json:"frozenMs"` // set by the harness: the process was not scheduled for that long
}

type verifC09StallOut struct {
	mu      sync.Mutex
	buf     []byte
	wake    chan struct{}
	dead    <-chan struct{}
	idleAt  time.Time     // when the pending Read (empty buffer) arrived
	waiting chan struct{} // signalled whenever a Read starts to wait
}

func (s *verifC09StallOut) feed(b []byte) {
	s.mu.Lock()
	s.buf = append(s.buf, b...)
	s.mu.Unlock()
	select {
	case s.wake <- struct{}{}:
	default:
	}
}

func (s *verifC09StallOut) Read(p []byte) (int, error) {
	if len(p) == 0 {
		return 0, nil
	}
	first := true
	for {
		s.mu.Lock()
		if len(s.buf) > 0 {
			n := copy(p, s.buf)
			s.buf = s.buf[n:]
			s.mu.Unlock()
			return n, nil
		}
		if first {
			s.idleAt = time.Now()
		}
		s.mu.Unlock()
		if first {
			first = false
			select {
			case s.waiting <- struct{}{}:
			default:
			}
		}
		select {
		case <-s.wake:
		case <-s.dead:
			return 0, io.EOF
		}
	}
}

type verifC09Sink struct{}

func (verifC09Sink) Write(b []byte) (int, error) { return len(b), nil }
func (verifC09Sink) Close() error                { return nil }

var verifC09StallProgress = regexp.MustCompile(`timed out waiting for result from client: read (\d+)/(\d+) bytes of (.*)$`)
var verifC09StallNothing = regexp.MustCompile(`timed out waiting for result from client$`)

func VerifC09ClientStall(spec VerifC09StallSpec) VerifC09StallObs {
	obs := VerifC09StallObs{Err: "none", PeriodMs: clientResponseTimeout.Milliseconds()}
	partial := verifC11Unhex(spec.Partial)
	proc := &verifC11Proc{doneCh: make(chan struct{})}
	out := &verifC09StallOut{wake: make(chan struct{}, 1), dead: proc.doneCh, waiting: make(chan struct{}, 1)}
	runner, err := runClient(context.Background(), func(_ context.Context, _ bool) (*process, error) {
		return &process{processController: proc, stdin: verifC09Sink{}, stdout: out, stderr: &verifC11Stderr{eof: make(chan struct{})}}, nil
	})
	if err != nil {
		panic(err)
	}
	defer proc.stop()
	awaitIdle := func() bool {
		select {
		case <-out.waiting:
			return true
		case <-time.After(10 * time.Second):
			return false
		}
	}
	names := []string{"Stall/case0", "Stall/case1"}
	obs.LeadOK = true
	if !awaitIdle() {
		return obs
	}
	for i := 0; i < spec.Lead; i++ {
		answered := make(chan error, 1)
		if err := runner.sendRequest(&conformancev1.ClientCompatRequest{TestName: names[i]}, func(_ string, _ *conformancev1.ClientCompatResponse, err error) {
			answered <- err
		}); err != nil {
			obs.LeadOK = false
			return obs
		}
		out.feed(VerifC11WireClientFrames(names[i:], 1))
		select {
		case err := <-answered:
			if err != nil {
				obs.LeadOK = false
				return obs
			}
		case <-time.After(10 * time.Second):
			obs.LeadOK = false
			return obs
		}
		if !awaitIdle() { // the reader has begun its next read, with nothing outstanding
			obs.LeadOK = false
			return obs
		}
	}
	out.mu.Lock()
	t0 := out.idleAt
	out.mu.Unlock()
	obs.IdleFirst = true
	failed := make(chan error, 1)
	if err := runner.sendRequest(&conformancev1.ClientCompatRequest{TestName: names[spec.Lead]}, func(_ string, _ *conformancev1.ClientCompatResponse, err error) {
		failed <- err
	}); err != nil {
		obs.Err = "other"
		return obs
	}
	if len(partial) > 0 {
		out.feed(partial)
	}
	limit := time.Until(t0.Add(clientResponseTimeout + time.Duration(spec.MarginS)*time.Second))
	select {
	case err := <-failed:
		obs.ElapsedMs = time.Since(t0).Milliseconds()
		var noResult *failedToGetResultError
		msg := ""
		if err != nil {
			msg = err.Error()
		}
		switch {
		case err == nil || !errors.As(err, &noResult):
			obs.Err = "other"
		case verifC09StallNothing.MatchString(msg):
			obs.Err, obs.What = "timeout", "nothing"
		default:
			if m := verifC09StallProgress.FindStringSubmatch(msg); m != nil {
				obs.Err, obs.What = "timeout", m[3]
				obs.Read, _ = strconv.Atoi(m[1])
				obs.Of, _ = strconv.Atoi(m[2])
			} else {
				obs.Err = "other"
			}
		}
	case <-time.After(limit):
		obs.Err = "none"
		obs.ElapsedMs = time.Since(t0).Milliseconds()
	}
	return obs
}
