/-
C17, histories and the status rule.

* Raw bodies written one after the other by one process to destinations that may fail at any
  byte offset.  `WriteRawStreamContents` computes the length of an item without explicit
  `length` in a scratch buffer (`var buf bytes.Buffer`); `buf.WriteTo(writer)` leaves in the
  buffer whatever the destination did not take.  The model threads the content of that scratch
  buffer through the history: what the code does with it (a new, empty buffer per item) is a
  line of the model, and "a later write does not depend on an earlier one" a theorem.
* The status `rawResponseWriter.finish` passes to `WriteHeader` and what `net/http` /
  `x/net/http2` make of it on the wire (a `Base`-style law: modelled, compared with the real
  servers on every status code by the correspondence run).
-/
import ConfModel.Model.RawBody
namespace ConfModel.RawSeq
open ConfModel.RawBody

/-- a destination: what it has received, and how many more bytes it takes (`none`: never fails) -/
structure Dest where
  got : Bytes := []
  room : Option Nat := none
deriving DecidableEq, Repr

/-- `Write(c)`: the destination afterwards, the part of `c` it did *not* take, success.  A write
that does not fit is cut (`n < len(c)` and an error); afterwards nothing fits any more. -/
def Dest.write (d : Dest) (c : Bytes) : Dest × Bytes × Bool :=
  match d.room with
  | none => (⟨d.got ++ c, none⟩, [], true)
  | some k =>
    if c.length ≤ k then (⟨d.got ++ c, some (k - c.length)⟩, [], true)
    else (⟨d.got ++ c.take k, some 0⟩, c.drop k, false)

/-- outcome of a write loop: the destination, what the scratch buffer used last still holds, and
whether an error stopped the loop -/
structure Out where
  dest : Dest
  scratch : Bytes
  failed : Bool
deriving DecidableEq, Repr

/-- `WriteRawStreamContents(contents, writer)` with the writer's errors, branch by branch.  `s` is
what the scratch buffer of an earlier item still holds.  A payload behind an explicit length goes
through the compressor straight to the writer (modelled as one `Write`; the chunking does not
matter for a destination that is cut at a byte offset). -/
def writeItems (compress : Compress) : Dest → Bytes → List Item → Out
  | d, s, [] => ⟨d, s, false⟩
  | d, s, it :: rest =>
    if it.flags > 255 then ⟨d, s, true⟩ else
    match it.length with
    | some n =>
      let w1 := d.write (UInt8.ofNat it.flags :: be32 n)
      if w1.2.2 = false then ⟨w1.1, s, true⟩ else
      match writeMessage compress it.payload with
      | none => ⟨w1.1, s, true⟩
      | some p =>
        let w2 := w1.1.write p
        if w2.2.2 = false then ⟨w2.1, s, true⟩ else writeItems compress w2.1 s rest
    | none =>
      -- `var buf bytes.Buffer`: a new, empty buffer for this item — not `s`
      let buf : Bytes := []
      match writeMessage compress it.payload with
      | none => ⟨d, buf, true⟩
      | some p =>
        let buf := buf ++ p
        let w1 := d.write (UInt8.ofNat it.flags :: be32 buf.length)
        if w1.2.2 = false then ⟨w1.1, buf, true⟩ else
        -- `buf.WriteTo(writer)`: what the writer did not take stays in the buffer
        let w2 := w1.1.write buf
        if w2.2.2 = false then ⟨w2.1, w2.2.1, true⟩ else writeItems compress w2.1 w2.2.1 rest

/-- a raw body -/
inductive Body where
  | unary (c : Option Contents)
  | stream (items : List Item)
deriving DecidableEq, Repr

/-- one raw body written to a destination that takes `budget` bytes (`none`: all) -/
structure Step where
  body : Body
  budget : Option Nat
deriving DecidableEq, Repr

/-- what the destination of one write saw -/
structure Obs where
  out : Bytes
  err : Bool
deriving DecidableEq, Repr

/-- one write of the history: scratch content before ↦ scratch content after, observation -/
def runStep (compress : Compress) (s : Bytes) (st : Step) : Bytes × Obs :=
  match st.body with
  | .unary c =>
    match writeMessage compress c with
    | none => (s, ⟨[], true⟩)
    | some b =>
      let w := (Dest.mk [] st.budget).write b
      (s, ⟨w.1.got, !w.2.2⟩)
  | .stream items =>
    let r := writeItems compress ⟨[], st.budget⟩ s items
    (r.scratch, ⟨r.dest.got, r.failed⟩)

/-- a history of writes in one process -/
def runHist (compress : Compress) : Bytes → List Step → Bytes × List Obs
  | s, [] => (s, [])
  | s, st :: t =>
    let r := runStep compress s st
    let r2 := runHist compress r.1 t
    (r2.1, r.2 :: r2.2)

/-- a body cut at a byte offset: the first `k` bytes; an error iff something was cut off (or the
encoder itself gave up) -/
def cut (budget : Option Nat) (bytes : Bytes) (failed : Bool) : Obs :=
  match budget with
  | none => ⟨bytes, failed⟩
  | some k => ⟨bytes.take k, failed || decide (k < bytes.length)⟩

/-- what one write must show, as a function of that write alone -/
def obsOf (compress : Compress) (st : Step) : Obs :=
  match st.body with
  | .unary c =>
    match writeMessage compress c with
    | none => ⟨[], true⟩
    | some b => cut st.budget b false
  | .stream items =>
    let w := writeStream compress items
    cut st.budget w.bytes w.failed

/-! ## the status of a raw response -/

/-- `finish`: "If no status code was specified in the raw response, default to 200" -/
def finishStatus (c : Nat) : Nat := if c == 0 then 200 else c

/-- the rule as a run-length table over `0..1100`: `(lo, hi, none)` unchanged, `(lo, hi, some v)`
replaced by `v` (the shape of `Generated.C17Facts.statusRuns`) -/
def statusRuns : List (Nat × Nat × Option Nat) := [(0, 0, some 200), (1, 1100, none)]

def evalRuns : List (Nat × Nat × Option Nat) → Nat → Option Nat
  | [], _ => none
  | (lo, hi, v) :: t, c => if lo ≤ c && c ≤ hi then some (v.getD c) else evalRuns t c

inductive Proto where
  | h1 | h2
deriving DecidableEq, Repr

/-- what a plain client sees of the status: informational responses, the final status, and
whether the final status can have a body -/
structure Wire where
  info : List Nat
  final : Nat
  bodyAllowed : Bool
deriving DecidableEq, Repr

/-- `WriteHeader(code)` followed by the body writes and the end of the handler, in `net/http`
(HTTP/1.1) and `x/net/http2`: codes outside 100..999 panic (`none`: the exchange is aborted); a
1xx code is sent as an informational response and the response then ends with an implicit 200 —
except 101 over HTTP/1.1, which is final; everything else is the final status; 1xx, 204 and 304
cannot have a body. -/
def writeHeaderLaw (p : Proto) (code : Nat) : Option Wire :=
  if code < 100 || code > 999 then none
  else if code ≤ 199 && !(p == .h1 && code == 101) then some ⟨[code], 200, true⟩
  else some ⟨[], code, !(code ≤ 199 || code == 204 || code == 304)⟩

/-- the status a raw response that prescribes `c` puts on the wire -/
def statusOnWire (p : Proto) (c : Nat) : Option Wire := writeHeaderLaw p (finishStatus c)

end ConfModel.RawSeq
