/-
C12 — Reference server flags exactly the requests that deviate from the test setup; a
timeout header is accepted exactly when it follows the protocol's grammar and converted to
the exact duration (saturating).  Property theorems only.
-/
import ConfModel.Lemmas.ServerTimeout
namespace ConfModel.Props.C12
open ConfModel.ServerTimeout ConfModel.ServerChecksSpec

/-! ## Timeout header: grammar and value (all byte strings, no length bound) -/

theorem digitsUpToB_iff (k : Nat) (s : Bytes) : digitsUpToB k s = true ↔ digitsUpTo k s := by
  simp [digitsUpToB, digitsUpTo, List.all_eq_true, and_assoc]

/-- Connect: the header value is accepted exactly when it is 1–10 ASCII digits, whatever
further values of the header follow. -/
theorem timeout_accept_iff_grammar_connect (val : Bytes) (rest : List Bytes) :
    (connectTimeout (val :: rest)).timeout.isSome = true ↔ connectGrammar val := by
  constructor
  · intro h
    simp only [connectTimeout] at h
    cases hp : parseInt 64 val with
    | none => simp [hp] at h
    | some n =>
      simp only [hp] at h
      by_cases h1 : (n < 0 || !isASCIIDigits val) = true
      · simp [h1] at h
      · by_cases h2 : val.length > 10
        · simp [h1, h2] at h
        · refine ⟨?_, by omega, ?_⟩
          · cases val with
            | nil => simp [parseInt] at hp
            | cons => simp
          · have := h1; simp [isASCIIDigits] at this; exact this.2
  · rintro ⟨h1, h2, h3⟩
    have hp := parseInt_digits val h3 h1 (by omega)
    have hd : isASCIIDigits val = true := by simpa [isASCIIDigits, List.all_eq_true] using h3
    have hl : ¬ val.length > 10 := by omega
    have hn : ¬ ((decValue val : Int) < 0) := by omega
    simp [connectTimeout, hp, hd, hl, hn]

/-- gRPC and gRPC-Web: accepted exactly when the value is 1–8 ASCII digits followed by one
of `H M S m u n`. -/
theorem timeout_accept_iff_grammar_grpc (val : Bytes) (rest : List Bytes) :
    (grpcTimeout (val :: rest)).timeout.isSome = true ↔ grpcGrammar val := by
  constructor
  · intro h
    simp only [grpcTimeout] at h
    cases hl : val.getLast? with
    | none => simp [hl] at h
    | some ub =>
      obtain ⟨ds, rfl⟩ := List.getLast?_eq_some_iff.1 hl
      simp only [hl, List.dropLast_concat] at h
      cases hu : unitOf ub with
      | none => simp [hu] at h
      | some unit =>
        simp only [hu] at h
        cases hp : parseInt 64 ds with
        | none => simp [hp] at h
        | some n =>
          simp only [hp] at h
          by_cases h1 : (n < 0 || !isASCIIDigits ds) = true
          · simp [h1] at h
          · by_cases h2 : ds.length > 8
            · simp [h1, h2] at h
            · refine ⟨ds, ub, unit, rfl, ⟨?_, by omega, ?_⟩, hu⟩
              · cases ds with
                | nil => simp [parseInt] at hp
                | cons => simp
              · have := h1; simp [isASCIIDigits] at this; exact this.2
  · rintro ⟨ds, u, unit, rfl, ⟨h1, h2, h3⟩, hu⟩
    have hp := parseInt_digits ds h3 h1 (by omega)
    have hd : isASCIIDigits ds = true := by simpa [isASCIIDigits, List.all_eq_true] using h3
    have hl : ¬ ds.length > 8 := by omega
    have hn : ¬ ((decValue ds : Int) < 0) := by omega
    simp [grpcTimeout, hu, hp, hd, hl, hn]

private theorem scale_aux (x K w q : Int)
    (hw : w = (x * K + 9223372036854775808) % 18446744073709551616 - 9223372036854775808)
    (hq : q = if w ≥ 0 then w / K else -((-w) / K)) :
    scale x K = if q != x then 9223372036854775807 else w := by
  subst hq hw; rfl

private theorem sat_core (n : Nat) (K w q : Int) (hn : n < 10000000000)
    (hK : K = 3600000000000 ∨ K = 60000000000 ∨ K = 1000000000 ∨ K = 1000000 ∨ K = 1000 ∨ K = 1)
    (hw : w = ((n : Int) * K + 9223372036854775808) % 18446744073709551616 - 9223372036854775808)
    (hq : q = if w ≥ 0 then w / K else -((-w) / K)) :
    (if q != (n : Int) then 9223372036854775807 else w) = min ((n : Int) * K) 9223372036854775807 := by
  rw [Int.min_def]
  rcases hK with rfl | rfl | rfl | rfl | rfl | rfl <;>
  ( by_cases hqn : q = (n : Int)
    · simp only [hqn, bne_self_eq_false, Bool.false_eq_true, if_false]
      split at hq <;> split <;> omega
    · have hb : (q != (n : Int)) = true := by simpa using hqn
      simp only [hb, if_true]
      split at hq <;> split <;> omega )

private theorem scale_exact (n : Nat) (un : ServerTimeout.Unit) (hn : n < 10000000000) :
    scale n un.nanos = exactNanos n un.nanos := by
  simp only [exactNanos, maxInt64]
  exact (scale_aux n un.nanos _ _ rfl rfl).trans
    (sat_core n un.nanos _ _ hn (by cases un <;> simp [Unit.nanos]) rfl rfl)

private theorem decValue_lt (s : Bytes) (k : Nat) (h : digitsUpTo k s) : decValue s < 10 ^ k := by
  have hb := valFrom_bound s 0 h.2.2
  have hle : 10 ^ s.length ≤ 10 ^ k := Nat.pow_le_pow_right (by omega) h.2.1
  rw [decValue_eq]; omega

/-- Connect: an accepted value is converted to exactly `n` milliseconds (no saturation is
reachable with 10 digits), whatever further header values follow. -/
theorem timeout_value_connect (val : Bytes) (rest : List Bytes) (h : connectGrammar val) :
    (connectTimeout (val :: rest)).timeout = some (exactNanos (decValue val) 1000000) ∧
    exactNanos (decValue val) 1000000 = (decValue val : Int) * 1000000 := by
  obtain ⟨h1, h2, h3⟩ := h
  have hp := parseInt_digits val h3 h1 (by omega)
  have hd : isASCIIDigits val = true := by simpa [isASCIIDigits, List.all_eq_true] using h3
  have hl : ¬ val.length > 10 := by omega
  have hn : ¬ ((decValue val : Int) < 0) := by omega
  have hlt := decValue_lt val 10 ⟨h1, h2, h3⟩
  have hs := scale_exact (decValue val) .m (by omega)
  simp only [Unit.nanos] at hs
  refine ⟨by simp [connectTimeout, hp, hd, hl, hn, hs], ?_⟩
  simp only [exactNanos, maxInt64]; omega

example : connectGrammar [57,57,57,57,57,57,57,57,57,57] := by
  simp [connectGrammar, digitsUpTo, isDigit]

/-- gRPC / gRPC-Web: an accepted value `n` with unit `u` is converted to exactly
`min(n · u, maxInt64)` nanoseconds. -/
theorem timeout_value_grpc (ds : Bytes) (ub : UInt8) (unit : ServerTimeout.Unit) (rest : List Bytes)
    (h : digitsUpTo 8 ds) (hu : unitOf ub = some unit) :
    (grpcTimeout ((ds ++ [ub]) :: rest)).timeout = some (exactNanos (decValue ds) unit.nanos) := by
  obtain ⟨h1, h2, h3⟩ := h
  have hp := parseInt_digits ds h3 h1 (by omega)
  have hd : isASCIIDigits ds = true := by simpa [isASCIIDigits, List.all_eq_true] using h3
  have hl : ¬ ds.length > 8 := by omega
  have hn : ¬ ((decValue ds : Int) < 0) := by omega
  have hlt := decValue_lt ds 8 ⟨h1, h2, h3⟩
  have hs := scale_exact (decValue ds) unit (by omega)
  simp [grpcTimeout, hu, hp, hd, hl, hn, hs]

example : digitsUpTo 8 [57,57,57,57,57,57,57,57] ∧ unitOf 72 = some .H := by
  simp [digitsUpTo, isDigit, unitOf]

/-- Saturation happens exactly for hours with `n > 2,562,047`; an 8-digit value in any
other unit is represented exactly. -/
theorem timeout_saturation (n : Nat) (hn : n < 100000000) (un : ServerTimeout.Unit) :
    (exactNanos n un.nanos = maxInt64 ↔ (un = .H ∧ n > 2562047)) ∧
    (¬ (un = .H ∧ n > 2562047) → exactNanos n un.nanos = (n : Int) * un.nanos) := by
  cases un <;> simp only [exactNanos, maxInt64, Unit.nanos] <;> constructor <;> (try simp) <;> omega
